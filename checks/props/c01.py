"""C01 — results do not depend on chunking, processor, parallelism or what is stored.

Model: lean/StraxModel/Model/Pipeline.lean (abstract composition theory over chunk streams: Transport, ChunkHom,
plugin graph in topological order, `exec` / `whole`); theorems: Props/C01.lean; lemmas: Lemmas/Pipeline.lean.

Tie (end to end; the per-layer ties are the correspondences of C05 / C07 / C08 / C03 / C11): random DAGs are
assembled from a vocabulary of tiny REAL strax plugin classes of every kind in the property's quantifier
(row-wise, filter, same-kind merge, multi-output, two-kind plugin, loop, overlap window, down-chunking, exhaust)
over one or two independent sources whose law-abiding chunking the harness chooses; the REAL
Context.get_iter / get_array is run under sampled configurations (processor, max_workers, allow_lazy,
max_messages, allow_rechunk / rechunk_on_save with tiny chunk_target_size_mb, save policies, a random subset of
intermediate types pre-stored by a twin context with its own chunking and configuration).  The canonical result
line (row ids of the target) must be identical to the driver's `c01.whole <graph> <source rows>`.

Oracle (independent of the model): every harness plugin's `compute` is applied to the concatenated whole-run
input arrays in dependency order; the returned rows must be exactly those rows; the yielded chunks must tile
the run and carry their rows wholly inside; whatever the run stored must read back as the same rows.
"""
from __future__ import annotations

import contextlib
import io
import json
import logging
import os
import shutil
import tempfile
import time
import traceback

# a persistent, property-private numba cache (never /repo's __pycache__, see AGENT_GUIDE): workers of the process
# pool and later runs share the compiled kernels
os.environ.setdefault("NUMBA_CACHE_DIR", os.path.join(tempfile.gettempdir(), f"verif_numba_C01_{os.getuid()}"))
for _v in ("OMP_NUM_THREADS", "OPENBLAS_NUM_THREADS", "MKL_NUM_THREADS", "BLOSC_NTHREADS", "NUMEXPR_NUM_THREADS"):
    os.environ.setdefault(_v, "1")       # many worker processes: no per-process thread pools

from lib import gen                      # noqa: E402
from lib import straxlib as sl           # noqa: E402  (first strax import of the process)
from lib.straxlib import strax           # noqa: E402

import numpy as np                       # noqa: E402
from immutabledict import immutabledict  # noqa: E402
import tqdm as _tqdm                     # noqa: E402

# strax makes a (disabled) progress bar per get_iter; tqdm's monitor thread would be alive in the parent when the
# worker processes are forked, and a lock it holds at that moment stays locked for ever in the children
_tqdm.tqdm.monitor_interval = 0

ID = "C01"
LEAN_MODULES = ["StraxModel.Props.C01"]
TRUSTED = [
    "layers connected to C01 by a PROVED bridge (instances built from the other property's model and theorem): C07 rechunker "
    "(Transport.rechunk), C03 save/load (Transport.storage), C08 Plugin.iter (Aligner.iter), C09 overlap window (overlapKernel), "
    "C05 one mailbox (mailbox_edge_is_ident: partial correctness); each is tied to the code by that property's own correspondence",
    "NOT connected by a theorem, carried by these end-to-end runs only: the single-thread PostOffice, the wiring of several "
    "mailboxes / divide_outputs / savers by ThreadedMailboxProcessor and its deadlock freedom (C06), executors / max_workers, "
    "which origin feeds a data type (get_components, C11); there the theorems say 'if the edge behaves as some Transport'",
    "end-to-end runs use real OS threads (ThreadedMailboxProcessor, ThreadPoolExecutor): schedules are whatever the OS picks, "
    "not enumerated (C05 enumerates them for a single mailbox)",
]
ASSUMPTIONS = [
    "mailbox timeout 180-240 s on first attempts, and every plugin kind x id-column (dtype) combination is run once under "
    "single_thread before the workers are forked: a first message that is late because numba compiles on a busy machine is "
    "not a property violation",
    "a mailbox timeout without single-thread root cause is re-run three times: if it never repeats it is counted and listed "
    "(component e2e/nonrepeating-timeout), not reported - schedule-dependent deadlocks are decided by C05/C06 under controlled "
    "schedules, C01's claim is about results; a timeout that repeats is a violation unless it is a listed finding",
    "max_messages is raised above the lag of the graph whenever a data type has two readers whose results meet again downstream "
    "(reconvergent path: exhaust / overlap-window plugins and the alignment of differently chunked streams make the upstream "
    "reader run ahead; capacity deadlocks are C06 / D10); otherwise max_messages is sampled from 2..6",
    "process pools (parallel='process', allow_multiprocess) are outside the model and not generated",
    "row payload is an opaque id per data type; ids are combined with small modular arithmetic so that every plugin kind's "
    "whole-run result is sensitive to lost, duplicated, reordered or regrouped rows",
]

logging.getLogger("strax").setLevel(logging.CRITICAL)
RUN = "0"
MOD = 1000003
SW = strax.SaveWhen
POLS = {"N": SW.NEVER, "E": SW.EXPLICIT, "T": SW.TARGET, "A": SW.ALWAYS}
ITEMSIZE = 24          # time, endtime, id  (3 x int64)


# ============================================================================= vocabulary of REAL harness plugins
# Every data type carries one id column.  Its field name is one of three "slots" (`id0`, `id1`, `id2`; two types that are ever
# merged column-wise - a same-kind merge plugin, a multi-target request - sit in different slots), so that only a handful of
# distinct structured dtypes exist and numba does not specialise strax's jitted kernels anew for every data type.
_SLOTS: dict = {}


def use_case(case):
    """make the id-column names of this case current (one case at a time per process)"""
    _SLOTS.clear()
    _SLOTS.update(case.get("slots") or {})


def idf(t):
    return f"id{_SLOTS[t]}" if t in _SLOTS else idf(t)


def dtype_of(t):
    return strax.time_fields + [((f"Identity, slot {idf(t)}", idf(t)), np.int64)]


def mk_arr(t, rows):
    a = np.zeros(len(rows), dtype=dtype_of(t))
    if len(rows):
        a["time"] = [r[0] for r in rows]
        a["endtime"] = [r[1] for r in rows]
        a[idf(t)] = [r[2] for r in rows]
    return a


def rows_of(t, a):
    return [[int(x), int(y), int(z)] for x, y, z in zip(a["time"], strax.endtime(a), a[idf(t)])]


def targets_of(target):
    """a request is one data type or several same-kind ones joined by `,` (get_array(run, (a, b)) merges them)"""
    return target.split(",")


def rows_multi(tgts, a):
    """rows of a (merged) result: [time, endtime, id of tgts[0], id of tgts[1], …]"""
    cols = [a[idf(t)] for t in tgts]
    return [[int(x), int(y)] + [int(c[i]) for c in cols] for i, (x, y) in enumerate(zip(a["time"], strax.endtime(a)))]


def show_line(tgts, rows):
    return " | ".join(",".join(str(r[2 + k]) for r in rows) if rows else "-" for k in range(len(tgts)))


def expected_rows(exp, tgts):
    first = exp[tgts[0]]
    if any(len(exp[t]) != len(first) for t in tgts):
        return None
    return [list(first[i][:2]) + [exp[t][i][2] for t in tgts] for i in range(len(first))]


def _out(self, t, time, endtime, ids):
    r = np.zeros(len(time), self.dtype_for(t))
    r["time"] = time
    r["endtime"] = endtime
    r[idf(t)] = ids
    return r


def window_of(node):
    """(look-back, look-ahead) of an overlap-window node (`w`: the symmetric window of older recorded cases)"""
    if "wl" in node:
        return int(node["wl"]), int(node["wr"])
    return int(node["w"]), int(node["w"])


def _src_class(name, chunks, attrs):
    def is_ready(self, chunk_i):
        return chunk_i < len(self.harness_chunks)

    def source_finished(self):
        return True

    def compute(self, chunk_i):
        a, b, rows = self.harness_chunks[chunk_i]
        return self.chunk(start=a, end=b, data=mk_arr(self.provides[0], rows))
    attrs.update(harness_chunks=chunks, is_ready=is_ready, source_finished=source_finished, compute=compute, depends_on=())
    return type(name, (strax.Plugin,), attrs)


def _node_class(node, kinds, attrs):
    """one tiny REAL plugin class for a node of the case's graph"""
    k = node["kind"]
    outs, deps = node["outs"], node["deps"]
    o0, d0 = outs[0], deps[0]
    kd0 = kinds[d0]
    c = node.get("c", 0)

    if k == "map":
        def compute(self, **kw):
            x = kw[kd0]
            return _out(self, o0, x["time"], x["endtime"], (x[idf(d0)] * 31 + c) % MOD)
        base = strax.Plugin
    elif k == "filter":
        m, r = node["m"], node["r"]

        def compute(self, **kw):
            x = kw[kd0]
            x = x[x[idf(d0)] % m != r]
            return _out(self, o0, x["time"], x["endtime"], x[idf(d0)])
        base = strax.Plugin
    elif k == "merge":
        d1 = deps[1]

        def compute(self, **kw):
            x = kw[kd0]
            return _out(self, o0, x["time"], x["endtime"], (x[idf(d0)] * 1009 + x[idf(d1)] * 17 + 5) % MOD)
        base = strax.Plugin
    elif k == "multi":
        m, r, o1 = node["m"], node["r"], outs[1]

        def compute(self, **kw):
            x = kw[kd0]
            y = x[x[idf(d0)] % m != r]
            return {o0: _out(self, o0, x["time"], x["endtime"], (x[idf(d0)] * 31 + c) % MOD),
                    o1: _out(self, o1, y["time"], y["endtime"], y[idf(d0)])}
        base = strax.Plugin
    elif k == "pairfirst":
        def compute(self, **kw):
            x = kw[kd0]
            return _out(self, o0, x["time"], x["endtime"], (x[idf(d0)] * 31 + c) % MOD)
        base = strax.Plugin
    elif k == "loop":
        d1 = deps[1]
        kd1 = kinds[d1]

        def compute_loop(self, b, **kw):
            th = kw[kd1]
            s = int(th[idf(d1)].sum()) if len(th) else 0
            return {"time": b["time"], "endtime": b["endtime"],
                    idf(o0): (int(b[idf(d0)]) * 31 + s + 7 * len(th)) % MOD}
        attrs.update(compute_loop=compute_loop, loop_over=kd0)
        compute = None
        base = strax.LoopPlugin
    elif k == "overlap":
        wl, wr = window_of(node)

        def compute(self, **kw):
            x = kw[kd0]
            t = x["time"]
            # window-local: the rows that start at most `wl` before and at most `wr` after this row starts
            n = np.array([int(np.sum((t - ti >= -wl) & (t - ti <= wr))) for ti in t], dtype=np.int64)
            return _out(self, o0, t, x["endtime"], (x[idf(d0)] * 31 + n) % MOD)

        def get_window_size(self):
            # (look-back, look-ahead); a symmetric window is sometimes given as the scalar strax also accepts
            return wl if (wl == wr and node.get("scalar")) else (wl, wr)
        attrs.update(get_window_size=get_window_size)
        base = strax.OverlapWindowPlugin
    elif k == "downchunk":
        every = node["k"]

        def compute(self, start, end, **kw):
            x = kw[kd0]
            res = _out(self, o0, x["time"], x["endtime"], (x[idf(d0)] * 31 + c) % MOD)
            last, off, seen_end = start, 0, None
            for i in range(len(res)):
                t = int(res["time"][i])
                # cut only where no earlier row reaches over the cut (an admissible time)
                if i - off >= every and seen_end is not None and t >= seen_end:
                    yield self.chunk(start=last, end=t, data=res[off:i], data_type=o0)
                    last, off = t, i
                e = int(res["endtime"][i])
                seen_end = e if seen_end is None else max(seen_end, e)
            yield self.chunk(start=last, end=end, data=res[off:], data_type=o0)
        base = strax.DownChunkingPlugin
    elif k == "exhaust":
        def compute(self, **kw):
            x = kw[kd0]
            return _out(self, o0, x["time"], x["endtime"], (x[idf(d0)] * 31 + c + len(x)) % MOD)
        base = strax.ExhaustPlugin
    else:
        raise ValueError(k)
    if compute is not None:
        attrs.update(compute=compute)
    attrs.update(depends_on=tuple(deps))
    return type("P_" + o0, (base,), attrs)


def build_classes(case, twin_store=None, phase="main"):
    """plugin classes of the case.  `twin_store` (a set) gives the twin context: the same class names, versions
    and options (hence the same lineage) but its own source chunking and save policy ALWAYS exactly for the
    types in `twin_store`."""
    kinds = case["kinds"]
    classes = []
    for s in case["srcs"]:
        chunks = s["prep_chunks"] if phase == "prep" else s["chunks"]
        chunks = [(a, b, [tuple(r) for r in rows]) for a, b, rows in chunks]
        attrs = dict(provides=s["name"], data_kind=kinds[s["name"]], dtype=dtype_of(s["name"]), __version__="1",
                     save_when=SW.NEVER, rechunk_on_save=False, parallel=False)
        classes.append(_src_class("P_" + s["name"], chunks, attrs))
    for node in case["nodes"]:
        outs = node["outs"]
        multi = len(outs) > 1
        if twin_store is not None:
            pol = {o: (SW.ALWAYS if o in twin_store else SW.NEVER) for o in outs}
        else:
            pol = {o: POLS[p] for o, p in zip(outs, node["save"])}
        attrs = dict(provides=tuple(outs) if multi else outs[0], __version__="1",
                     save_when=immutabledict(pol) if multi else pol[outs[0]],
                     dtype={o: dtype_of(o) for o in outs} if multi else dtype_of(outs[0]),
                     data_kind={o: kinds[o] for o in outs} if multi else kinds[outs[0]],
                     rechunk_on_save=bool(node["rechunk"]),
                     chunk_target_size_mb=sl.target_mb(node["tgt"], ITEMSIZE))
        if node["kind"] not in ("overlap", "downchunk"):
            attrs["parallel"] = bool(node.get("par", False))
        classes.append(_node_class(node, kinds, attrs))
    return classes


def new_context(case, storage_dir, cfg, classes):
    return strax.Context(storage=[strax.DataDirectory(storage_dir)], register=classes,
                         allow_lazy=bool(cfg["lazy"]), max_messages=int(cfg["mm"]), timeout=int(cfg["timeout"]),
                         allow_rechunk=bool(cfg["rechunk"]), allow_multiprocess=False)


# ============================================================================= the property's own wording (oracle)
def provider(case):
    return {o: n for n in case["nodes"] for o in n["outs"]}


def oracle_whole(case):
    """apply every harness plugin's compute to the whole, unchunked run in dependency order"""
    use_case(case)
    st = strax.Context(storage=[], register=build_classes(case))
    whole = {}
    for s in case["srcs"]:
        whole[s["name"]] = mk_arr(s["name"], [tuple(r) for r in s["rows"]])
    t0, t1 = case["span"]
    for node in case["nodes"]:
        p = st.get_single_plugin(RUN, node["outs"][0])
        by_kind = {}
        for d in node["deps"]:
            by_kind.setdefault(case["kinds"][d], []).append(whole[d])
        kw = {kd: strax.merge_arrs(arrs) for kd, arrs in by_kind.items()}
        if node["kind"] == "downchunk":
            parts = [c.data for c in p.compute(start=t0, end=t1, **kw)]
            res = np.concatenate(parts)
        else:
            res = p.compute(**kw)
        if isinstance(res, dict):
            for o in node["outs"]:
                whole[o] = res[o]
        else:
            whole[node["outs"][0]] = res
    return {t: rows_of(t, a) for t, a in whole.items()}


def check_tiling(chunks, span, what):
    """chunks: [(start, end, rows)] as yielded; the property's second sentence"""
    if not chunks:
        return f"{what}: no chunks"
    if chunks[0][0] != span[0]:
        return f"{what}: first chunk starts at {chunks[0][0]}, the run starts at {span[0]}"
    if chunks[-1][1] != span[1]:
        return f"{what}: last chunk ends at {chunks[-1][1]}, the run ends at {span[1]}"
    prev = None
    last_t = None
    for a, b, rows in chunks:
        if a > b:
            return f"{what}: chunk [{a},{b}) has negative duration"
        if prev is not None and a != prev:
            return f"{what}: chunk starts at {a} but the previous one ended at {prev} (not contiguous)"
        prev = b
        for r in rows:
            t, e = r[0], r[1]
            if not (a <= t and e <= b):
                return f"{what}: row [{t},{e}) is not wholly inside its chunk [{a},{b})"
            if last_t is not None and t < last_t:
                return f"{what}: rows not sorted by time at {t}"
            last_t = t
    return None


# ============================================================================= shapes of the two open defects
def needed(case, stored, target):
    """which types are loaded / computed for `target` when `stored` is in storage (get_components' walk)"""
    prov = provider(case)
    loaders, computed, seen = set(), set(), set()

    def visit(t):
        if t in seen:
            return
        seen.add(t)
        if t in stored:
            loaders.add(t)
            return
        computed.add(t)
        if t in prov:
            for d in prov[t]["deps"]:
                visit(d)
    for t in targets_of(target):
        visit(t)
    return loaders, computed


# ============================================================================= running the REAL pipeline
def _guard(f):
    """-> (value, None) or (None, (ErrKind, message))"""
    try:
        return f(), None
    except BaseException as e:  # noqa: BLE001
        if isinstance(e, (KeyboardInterrupt, SystemExit)):
            raise
        # the exceptions this one replaced while being handled (a failing saver close can mask the root cause)
        msg, seen, x = f"{type(e).__name__}: {e}"[:400], set(), e
        while (x.__cause__ or x.__context__) is not None and id(x) not in seen and len(seen) < 6:
            seen.add(id(x))
            x = x.__cause__ or x.__context__
            msg += f" <- {type(x).__name__}: {x}"[:200]
        return None, (sl.err_name(e), msg)


def _chunk_tuple(t, c):
    return [int(c.start), int(c.end), rows_of(t, c.data)]


TIMEOUTISH = ("MailboxFullTimeout", "MailboxReadTimeout", "did not terminate", "timed out")


def _threaded_phase(case, res):
    cfg = case["prep_cfg"] if res["phase"] == "prep" else case["cfg"]
    return cfg["proc"] == "threaded_mailbox"


def _lazy_phase(case, res):
    """the mailboxes are lazy only with allow_lazy and without executors (max_workers None / 1)"""
    cfg = case["prep_cfg"] if res["phase"] == "prep" else case["cfg"]
    return cfg["proc"] == "threaded_mailbox" and cfg["lazy"] and cfg["workers"] in (None, 1)


def run_case(case):
    """run the case ONCE for the verdict; a failure is then only classified, never replaced:
    (1) a failure of the threaded processor: the same case under the single-thread processor gives the root cause (an
        exception raised inside a plugin thread reaches the caller late or as `Thread … did not terminate`);
    (2) a mailbox timeout in lazy mode: the same case with allow_lazy=False (open finding lazy-multi-output-lag-deadlock);
    (3) a failure whose text is that of D9 / D16: the streams that feed the failing plugin are recorded, so that the
        judge can ask the C08 model whether ten passes really do not suffice / look for the trailing zero-duration chunk.
    Mailbox timeouts without root cause are re-run later by the parent on an idle pool (`rerun_timeouts`)."""
    res = run_case_once(case)
    if res["phase"] == "adapter" or not res["line"].startswith("err"):
        return res
    res["load"] = round(os.getloadavg()[0] / (os.cpu_count() or 1), 2)
    if _threaded_phase(case, res):
        single = json.loads(json.dumps(case))
        single["cfg"]["proc"] = single["prep_cfg"]["proc"] = "single_thread"
        root = run_case_once(single)
        res["root_exc"] = root["exc"] if root["line"].startswith("err") else None
        res["root_line"] = root["line"] if root["line"].startswith("err") else None
        if res["root_exc"] is None and is_timeout(res) and _lazy_phase(case, res):
            eager = json.loads(json.dumps(case))
            eager["cfg"]["lazy"] = eager["prep_cfg"]["lazy"] = False
            res["eager_ok"] = not run_case_once(eager)["line"].startswith("err")
    text = (res["exc"] or "") + str(res.get("root_exc"))
    if TEN_PASS in text or UNFETCHED in text:
        res["fail_streams"], err = _guard(lambda: failing_inputs(case, res, text))
        if err:
            res["fail_streams"] = dict(error=err[1])
    return res


def is_timeout(res):
    return any(k in (res["exc"] or "") for k in TIMEOUTISH)


def _phase_of(case, res):
    """(cfg, stored set, target, twin?) of the phase in which the run failed"""
    if res["phase"] == "prep":
        step = res["prep"][-1]
        return case["prep_cfg"], set(step["stored_before"]), step["target"], True
    return case["cfg"], set(case["stored"]), case["target"], False


def failing_inputs(case, res, text):
    """the chunk streams of the data types named by a D9 / D16 error text, as the single-thread processor delivers them
    in the phase that failed: {"plugin": first output of the failing plugin or None, "streams": {data type: chunks}}"""
    use_case(case)
    import re
    _cfg, stored, _tgt, twin_phase = _phase_of(case, res)
    names = set()
    plugin = None
    m = re.search(r"P_(\w+) was unable to get time-consistent", text)
    if m:
        plugin = m.group(1)
        node = next((n for n in case["nodes"] if n["outs"][0] == plugin), None)
        if node:
            names |= set(node["deps"])
    _, computed = needed(case, stored, _tgt)
    for m in re.finditer(r"Plugin (\w+) terminated without fetching last", text):
        names.add(m.group(1))
        for n in case["nodes"]:
            if not (set(n["outs"]) & computed and len(n["deps"]) > 1):
                continue
            # every computed plugin with several dependencies that reads it, and the one that provides it (its own stream
            # may be unobtainable for the same reason)
            if m.group(1) in n["deps"] or m.group(1) in n["outs"]:
                names |= set(n["deps"])
    if len(targets_of(_tgt)) > 1:
        names |= set(targets_of(_tgt))
    names = sorted(n for n in names if n in case["kinds"])
    d = tempfile.mkdtemp(prefix="c01_", dir=os.environ.get("VERIF_C01_TMP") or None)
    out = {}
    try:
        with contextlib.redirect_stdout(io.StringIO()):
            single = dict(case["prep_cfg"], proc="single_thread", workers=None)
            twin = new_context(case, d, single, build_classes(case, twin_store=set(case["stored"]), phase="prep"))
            for t in case["stored"]:
                if t in stored:
                    twin.make(RUN, t, processor="single_thread")
            st = twin if twin_phase else new_context(case, d, dict(case["cfg"], proc="single_thread", workers=None),
                                                     build_classes(case))
            for t in names:
                ch, err = _guard(lambda: [_chunk_tuple(t, c) for c in
                                          st.get_iter(RUN, t, processor="single_thread", progress_bar=False)])
                out[t] = ch if err is None else None
    finally:
        shutil.rmtree(d, ignore_errors=True)
    return dict(plugin=plugin, streams=out)


def _both_outputs_reconverge(case, res):
    """a computed multi-output plugin both of whose outputs are consumed by plugins whose results meet again downstream
    (or are requested together): the shape of the open finding lazy-multi-output-lag-deadlock"""
    _cfg, stored, tgt, _twin = _phase_of(case, res)
    _, computed = needed(case, stored, tgt)
    nodes = [n for n in case["nodes"] if set(n["outs"]) & computed]
    tl = targets_of(tgt)
    consumers = nodes + ([dict(deps=tl, outs=["_temp"])] if len(tl) > 1 else [])
    prov = {o: n for n in nodes for o in n["outs"]}

    def ancestors(t, seen=None):           # data types `t` is computed from (through computed plugins only)
        seen = set() if seen is None else seen
        if t in prov:
            for dd in prov[t]["deps"]:
                if dd not in seen:
                    seen.add(dd)
                    ancestors(dd, seen)
        return seen
    for n in nodes:
        if len(n["outs"]) > 1 and len(set(n["outs"]) & computed) > 1:
            a, b = n["outs"][0], n["outs"][1]
            for u in consumers:
                up = set(u["deps"])
                for dd in u["deps"]:
                    up |= ancestors(dd)
                if a in up and b in up:
                    return f"{a}+{b}"
    return None


@contextlib.contextmanager
def recording_post_office(rec):
    """every message the single-thread message bus produces, per topic (rebinding a method of strax.processors.post_office)"""
    from strax.processors import post_office as po
    orig = po.PostOffice._ack_msg_produced

    def wrapped(self, msg, topic):
        rec.setdefault(topic, []).append(msg)
        return orig(self, msg, topic)
    po.PostOffice._ack_msg_produced = wrapped
    try:
        yield
    finally:
        po.PostOffice._ack_msg_produced = orig


def run_case_once(case):
    """returns a JSON-able record of what the real code did: canonical line, chunks, storage read-back, timings"""
    use_case(case)
    res = dict(line=None, exc=None, phase="main", elapsed=0.0, chunks=None, saved={}, prep=[], expect=None, oracle_exc=None)
    d = tempfile.mkdtemp(prefix="c01_", dir=os.environ.get("VERIF_C01_TMP") or None)
    sink = io.StringIO()
    try:
        with contextlib.redirect_stdout(sink):
            exp, err = _guard(lambda: oracle_whole(case))
            res["expect"] = exp
            if err:
                res["oracle_exc"] = err[1]
            # ---- storage prepared by the twin context
            stored_now = set()
            if case["stored"]:
                pc = case["prep_cfg"]
                twin = new_context(case, d, pc, build_classes(case, twin_store=set(case["stored"]), phase="prep"))
                for t in case["stored"]:
                    t0 = time.time()
                    _, err = _guard(lambda: twin.make(RUN, t, max_workers=pc["workers"], processor=pc["proc"]))
                    el = time.time() - t0
                    res["prep"].append(dict(target=t, stored_before=sorted(stored_now), elapsed=round(el, 2),
                                            err=err[0] if err else None, exc=err[1] if err else None))
                    if err:
                        res.update(line="err " + err[0], exc=err[1], phase="prep", elapsed=el)
                        return res
                    stored_now.add(t)
                have = {t for t in case["kinds"] if twin.is_stored(RUN, t)}
                if have != set(case["stored"]):
                    res.update(line="err Other", exc=f"twin context stored {sorted(have)} instead of {sorted(case['stored'])}",
                               phase="prep")
                    return res
            # ---- the run under test
            cfg = case["cfg"]
            st = new_context(case, d, cfg, build_classes(case))
            tgts = targets_of(case["target"])
            tgt = tgts[0] if len(tgts) == 1 else tuple(tgts)
            t0 = time.time()
            rec = {}
            hook = recording_post_office(rec) if cfg["proc"] == "single_thread" else contextlib.nullcontext()
            with hook:
                if case["mode"] == "array":
                    arr, err = _guard(lambda: st.get_array(RUN, tgt, max_workers=cfg["workers"], processor=cfg["proc"],
                                                           progress_bar=False))
                    rows = rows_multi(tgts, arr) if err is None else None
                else:
                    chunks, err = _guard(lambda: [[int(c.start), int(c.end), rows_multi(tgts, c.data)] for c in
                                                  st.get_iter(RUN, tgt, max_workers=cfg["workers"], processor=cfg["proc"],
                                                              progress_bar=False)])
                    rows = [r for c in chunks for r in c[2]] if err is None else None
                    res["chunks"] = chunks
            res["elapsed"] = time.time() - t0
            if err:
                res.update(line="err " + err[0], exc=err[1])
                return res
            res["rows"] = rows
            res["line"] = "ok " + show_line(tgts, rows)
            if cfg["proc"] == "single_thread":
                # what the message bus delivered per data type (for the comparison with `Pipeline.exec`)
                res["streams"] = {t: [_chunk_tuple(t, c) for c in cs] for t, cs in rec.items()
                                  if t in case["kinds"] and all(isinstance(c, strax.Chunk) for c in cs)}
            # ---- whatever is in storage now, re-read by a fresh context
            fresh = new_context(case, d, dict(cfg, lazy=True, mm=4), build_classes(case))
            for t in case["kinds"]:
                if fresh.is_stored(RUN, t):
                    fresh.set_context_config(dict(forbid_creation_of="*"))
                    ch, err = _guard(lambda: [_chunk_tuple(t, c) for c in
                                              fresh.get_iter(RUN, t, progress_bar=False, processor="single_thread")])
                    res["saved"][t] = dict(chunks=ch, err=err[1] if err else None, pre=t in case["stored"])
            return res
    except Exception:  # adapter bug
        res.update(line="err Adapter", exc=traceback.format_exc()[-1500:], phase="adapter")
        return res
    finally:
        shutil.rmtree(d, ignore_errors=True)


# ============================================================================= judging a record
TEN_PASS = "unable to get time-consistent inputs after ten pass"
UNFETCHED = "terminated without fetching last"


def shape_of(msg):
    for tag in ("D9-shape", "D16-shape", "LZ-shape"):
        if msg and msg.startswith(tag):
            return tag
    return None


def judge(case, res, model=None):
    """None if the property holds on this run, else a message.  `model` pipes op lines to the Lean driver (needed to
    confirm the shape of D9).  Messages starting with `D9-shape` / `D16-shape` / `LZ-shape` are built only when the
    failing input has exactly the shape of the corresponding open finding:
      D9   the C08 model of Plugin.iter, run on the very streams that fed the failing plugin, says that ten passes do not
           suffice although more would (`passesSufficeB` false on law-abiding inputs that start together);
      D16  a stream that feeds the failing plugin (the one the message names) ends with a zero-duration chunk;
      LZ   lazy threaded run, a computed multi-output plugin BOTH of whose outputs are consumed by plugins that meet
           again downstream, mailbox timeout, and the same case with allow_lazy=False and under single_thread passes.
    Every other failure - in particular any other failure with the same exception text - is a violation."""
    if res["phase"] == "adapter":
        raise RuntimeError("adapter crashed: " + str(res["exc"]))
    if res["expect"] is None:
        raise RuntimeError("oracle crashed: " + str(res["oracle_exc"]))
    cfg, stored, tgt, twin = _phase_of(case, res)
    where = f"twin context making {tgt}" if twin else f"{case['mode']} of {case['target']}"
    return _judge(case, res, cfg, stored, tgt, where, model)


def op_iter(case, deps, streams, strict):
    """the C08 model of Plugin.iter on the recorded input streams of one plugin"""
    toks = " ".join(";".join([d, case["kinds"][d]] + [f"{a}~{b}~{sl.show_rows([tuple(r) for r in rows])}"
                                                      for a, b, rows in streams[d]]) for d in deps)
    return f"c08.iter {int(strict)} {toks}"


def op_passes(case, node, streams, strict):
    # trailing zero-duration chunks carry no rows and raise an error of their own (D16) whatever the pass limit: they are
    # left out so that "more passes would succeed" can be seen
    def trim(ch):
        ch = list(ch)
        while len(ch) > 1 and ch[-1][0] == ch[-1][1]:
            ch.pop()
        return ch
    streams = {d: trim(v) for d, v in streams.items()}
    deps = " ".join(";".join([d, case["kinds"][d]] + [f"{a}~{b}~{sl.show_rows([tuple(r) for r in rows])}"
                                                      for a, b, rows in streams[d]]) for d in node["deps"])
    return f"c08.hyp {int(strict)} {case['span'][0]} {deps}"


def _judge(case, res, cfg, stored, tgt, where, model):
    exp = res["expect"]
    line, exc = res["line"], (res["exc"] or "") + " | root cause under single_thread: " + str(res.get("root_exc"))
    if line.startswith("err"):
        fs = res.get("fail_streams") or {}
        streams = fs.get("streams") or {}
        _, computed = needed(case, stored, tgt)
        twin = res["phase"] == "prep"
        if TEN_PASS in exc and fs.get("plugin") and model is not None:
            node = next((n for n in case["nodes"] if n["outs"][0] == fs["plugin"]), None)
            if node and set(node["outs"]) & computed and all(streams.get(d) for d in node["deps"]):
                if twin:
                    strict = any(o in case["stored"] for o in node["outs"])
                else:
                    strict = any(p in ("T", "A") for p in node["save"])
                ans = model([op_passes(case, node, streams, strict)])[0]
                if ans.startswith("ok") and "passes=0" in ans and "start=1" in ans and "law=" in ans \
                        and "0" not in ans.split("law=")[1].split(" ")[0]:
                    res["model_op"] = op_iter(case, node["deps"], streams, strict)
                    return (f"D9-shape: {where}: Plugin.iter of {node['kind']}({','.join(node['deps'])}) gave up (RuntimeError: unable "
                            f"to get time-consistent inputs after ten passes); the C08 model confirms on the streams that fed it that "
                            f"ten passes do not suffice although more would")
        if UNFETCHED in exc:
            import re
            named = set(re.findall(r"Plugin (\w+) terminated without fetching last", exc))
            readers = [n for n in case["nodes"] if set(n["outs"]) & computed and len(n["deps"]) > 1]
            tl = targets_of(tgt)
            multi_deps = {d for n in readers for d in n["deps"]} | (set(tl) if len(tl) > 1 else set())
            hit = [d for d in sorted(named) if d in multi_deps and streams.get(d) and len(streams[d]) > 1
                   and streams[d][-1][0] == streams[d][-1][1]]
            if hit and model is not None:
                # which reader failed: the one for which the C08 model of Plugin.iter, on the recorded streams, raises too
                cands = [(n["deps"], any(o in case["stored"] for o in n["outs"]) if twin else any(p in ("T", "A") for p in n["save"]))
                         for n in readers if hit[0] in n["deps"]]
                if len(tl) > 1 and hit[0] in tl:
                    cands.append((tl, False))                   # the temporary MergeOnlyPlugin is EXPLICIT
                for deps, strict in cands:
                    if all(streams.get(d) for d in deps):
                        op = op_iter(case, deps, streams, strict)
                        if model([op])[0] == "err RuntimeError":
                            res["model_op"] = op
                            return (f"D16-shape: {where}: the stream of {hit[0]} ends with the zero-duration chunk "
                                    f"[{streams[hit[0]][-1][0]},{streams[hit[0]][-1][1]}) and Plugin.iter of a plugin with several "
                                    f"dependencies that reads it raised RuntimeError 'terminated without fetching last {hit[0]}'")
            # the named data type is itself the output of a plugin with several dependencies one of whose input streams ends
            # with a zero-duration chunk: that plugin hands the zero-duration chunk on as its own last chunk, which its reader
            # (a plugin with several dependencies, or the temporary merge plugin of a multi-target request) leaves unfetched;
            # requested alone it fails with the same error, so its stream cannot be recorded - its inputs are looked at instead
            for d in sorted(named):
                prov = next((n for n in case["nodes"] if d in n["outs"] and set(n["outs"]) & computed and len(n["deps"]) > 1), None)
                if d in multi_deps and streams.get(d) is None and prov is not None and all(streams.get(x) for x in prov["deps"]):
                    z = [x for x in prov["deps"] if len(streams[x]) > 1 and streams[x][-1][0] == streams[x][-1][1]]
                    strict = any(o in case["stored"] for o in prov["outs"]) if twin else any(p in ("T", "A") for p in prov["save"])
                    op = op_iter(case, prov["deps"], streams, strict)
                    if z and model is not None and model([op])[0] == "err RuntimeError":
                        res["model_op"] = op
                        return (f"D16-shape: {where}: the stream of {z[0]} ends with the zero-duration chunk "
                                f"[{streams[z[0]][-1][0]},{streams[z[0]][-1][1]}) and Plugin.iter of a plugin with several dependencies "
                                f"that reads it raised RuntimeError 'terminated without fetching last {d}' ({d} = "
                                f"{prov['kind']}({','.join(prov['deps'])}) passes the zero-duration chunk on as its own last chunk and "
                                f"its reader leaves it unfetched; requested alone it raises the same error)")
        if is_timeout(res) and res.get("root_exc") is None and _threaded_phase(case, res):
            both = _both_outputs_reconverge(case, res)
            if res.get("eager_ok") and _lazy_phase(case, res) and both:
                return (f"LZ-shape: {where}: lazy threaded_mailbox, both outputs {both} of a multi-output plugin are consumed by "
                        f"plugins that meet again downstream: mailbox timeout (deadlock; the same case with allow_lazy=False and "
                        f"with the single-thread processor returns the whole-run rows)")
            reruns = res.get("reruns")
            if reruns is not None:
                k = sum(1 for r in reruns if r.startswith("err"))
                tail = (f"; {k} of {len(reruns)} re-runs on the idle pool with the same timeout failed as well ({', '.join(reruns)[:120]}); "
                        f"load per core at the failure {res.get('load')}")
                if k == 0:
                    res["noted"] = (f"{brief(case)}: {line} ({(res['exc'] or '')[:80]}) on the first attempt, not repeated in "
                                    f"{len(reruns)} re-runs (load per core {res.get('load')})")
                    return None
                return f"{where} raised {exc[:200]} instead of returning the whole-run rows{tail}"
        return f"{where} raised {exc[:300]} instead of returning the whole-run rows"
    tgts = targets_of(tgt)
    want = expected_rows(exp, tgts)
    if want is None:
        raise RuntimeError("generator bug: targets of one request are not of one kind")
    if res["rows"] != want:
        return (f"{where}: returned rows differ from the whole-run computation: got {len(res['rows'])} rows, ids "
                f"{show_line(tgts, res['rows'])[:120]}; expected {len(want)} rows, ids {show_line(tgts, want)[:120]}")
    if res["chunks"] is not None:
        m = check_tiling([(a, b, rows) for a, b, rows in res["chunks"]], case["span"], f"chunks yielded for {tgt}")
        if m:
            return m
    for t, rec in sorted(res["saved"].items()):
        what = f"stored {t} ({'pre-stored by the twin' if rec['pre'] else 'saved by this run'}) re-read by a fresh context"
        if rec["err"]:
            return f"{what}: {rec['err'][:200]}"
        got = [r for c in rec["chunks"] for r in c[2]]
        if got != exp[t]:
            return f"{what}: rows differ from the whole-run computation: got ids {sl.show_ids(got)[:120]} expected {sl.show_ids(exp[t])[:120]}"
        m = check_tiling([(a, b, rows) for a, b, rows in rec["chunks"]], case["span"], what)
        if m:
            return m
    return None


# ============================================================================= generator of cases
KIND_WEIGHTS = [("map", 4), ("filter", 3), ("merge", 4), ("multi", 3), ("pairfirst", 3), ("loop", 3), ("overlap", 3),
                ("downchunk", 2), ("exhaust", 2)]


def _wchoice(rng, pairs):
    tot = sum(w for _, w in pairs)
    x = rng.random() * tot
    for v, w in pairs:
        x -= w
        if x < 0:
            return v
    return pairs[-1][0]


def gen_source_rows(rng, n, disjoint, inside=None):
    if inside:
        # sub-intervals of another source's rows (things inside bases) plus a few strays
        rows = []
        for (a, b, _i) in inside:
            for _ in range(rng.choice([0, 1, 1, 2])):
                x = rng.randint(a, b - 1)
                y = rng.randint(x + 1, b)
                rows.append((x, y))
        for _ in range(rng.randint(0, 2)):
            x = rng.randint(0, max(r[1] for r in inside) + 5) if inside else rng.randint(0, 20)
            rows.append((x, x + rng.randint(1, 4)))
        rows.sort()
        if disjoint:
            keep, last = [], None
            for x, y in rows:
                if last is None or x >= last:
                    keep.append((x, y))
                    last = y
            rows = keep
        return [(x, y, i) for i, (x, y) in enumerate(rows)]
    mode = rng.choice(["disjoint", "touching"]) if disjoint else rng.choice(["overlap", "long", "mixed", "disjoint"])
    return gen.gen_rows(rng, n, mode=mode, big_gap_p=rng.choice([0.0, 0.15, 0.4]))


def brick_sources(rng):
    """the D9 neighbourhood: two sources whose rows interlock"""
    n = rng.randint(4, 40)
    a = [(2 * i, 2 * i + 2, i) for i in range(n)]
    b = [(2 * i + 1, 2 * i + 3, i) for i in range(n - 1)]
    return a, b


def reconvergent(nodes):
    """some data type has two consumers whose results meet again downstream (one feeds the other, or both feed a third)"""
    prov = {o: i for i, n in enumerate(nodes) for o in n["outs"]}
    anc = []                                   # per node: the set of node indices it depends on, transitively
    for i, n in enumerate(nodes):
        a = set()
        for d in n["deps"]:
            if d in prov:
                a.add(prov[d])
                a |= anc[prov[d]]
        anc.append(a)
    readers = {}
    for i, n in enumerate(nodes):
        for d in n["deps"]:
            readers.setdefault(d, []).append(i)
    up = [a | {i} for i, a in enumerate(anc)]
    return any(a in u and b in u for rs in readers.values() for a in rs for b in rs if a != b for u in up)


def gen_case(rng, quick=True, force=None):
    """one random case; `force` may pin {'brick': bool, 'd13': bool}"""
    force = force or {}
    ovl_win = None
    if force.get("ovl"):
        w = rng.choice([5, 10, 20])
        ovl_win = (w, w)
    if force.get("ovla"):
        # strongly asymmetric windows, both directions: a look-back / look-ahead mix-up must show
        ovl_win = rng.choice([(2, 40), (40, 2), (0, 30), (30, 0), (5, 150), (150, 5), (1, 12), (12, 1)])
        force = dict(force, ovl=True)
    ovl_w = max(ovl_win) if ovl_win else None
    n_src = 2 if force.get("brick") else (1 if (force.get("ovl") or force.get("exh")) else rng.choice([1, 1, 2]))
    kinds, disjoint, root = {}, {}, {}
    slots = {"sa": 0, "sb": 1}
    srcs = []
    if force.get("brick"):
        ra, rb = brick_sources(rng)
        src_rows = [ra, rb]
        dis = [True, True]
    elif force.get("ovl"):
        # short rows on a regular grid: every row has neighbours inside the window, every integer time is a valid cut
        step = rng.choice([2, 3, 4])
        src_rows = [[(step * i, step * i + 1, i) for i in range(rng.randint(20, 60))]]
        dis = [True]
    else:
        dis = [rng.random() < 0.6 for _ in range(n_src)]
        src_rows = [gen_source_rows(rng, rng.randint(2, 14) if force.get("exh") else rng.randint(0, 14), dis[0])]
        if n_src == 2:
            inside = src_rows[0] if (src_rows[0] and rng.random() < 0.5) else None
            src_rows.append(gen_source_rows(rng, rng.randint(0, 14), dis[1], inside=inside))
    src_rows = [[(a, b, 100 * (k + 1) + i) for i, (a, b, _x) in enumerate(rows)] for k, rows in enumerate(src_rows)]
    allr = [r for rows in src_rows for r in rows]
    if allr:
        t0 = max(0, min(r[0] for r in allr) - rng.randint(0, 3))
        t1 = max(r[1] for r in allr) + rng.randint(0, 3)
    else:
        t0 = rng.randint(0, 5)
        t1 = t0 + rng.randint(1, 10)
    for k, rows in enumerate(src_rows):
        name = ["sa", "sb"][k]
        kinds[name], disjoint[name], root[name] = name, dis[k], {name}

        def chunking():
            style = rng.choice(["random", "random", "one", "tiny", "brick"] if force.get("brick") else
                               ["random", "random", "random", "one", "tiny"])
            if force.get("ovl"):
                style = "short-interior"
            if force.get("exh") and style == "one":
                style = "tiny"
            if style == "short-interior":
                # >= 3 chunks, interior chunks shorter than about three windows (where an overlap-window plugin has to
                # reach back over more than one chunk)
                cuts, t = [t0], t0 + rng.randint(1, max(1, (t1 - t0) // 2))
                for _ in range(rng.randint(1, 4)):
                    if t >= t1:
                        break
                    cuts.append(t)
                    t += rng.randint(1, 3 * ovl_w + 2)
                cuts += sorted(x for x in {rng.randint(t0, t1) for _ in range(rng.randint(0, 3))} if x > cuts[-1])
                cuts.append(t1)
                ch = gen.chunk_rows(rows, [c for c in cuts if c <= t1])
            elif style == "one":
                ch = gen.chunk_rows(rows, [t0, t1])
            elif style == "tiny":
                ch = gen.random_chunking(rng, rows, t0, t1, p_cut=0.9, p_dup=0.15)
            elif style == "brick":
                cut = min(max(t0, rng.choice([30, 31, 10, 11]) if k == 0 else rng.choice([31, 30, 11, 10])), t1)
                cut = cut if gen.admissible(rows, cut) else t0
                ch = gen.chunk_rows(rows, [t0, cut, t1])
            else:
                ch = gen.random_chunking(rng, rows, t0, t1, p_cut=rng.choice([0.1, 0.3, 0.6]), p_dup=0.1)
            if len(ch) > 12:        # keep message counts small (capacity bound below)
                cuts = sorted(rng.sample(range(1, len(ch)), 11))
                bounds = [ch[0][0]] + [ch[i][0] for i in cuts] + [ch[-1][1]]
                ch = gen.chunk_rows(rows, bounds)
            while len(ch) > 1 and ch[-1][0] == ch[-1][1] and rng.random() < 0.85:
                ch.pop()        # a trailing zero-duration chunk is the open defect D16: keep it rare
            return [[a, b, [list(r) for r in rr]] for a, b, rr in ch]
        srcs.append(dict(name=name, rows=[list(r) for r in rows], chunks=chunking(), prep_chunks=chunking()))
    # ---- derived nodes
    nodes = []
    n_types = n_src
    want_types = rng.randint(4, 6) if force.get("d13") else (rng.randint(3, 6) if force.get("brick") else rng.randint(2, 6))
    types = [s["name"] for s in srcs]
    counter = [0]

    def fresh():
        counter[0] += 1
        return f"t{counter[0]}"

    def add(kind, deps, outs, out_kinds, out_dis, **extra):
        node = dict(kind=kind, deps=list(deps), outs=list(outs),
                    save=[_wchoice(rng, [("N", 1), ("E", 1), ("T", 2), ("A", 4)]) for _ in outs],
                    rechunk=rng.random() < 0.6, tgt=rng.randint(1, 5), par=rng.random() < 0.5, **extra)
        nodes.append(node)
        for o, kd, dj in zip(outs, out_kinds, out_dis):
            kinds[o], disjoint[o] = kd, dj
            slots.setdefault(o, rng.randrange(3))
            root[o] = set().union(*[root[d] for d in deps])
            types.append(o)

    exh_pair = None
    if force.get("ovl"):
        add("overlap", ["sa"], [fresh()], ["sa"], [True], wl=ovl_win[0], wr=ovl_win[1], scalar=rng.random() < 0.5)
    if force.get("exh"):
        # a row-wise (or down-chunking) plugin and an exhaust plugin read the same source
        x, y = fresh(), fresh()
        slots[x], slots[y] = 1, 2           # merged column-wise below: different id columns
        if rng.random() < 0.7:
            add("map", ["sa"], [x], ["sa"], [disjoint["sa"]], c=rng.randint(0, 9))
        else:
            add("downchunk", ["sa"], [x], ["sa"], [disjoint["sa"]], c=rng.randint(0, 9), k=rng.randint(1, 3))
        add("exhaust", ["sa"], [y], ["sa"], [disjoint["sa"]], c=rng.randint(0, 9))
        exh_pair = [x, y] if rng.random() < 0.6 else [y, x]
        want_types = max(want_types, 4)
    guard = 0
    first = True
    while len(types) < want_types and guard < 60:
        guard += 1
        kind = _wchoice(rng, KIND_WEIGHTS)
        if force.get("brick") and first:
            kind = rng.choice(["pairfirst", "loop"])
        if force.get("d13") and first:
            kind = "multi"
        d = rng.choice(types)
        c = rng.randint(0, 9)
        if kind == "map":
            add(kind, [d], [fresh()], [kinds[d]], [disjoint[d]], c=c)
        elif kind == "filter":
            o = fresh()
            add(kind, [d], [o], [o], [disjoint[d]], m=rng.choice([2, 3, 5]), r=rng.randint(0, 1))
        elif kind == "merge":
            same = [(x, y) for x in types for y in types if x != y and kinds[x] == kinds[y] and slots[x] != slots[y]]
            if not same:
                continue
            x, y = rng.choice(same)
            add(kind, [x, y], [fresh()], [kinds[x]], [disjoint[x]])
        elif kind == "multi":
            if len(types) + 2 > 7:
                continue
            o0, o1 = fresh(), fresh()
            add(kind, [d], [o0, o1], [kinds[d], o1], [disjoint[d], disjoint[d]], c=c, m=rng.choice([2, 3]), r=rng.randint(0, 1))
        elif kind in ("pairfirst", "loop"):
            pairs = [(x, y) for x in types for y in types if kinds[x] != kinds[y] and (kind == "pairfirst" or disjoint[x])]
            if force.get("brick") and first:
                pairs = [p for p in pairs if set(p) == {"sa", "sb"}]
            if not pairs:
                continue
            x, y = rng.choice(pairs)
            add(kind, [x, y], [fresh()], [kinds[x]], [disjoint[x]], c=c)
        elif kind == "overlap":
            cands = [x for x in types if disjoint[x]]
            if not cands:
                continue
            x = rng.choice(cands)
            if rng.random() < 0.5:
                w = rng.choice([0, 1, 2, 3, 5, 8, 20, 600])
                win = (w, w)
            else:
                win = rng.choice([(2, 40), (40, 2), (0, 8), (8, 0), (0, 600), (600, 0), (1, 5), (5, 1), (3, 20), (20, 3)])
            add(kind, [x], [fresh()], [kinds[x]], [True], wl=win[0], wr=win[1], scalar=rng.random() < 0.5)
        elif kind == "downchunk":
            add(kind, [d], [fresh()], [kinds[d]], [disjoint[d]], c=c, k=rng.randint(1, 3))
        elif kind == "exhaust":
            add(kind, [d], [fresh()], [kinds[d]], [disjoint[d]], c=c)
        first = False
    if not nodes:
        add("map", [types[0]], [fresh()], [kinds[types[0]]], [disjoint[types[0]]], c=1)
    derived = [o for n in nodes for o in n["outs"]]
    # ---- target: prefer types nothing else depends on
    used = {d for n in nodes for d in n["deps"]}
    sinks = [t for t in derived if t not in used]
    target = rng.choice(sinks) if (sinks and rng.random() < 0.7) else rng.choice(derived)
    if force.get("d13"):
        # a consumer of both outputs of the first multi-output plugin
        mo = nodes[0]
        x, y = mo["outs"]
        o = fresh()
        add("pairfirst", [x, y], [o], [kinds[x]], [disjoint[x]], c=rng.randint(0, 9))
        derived.append(o)
        target = o
    if exh_pair:
        if rng.random() < 0.5:
            target = ",".join(exh_pair)                       # one request for both: temporary MergeOnlyPlugin
        else:
            o = fresh()
            add("merge", exh_pair, [o], [kinds[exh_pair[0]]], [disjoint[exh_pair[0]]])
            derived.append(o)
            target = o
    elif not force and rng.random() < 0.12:
        pairs = [(x, y) for x in derived for y in derived if x != y and kinds[x] == kinds[y] and slots[x] != slots[y]]
        if pairs:
            target = ",".join(rng.choice(pairs))
    # ---- what is already stored
    prov = {o: n for n in nodes for o in n["outs"]}
    anc, stack = set(), targets_of(target)
    while stack:
        t = stack.pop()
        if t in prov:
            for dd in prov[t]["deps"]:
                if dd not in anc:
                    anc.add(dd)
                    stack.append(dd)
    inter = [t for t in derived if t in anc]
    p_store = rng.choice([0.0, 0.3, 0.5, 0.8])
    stored = [t for t in inter if rng.random() < p_store]
    if rng.random() < 0.05 and "," not in target:
        stored.append(target)
    if force.get("d13"):
        stored = [nodes[0]["outs"][rng.randint(0, 1)]]
    stored = [t for t in derived if t in stored]       # dependency order

    def config(is_prep):
        proc = rng.choice(["single_thread", "threaded_mailbox", "threaded_mailbox"])
        if force.get("d13") and not is_prep:
            proc = "threaded_mailbox"
        if force.get("exh") and not is_prep and rng.random() < 0.6:
            proc = "single_thread"
        if force.get("brick") and rng.random() < 0.75:
            proc = "single_thread"       # the threaded processor reports the ten-pass error only when a join times out
        cfg = dict(proc=proc, workers=rng.choice([None, 1, 2, 4]), lazy=rng.random() < 0.5, mm=rng.randint(2, 6),
                   rechunk=rng.random() < 0.7, timeout=rng.choice([180, 240]))
        return cfg
    case = dict(srcs=srcs, nodes=nodes, kinds=kinds, slots={t: slots[t] for t in kinds}, span=[t0, t1], target=target, stored=stored,
                cfg=config(False), prep_cfg=config(True), mode="array" if rng.random() < 0.2 else "iter")
    # capacity above the lag of the graph (see ASSUMPTIONS): when a data type has two readers whose results meet again
    # downstream (one feeds the other, or both feed a third), one reader must be able to wait while the other reads ahead - by the whole run behind an
    # exhaust plugin, by (2w+1)/chunk-duration chunks behind an overlap window, by as many chunks as a coarser
    # dependency spans when two differently chunked streams are aligned.  Below that capacity the mailboxes deadlock
    # (D10, C06); the property quantifies over capacities above the lag only.
    tl = targets_of(target)
    if reconvergent(nodes + ([dict(deps=tl, outs=["_temp"])] if len(tl) > 1 else [])):
        bound = 2 + max(len(s[key]) for s in srcs for key in ("chunks", "prep_chunks")) + sum(len(s["rows"]) for s in srcs)
        for cfg in (case["cfg"], case["prep_cfg"]):
            cfg["mm"] = max(cfg["mm"], bound)
    # a quarter of the cases live at epoch scale (ns since 1970): beyond 2**53, where float64 arithmetic that crept in
    # somewhere would no longer be exact
    if force.get("shift", rng.random() < 0.25):
        shift_case(case, EPOCH_T0)
    return case


EPOCH_T0 = 1_700_000_000_000_000_137


def shift_case(case, dt):
    for s in case["srcs"]:
        s["rows"] = [[a + dt, b + dt, i] for a, b, i in s["rows"]]
        for key in ("chunks", "prep_chunks"):
            s[key] = [[a + dt, b + dt, [[x + dt, y + dt, i] for x, y, i in rows]] for a, b, rows in s[key]]
    case["span"] = [case["span"][0] + dt, case["span"][1] + dt]
    case["shift"] = dt


def brief(case):
    g = " ".join(f"{'+'.join(n['outs'])}={n['kind']}({','.join(n['deps'])})" for n in case["nodes"])
    c = case["cfg"]
    return (f"[{g}] tgt={case['target']} stored={','.join(case['stored']) or '-'} {c['proc'][:6]} w={c['workers']} "
            f"lazy={int(c['lazy'])} mm={c['mm']} chunks={'/'.join(str(len(s['chunks'])) for s in case['srcs'])} {case['mode']}")


# ============================================================================= ops for the Lean driver
def _kind(n):
    return "overlap2" if n["kind"] == "overlap" else n["kind"]


def _params(n):
    k = n["kind"]
    if k in ("map", "pairfirst", "downchunk", "exhaust"):
        return str(n["c"])
    if k == "filter":
        return f"{n['m']},{n['r']}"
    if k == "multi":
        return f"{n['c']},{n['m']},{n['r']}"
    if k == "overlap":
        return "%d,%d" % window_of(n)
    return ""


def op_whole(case):
    g = ";".join(f"{_kind(n)}:{_params(n)}:{','.join(n['deps'])}:{','.join(n['outs'])}" for n in case["nodes"])
    srcs = " ".join(f"{s['name']}={sl.show_rows([tuple(r) for r in s['rows']])}" for s in case["srcs"])
    return f"c01.whole {g} {case['target']} {srcs}"


def exec_case(case, res):
    """the part of a successful single-thread run that `Pipeline.exec` models: computed nodes (no down-chunking plugin: the
    harness one cuts its pieces by a rule of its own), sources and loader-fed types as the bus delivered them"""
    if case["cfg"]["proc"] != "single_thread" or "," in case["target"] or not res.get("streams") \
            or not res["line"].startswith("ok"):
        return None
    loaders, computed = needed(case, set(case["stored"]), case["target"])
    nodes = [n for n in case["nodes"] if set(n["outs"]) & computed]
    if not nodes or any(n["kind"] == "downchunk" for n in nodes):
        return None
    st = res["streams"]
    provided = {o for n in nodes for o in n["outs"]}
    srcs = {s["name"]: s["chunks"] for s in case["srcs"]}
    env = {}
    for n in nodes:
        for d in n["deps"]:
            if d in provided:
                continue
            if d in srcs:
                env[d] = srcs[d]
            elif d in st:
                env[d] = st[d]              # loaded from storage
            else:
                return None
    stored = {o: st[o] for o in provided if o in loaders and o in st}
    shown = [o for n in nodes for o in n["outs"] if o in st]
    if not shown:
        return None
    return dict(nodes=nodes, kinds=case["kinds"], span=case["span"], env=env, stored=stored, shown=shown,
                real={o: st[o] for o in shown})


def _stream_tok(name, chunks, ids_only=False):
    def one(c):
        a, b, rows = c
        body = (",".join(str(r[2]) for r in rows) if rows else "-") if ids_only else sl.show_rows([tuple(r) for r in rows])
        return f"{a}~{b}~{body}"
    return f"{name}=" + (";".join(one(c) for c in chunks) if chunks else "-")


def op_exec(ec):
    g = ";".join(f"{_kind(n)}:{_params(n)}:{','.join(n['deps'])}:{','.join(n['outs'])}" for n in ec["nodes"])
    strict = ",".join(str(int(any(p in ("T", "A") for p in n["save"]))) for n in ec["nodes"])
    kinds = ",".join(f"{k}:{v}" for k, v in sorted(ec["kinds"].items()))
    env = " ".join(_stream_tok(k, v) for k, v in sorted(ec["env"].items()))
    stored = " ".join(_stream_tok(k, v) for k, v in sorted(ec["stored"].items()))
    return (f"c01.exec {g} {strict} {kinds} {','.join(ec['shown'])} {ec['span'][0]} {ec['span'][1]} {env} |"
            + (" " + stored if stored else ""))


def impl_exec(ec):
    return "ok " + " ".join(_stream_tok(o, ec["real"][o], ids_only=True) for o in ec["shown"])


def op_law(lc):
    chunks = " ".join(f"{a}~{b}~{sl.show_rows([tuple(r) for r in rows])}" for a, b, rows in lc["chunks"])
    return f"c01.law {lc['span'][0]} {lc['span'][1]} {chunks}"


def impl_law(lc):
    """the laws of chunking evaluated by the harness on a chunk sequence the real code yielded"""
    chunks = [(a, b, [tuple(r) for r in rows]) for a, b, rows in lc["chunks"]]
    law = gen.law_abiding(chunks) is None and all(t < e for _, _, rows in chunks for t, e, _ in rows)
    span = bool(chunks) and chunks[0][0] == lc["span"][0] and chunks[-1][1] == lc["span"][1]
    return f"ok law={int(law)} span={int(span)} global={int(law)}"


# ============================================================================= process pool
def _quiet():
    import threading
    logging.disable(logging.CRITICAL)
    threading.excepthook = lambda args: None      # exceptions of plugin threads reach the caller through the mailboxes


def warm_graph():
    """one big graph that contains every plugin kind of the vocabulary in every combination of id-column slots that a
    generated case can have (the dtype combinations for which numba specialises strax's kernels)"""
    rows = {"sa": [(3 * i, 3 * i + 2, 100 + i) for i in range(9)], "sb": [(3 * i, 3 * i + 1, 200 + i) for i in range(9)]}
    cuts = [0, 6, 6, 14, 30]
    srcs = [dict(name=n, rows=[list(r) for r in rr],
                 chunks=[[a, b, [list(r) for r in x]] for a, b, x in gen.chunk_rows(rr, cuts)],
                 prep_chunks=[[a, b, [list(r) for r in x]] for a, b, x in gen.chunk_rows(rr, [0, 30])])
            for n, rr in rows.items()]
    kinds, slots, nodes, sinks = {"sa": "sa", "sb": "sb"}, {"sa": 0, "sb": 1}, [], []
    count = [0]

    def add(kind, deps, out_kinds, out_slots, sink=True, **extra):
        outs = []
        for kd, sl_ in zip(out_kinds, out_slots):
            count[0] += 1
            o = f"w{count[0]}"
            outs.append(o)
            kinds[o], slots[o] = (o if kd is None else kd), sl_
        nodes.append(dict(kind=kind, deps=list(deps), outs=outs, save=["A"] * len(outs), rechunk=True, tgt=2, par=False, **extra))
        if sink:
            sinks.append(outs[0])
        return outs
    base = {}
    for src in ("sa", "sb"):
        for k in range(3):
            base[(src, k)] = add("map", [src], [src], [k], sink=False, c=k)[0]
    for k in range(3):
        a = base[("sa", k)]
        for k2 in range(3):
            add("filter", [a], [None], [k2], m=2, r=0)
            add("overlap", [a], ["sa"], [k2], wl=2, wr=7, scalar=False)
            add("downchunk", [a], ["sa"], [k2], c=1, k=2)
            add("exhaust", [a], ["sa"], [k2], c=1)
            add("multi", [a], ["sa", None], [k2, (k2 + 1) % 3], c=1, m=2, r=0)
            for kb in range(3):
                add("loop", [a, base[("sb", kb)]], ["sa"], [k2], c=0)
            add("pairfirst", [a, base[("sb", k2)]], ["sa"], [(k + k2) % 3], c=1)
            if k2 != k:
                add("merge", [a, base[("sa", k2)]], ["sa"], [(k + 1) % 3])
    case = dict(srcs=srcs, nodes=nodes, kinds=kinds, slots=slots, span=[0, 30], target=sinks[0], stored=[],
                cfg=dict(proc="single_thread", workers=None, lazy=True, mm=50, rechunk=True, timeout=3600),
                prep_cfg=dict(proc="single_thread", workers=None, lazy=True, mm=50, rechunk=True, timeout=3600), mode="array")
    return case, sinks


def warm_up():
    """Before any timing-sensitive run: every harness plugin kind in every id-column (dtype) combination is executed
    once under single_thread, saved with rechunking and loaded again, so that every numba kernel the vocabulary reaches
    is compiled (or loaded from the numba cache) in this process - the forked workers inherit it.  Then a few random
    cases for the remaining code paths (threaded processor, twin storage), with timeouts no compilation can trip."""
    import random
    _quiet()
    case, sinks = warm_graph()
    use_case(case)
    d = tempfile.mkdtemp(prefix="c01_warm_")
    try:
        with contextlib.redirect_stdout(io.StringIO()):
            for shift in (0, EPOCH_T0):
                c = json.loads(json.dumps(case))
                if shift:
                    shift_case(c, shift)
                st = new_context(c, os.path.join(d, str(shift)), c["cfg"], build_classes(c))
                for t in sinks:
                    _guard(lambda: st.get_array(RUN, t, processor="single_thread", progress_bar=False))
                for t in sinks[:12]:                                # now stored: the loaders
                    _guard(lambda: st.get_array(RUN, t, processor="single_thread", progress_bar=False))
                for a, b in zip(sinks[:6], sinks[6:12]):
                    if c["kinds"][a] == c["kinds"][b] and c["slots"][a] != c["slots"][b]:
                        _guard(lambda: st.get_array(RUN, (a, b), processor="single_thread", progress_bar=False))
    finally:
        shutil.rmtree(d, ignore_errors=True)
    rng = random.Random(12345)
    seen = set()
    for _ in range(300):
        case = gen_case(rng)
        tags = {n["kind"] for n in case["nodes"]} | {case["cfg"]["proc"]} | ({"stored"} if case["stored"] else set())
        if tags <= seen:
            continue
        seen |= tags
        case["cfg"]["timeout"] = case["prep_cfg"]["timeout"] = 3600
        run_case_once(case)


def _worker(args):
    i, case = args
    _quiet()
    t0 = time.time()
    res = run_case(case)
    res["wall"] = round(time.time() - t0, 2)
    return i, res


def run_pool(cases, workers, budget_s, note=None, stall_s=1500, dead_s=500, min_cases=0, hard_s=None):
    """run the cases in forked worker processes (each has strax imported through lib.straxlib); stops feeding new
    cases after `budget_s`; a case that has not come back `stall_s` seconds after it was handed out is a hang"""
    import multiprocessing as mp
    # every jitted kernel is compiled / loaded ONCE, here, before the workers are forked: they inherit it.  (No strax
    # thread survives a finished run, so forking afterwards is safe.)
    t0 = time.time()
    warm_up()
    if note:
        note(f"warm-up of the jitted kernels took {time.time() - t0:.0f} s")
    import threading
    mon = getattr(_tqdm.tqdm, "monitor", None)
    if mon is not None:
        mon.exit()
        _tqdm.tqdm.monitor = None
    def others():        # the engine's watchdog is a sleeping threading.Timer: it holds nothing a forked child could need
        return [t for t in threading.enumerate() if t is not threading.main_thread() and not isinstance(t, threading.Timer)]
    t1 = time.time()
    while others() and time.time() - t1 < 10:
        time.sleep(0.1)
    if others() and note:
        note("threads alive at fork time: " + str([(t.name, type(t).__name__, t.daemon) for t in others()]))
    mk = lambda: mp.get_context("fork").Pool(workers)   # noqa: E731
    base = tempfile.mkdtemp(prefix="c01_run_")       # every storage directory of this run lives below it
    os.environ["VERIF_C01_TMP"] = base
    pool = mk()
    results, flight = {}, {}
    todo = list(enumerate(cases))[::-1]
    t_end = time.time() + budget_s
    t_hard = time.time() + (hard_s or budget_s)
    last_result = time.time()
    restarts = 0

    def hang(i, why):
        return dict(line="err Hang", exc=why, phase="main", elapsed=float(stall_s), chunks=None, saved={}, prep=[],
                    expect={}, oracle_exc=None, rows=None, hang=True)
    try:
        def feeding():
            now = time.time()
            return now < t_end or (len(results) + len(flight) < min_cases and now < t_hard)
        while flight or (todo and feeding()):
            while todo and len(flight) < workers + 2 and feeding():
                i, case = todo.pop()
                flight[i] = (pool.apply_async(_worker, ((i, case),)), time.time())
            progressed = False
            for i, (ar, t0) in list(flight.items()):
                if ar.ready():
                    _, results[i] = ar.get()
                    del flight[i]
                    progressed = True
                    last_result = time.time()
            if progressed:
                continue
            now = time.time()
            if flight and now - last_result > dead_s and restarts < 2 and all(now - t0 > dead_s for _ar, t0 in flight.values()):
                # nothing at all comes back: the pool itself is dead (e.g. a lock inherited in a bad state at fork
                # time); start a fresh one and hand the same cases out again
                restarts += 1
                if note:
                    note(f"no result from any worker for {dead_s} s: pool restarted, {len(flight)} cases handed out again")
                for i in list(flight):
                    todo.append((i, cases[i]))
                    del flight[i]
                pool.terminate()
                pool = mk()
                last_result = time.time()
                t_end += dead_s
                continue
            stuck = [i for i, (_ar, t0) in flight.items() if now - t0 > stall_s]
            if stuck:
                for i in stuck:
                    results[i] = hang(i, f"no result within {stall_s} s (worker stuck)")
                    del flight[i]
                for i in list(flight):           # the other cases in flight go to a fresh pool
                    todo.append((i, cases[i]))
                    del flight[i]
                pool.terminate()
                pool = mk()
                last_result = time.time()
            else:
                time.sleep(0.05)
        if todo and note:
            note(f"time budget of {budget_s} s reached: {len(todo)} of {len(cases)} generated cases not run")
    finally:
        pool.terminate()
        pool.join()
        os.environ.pop("VERIF_C01_TMP", None)
        shutil.rmtree(base, ignore_errors=True)
    return results


# ============================================================================= the check
def needs_rerun(case, res):
    return (not res.get("hang") and res["phase"] != "adapter" and res["line"].startswith("err") and is_timeout(res)
            and res.get("root_exc") is None and _threaded_phase(case, res)
            and not (res.get("eager_ok") and _lazy_phase(case, res) and _both_outputs_reconverge(case, res)))


def short(line):
    return "ok" if line.startswith("ok") else line


def _rerun_worker(case):
    _quiet()
    return [short(run_case_once(case)["line"]) for _ in range(3)]


def rerun_timeouts(cases, results, idx):
    """three re-runs of each case, one case at a time, original timeout"""
    if not idx:
        return
    import multiprocessing as mp
    pool = mp.get_context("fork").Pool(1)
    try:
        for i in idx:
            try:
                out = pool.apply_async(_rerun_worker, (cases[i],)).get(timeout=1500)
                results[i]["reruns"] = list(out)
            except mp.TimeoutError:
                results[i]["reruns"] = ["err Hang"] * 3
                pool.terminate()
                pool = mp.get_context("fork").Pool(1)
    finally:
        pool.terminate()
        pool.join()


def nontrivial_case(case, res):
    rows = res.get("rows") or []
    return bool(rows) and (any(len(s["chunks"]) > 1 for s in case["srcs"]) or bool(case["stored"])
                           or case["cfg"]["proc"] == "threaded_mailbox")


def branch_of(case, res):
    c = case["cfg"]
    return f"{c['proc'][:6]}/w{c['workers']}/lazy{int(c['lazy'])}/stored{min(len(case['stored']), 3)}/{res['line'].split(' ')[0]}"


def d13_corpus():
    """40 cases of the shape of the fixed defect D13 (threaded processor, multi-output plugin with one output stored and
    the sibling recomputed, a consumer of both); independent of VERIF_SEED; they must all pass"""
    import random
    rng = random.Random(7)
    out = []
    for _ in range(40):
        c = gen_case(rng, force={"d13": True, "shift": False})
        c["corpus"] = "d13"
        out.append(c)
    return out


def gen_cases(ctx):
    """forced shapes FIRST (a slow machine must not starve them), then the D13 corpus interleaved with the random cases"""
    q = lambda a, b: ctx.pick(a, b)       # noqa: E731
    forced = []
    for name, n in (("ovla", q(24, 120)), ("exh", q(20, 100)), ("ovl", q(16, 80)), ("brick", q(8, 60)), ("d13", q(6, 40))):
        forced.append([gen_case(ctx.rng, quick=not ctx.thorough, force={name: True}) for _ in range(n)])
    first = [c for group in zip(*[g[:6] for g in forced]) for c in group]          # a round-robin head …
    first += [c for g in forced for c in g[6:]]                                    # … then the rest
    random_cases = [gen_case(ctx.rng, quick=not ctx.thorough) for _ in range(ctx.pick(830, 8600))]
    corpus, out = d13_corpus(), []
    for i, c in enumerate(random_cases):
        out.append(c)
        if i % 2 == 1 and corpus:
            out.append(corpus.pop(0))
    return first + out + corpus


def run(ctx):
    cases = gen_cases(ctx)
    workers = int(os.environ.get("VERIF_C01_WORKERS", "8"))
    # hand out cases for 100 s (1000 s), but for at least 300 (3000) runs - a cold numba cache or a busy machine must not
    # shrink the sample to a few dozen - and never longer than 420 s (1500 s)
    results = run_pool(cases, workers, ctx.pick(100, 1000), note=ctx.note, min_cases=ctx.pick(300, 3000),
                       hard_s=ctx.pick(420, 1500))
    done = [i for i in range(len(cases)) if i in results]
    # mailbox timeouts that have no root cause: the first failure stays the verdict; three re-runs with the same timeout
    # on the now idle pool only say how reproducible it is
    timeouts = [i for i in done if needs_rerun(cases[i], results[i])]
    rerun_timeouts(cases, results, timeouts)
    msgs = {}
    for i in done:
        res = results[i]
        if res.get("hang"):
            msgs[i] = f"{brief(cases[i])}: the run hung ({res['exc']})"
        else:
            msgs[i] = judge(cases[i], res, model=ctx.driver.run)
    if timeouts:
        ctx.note(f"{len(timeouts)} runs ended in a mailbox timeout without a single-thread root cause on the first attempt: "
                 + "; ".join(f"#{i} {results[i]['line']} re-runs {results[i].get('reruns')} load/core {results[i].get('load')}"
                             for i in timeouts[:12]))
    for i in done:
        if results[i].get("noted"):
            ctx.note("e2e/nonrepeating-timeout: " + results[i]["noted"])
    stats = ctx.comp("e2e").branch_hits
    for i in done:
        for n in cases[i]["nodes"]:
            stats["kind:" + n["kind"]] += 1
        stats["mode:" + cases[i]["mode"]] += 1
        stats["sources:%d" % len(cases[i]["srcs"])] += 1
        if "," in cases[i]["target"]:
            stats["multi-target-request"] += 1
        if cases[i].get("shift"):
            stats["epoch-scale-times"] += 1
        if results[i]["prep"]:
            stats["with-twin-prep"] += 1
        if results[i].get("saved"):
            stats["storage-read-back"] += 1
        if results[i].get("reruns") is not None:
            stats["mailbox-timeout-first-attempt"] += 1
        if "root_exc" in results[i]:
            stats["threaded-error-rerun-single-thread"] += 1
    rule = ("random DAGs of 2-6 data types over 1-2 independently chunked sources x processor x max_workers x lazy x "
            "max_messages x rechunk x pre-stored subset; impl = real Context.get_iter/get_array (row ids of the target), "
            "model = driver `c01.whole`; non-trivial = the target has rows and (a source has > 1 chunk, or something is "
            "pre-stored, or the threaded processor is used)")
    groups = {}
    for i in done:
        groups.setdefault(shape_of(msgs[i]) or ("nonrepeating-timeout" if results[i].get("noted") else
                                                ("d13-corpus" if cases[i].get("corpus") else "")), []).append(i)
    for tag, idx in sorted(groups.items()):
        name = "e2e" if not tag else "e2e/" + tag
        sub = [dict(cases[i], _i=i) for i in idx]
        if tag in ("D9-shape", "D16-shape"):
            # the model side of these findings is the C08 model of Plugin.iter on the streams that fed the failing plugin:
            # it must raise the same error kind as the root cause
            impl_line = lambda c: results[c["_i"]].get("root_line") or results[c["_i"]]["line"]    # noqa: E731
            to_op = lambda c: results[c["_i"]].get("model_op")                                    # noqa: E731
        elif tag in ("LZ-shape", "nonrepeating-timeout"):
            # lazy scheduling is outside this theory (C13); a timeout that none of three re-runs repeats is counted and
            # listed in the evidence, not compared with the model (schedule-dependent deadlocks: C05 / C06)
            impl_line, to_op = (lambda c: results[c["_i"]]["line"]), None
        else:
            impl_line, to_op = (lambda c: results[c["_i"]]["line"]), op_whole
        ctx.correspond(name, sub, impl=impl_line, to_op=to_op,
                       oracle=lambda c, o: msgs[c["_i"]],
                       nontrivial=lambda c, o: nontrivial_case(c, results[c["_i"]]),
                       branch=lambda c, o: branch_of(c, results[c["_i"]]), rule=rule,
                       in_hyp=lambda c, o: not o.startswith("err"))
    run_exec_correspondence(ctx, cases, results, done)
    # the property's second sentence, evaluated by the harness and by the model's predicate on what was yielded / stored
    law_cases = []
    for i in done:
        res = results[i]
        if res.get("chunks") and res["line"].startswith("ok"):
            law_cases.append(dict(span=cases[i]["span"], chunks=[[a, b, [r[:3] for r in rows]] for a, b, rows in res["chunks"]],
                                  what="yielded"))
        for t, rec in sorted((res.get("saved") or {}).items()):
            if rec.get("chunks"):
                law_cases.append(dict(span=cases[i]["span"], chunks=rec["chunks"], what="stored"))
    ctx.correspond("law", law_cases, impl=impl_law, to_op=op_law,
                   oracle=lambda c, o: None if o == "ok law=1 span=1 global=1" else f"{c['what']} chunk sequence breaks the laws of chunking: {o}",
                   nontrivial=lambda c, o: len(c["chunks"]) > 1 and any(rows for _, _, rows in c["chunks"]),
                   branch=lambda c, o: c["what"],
                   rule="chunk sequences yielded for the target / read back from storage; impl = harness evaluation of the laws, "
                        "model = `lawAbidingB` / `span` / `lawAbidingGlobalB`; non-trivial = > 1 chunk and some rows")


def run_exec_correspondence(ctx, cases, results, done):
    """the CHUNKED semantics: `Pipeline.exec` (identity transports, `Plugin.iter` as aligner, the vocabulary kernels, stored
    outputs overriding) on the very chunking of each successful single-thread run, against the chunk streams the
    PostOffice delivered per data type (boundaries and row ids)"""
    ecs = [ec for i in done if not results[i].get("hang") for ec in [exec_case(cases[i], results[i])] if ec]
    if not ecs or not ctx.model_available:
        return
    answers = ctx.driver.run([op_exec(ec) for ec in ecs])
    keep = [ec for ec, a in zip(ecs, answers) if a != "skip"]
    skipped = len(ecs) - len(keep)
    if skipped:
        ctx.note(f"exec correspondence: {skipped} of {len(ecs)} eligible runs lie outside the guard of Aligner.iter "
                 f"(C08's domain: e.g. a trailing zero-duration chunk) and are not compared")
    ctx.correspond("exec", keep, impl=impl_exec, to_op=op_exec,
                   nontrivial=lambda c, o: any(len(v) > 1 for v in c["real"].values()),
                   branch=lambda c, o: "+".join(sorted({n["kind"] for n in c["nodes"]})) + ("/stored" if c["stored"] else ""),
                   rule="successful single-thread runs without a down-chunking plugin and with one target: impl = per computed "
                        "data type the chunk stream the PostOffice delivered (recorded by rebinding _ack_msg_produced), model = "
                        "driver `c01.exec` = Pipeline.exec on the same source chunking and loader streams (Transport.ident, "
                        "Aligner.iter / single / exhaust, Vocab.kernelOf, override); non-trivial = some stream has > 1 chunk")


def replay(ctx, body):
    case = (body.get("case") or {}).get("case")
    if not isinstance(case, dict):
        return None
    if "real" in case:               # an `exec` case: model and implementation only
        return None
    if "nodes" not in case:          # a `law` case
        out = impl_law(case)
        return None if out == "ok law=1 span=1 global=1" else f"chunk sequence breaks the laws of chunking: {out}"
    _quiet()
    res = run_case(case)
    if needs_rerun(case, res):
        res["reruns"] = [short(run_case_once(case)["line"]) for _ in range(3)]
    return judge(case, res, model=ctx.driver.run)
