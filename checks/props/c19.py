"""C19 — peak clustering, summing, merging and splitting conserve hits, area and time.

Model: lean/StraxModel/Model/Peaks.lean (namespace Strax.Peaks); theorems: Props/C19.lean (lemmas in
Lemmas/Peaks.lean); driver ops `c19.*` in Driver/C19.lean.
Tie: differential correspondence of find_peaks, store_downsampled_waveform, sum_waveform, _merge_peaks,
replace_merged, add_lone_hits, PeakSplitter._split_peaks (driven by a table split finder),
LocalMinimumSplitter.find_split_points, symmetric_moving_average, index_of_fraction, compute_widths and
highest_density_region against the compiled Lean driver; `epoch/*` components repeat the time-dependent ones with
all times shifted to ~1.7e18 ns; strax.split_peaks with both real splitters end to end (oracle only; the
NaturalBreaksSplitter has no model op of its own).
Oracle: the property's own wording, evaluated with fractions.Fraction on what the real functions return.
Open findings the oracles can hit (known_findings.json, each pinned to component + kind): D11-downsampling-tail,
D11-split-fragment-shortened, find-peaks-duration-cut-overlap, find-peaks-duration-double-left.

The real functions are numba kernels that take 20-40 s each to compile, so the implementation side of every
component is evaluated in forked worker processes (one per function family) that run in parallel; the
engine then sees a table lookup as `impl`.
"""
from __future__ import annotations

import itertools
import json
import multiprocessing
import os
from concurrent.futures import ProcessPoolExecutor
from concurrent.futures.process import BrokenProcessPool
from fractions import Fraction as Fr

from lib import straxlib as sl
from lib.straxlib import strax  # MUST be the first strax import (private numba cache)

import numba  # noqa: E402
import numpy as np  # noqa: E402

ID = "C19"
LEAN_MODULES = ["StraxModel.Props.C19"]
TRUSTED = [
    "modelled not verified: numpy slicing/reshape/repeat, numba loop and generator semantics",
    "the implementation side runs in forked worker processes (same interpreter, same /repo import) to compile the numba "
    "kernels in parallel",
]
ASSUMPTIONS = [
    "NARROWING of 'for all hit sets': float32/float64 rounding is outside the model (exact rationals) AND outside the generated "
    "inputs - non-dyadic to_pe (every real gain), non-dyadic areas / sample values and sums that are inexact in float32 are "
    "never generated, so e.g. a change of the accumulation precision is invisible to this check",
    "floats are modelled as exact rationals; the harness only feeds inputs on which float32/float64 arithmetic is exact: "
    "integer hit/peak times, integer or dyadic sample values and hit areas, dyadic to_pe, power-of-two up-sampling factors, "
    "power-of-two total areas and dyadic fractions for index_of_fraction / compute_widths (n_widths = 5)",
    "quotients by a small non-power-of-two integer (moving-average counts, area_needed / x) are rounded once; they are "
    "canonicalised as the unique fraction with denominator <= 512 within rounding distance (gap to the next such fraction "
    "is > 1e-5, float32 error < 1e-6)",
    "highest_density_region: interval indices are compared exactly, amplitudes only in the oracle with tolerance 1e-5",
    "sum_waveform: every hit lies in one record with integer baseline and no bit shift (record handling is C18); "
    "data_top / data_start are not modelled",
    "merge_peaks: max_buffer is large enough; every merge range is non-empty (the real code reads out of bounds otherwise)",
    "replace_merged: inputs on which the real numba code would write out of bounds (an original row touching two "
    "merged rows) are not generated; every real call runs in a forked worker, a dying worker is isolated and reported",
    "int32/int64 wrap-around is not modelled; peak lengths are non-negative",
]

N_CH = 4
N_S = 8
PD = np.dtype(strax.peak_dtype(n_channels=N_CH, n_sum_wv_samples=N_S, n_widths=5))
HD = np.dtype(strax.hit_dtype)
NO_MORE_SPLITS = -9999999

KNOWN_TAIL = "non-zero tail dropped by down-sampling"
KNOWN_DURATION = "peaks overlap after a max_duration cut"
KNOWN_DOUBLE_LEFT = "max_duration cut counts left_extension twice"
KNOWN_FRAG_SHORT = "split fragment shortened by down-sampling"


# ----------------------------------------------------------------------------- canonical text
def fr(x) -> Fr:
    """exact value of a float / int / 'p/q' string"""
    if isinstance(x, Fr):
        return x
    if isinstance(x, str):
        return Fr(x)
    if isinstance(x, (int, np.integer)):
        return Fr(int(x))
    return Fr(float(x))


def fr_round(x, max_den=512) -> Fr:
    """canonical fraction of a float that is a once-rounded small quotient"""
    return Fr(float(x)).limit_denominator(max_den)


def show_fr(q: Fr) -> str:
    return str(q.numerator) if q.denominator == 1 else f"{q.numerator}/{q.denominator}"


def show_frs(qs, sep=",") -> str:
    qs = list(qs)
    return sep.join(show_fr(fr(q)) for q in qs) if qs else "-"


def parse_frs(s, sep=","):
    return [] if s == "-" else [Fr(t) for t in s.split(sep)]


def show_peak(p, maxgap=None) -> str:
    mg = int(p["max_gap"]) if maxgap is None else maxgap
    return ":".join([str(int(p["time"])), str(int(p["length"])), str(int(p["dt"])), show_fr(fr(p["area"])), str(int(p["n_hits"])),
                     str(mg), show_frs(p["area_per_channel"], ";"), show_frs(p["data"], ";")])


def show_peaks(ps, **kw) -> str:
    return ",".join(show_peak(p, **kw) for p in ps) if len(ps) else "-"


def parse_peak(tok):
    t, l, d, a, n, mg, apc, data = tok.split(":")[:8]
    return dict(time=int(t), length=int(l), dt=int(d), area=Fr(a), n_hits=int(n), max_gap=int(mg), apc=parse_frs(apc, ";"),
                data=parse_frs(data, ";"))


def parse_peaks(s):
    return [] if s == "-" else [parse_peak(t) for t in s.split(",")]


def peak_in_op(p) -> str:
    """peak description sent to the driver: time:length:dt:area:nhits:apc:data"""
    return ":".join([str(p["time"]), str(p["length"]), str(p["dt"]), show_fr(fr(p.get("area", 0))), str(p.get("n_hits", 0)),
                     show_frs(p.get("apc", [0] * N_CH), ";"), show_frs(p.get("data", [0] * N_S), ";")])


def hit_op(h, wave=False) -> str:
    s = f"{h[0]}:{h[1]}:{h[2]}:{h[3]}:{show_fr(fr(h[4]))}"
    if wave:
        s += ":" + show_frs(h[5], ";")
    return s


def hits_op(hits, wave=False) -> str:
    return ",".join(hit_op(h, wave) for h in hits) if hits else "-"


# ----------------------------------------------------------------------------- building real arrays
def hits_array(hits):
    a = np.zeros(len(hits), HD)
    for i, h in enumerate(hits):
        a[i]["time"], a[i]["length"], a[i]["dt"], a[i]["channel"] = h[0], h[1], h[2], h[3]
        a[i]["area"] = float(fr(h[4]))
    return a


def peaks_array(peaks):
    a = np.zeros(len(peaks), PD)
    a["channel"] = -1
    for i, p in enumerate(peaks):
        a[i]["time"], a[i]["length"], a[i]["dt"] = p["time"], p["length"], p["dt"]
        a[i]["area"] = float(fr(p.get("area", 0)))
        a[i]["n_hits"] = p.get("n_hits", 0)
        if "apc" in p:
            a[i]["area_per_channel"][:] = [float(fr(x)) for x in p["apc"]]
        if "data" in p:
            a[i]["data"][:] = [float(fr(x)) for x in p["data"]]
    return a


def to_pe_array(to_pe):
    return np.array([float(fr(x)) for x in to_pe], dtype=np.float64)


# ----------------------------------------------------------------------------- adapters (run inside workers)
def fp_call(case, cuts=True):
    hits = hits_array(case["hits"])
    return strax.find_peaks(
        hits, to_pe_array(case["to_pe"]), gap_threshold=case["gap"], left_extension=case["left"], right_extension=case["right"],
        min_area=float(fr(case["min_area"])) if cuts else -1e9, min_channels=case["min_ch"] if cuts else 1,
        max_duration=case["max_dur"], result_dtype=PD)


def impl_findpeaks(case):
    return sl.guarded(lambda: show_peaks(fp_call(case)))


def aux_findpeaks(case):
    """the same call without the area/channel cuts: gives the clusters behind the peaks"""
    return sl.guarded(lambda: show_peaks(fp_call(case, cuts=False)))


def op_findpeaks(case):
    return (f"c19.findpeaks {hits_op(case['hits'])} {show_frs(case['to_pe'])} {case['gap']} {case['left']} {case['right']} "
            f"{show_fr(fr(case['min_area']))} {case['min_ch']} {case['max_dur']} {N_CH} {N_S}")


def impl_store(case):
    def f():
        p = np.zeros(1, PD)
        p["length"], p["dt"] = case["length"], case["dt"]
        buf = np.zeros(max(2 * case["length"], len(case["buf"]), 1), np.float32)
        buf[:len(case["buf"])] = [float(fr(x)) for x in case["buf"]]
        strax.store_downsampled_waveform(p[0], buf)
        return f"{int(p[0]['length'])} {int(p[0]['dt'])} {show_frs(p[0]['data'])}"
    return sl.guarded(f)


def op_store(case):
    return f"c19.store {N_S} {case['length']} {case['dt']} {show_frs(case['buf'])}"


def records_for(hits, dt):
    """one record per hit holding exactly the hit's samples"""
    n_rec = max([len(h[5]) for h in hits] + [1])
    rec = np.zeros(len(hits), strax.record_dtype(8 if n_rec <= 8 else n_rec))
    ha = np.zeros(len(hits), HD)
    for i, h in enumerate(hits):
        rec[i]["time"], rec[i]["length"], rec[i]["dt"], rec[i]["channel"] = h[0], h[1], dt, h[3]
        rec[i]["pulse_length"] = h[1]
        rec[i]["data"][:len(h[5])] = h[5]
        ha[i]["time"], ha[i]["length"], ha[i]["dt"], ha[i]["channel"] = h[0], h[1], h[2], h[3]
        ha[i]["area"] = float(sum(h[5]))
        ha[i]["left"] = ha[i]["left_integration"] = 0
        ha[i]["right"] = ha[i]["right_integration"] = h[1]
        ha[i]["record_i"] = i
    links = (np.full(len(hits), -1, np.int32), np.full(len(hits), -1, np.int32))
    return rec, ha, links


def impl_sumwf(case):
    def f():
        peaks = peaks_array(case["peaks"])
        rec, ha, links = records_for(case["hits"], case["dt"])
        strax.sum_waveform(peaks, ha, rec, links, to_pe_array(case["to_pe"]))
        return show_peaks(peaks, maxgap=0)
    return sl.guarded(f)


def op_sumwf(case):
    return (f"c19.sumwf {case['dt']} {show_frs(case['to_pe'])} {N_CH} {','.join(peak_in_op(p) for p in case['peaks']) or '-'} "
            f"{hits_op(case['hits'], wave=True)}")


def impl_merge(case):
    from strax.processing.peak_merging import _merge_peaks

    def f():
        peaks = peaks_array(case["peaks"])
        ranges = case["ranges"]
        s = np.array([r[0] for r in ranges], dtype=np.int64)
        e = np.array([r[1] for r in ranges], dtype=np.int64)
        mask = None if case.get("mask") is None else np.array(case["mask"], dtype=bool)
        new, endt = _merge_peaks(peaks, s, e, merged=mask, max_buffer=4096)
        return ",".join(f"{show_peak(p)}:{int(t)}" for p, t in zip(new, endt)) if len(new) else "-"
    return sl.guarded(f)


def op_merge(case):
    mask = "-" if case.get("mask") is None else "".join("1" if b else "0" for b in case["mask"])
    ranges = ",".join(f"{a}:{b}" for a, b in case["ranges"]) or "-"
    return f"c19.merge {N_CH} {N_S} {','.join(peak_in_op(p) for p in case['peaks']) or '-'} {mask} {ranges}"


def impl_replace(case):
    def f():
        orig = sl.mk_array(case["orig"], "end")
        merge = sl.mk_array(case["merge"], "end")
        return sl.show_rows(sl.rows_of(strax.replace_merged(orig, merge)))
    return sl.guarded(f)


def op_replace(case):
    return f"c19.replace {sl.show_rows(case['orig'])} {sl.show_rows(case['merge'])}"


def impl_lone(case):
    def f():
        peaks = peaks_array(case["peaks"])
        strax.add_lone_hits(peaks, hits_array(case["lone"]), to_pe_array(case["to_pe"]))
        return show_peaks(peaks, maxgap=0)
    return sl.guarded(f)


def op_lone(case):
    return f"c19.lone {show_frs(case['to_pe'])} {','.join(peak_in_op(p) for p in case['peaks']) or '-'} {hits_op(case['lone'])}"


@numba.njit(nogil=True)
def table_finder(w, dt, peak_i, table, counts):
    """a split finder that replays a table: the splitter as an abstract list of split indices"""
    for k in range(counts[peak_i]):
        yield table[peak_i, k], 0.0


def impl_split(case):
    from strax.processing.peak_splitting import PeakSplitter

    def f():
        peaks = peaks_array(case["peaks"])
        width = max([len(p["splits"]) for p in case["peaks"]] + [1])
        table = np.zeros((len(peaks), width), dtype=np.int64)
        counts = np.zeros(len(peaks), dtype=np.int64)
        for i, p in enumerate(case["peaks"]):
            table[i, :len(p["splits"])] = p["splits"]
            counts[i] = len(p["splits"])
        is_split = np.zeros(len(peaks), dtype=bool)
        import contextlib
        import io
        with contextlib.redirect_stdout(io.StringIO()):
            out = PeakSplitter._split_peaks(split_finder=table_finder, peaks=peaks, is_split=is_split, orig_dt=case["orig_dt"],
                                            min_area=float(fr(case["min_area"])), args_options=(table, counts), result_dtype=PD)
        frags = ",".join(f"{int(r['time'])}:{int(r['length'])}:{int(r['dt'])}" for r in out) if len(out) else "-"
        mask = "".join("1" if b else "0" for b in is_split) or "-"
        return f"{frags} {mask}"
    return sl.guarded(f)


def op_split(case):
    ps = ",".join(f"{p['time']}:{p['length']}:{p['dt']}:{show_fr(fr(p['area']))}:{';'.join(map(str, p['splits'])) or '-'}"
                  for p in case["peaks"]) or "-"
    return f"c19.split {case['orig_dt']} {show_fr(fr(case['min_area']))} {ps}"


def impl_splitreal(case):
    """end-to-end strax.split_peaks with a real splitter (oracle only): parents and the returned peaks"""
    def f():
        hits = case["hits"]
        rec, ha, links = records_for(hits, case["dt"])
        parents = peaks_array(case["peaks"])
        to_pe = to_pe_array(case["to_pe"])
        strax.sum_waveform(parents, ha, rec, links, to_pe)
        strax.compute_properties(parents)
        before = show_peaks(parents, maxgap=0)
        kw = dict(min_height=case["min_height"], min_ratio=0) if case["algorithm"] == "local_minimum" else \
            dict(threshold=lambda p: np.full(len(p), float(fr(case["threshold"])), dtype=np.float64))
        import contextlib
        import io
        with contextlib.redirect_stdout(io.StringIO()):
            out = strax.split_peaks(parents.copy(), ha, rec, links, to_pe, algorithm=case["algorithm"], **kw)
        return before + " " + show_peaks(out, maxgap=0)
    return sl.guarded(f)


def impl_lmsplit(case):
    """everything LocalMinimumSplitter.find_split_points yields for one waveform"""
    from strax.processing.peak_splitting import LocalMinimumSplitter

    def f():
        w = np.array([float(fr(x)) for x in case["w"]], dtype=np.float32)
        ys = list(LocalMinimumSplitter.find_split_points(w, 1, 0, float(fr(case["mh"])), float(fr(case["mr"]))))
        return show_ints_([int(y[0]) for y in ys])
    return sl.guarded(f)


def show_ints_(xs):
    return ",".join(str(x) for x in xs) if xs else "-"


def op_lmsplit(case):
    return f"c19.lmsplit {show_frs(case['w'])} {show_fr(fr(case['mh']))} {show_fr(fr(case['mr']))}"


def oracle_lmsplit(case, out, aux):
    """split indices strictly increasing inside (0, len(w)), closed with len(w) when there is one, then NO_MORE_SPLITS"""
    if out.startswith("err"):
        return f"unexpected {out}"
    ys = [int(x) for x in out[3:].split(",")]
    n = len(case["w"])
    if ys[-1] != NO_MORE_SPLITS:
        return "does not end with NO_MORE_SPLITS"
    sp = ys[:-1]
    if not sp:
        return None
    if sp[-1] != n:
        return f"split points {sp} are not closed with len(w) = {n}: the last fragment would not end at the parent's end"
    if any(a >= b for a, b in zip(sp[:-1], sp[1:])) or sp[0] <= 0:
        return f"split points {sp} not strictly increasing inside (0, {n}]"
    return None


def impl_sma(case):
    def f():
        a = np.array([float(fr(x)) for x in case["a"]], dtype=np.float64 if case.get("f64", True) else np.float32)
        out = strax.symmetric_moving_average(a, case["w"])
        return show_frs([fr_round(x) for x in out])
    return sl.guarded(f)


def op_sma(case):
    return f"c19.sma {show_frs(case['a'])} {case['w']}"


def _wave_peak(case):
    p = np.zeros(1, PD)
    p["length"], p["dt"] = case["length"], case.get("dt", 1)
    p["area"] = float(fr(case["area"]))
    p["data"][0, :len(case["wave"])] = [float(fr(x)) for x in case["wave"]]
    return p


def impl_iof(case):
    def f():
        out = strax.index_of_fraction(_wave_peak(case), np.array([float(fr(x)) for x in case["fractions"]], dtype=np.float64))
        return show_frs([fr_round(x) for x in out[0]])
    return sl.guarded(f)


def op_iof(case):
    wave = list(case["wave"]) + [0] * (N_S - len(case["wave"]))
    return f"c19.iof {show_frs(wave)} {case['length']} {show_fr(fr(case['area']))} {show_frs(case['fractions'])}"


def impl_widths(case):
    def f():
        m, w, d = strax.compute_widths(_wave_peak(case))
        return f"{show_fr(fr_round(m[0]))} {show_frs([fr_round(x) for x in w[0]])} {show_frs([fr_round(x) for x in d[0]])}"
    return sl.guarded(f)


def op_widths(case):
    wave = list(case["wave"]) + [0] * (N_S - len(case["wave"]))
    return f"c19.widths {show_frs(wave)} {case['length']} {case.get('dt', 1)} {show_fr(fr(case['area']))} 5"


def hdr_call(case):
    data = np.array([float(fr(x)) for x in case["data"]], dtype=np.float64)
    fracs = np.array([float(fr(x)) for x in case["fractions"]], dtype=np.float64)
    return strax.highest_density_region(data, fracs, only_upper_part=bool(case["upper"]), _buffer_size=case["buf"])


def impl_hdr(case):
    def f():
        res, _amp = hdr_call(case)
        rows = [";".join(f"{int(a)}:{int(b)}" for a, b in zip(r[0], r[1])) for r in res]
        return " ".join(rows) if rows else "-"
    return sl.guarded(f)


def aux_hdr(case):
    try:
        _res, amp = hdr_call(case)
        return [float(x) for x in amp]
    except Exception:  # noqa: BLE001
        return None


def op_hdr(case):
    return f"c19.hdr {show_frs(case['data'])} {show_frs(case['fractions'])} {int(case['upper'])} {case['buf']}"


IMPLS = {
    "findpeaks": (impl_findpeaks, aux_findpeaks), "store": (impl_store, None), "sumwf": (impl_sumwf, None),
    "merge": (impl_merge, None), "replace": (impl_replace, None), "lone": (impl_lone, None), "split": (impl_split, None),
    "splitreal": (impl_splitreal, None), "lmsplit": (impl_lmsplit, None), "sma": (impl_sma, None), "iof": (impl_iof, None), "widths": (impl_widths, None),
    "hdr": (impl_hdr, aux_hdr),
}


def _worker(jobs):
    """jobs: list of (component name, kind, cases). Runs in a forked process."""
    out = {}
    for name, kind, cases in jobs:
        impl, aux = IMPLS[kind]
        out[name] = [(impl(c), aux(c) if aux else None) for c in cases]
    return out


# ----------------------------------------------------------------------------- oracles
def first_failure(msgs):
    """prefer a failure that is NOT a recorded finding, so that a finding never masks another violation"""
    known = (KNOWN_TAIL, KNOWN_DURATION, KNOWN_DOUBLE_LEFT, KNOWN_FRAG_SHORT)
    for m in msgs:
        if not any(k in m for k in known):
            return m
    return msgs[0] if msgs else None


def hit_end(h):
    return h[0] + h[2] * h[1]


def oracle_findpeaks(case, out, aux):
    """peaks are the gap-threshold clusters of the hits, subject to the duration / area / channel cuts"""
    hits = case["hits"]
    wellformed = case.get("wellformed", False)
    if not wellformed:
        return None                       # malformed stream: model/implementation agreement only
    if out.startswith("err") or aux is None or aux.startswith("err"):
        return f"well-formed hits rejected: {out} / {aux}"
    left, right, gap, max_dur = case["left"], case["right"], case["gap"], case["max_dur"]
    to_pe = [fr(x) for x in case["to_pe"]]
    uncut = parse_peaks(aux[3:])
    got = parse_peaks(out[3:])
    msgs = []
    # 1. the uncut peaks partition the hits in order
    if sum(p["n_hits"] for p in uncut) != len(hits):
        return f"clusters hold {sum(p['n_hits'] for p in uncut)} hits, {len(hits)} were given (a hit was lost or duplicated)"
    groups, i = [], 0
    for p in uncut:
        if p["n_hits"] <= 0:
            return "a peak without hits"
        groups.append(hits[i:i + p["n_hits"]])
        i += p["n_hits"]
    # 2. every peak is described by its hits
    for p, g in zip(uncut, groups):
        dt = g[0][2]
        t0, t1 = g[0][0], max(hit_end(h) for h in g)
        if p["time"] != t0 - left:
            msgs.append(f"peak starts at {p['time']}, first hit at {t0} minus extension {left}")
        if p["dt"] != dt:
            msgs.append("peak dt differs from the hits' dt")
        if p["time"] + p["dt"] * p["length"] != t1 + right:
            msgs.append(f"peak ends at {p['time'] + p['dt'] * p['length']}, last hit end {t1} plus extension {right}")
        area = sum(fr(h[4]) * to_pe[h[3]] for h in g)
        if p["area"] != area:
            msgs.append(f"peak area {p['area']} != sum of hit areas {area}")
        for ch in range(N_CH):
            if p["apc"][ch] != sum(fr(h[4]) * to_pe[h[3]] for h in g if h[3] == ch):
                msgs.append(f"area_per_channel[{ch}] is not the sum over the hits of that channel")
        if sum(p["apc"]) != p["area"]:
            msgs.append("area != sum(area_per_channel)")
        # consecutive hits inside a peak are closer than the threshold
        end, mg = hit_end(g[0]), 0
        for h in g[1:]:
            if h[0] - end >= gap:
                msgs.append(f"hits at gap {h[0] - end} >= threshold {gap} ended up in one peak")
            mg = max(mg, h[0] - end)
            end = max(end, hit_end(h))
        if p["max_gap"] != mg:
            msgs.append(f"max_gap {p['max_gap']} != {mg}")
    # 3. boundaries between consecutive clusters. The property's reading of the duration cut (docstring: "max duration
    #    time of merged peak"): a hit that is not far is added unless the peak would then last longer than max_duration,
    #    duration = latest end - first start + left + right. (What happens to a peak that is ALREADY longer than
    #    max_duration - a single over-long hit - is not specified; either outcome is accepted there.)
    def duration(first, end):
        return end - first[0] + left + right
    for k in range(len(groups) - 1):
        g, nx = groups[k], groups[k + 1][0]
        end = max(hit_end(h) for h in g)
        far = nx[0] - end >= gap
        a, b = uncut[k], uncut[k + 1]
        if not far:
            d_now, d_next = duration(g[0], end), duration(g[0], max(end, hit_end(nx)))
            if d_now > max_dur or d_next > max_dur:
                pass                                    # justified (or unspecified) cut
            elif hit_end(nx) - g[0][0] + 2 * left + right > max_dur:
                msgs.append(f"{KNOWN_DOUBLE_LEFT}: hits up to {end} and hit [{nx[0]},{hit_end(nx)}) are split although the merged "
                            f"peak would last {d_next} <= max_duration {max_dur} (left_extension {left})")
            else:
                msgs.append(f"split between hits {end} and {nx[0]} although gap {nx[0] - end} < {gap} and duration {d_next} fits {max_dur}")
            if b["time"] < a["time"] + a["dt"] * a["length"]:
                msgs.append(f"{KNOWN_DURATION}: [{a['time']},{a['time'] + a['dt'] * a['length']}) and [{b['time']},{b['time'] + b['dt'] * b['length']})")
        else:
            if b["time"] - (a["time"] + a["dt"] * a["length"]) < gap - left - right:
                msgs.append("peaks separated by less than threshold - extensions")
    for g in groups:                        # no missed duration cut
        end = hit_end(g[0])
        for h in g[1:]:
            if duration(g[0], end) <= max_dur < duration(g[0], max(end, hit_end(h))):
                msgs.append(f"peak keeps hit [{h[0]},{hit_end(h)}) although it then lasts {duration(g[0], max(end, hit_end(h)))} > max_duration {max_dur}")
            end = max(end, hit_end(h))
    # 4. time order
    for a, b in zip(uncut[:-1], uncut[1:]):
        if b["time"] < a["time"]:
            msgs.append("peaks not time-ordered")
    # 5. the cuts select
    min_area, min_ch = fr(case["min_area"]), case["min_ch"]
    expect = [p for p in uncut if p["area"] >= min_area and sum(1 for x in p["apc"] if x != 0) >= min_ch]
    if got != expect:
        diff = ""
        if len(got) == len(expect):
            k = next(i for i, (a, b) in enumerate(zip(got, expect)) if a != b)
            diff = "; peak %d differs in %s" % (k, ",".join(f for f in expect[k] if got[k][f] != expect[k][f]))
        msgs.append(f"cuts: got {len(got)} peaks, the clusters passing min_area={min_area}, min_channels={min_ch} are {len(expect)} "
                    f"(fields as computed from their own hits){diff}")
    return first_failure(msgs)


def down_factor(length, n=N_S):
    return -(-length // n)


def check_downsampled(msgs, what, length0, dt0, wave_in, p):
    """`p` (parsed output peak) must hold `wave_in` (length0 samples of width dt0), down-sampled when too long"""
    f = max(1, down_factor(length0))
    new_len = length0 // f if f > 1 else length0
    if p["length"] != new_len or p["dt"] != dt0 * f:
        msgs.append(f"{what}: length/dt {p['length']}/{p['dt']} != {new_len}/{dt0 * f}")
        return
    stored = sum(p["data"][:p["length"]])
    total = sum(wave_in)
    if stored != total:
        tail = wave_in[new_len * f:]
        if f > 1 and length0 % f != 0 and any(x != 0 for x in tail) and stored + sum(tail) == total:
            msgs.append(f"{KNOWN_TAIL}: {what}: length {length0} into {N_S} samples (factor {f}), tail {show_frs(tail)} lost, "
                        f"sum(data) {stored} != {total}")
        else:
            msgs.append(f"{what}: sum(data) {stored} != {total}")
    for k in range(new_len):
        if p["data"][k] != sum(wave_in[k * f:(k + 1) * f]):
            msgs.append(f"{what}: sample {k} is not the sum of its {f} source samples")
            break


def oracle_store(case, out, aux):
    if out.startswith("err"):
        return f"unexpected {out}"
    _, l, d, data = out.split(" ")
    p = dict(length=int(l), dt=int(d), data=parse_frs(data))
    msgs = []
    check_downsampled(msgs, "store", case["length"], case["dt"], [fr(x) for x in case["buf"]][:case["length"]], p)
    return first_failure(msgs)


def definitional_wave(p, hits, dt, to_pe):
    """sum waveform of [time, time + length*dt) by definition: every hit sample lying inside, scaled"""
    wave = [Fr(0)] * p["length"]
    apc = [Fr(0)] * N_CH
    for h in hits:
        for k, x in enumerate(h[5]):
            t = h[0] + k * dt
            if p["time"] <= t < p["time"] + p["length"] * dt:
                wave[(t - p["time"]) // dt] += fr(x) * to_pe[h[3]]
                apc[h[3]] += fr(x) * to_pe[h[3]]
    return wave, apc


def oracle_sumwf(case, out, aux):
    if not case.get("wellformed", False):
        return None
    if out.startswith("err"):
        return f"well-formed input rejected: {out}"
    got = parse_peaks(out[3:])
    to_pe = [fr(x) for x in case["to_pe"]]
    msgs = []
    if len(got) != len(case["peaks"]):
        return "number of peaks changed"
    last_hit_end = max(hit_end(h) for h in case["hits"])
    for p_in, p in zip(case["peaks"], got):
        if p_in["time"] >= last_hit_end:
            continue                      # hits exhausted: the code stops summing (documented corner)
        wave, apc = definitional_wave(p_in, case["hits"], case["dt"], to_pe)
        what = f"peak@{p_in['time']}"
        if p["time"] != p_in["time"]:
            msgs.append(f"{what}: start time changed")
        if p["area"] != sum(wave):
            msgs.append(f"{what}: area {p['area']} != sum of hit contributions {sum(wave)}")
        if p["apc"] != apc:
            msgs.append(f"{what}: area_per_channel != per-channel sums of hit contributions")
        if sum(p["apc"]) != p["area"]:
            msgs.append(f"{what}: area != sum(area_per_channel)")
        check_downsampled(msgs, what, p_in["length"], p_in["dt"], wave, p)
        if p["time"] + p["dt"] * p["length"] > p_in["time"] + p_in["dt"] * p_in["length"]:
            msgs.append(f"{what}: peak grew beyond its end")
    return first_failure(msgs)


def oracle_merge(case, out, aux):
    if not case.get("wellformed", False):
        return None
    if out.startswith("err"):
        return f"well-formed input rejected: {out}"
    toks = [] if out[3:] == "-" else out[3:].split(",")
    if len(toks) != len(case["ranges"]):
        return "one merged peak per range expected"
    msgs = []
    for tok, (s, e) in zip(toks, case["ranges"]):
        p, endt = parse_peak(tok), int(tok.split(":")[8])
        old = case["peaks"][s:e]
        if case.get("mask") is not None:
            old = [q for q, m in zip(old, case["mask"][s:e]) if m]
        what = f"merge[{s}:{e}]"
        if p["time"] != old[0]["time"]:
            msgs.append(f"{what}: does not start at the first peak")
        last_end = old[-1]["time"] + old[-1]["dt"] * old[-1]["length"]
        if endt != last_end:
            msgs.append(f"{what}: collected endtime {endt} != end of the last peak {last_end}")
        if p["area"] != sum(fr(q["area"]) for q in old):
            msgs.append(f"{what}: area {p['area']} != sum of the merged areas {sum(fr(q['area']) for q in old)}")
        if p["n_hits"] != sum(q["n_hits"] for q in old):
            msgs.append(f"{what}: n_hits not added")
        for ch in range(N_CH):
            if p["apc"][ch] != sum(fr(q["apc"][ch]) for q in old):
                msgs.append(f"{what}: area_per_channel[{ch}] not added")
                break
        if p["time"] + p["dt"] * p["length"] > last_end:
            msgs.append(f"{what}: merged peak extends beyond the last end")
        # waveform: constituents up-sampled to the common dt, zeros in between, then down-sampled
        import math
        common = 0
        for q in old:
            common = math.gcd(common, q["dt"])
        length0 = (last_end - p["time"]) // common
        wave = [Fr(0)] * length0
        for q in old:
            up = q["dt"] // common
            i0 = (q["time"] - p["time"]) // common
            for k in range(q["length"]):
                for j in range(up):
                    wave[i0 + k * up + j] = fr(q["data"][k]) / up
        check_downsampled(msgs, what, length0, common, wave, p)
    return first_failure(msgs)


def touches(a, b):
    return a[0] < b[1] and b[0] < a[1]


def oracle_replace(case, out, aux):
    if not case.get("wellformed", False):
        return None
    if out.startswith("err"):
        return f"well-formed input rejected: {out}"
    orig, merge = [tuple(r) for r in case["orig"]], [tuple(r) for r in case["merge"]]
    res = [] if out[3:] == "-" else [tuple(int(x) for x in t.split(":")) for t in out[3:].split(",")]
    keep = [o for o in orig if not any(touches(o, m) for m in merge)]
    if [r for r in res if r[2] < 1000] != keep:
        return "the untouched original rows are not kept unchanged and in order"
    if [r for r in res if r[2] >= 1000] != merge:
        return "the merged rows are not all present in order"
    if len(res) != len(keep) + len(merge):
        return "extra rows"
    if any(a[0] > b[0] for a, b in zip(res[:-1], res[1:])):
        return "result not sorted by time"
    return None


def oracle_lone(case, out, aux):
    if not case.get("wellformed", False):
        return None
    if out.startswith("err"):
        return f"well-formed input rejected: {out}"
    got = parse_peaks(out[3:])
    to_pe = [fr(x) for x in case["to_pe"]]
    msgs = []
    for p_in, p in zip(case["peaks"], got):
        s, e = p_in["time"], p_in["time"] + p_in["dt"] * p_in["length"]
        inside = [h for h in case["lone"] if s <= h[0] and hit_end(h) <= e]
        # first container wins: peaks are disjoint here, so containment is unique
        add = sum(fr(h[4]) * to_pe[h[3]] for h in inside)
        if p["area"] != fr(p_in["area"]) + add:
            msgs.append(f"peak@{s}: area {p['area']} != old area + contained lone hits {fr(p_in['area']) + add}")
        if sum(p["data"][:p["length"]]) != sum(fr(x) for x in p_in["data"][:p_in["length"]]) + add:
            msgs.append(f"peak@{s}: waveform sum not increased by the contained lone-hit area")
        for ch in range(N_CH):
            if p["apc"][ch] != fr(p_in["apc"][ch]) + sum(fr(h[4]) * to_pe[h[3]] for h in inside if h[3] == ch):
                msgs.append(f"peak@{s}: area_per_channel[{ch}] wrong")
        if (p["time"], p["length"], p["dt"]) != (p_in["time"], p_in["length"], p_in["dt"]):
            msgs.append("time span changed")
    return first_failure(msgs)


def oracle_split(case, out, aux):
    if not case.get("wellformed", False):
        return None
    if out.startswith("err"):
        return f"well-formed split points rejected: {out}"
    frs, mask = out[3:].split(" ")
    frags = [] if frs == "-" else [tuple(int(x) for x in t.split(":")) for t in frs.split(",")]
    i = 0
    for p, m in zip(case["peaks"], mask):
        splits = [s for s in p["splits"] if s != NO_MORE_SPLITS]
        if fr(p["area"]) < fr(case["min_area"]):
            splits = []
        if (m == "1") != bool(splits):
            return "is_split wrong"
        mine = frags[i:i + len(splits)]
        i += len(splits)
        if not splits:
            continue
        if mine[0][0] != p["time"]:
            return "first fragment does not start at the parent's start"
        for a, b in zip(mine[:-1], mine[1:]):
            if a[0] + a[1] * a[2] != b[0]:
                return f"fragments [{a[0]},{a[0] + a[1] * a[2]}) and [{b[0]},…) leave a gap or overlap"
        last = mine[-1]
        if last[0] + last[1] * last[2] != p["time"] + splits[-1] * p["dt"]:
            return "last fragment does not end at the last split point"
        if splits[-1] == p["length"] and last[0] + last[1] * last[2] != p["time"] + p["dt"] * p["length"]:
            return "fragments do not end at the parent's end"
    if i != len(frags):
        return "extra fragments"
    return None


def oracle_splitreal(case, out, aux):
    """splitting tiles the parent's time span without gaps or overlap and conserves the area"""
    if out.startswith("err"):
        return f"unexpected {out}"
    before, after = out[3:].split(" ")
    parents, res = parse_peaks(before), parse_peaks(after)
    dt0 = case["dt"]
    msgs = []
    for p in parents:
        s, e = p["time"], p["time"] + p["dt"] * p["length"]
        inside = [q for q in res if s <= q["time"] and q["time"] + q["dt"] * q["length"] <= e]
        if not inside:
            msgs.append(f"parent [{s},{e}) vanished")
            continue
        if len(inside) == 1 and (inside[0]["time"], inside[0]["length"], inside[0]["dt"]) == (p["time"], p["length"], p["dt"]):
            continue        # not split
        if inside[0]["time"] != s:
            msgs.append(f"fragments of [{s},{e}) start at {inside[0]['time']}")
            continue
        ok = True
        for q, nxt in zip(inside, [x["time"] for x in inside[1:]] + [e]):
            end = q["time"] + q["dt"] * q["length"]
            if end == nxt:
                continue
            ok = False
            # the one recorded way to miss: the fragment [q.time, nxt) of L0 samples did not fit the buffer, was
            # down-sampled by f = ceil(L0 / N_S) and shortened to floor(L0 / f) * f samples (D11 mechanism)
            span = nxt - q["time"]
            l0, rem = divmod(span, dt0)
            f = max(1, down_factor(l0))
            if end < nxt and rem == 0 and f > 1 and q["dt"] == f * dt0 and q["length"] == l0 // f and nxt - end == (l0 % f) * dt0:
                msgs.append(f"{KNOWN_FRAG_SHORT}: fragment [{q['time']},{nxt}) of {l0} samples into {N_S} (factor {f}) stored as "
                            f"{q['length']} x {q['dt']} ns, [{end},{nxt}) of parent [{s},{e}) uncovered")
            elif end < nxt:
                msgs.append(f"fragments of [{s},{e}) leave a gap [{end},{nxt})")
            else:
                msgs.append(f"fragments of [{s},{e}) overlap at {nxt}")
        fsum, stored = sum(q["area"] for q in inside), sum(p["data"][:p["length"]])
        if fsum != p["area"]:
            if p["dt"] > dt0 and fsum == stored:
                # the parent itself lost a non-zero tail when it was down-sampled (D11): its area still counts the tail,
                # its time span and waveform - and therefore the fragments - do not
                msgs.append(f"{KNOWN_TAIL}: parent of split stored as {p['length']} x {p['dt']} ns: area {p['area']}, "
                            f"sum(data) {stored} = sum of the fragment areas")
            else:
                msgs.append(f"fragment areas {fsum} != parent area {p['area']}")
    return first_failure(msgs)


def window_mean(a, w, i):
    lo, hi = max(0, i - w), min(len(a), i + w + 1)
    return sum(a[lo:hi]) / (hi - lo)


def oracle_sma(case, out, aux):
    if out.startswith("err"):
        return f"unexpected {out}"
    a = [fr(x) for x in case["a"]]
    got = parse_frs(out[3:])
    want = [window_mean(a, case["w"], i) for i in range(len(a))]
    if got != want:
        return f"moving average {show_frs(got)} != mean of the in-range samples {show_frs(want)}"
    return None


def reach_index(wave, area, f):
    """first (fractional) index at which the cumulated area reaches f*area; None if never"""
    cum = Fr(0)
    for i, x in enumerate(wave):
        if cum + x >= f * area:
            return Fr(i) + ((f * area - cum) / x if x != 0 else 0)
        cum += x
    return None


def expected_iof(case, fractions):
    """fractions ascending. A fraction that is never reached stays 0; the 100% point is the end of the waveform
    when every lower fraction was reached (that is what `needed_fraction == 1` after the loop says)."""
    wave = [fr(x) for x in case["wave"]][:case["length"]]
    area = fr(case["area"])
    if area <= 0:
        return [Fr(0)] * len(fractions)
    res, pending = [], None
    for f in fractions:
        r = reach_index(wave, area, f)
        if r is None and pending is None:
            pending = f
        res.append(Fr(0) if (r is None or pending is not None) else r)
    if pending is None and fractions:
        pending = fractions[-1]
    if res and pending == 1:
        res[-1] = Fr(case["length"])
    return res


def oracle_iof(case, out, aux):
    if out.startswith("err"):
        return f"unexpected {out}"
    fractions = [fr(x) for x in case["fractions"]]
    if fractions != sorted(fractions) or not all(0 <= f <= 1 for f in fractions) or any(fr(x) < 0 for x in case["wave"]):
        return None                 # the streaming algorithm presupposes ascending fractions: correspondence only
    got, want = parse_frs(out[3:]), expected_iof(case, fractions)
    if got != want:
        return f"index_of_fraction {show_frs(got)} != first index reaching the fraction {show_frs(want)}"
    return None


def oracle_widths(case, out, aux):
    if out.startswith("err"):
        return f"unexpected {out}"
    m, w, d = out[3:].split(" ")
    m, w, d = Fr(m), parse_frs(w), parse_frs(d)
    dt = case.get("dt", 1)
    widths = [Fr(k, 4) for k in range(1, 5)]
    grid = [Fr(k, 8) for k in range(9)]
    times = dict(zip(grid, expected_iof(case, grid)))

    def t(f):
        return times[f] * dt
    if fr(case["area"]) <= 0:
        return None if (m == 0 and not any(w) and not any(d)) else "non-positive area must give zeros"
    if m != t(Fr(1, 2)):
        return f"median_time {m} != time of the 50% area fraction {t(Fr(1, 2))}"
    want_w = [Fr(0)] + [t(Fr(1, 2) + x / 2) - t(Fr(1, 2) - x / 2) for x in widths]
    if w != want_w:
        return f"widths {show_frs(w)} != differences of area-fraction times {show_frs(want_w)}"
    want_d = [t(Fr(k, 4)) - t(Fr(1, 2)) for k in range(5)]
    if d != want_d:
        return f"area_decile_from_midpoint {show_frs(d)} != {show_frs(want_d)}"
    return None


def runs_of(idx):
    runs = []
    for i in sorted(idx):
        if runs and runs[-1][1] == i:
            runs[-1][1] = i + 1
        else:
            runs.append([i, i + 1])
    return runs


def hdr_candidates(data, upper):
    """level sets in the order the algorithm meets them: (set of indices, level below the set)"""
    n = len(data)
    cands = []
    if n < 2:
        return cands
    top = max(data)
    if sum(1 for x in data if x == top) > 1:
        # tied maximum: the first candidate is the single LAST sample of the maximum (stable sort, reversed)
        cands.append(([max(i for i, x in enumerate(data) if x == top)], top))
    for v in sorted(set(data), reverse=True):
        if v < top:
            cands.append(([i for i, x in enumerate(data) if x > v], v))
    return cands


def expected_hdr(case):
    """definition: per fraction the maximal runs of the smallest level set holding the fraction (mass above the
    level when only_upper_part), the whole range if none does, all -1 if the runs do not fit into the buffer"""
    data = [fr(x) for x in case["data"]]
    area, n, buf = sum(data), len(data), case["buf"]
    rows, amps = [], []
    for f in [fr(x) for x in case["fractions"]]:
        for S, v in hdr_candidates(data, case["upper"]):
            low = v if case["upper"] else 0
            mass = sum(data[i] - low for i in S)
            if mass >= f * area:
                runs = [tuple(r) for r in runs_of(S)]
                rows.append([(-1, -1)] * buf if len(runs) > buf else runs + [(0, 0)] * (buf - len(runs)))
                g = f * area / mass if mass else None
                amps.append(None if g is None else (1 - g) * sum(data[i] for i in S) / len(S) + g * low)
                break
        else:
            rows.append([(0, n)] + [(0, 0)] * (buf - 1))
            amps.append((1 - f) * area / n)
    return rows, amps


def oracle_hdr(case, out, aux):
    data = [fr(x) for x in case["data"]]
    area = sum(data)
    if area <= 0:
        return None if out == "err ValueError" else "non-positive total must be rejected"
    if out.startswith("err"):
        return f"unexpected {out}"
    rows = [] if out[3:] == "-" else out[3:].split(" ")
    fractions = [fr(x) for x in case["fractions"]]
    if fractions != sorted(fractions) or any(f <= 0 for f in fractions) or any(x < 0 for x in data):
        return None                         # unsorted / zero fractions, negative samples: correspondence only
    want_rows, want_amps = expected_hdr(case)
    if len(rows) != len(fractions):
        return "one result row per fraction expected"
    for k, (f, row) in enumerate(zip(fractions, rows)):
        iv = [tuple(int(x) for x in t.split(":")) for t in row.split(";")]
        if iv != want_rows[k]:
            def show(r):
                return ";".join(f"{a}:{b}" for a, b in r)
            return (f"fraction {f}: intervals {show(iv)} != maximal runs of the smallest level set holding the fraction "
                    f"{show(want_rows[k])} (buffer of {case['buf']} intervals)")
        if aux is not None and want_amps[k] is not None and iv[0] != (-1, -1):
            if abs(aux[k] - float(want_amps[k])) > 1e-5 * max(1.0, abs(float(want_amps[k]))):
                return f"fraction {f}: amplitude {aux[k]} != {want_amps[k]}"
    return None


# ----------------------------------------------------------------------------- generators
AREAS = [1, 2, 3, "1/2", 4]
TOPES = [1, 2, "1/2", "1/4", 3]


def gen_hits(rng, n, n_ch, dt=1, t_max=40, sorted_=True, max_len=4, areas=AREAS):
    ts = [rng.randint(0, t_max) for _ in range(n)]
    if sorted_:
        ts.sort()
    return [[t * dt, rng.randint(1, max_len), dt, rng.randrange(n_ch), rng.choice(areas)] for t in ts]


def fp_cases(ctx):
    rng = ctx.rng
    exh, rnd, bad = [], [], []
    # exhaustive small scope: 1..3 unit hits on a short grid, every parameter combination
    grid = ctx.pick(7, 9)
    for n in (1, 2, 3):
        for ts in itertools.combinations_with_replacement(range(grid), n):
            for lens in itertools.product((1, 3), repeat=n):
                chans = [i % 2 for i in range(n)]
                hits = [[t, l, 1, c, 1] for t, l, c in zip(ts, lens, chans)]
                for gap, left, right in ((2, 0, 0), (3, 1, 1), (4, 2, 1), (6, 1, 3)):
                    for max_dur in (8, 13, 1000):
                        for min_area, min_ch in ((0, 1), (2, 1), (0, 2)):
                            exh.append(dict(hits=hits, to_pe=[1, 1, 1, 1], gap=gap, left=left, right=right, min_area=min_area,
                                            min_ch=min_ch, max_dur=max_dur, wellformed=True))
    for _ in range(ctx.pick(6000, 60000)):
        n_ch = rng.randint(1, 4)
        dt = rng.choice([1, 1, 2])
        hits = gen_hits(rng, rng.randint(1, 12), n_ch, dt=dt, t_max=rng.choice([12, 25, 40]))
        left, right = rng.randint(0, 3) * dt, rng.randint(0, 4) * dt
        gap = left + right + rng.randint(1, 8)
        rnd.append(dict(hits=hits, to_pe=[rng.choice(TOPES) for _ in range(N_CH)], gap=gap, left=left, right=right,
                        min_area=rng.choice([0, 0, 1, 2, 4, "7/2"]), min_ch=rng.choice([1, 1, 2, 3]),
                        max_dur=rng.choice([8, 15, 25, 40, 60, 10_000_000, 10_000_000]), wellformed=True))
    for _ in range(ctx.pick(1500, 15000)):
        n_ch = rng.randint(1, 4)
        hits = gen_hits(rng, rng.randint(0, 8), n_ch, sorted_=rng.random() < 0.5, areas=[0, 1, 2, -1, "1/2"])
        c = dict(hits=hits, to_pe=[rng.choice([0, 1, 2, "1/2"]) for _ in range(rng.choice([N_CH, N_CH, n_ch]))],
                 gap=rng.randint(1, 8), left=rng.randint(-1, 3), right=rng.randint(-1, 3), min_area=rng.choice([0, 1, -1]),
                 min_ch=rng.choice([0, 1, 2]), max_dur=rng.choice([-5, 0, 6, 20, 429496729400]), wellformed=False)
        why = rng.choice(["neglen", "dt", "plain", "plain"])
        if hits and why == "neglen":
            hits[rng.randrange(len(hits))][1] = rng.randint(-6, 0)
        if hits and why == "dt":
            hits[rng.randrange(len(hits))][2] = rng.choice([0, 2, -1, 3])
        bad.append(c)
    return exh, rnd, bad


def wave_hits(rng, n, n_ch, dt, t_max, alphabet=(0, 1, 2, 4, -1)):
    ts = sorted(rng.randint(0, t_max) for _ in range(n))
    hits = []
    for t in ts:
        ln = rng.randint(1, 5)
        w = [rng.choice(alphabet) for _ in range(ln)]
        hits.append([t * dt, ln, dt, rng.randrange(n_ch), sum(w), w])
    return hits


def sumwf_cases(ctx):
    rng = ctx.rng
    good, bad = [], []
    # the defect witness D11 first: 5 samples into a 4(8)-sample buffer
    good.append(dict(dt=1, to_pe=[1, 1, 1, 1], hits=[[8, 1, 1, 0, 7, [7]]], peaks=[dict(time=0, length=9, dt=1)], wellformed=True))
    for _ in range(ctx.pick(2500, 25000)):
        dt = rng.choice([1, 1, 2])
        n_ch = rng.randint(1, 4)
        hits = wave_hits(rng, rng.randint(1, 10), n_ch, dt, rng.choice([10, 20, 30]))
        # disjoint sorted peaks on the sample grid, some longer than the buffer (down-sampling), some missing hits
        peaks, t = [], rng.randint(-3, 3)
        for _k in range(rng.randint(1, 4)):
            ln = rng.choice([1, 2, 3, 5, 7, 8, 9, 10, 12, 15, 16, 17, 20])
            peaks.append(dict(time=t * dt, length=ln, dt=dt))
            t += ln + rng.randint(0, 6)
        good.append(dict(dt=dt, to_pe=[rng.choice(TOPES) for _ in range(N_CH)], hits=hits, peaks=peaks, wellformed=True))
    for _ in range(ctx.pick(600, 6000)):
        dt = rng.choice([1, 2])
        hits = wave_hits(rng, rng.randint(1, 6), 2, dt, 15)
        if rng.random() < 0.3:
            rng.shuffle(hits)
        peaks = [dict(time=rng.randint(-2, 20), length=rng.choice([0, 1, 4, 9, 12]), dt=rng.choice([dt, dt, 3 - dt])) for _ in range(rng.randint(1, 3))]
        bad.append(dict(dt=dt, to_pe=[1, 2, 1, 1], hits=hits, peaks=peaks, wellformed=False))
    return good, bad


def gen_peaks(rng, n, dts=(1, 2, 4), max_len=6, with_data=True, t0=0, gap=(0, 5)):
    """disjoint sorted peaks on a grid where every start is a multiple of its dt"""
    peaks, t = [], t0
    for _ in range(n):
        dt = rng.choice(dts)
        t = -(-t // 4) * 4 if rng.random() < 0.7 else -(-t // dt) * dt
        ln = rng.randint(1, max_len)
        data = ([rng.choice([0, 4, 8, 12, 2, 1]) for _ in range(ln)] + [0] * N_S)[:N_S] if with_data else [0] * N_S
        apc = [rng.choice([0, 1, 2, "1/2"]) for _ in range(N_CH)]
        peaks.append(dict(time=t, length=ln, dt=dt, area=sum(fr(x) for x in data[:ln]), n_hits=rng.randint(0, 5), apc=apc, data=data))
        t = t + ln * dt + rng.randint(*gap)
    return peaks


def jsonable(p):
    return {k: (show_fr(v) if isinstance(v, Fr) else v) for k, v in p.items()}


def merge_cases(ctx):
    rng = ctx.rng
    good, bad = [], []
    for _ in range(ctx.pick(500, 5000)):
        n = rng.randint(2, 5)
        peaks = [jsonable(p) for p in gen_peaks(rng, n, dts=rng.choice([(1,), (1, 2), (1, 2, 4), (2, 4)]))]
        # every single range, exhaustively
        for s in range(n):
            for e in range(s + 1, n + 1):
                good.append(dict(peaks=peaks, ranges=[[s, e]], mask=None, wellformed=True))
        # several disjoint ranges in one call, and a mask
        cuts = sorted(rng.sample(range(n + 1), rng.randint(2, min(4, n + 1))))
        good.append(dict(peaks=peaks, ranges=[[a, b] for a, b in zip(cuts[:-1], cuts[1:])], mask=None, wellformed=True))
        mask = [rng.random() < 0.7 for _ in range(n)]
        s = rng.randrange(n)
        e = rng.randint(s + 1, n)
        c = dict(peaks=peaks, ranges=[[s, e]], mask=mask, wellformed=any(mask[s:e]))
        (good if c["wellformed"] else bad).append(c)
    for _ in range(ctx.pick(300, 3000)):
        n = rng.randint(1, 4)
        peaks = [jsonable(p) for p in gen_peaks(rng, n, gap=(-3, 3), max_len=rng.choice([6, 6, 10]))]
        s = rng.randrange(n)
        bad.append(dict(peaks=peaks, ranges=[[s, rng.randint(s + 1, n)]], mask=None, wellformed=False))
    return good, bad


def replace_cases(ctx):
    rng = ctx.rng
    good, bad = [], []

    def origs(n, exact):
        rows, t = [], rng.randint(0, 3)
        for i in range(n):
            ln = rng.randint(1, 4)
            rows.append([t, t + ln, i])
            t += ln + (0 if exact and rng.random() < 0.3 else rng.randint(0, 3))
        return rows
    # exhaustive: every set of disjoint index ranges of <= 5 disjoint originals, merged row = span of the range
    for n in range(1, ctx.pick(5, 6) + 1):
        rows = origs(n, True)
        bounds = range(n + 1)
        for k in range(1, 4):
            for cuts in itertools.combinations(bounds, 2 * k):
                pairs = [(cuts[2 * j], cuts[2 * j + 1]) for j in range(k)]
                merge = [[rows[s][0], rows[e - 1][1], 1000 + j] for j, (s, e) in enumerate(pairs)]
                good.append(dict(orig=rows, merge=merge, wellformed=True))
    for _ in range(ctx.pick(1500, 15000)):
        n = rng.randint(0, 7)
        rows = origs(n, False)
        merge, k = [], 0
        i = 0
        while i < n:
            if rng.random() < 0.4:
                e = rng.randint(i + 1, n)
                a = rows[i][0] - (rng.randint(0, 1) if i == 0 or rows[i - 1][1] < rows[i][0] else 0)
                b = rows[e - 1][1] + (rng.randint(0, 1) if e == n or rows[e][0] > rows[e - 1][1] else 0)
                merge.append([a, b, 1000 + k])
                k += 1
                i = e
            else:
                i += 1
        good.append(dict(orig=rows, merge=merge, wellformed=True))
    for _ in range(ctx.pick(500, 5000)):
        n = rng.randint(0, 5)
        rows = origs(n, False)
        # merged rows in gaps / beyond the end / unsorted: must agree with the model (assertions), no oracle
        merge = sorted([[t, t + rng.randint(0, 2), 1000 + j] for j, t in enumerate(rng.sample(range(0, 30), rng.randint(1, 3)))])
        if any(sum(1 for m in merge if touches(o, m)) > 1 for o in rows):
            continue
        if rng.random() < 0.2:
            merge.reverse()
        bad.append(dict(orig=rows, merge=merge, wellformed=False))
    return good, bad


def lone_cases(ctx):
    rng = ctx.rng
    good, bad = [], []
    for _ in range(ctx.pick(1500, 15000)):
        peaks = [jsonable(p) for p in gen_peaks(rng, rng.randint(1, 4), gap=(0, 6))]
        lone = []
        for _k in range(rng.randint(0, 6)):
            t = rng.randint(-2, peaks[-1]["time"] + 30)
            lone.append([t, rng.randint(1, 3), 1, rng.randrange(N_CH), rng.choice(AREAS)])
        lone.sort(key=lambda h: h[0])
        good.append(dict(peaks=peaks, lone=lone, to_pe=[rng.choice(TOPES) for _ in range(N_CH)], wellformed=True))
    for _ in range(ctx.pick(300, 3000)):
        peaks = [jsonable(p) for p in gen_peaks(rng, rng.randint(1, 3), gap=(0, 6))]
        lone = [[rng.randint(-2, 30), rng.randint(-1, 3), 1, rng.randrange(N_CH), 1] for _k in range(rng.randint(1, 4))]
        bad.append(dict(peaks=peaks, lone=lone, to_pe=[1, 1, 1, 1], wellformed=False))
    return good, bad


def split_cases(ctx):
    rng = ctx.rng
    good, bad = [], []
    # exhaustive: every increasing list of split points of a peak of <= 5 samples, closed at the end or not
    for length in range(1, ctx.pick(5, 6) + 1):
        for k in range(0, length + 1):
            for pts in itertools.combinations(range(1, length + 1), k):
                for dt, orig_dt in ((1, 1), (2, 1), (4, 2), (2, 2)):
                    for tail in ([], [NO_MORE_SPLITS]):
                        good.append(dict(peaks=[dict(time=8, length=length, dt=dt, area=5, splits=list(pts) + tail)], orig_dt=orig_dt,
                                         min_area=0, wellformed=True))
    for _ in range(ctx.pick(800, 8000)):
        peaks, t = [], 0
        for _k in range(rng.randint(1, 4)):
            ln, dt = rng.randint(1, 8), rng.choice([1, 2, 4])
            pts = sorted(rng.sample(range(1, ln + 1), rng.randint(0, min(3, ln))))
            if pts and rng.random() < 0.7:
                pts = sorted(set(pts + [ln]))
            peaks.append(dict(time=t, length=ln, dt=dt, area=rng.choice([0, 1, 5]), splits=pts + [NO_MORE_SPLITS]))
            t += ln * dt + rng.randint(0, 4)
        good.append(dict(peaks=peaks, orig_dt=1, min_area=rng.choice([0, 1, 3]), wellformed=True))
    for _ in range(ctx.pick(500, 5000)):
        ln, dt = rng.randint(1, 6), rng.choice([1, 2, 3])
        pts = [rng.randint(-1, ln + 1) for _k in range(rng.randint(1, 3))]
        bad.append(dict(peaks=[dict(time=3, length=ln, dt=dt, area=2, splits=pts)], orig_dt=rng.choice([1, 2, 0]), min_area=0,
                        wellformed=False))
    return good, bad


def splitreal_cases(ctx):
    rng = ctx.rng
    cases = []
    while len(cases) < ctx.pick(300, 3000):
        # two to four bumps in one or two channels and one parent peak spanning everything, with or without zero samples
        # after the last hit; parents of 4..40 samples, i.e. also parents (and fragments) longer than the N_S-sample buffer
        wide = rng.random() < 0.5
        bumps = [rng.choice([[8], [8], [4, 8], [8, 4], [8, 8]] + ([[8] * 6, [4, 8, 8, 8, 4], [8] * 8] if wide else []))
                 for _k in range(rng.randint(2, 4 if wide else 3))]
        hits, t = [], rng.randint(0, 1)
        for b in bumps:
            hits.append([t, len(b), 1, rng.randrange(2), sum(b), b])
            t += len(b) + rng.randint(1, 8 if wide else 2)
        end = hit_end(hits[-1]) + rng.choice([0, 0, 1, 2])
        alg = rng.choice(["local_minimum", "natural_breaks"])
        cases.append(dict(dt=1, to_pe=[1, 1, 1, 1], hits=hits, peaks=[dict(time=0, length=end, dt=1)], algorithm=alg,
                          min_height=1, threshold=rng.choice(["1/8", "1/2"])))
    return cases


def helper_cases(ctx):
    rng = ctx.rng
    sma, iof, widths, hdr = [], [], [], []
    alpha = (0, 1, 2, 5)
    for n in range(0, ctx.pick(5, 6) + 1):
        for a in itertools.product(alpha[:3] if n > 4 else alpha, repeat=n):
            for w in range(0, n + 3):
                sma.append(dict(a=list(a), w=w))
    for _ in range(ctx.pick(1500, 15000)):
        n = rng.randint(1, 8)
        sma.append(dict(a=[rng.choice([0, 1, 2, 3, 7, -2, "1/2"]) for _ in range(n)], w=rng.randint(0, n + 2), f64=rng.random() < 0.7))
    # index_of_fraction / compute_widths: exhaustive waveforms whose total is a power of two
    fr_sets = [["1/2"], ["0", "1/4", "1/2", "3/4", "1"], ["1/8", "1/2", "7/8"], ["1/4", "1/4", "1"], ["3/4", "1/4"], ["1"], ["0"]]
    n_max = ctx.pick(5, 6)
    for n in range(1, n_max + 1):
        for wv in itertools.product((0, 1, 2, 3, 4), repeat=n):
            s = sum(wv)
            if s in (1, 2, 4, 8, 16):
                for frs in fr_sets[: (len(fr_sets) if n <= 4 else 3)]:
                    iof.append(dict(wave=list(wv), length=n, area=s, fractions=frs))
                if n <= 5:
                    widths.append(dict(wave=list(wv), length=n, area=s, dt=rng.choice([1, 2, 10])))
    for _ in range(ctx.pick(800, 8000)):
        n = rng.randint(1, 8)
        wv = [rng.choice([0, 0, 1, 2, 4, "1/2"]) for _ in range(n)]
        area = rng.choice([1, 2, 4, 8, 16, 0, -2])          # area need not equal the waveform sum
        ln = rng.randint(0, n)
        iof.append(dict(wave=wv, length=ln, area=area, fractions=rng.choice(fr_sets)))
        widths.append(dict(wave=wv, length=ln, area=area, dt=rng.choice([1, 2, 10])))
    # highest density region
    f_sets = [["1/2"], ["1/4", "1/2", "3/4"], ["1/8", "7/8"], ["1"], ["3/4", "1/4"], []]
    for n in range(1, ctx.pick(5, 6) + 1):
        for d in itertools.product((0, 1, 2, 3), repeat=n):
            for fs in f_sets[: (len(f_sets) if n <= 4 else 2)]:
                for upper in (0, 1):
                    hdr.append(dict(data=list(d), fractions=fs, upper=upper, buf=10))
    for _ in range(ctx.pick(1500, 15000)):
        n = rng.randint(1, 8)
        hdr.append(dict(data=[rng.choice([0, 1, 2, 3, 5, "1/2"]) for _ in range(n)], fractions=rng.choice(f_sets), upper=rng.randint(0, 1),
                        buf=rng.choice([10, 10, 1, 2])))
    # buffer edge (D30): regions with exactly _buffer_size - 1, _buffer_size, _buffer_size + 1, _buffer_size + 2 intervals
    for buf in (1, 2, 3):
        for nruns in range(max(1, buf - 1), buf + 3):
            for hi, lo, tail in ((3, 0, []), (2, 1, [0]), (3, 0, [1])):
                d = []
                for _k in range(nruns):
                    d += [hi, lo]
                d = (d + tail)[:8]
                for upper in (0, 1):
                    hdr.append(dict(data=d, fractions=["1/2", "7/8", "1"], upper=upper, buf=buf))
    return sma, iof, widths, hdr


# ----------------------------------------------------------------------------- epoch-scale times
T0 = 1_700_000_000_000_000_137


def shift_case(kind, case, t0=T0):
    """the same case with every time moved by t0 (durations, dt, lengths, thresholds untouched)"""
    c = json.loads(json.dumps(case))
    for h in c.get("hits", []) + c.get("lone", []):
        h[0] += t0
    for p in c.get("peaks", []):
        p["time"] += t0
    for key in ("orig", "merge"):
        if kind == "replace":
            c[key] = [[r[0] + t0, r[1] + t0, r[2]] for r in c[key]]
    return c


# ----------------------------------------------------------------------------- run
def _components(ctx):
    comps = []        # (name, kind, cases, to_op, oracle, kwargs)
    fp_exh, fp_rnd, fp_bad = fp_cases(ctx)
    nhits = lambda c, o: len(c["hits"]) >= 2  # noqa: E731

    def fp_branch(c, o):
        if o.startswith("err"):
            return o
        return f"peaks={min(o.count(',') + 1 if o != 'ok -' else 0, 5)}"
    comps.append(("find_peaks/exhaustive", "findpeaks", fp_exh, op_findpeaks, oracle_findpeaks, dict(
        exhaustive=True, nontrivial=nhits, branch=fp_branch,
        rule="1..3 hits of length 1 or 3 at all sorted positions of a short grid x 4 (gap, left, right) x 3 max_duration x 3 cut settings; non-trivial = at least 2 hits")))
    comps.append(("find_peaks/random", "findpeaks", fp_rnd, op_findpeaks, oracle_findpeaks, dict(
        nontrivial=nhits, branch=fp_branch,
        rule="1..12 sorted hits x 1..4 channels on grids 12/25/40, dt 1|2, dyadic areas and to_pe, thresholds/extensions/durations/cuts swept")))
    comps.append(("find_peaks/malformed", "findpeaks", fp_bad, op_findpeaks, oracle_findpeaks, dict(
        nontrivial=nhits, branch=fp_branch,
        rule="unsorted hits, non-positive lengths, dt 0 / mixed / negative, failing assertions, zero and negative areas: agreement with the model only")))
    st = [dict(length=ln, dt=dt, buf=[(7 * k + 3 * ln) % 5 if (k + ln) % 3 else 0 for k in range(ln)]) for ln in range(0, 3 * N_S + 2) for dt in (1, 2)]
    st += [dict(length=ln, dt=1, buf=[0] * (ln - 1) + [7]) for ln in range(1, 3 * N_S + 2)]
    comps.append(("store_downsampled", "store", st, op_store, oracle_store, dict(
        exhaustive=True, nontrivial=lambda c, o: c["length"] > N_S, branch=lambda c, o: f"factor={max(1, down_factor(c['length']))}",
        rule=f"every length 0..{3 * N_S + 1} into a {N_S}-sample buffer, two fillings (mixed, single hit in the last sample); non-trivial = down-sampled")))
    sw_good, sw_bad = sumwf_cases(ctx)
    comps.append(("sum_waveform", "sumwf", sw_good, op_sumwf, oracle_sumwf, dict(
        nontrivial=lambda c, o: len(c["hits"]) >= 2, branch=lambda c, o: "err" if o.startswith("err") else f"peaks={len(c['peaks'])},down={sum(1 for p in c['peaks'] if p['length'] > N_S)}",
        rule="1..10 hits (1..5 integer samples, 1..4 channels, dt 1|2) x 1..4 disjoint peaks of 1..20 samples (buffer 8: factors 1..3), dyadic to_pe")))
    comps.append(("sum_waveform/malformed", "sumwf", sw_bad, op_sumwf, oracle_sumwf, dict(
        rule="unsorted hits, overlapping/unsorted peaks, empty peaks, dt mismatch: agreement with the model only")))
    mg_good, mg_bad = merge_cases(ctx)
    comps.append(("merge_peaks", "merge", mg_good, op_merge, oracle_merge, dict(
        nontrivial=lambda c, o: any(e - s >= 2 for s, e in c["ranges"]), branch=lambda c, o: "err" if o.startswith("err") else f"ranges={len(c['ranges'])},mask={c['mask'] is not None}",
        rule="2..5 disjoint peaks with dt in {1,2,4}: every index range [s,e) (exhaustive per peak list), several ranges per call, masks")))
    comps.append(("merge_peaks/malformed", "merge", mg_bad, op_merge, oracle_merge, dict(
        branch=lambda c, o: o.split(" ")[0] + ("" if o.startswith("ok") else ":" + o.split(" ")[1]),
        rule="overlapping peaks, a single-row peak array, peaks longer than the buffer, all-false masks: agreement with the model only")))
    rp_good, rp_bad = replace_cases(ctx)
    comps.append(("replace_merged", "replace", rp_good, op_replace, oracle_replace, dict(
        nontrivial=lambda c, o: len(c["merge"]) >= 1 and len(c["orig"]) >= 2, branch=lambda c, o: f"merge={len(c['merge'])}",
        rule="exhaustive: every set of <= 3 disjoint index ranges of 1..5 disjoint originals (merged row = span); random: 0..7 originals, merged spans widened into the gaps")))
    comps.append(("replace_merged/malformed", "replace", rp_bad, op_replace, oracle_replace, dict(
        branch=lambda c, o: o.split(" ")[0] + ("" if o.startswith("ok") else ":" + o.split(" ")[1]),
        rule="merged rows inside gaps, behind the end, unsorted, zero length: agreement with the model only")))
    ln_good, ln_bad = lone_cases(ctx)
    comps.append(("add_lone_hits", "lone", ln_good, op_lone, oracle_lone, dict(
        nontrivial=lambda c, o: len(c["lone"]) >= 1, rule="1..4 disjoint peaks (dt 1|2|4) x 0..6 sorted lone hits inside, straddling and outside")))
    comps.append(("add_lone_hits/malformed", "lone", ln_bad, op_lone, oracle_lone, dict(rule="unsorted / negative-length lone hits")))
    sp_good, sp_bad = split_cases(ctx)
    comps.append(("split_peaks", "split", sp_good, op_split, oracle_split, dict(
        exhaustive=True, nontrivial=lambda c, o: any(len(p["splits"]) >= 2 for p in c["peaks"]),
        branch=lambda c, o: "err" if o.startswith("err") else f"frags={min(o.count(',') + 1 if not o.startswith('ok - ') else 0, 6)}",
        rule="every increasing list of split indices of a peak of 1..5 samples x 4 (dt, orig_dt) x with/without NO_MORE_SPLITS; random lists of 1..4 peaks with min_area")))
    comps.append(("split_peaks/malformed", "split", sp_bad, op_split, oracle_split, dict(
        branch=lambda c, o: o.split(" ")[0] + ("" if o.startswith("ok") else ":" + o.split(" ")[1]),
        rule="non-increasing / out-of-range split indices, orig_dt 0 or not dividing dt: agreement with the model only")))
    comps.append(("split_peaks/real_splitters", "splitreal", splitreal_cases(ctx), None, oracle_splitreal, dict(
        branch=lambda c, o: c["algorithm"] + (":down-sampled parent" if c["peaks"][0]["length"] > N_S else ""),
        nontrivial=lambda c, o: o.startswith("ok") and o.split(" ")[2].count(",") >= 1,
        rule="strax.split_peaks end to end (hits -> sum_waveform -> LocalMinimumSplitter / NaturalBreaksSplitter) on parents of 4..40 samples (buffer 8): tiling and area conservation, oracle only; non-trivial = actually split")))
    # epoch-scale timestamps: the same inputs with every TIME shifted to a real acquisition epoch (~1.7e18 ns, beyond
    # 2**53): exact int64 arithmetic is translation invariant (and so is the model over unbounded Int), float64 is not
    n_ep = ctx.pick(1, 10)
    for name, kind, cases, to_op, oracle, n in (
            ("find_peaks", "findpeaks", fp_exh[::37] + fp_rnd, op_findpeaks, oracle_findpeaks, 1500),
            ("sum_waveform", "sumwf", sw_good, op_sumwf, oracle_sumwf, 500),
            ("merge_peaks", "merge", mg_good, op_merge, oracle_merge, 800),
            ("replace_merged", "replace", rp_good[::3] + rp_bad, op_replace, oracle_replace, 600),
            ("add_lone_hits", "lone", ln_good, op_lone, oracle_lone, 400),
            ("split_peaks", "split", sp_good[::2] + sp_bad, op_split, oracle_split, 700),
            ("split_peaks/real_splitters", "splitreal", None, None, oracle_splitreal, 100)):
        if cases is None:
            cases = next(c[2] for c in comps if c[0] == name)
        comps.append(("epoch/" + name, kind, [shift_case(kind, c) for c in cases[:n * n_ep]], to_op, oracle, dict(
            nontrivial=lambda c, o: True, branch=lambda c, o: o.split(" ")[0] + ("" if o.startswith("ok") else ":" + o.split(" ")[1]),
            rule=f"the first cases of `{name}` with every hit / peak / row time shifted by T0 = {T0} (int64-safe; dt, lengths, thresholds small)")))
    lm = [dict(w=list(w), mh=mh, mr=mr) for n in range(1, ctx.pick(6, 7) + 1) for w in itertools.product((0, 1, 2, 4), repeat=n)
          for mh, mr in ((0, 0), (1, 0), (1, 2), (3, "1/2"))]
    comps.append(("local_minimum_split_points", "lmsplit", lm, op_lmsplit, oracle_lmsplit, dict(
        exhaustive=True, nontrivial=lambda c, o: "," in o, branch=lambda c, o: f"splits={max(0, o.count(',') - 1)}",
        rule="LocalMinimumSplitter.find_split_points on every waveform of <= 6 samples over {0,1,2,4} x 4 (min_height, min_ratio); non-trivial = at least one split")))
    sma, iof, widths, hdr = helper_cases(ctx)
    comps.append(("symmetric_moving_average", "sma", sma, op_sma, oracle_sma, dict(
        exhaustive=True, nontrivial=lambda c, o: c["w"] >= 1 and len(c["a"]) >= 2, branch=lambda c, o: "w>n" if c["w"] > len(c["a"]) else ("w=0" if c["w"] == 0 else "w<=n"),
        rule="every waveform of <= 5 samples over {0,1,2,5} x wing 0..n+2; random waveforms of 1..8 samples (float32 and float64)")))
    comps.append(("index_of_fraction", "iof", iof, op_iof, oracle_iof, dict(
        exhaustive=True, nontrivial=lambda c, o: c["length"] >= 2,
        rule="every waveform of <= 5 samples over {0..4} with power-of-two total x 7 dyadic fraction lists; random with area != sum, short lengths, non-positive area")))
    comps.append(("compute_widths", "widths", widths, op_widths, oracle_widths, dict(
        nontrivial=lambda c, o: c["length"] >= 2, rule="same waveforms, n_widths = 5 (fractions k/8), dt in {1,2,10}")))
    comps.append(("highest_density_region", "hdr", hdr, op_hdr, oracle_hdr, dict(
        exhaustive=True, nontrivial=lambda c, o: len(c["data"]) >= 3 and len(c["fractions"]) >= 1, branch=lambda c, o: ("err" if o.startswith("err") else ("fill-1" if "-1:-1" in o else "ok")) + f":upper={c['upper']}",
        rule="every distribution of <= 5 samples over {0..3} x 6 fraction lists x both modes; random 1..8 samples, buffer sizes 1,2,10; buffer-edge inputs with _buffer_size-1 .. _buffer_size+2 intervals for sizes 1,2,3")))
    return comps


GROUPS = [("findpeaks",), ("sumwf", "store"), ("merge",), ("replace", "lone"), ("split", "lmsplit"), ("splitreal",), ("sma", "iof", "widths", "hdr")]


CRASH = "err Crash"


def _run_isolated(job):
    """run one job in a fresh single-worker pool; None if the worker died"""
    mp = multiprocessing.get_context("fork")
    try:
        with ProcessPoolExecutor(max_workers=1, mp_context=mp) as ex:
            return ex.submit(_worker, job).result()
    except BrokenProcessPool:
        return None


def isolate_crash(job, notes, max_launches=60, want=3):
    """A worker died (numba code without bounds checks can corrupt memory). Re-run the job's components in
    fresh processes: first whole, then in chunks of 64, then by bisection inside dying chunks, until `want`
    single cases are pinned or `max_launches` processes were spent. A pinned case gets the output `err Crash`
    (which no oracle and no model accepts); cases that could not be resolved get no result (None) and are left
    out of the comparison — the caller records a violation without input if nothing could be pinned."""
    out = {}
    for name, kind, cases in job:
        res = _run_isolated([(name, kind, cases)])
        if res is not None:
            out.update(res)
            continue
        results = [None] * len(cases)
        todo = [(lo, min(lo + 64, len(cases))) for lo in range(0, len(cases), 64)][::-1]
        pinned, launches = 0, 0
        while todo and launches < max_launches and pinned < want:
            lo, hi = todo.pop()
            launches += 1
            r = _run_isolated([(name, kind, cases[lo:hi])])
            if r is not None:
                results[lo:hi] = r[name]
            elif hi - lo == 1:
                results[lo] = (CRASH, None)
                pinned += 1
            else:
                mid = (lo + hi) // 2
                todo += [(mid, hi), (lo, mid)]
        unresolved = sum(1 for r in results if r is None)
        notes.append((name, pinned, unresolved))
        out[name] = results
    return out


def evaluate(comps, notes=None):
    """run the implementation side of all components in parallel forked workers"""
    notes = [] if notes is None else notes
    jobs = [[] for _ in GROUPS]
    for name, kind, cases, *_ in comps:
        gi = next(i for i, g in enumerate(GROUPS) if kind in g)
        jobs[gi].append((name, kind, cases))
    jobs = [j for j in jobs if j]
    mp = multiprocessing.get_context("fork")
    results = {}
    crashed = []
    with ProcessPoolExecutor(max_workers=min(len(GROUPS), os.cpu_count() or 2), mp_context=mp) as ex:
        futs = [(j, ex.submit(_worker, j)) for j in jobs]
        for j, f in futs:
            try:
                results.update(f.result())
            except BrokenProcessPool:
                crashed.append(j)
    # a dying worker breaks the whole pool: every job without a result is re-run in isolation
    for j in crashed:
        results.update(isolate_crash(j, notes))
    return results


KNOWN_PHRASES = (KNOWN_TAIL, KNOWN_DURATION, KNOWN_DOUBLE_LEFT, KNOWN_FRAG_SHORT)


def run(ctx):
    if getattr(ctx.driver, "private", 0) is None and hasattr(ctx.driver, "snapshot") and ctx.model_available:
        ctx.driver.snapshot()          # before the (long) implementation phase: another build may replace the binary
    comps = _components(ctx)
    notes = []
    results = evaluate(comps, notes)
    for name, pinned, unresolved in notes:
        ctx.note(f"{name}: a worker process died while running the real code; {pinned} input(s) pinned, {unresolved} left out")
        if not pinned:
            ctx.violation(name, "correspondence", None, {"crash": "worker process died (memory corruption in a numba kernel?)",
                                                         "unresolved_cases": unresolved},
                          f"the real code runs the {name} inputs without crashing the process", False)
    for name, kind, cases, to_op, oracle, kw in comps:
        keep = [i for i, r in enumerate(results[name]) if r is not None]
        cases = [cases[i] for i in keep]
        results[name] = [results[name][i] for i in keep]
        table = {json.dumps(c, sort_keys=True): r for c, r in zip(cases, results[name])}
        seen = {k: 0 for k in KNOWN_PHRASES}

        def impl(c, table=table):
            return table[json.dumps(c, sort_keys=True)][0]

        def orc(c, o, table=table, oracle=oracle, seen=seen):
            if o == CRASH:
                return "the real code crashed the worker process on this input (memory corruption in a numba kernel)"
            msg = oracle(c, o, table[json.dumps(c, sort_keys=True)][1])
            # the engine keeps 5 violations per component: a recorded finding must not use them all up,
            # otherwise it would mask any OTHER violation of the same component
            for k in KNOWN_PHRASES:
                if msg and k in msg:
                    seen[k] += 1
                    if seen[k] > 2:
                        return None
            return msg
        ctx.correspond(name, cases, impl, to_op, orc, **kw)
        for k, n in seen.items():
            if n:
                ctx.note(f"{name}: {n} cases hit the recorded finding '{k}' (first 2 reported as KNOWN-FINDING)")


def search(ctx):
    """an obligation broke: larger oracle-only sweep on the real code"""
    import random
    sub = type("C", (), {})()
    sub.rng, sub.pick = random.Random(ctx.seed + 77), (lambda q, t: q)
    comps = [c for c in _components(sub) if c[1] != "splitreal" and not c[0].endswith("/exhaustive")]
    results = evaluate(comps)
    for name, kind, cases, _to_op, oracle, _kw in comps:
        keep = [i for i, r in enumerate(results[name]) if r is not None]
        cases = [cases[i] for i in keep]
        table = {json.dumps(c, sort_keys=True): results[name][i] for c, i in zip(cases, keep)}
        def orc(c, o, t=table, oracle=oracle):
            msg = oracle(c, o, t[json.dumps(c, sort_keys=True)][1])
            return None if msg and any(k in msg for k in KNOWN_PHRASES) else msg    # search looks for NEW failures only
        ctx.check_oracle("search/" + name, cases, lambda c, t=table: t[json.dumps(c, sort_keys=True)][0], orc)


KIND_OF = {"local_minimum_split_points": "lmsplit", "find_peaks": "findpeaks", "store_downsampled": "store", "sum_waveform": "sumwf", "merge_peaks": "merge",
           "replace_merged": "replace", "add_lone_hits": "lone", "split_peaks": "split", "symmetric_moving_average": "sma",
           "index_of_fraction": "iof", "compute_widths": "widths", "highest_density_region": "hdr"}
ORACLES = {"findpeaks": oracle_findpeaks, "store": oracle_store, "sumwf": oracle_sumwf, "merge": oracle_merge, "replace": oracle_replace,
           "lone": oracle_lone, "split": oracle_split, "splitreal": oracle_splitreal, "lmsplit": oracle_lmsplit, "sma": oracle_sma, "iof": oracle_iof,
           "widths": oracle_widths, "hdr": oracle_hdr}


def replay(ctx, body):
    comp = body["component"].split("/")
    if comp[0] in ("search", "epoch"):
        comp = comp[1:]
    if comp[0] == "epoch":
        comp = comp[1:]
    kind = "splitreal" if comp[-1] == "real_splitters" else KIND_OF.get(comp[0])
    if kind is None or body.get("case") is None:
        return f"obligation {body['component']} has no input to replay (no-failing-input-found); re-run the check"
    case = body["case"]["case"]
    impl, aux = IMPLS[kind]
    out = impl(case)
    print("implementation output:", out)
    return ORACLES[kind](case, out, aux(case) if aux else None)
