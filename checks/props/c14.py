"""C14 — a superrun is exactly the ordered concatenation of its subruns.

Model: lean/StraxModel/Model/Superrun.lean (+ Chunk.lean / Rechunk.lean, Generated/RunDoc.lean); theorems: Props/C14.lean
(40: 28 full incl. 8 `generated_*`, 8 `_partial`, 4 witnesses).
Step 0 (`regen`): does DataDirectory.write_run_metadata pass sort_keys=True?  -> Generated/RunDoc.lean; the if/elif chain of
`_split_runs_in_chunk`, the sort key of the `Chunk.subruns` setter and the test of `_sorted_subruns_check` -> Generated/SplitRuns.lean.
Tie: REAL contexts (DataDirectory with run documents written by the harness, a linear chain of 2..4 harness plugins
whose source places every subrun on its own time range through an untracked layout option) are driven through
`define_run` (list form, or dict form with per-subrun [start, end] windows) -> optional `make` of a lower level ->
`get_iter` (twice) -> redefinition -> `get_array` -> restored definition, and every yielded chunk, the stored chunk
metadata of every level, the storage flags and the key relation are compared with the compiled Lean driver
(`c14.super`).  Families: adjacent (stratified: depth x write_superruns x processor x rechunking saver), gapped,
windowed, zerodur, idorder, malformed, epoch (all data times shifted by T0 ~ 1.7e18 ns), ties (agreement only), corpus.
Unit-level correspondences: `define_run` (order handed to the frontend and order read back), `DataKey._run_id`
(incl. selections), `Plugin.iter` of a single-dependency plugin with `allow_superrun`,
`Chunk.concatenate(allow_superrun=True)` across run ids, `continuity_check` on superrun chunks (both Lean models of
it must agree), `_split_runs_in_chunk` (exhaustive small scope); each also at epoch-scale times.
Oracle: rows = concatenation of the single-run results in order of run start (a windowed subrun: rows inside the
window present, rows certainly outside absent); every yielded / stored chunk's subruns = the subruns overlapping it,
clipped to it; a redefinition with other subruns or another selection changes the key and hides the stored data.
Open findings the oracle may label (exact shape conditions in `_gap_label_error`, `_zero_label`, `oracle_super`):
C14a (time gap between subruns), C14c / C14e (zero-duration chunk: TypeError in continuity_check / stored superrun unreadable).
"""
from __future__ import annotations

import contextlib
import datetime
import io
import itertools
import json
import shutil
import tempfile

import ast

from lib import gen
from lib import straxlib as sl
from lib.engine import LEAN, REPO
from lib.straxlib import strax

ID = "C14"
LEAN_MODULES = ["StraxModel.Props.C14"]
TRUSTED = [
    "translator (here: extraction of the sort_keys argument of DataDirectory.write_run_metadata into Generated/RunDoc.lean; if/elif chain of _split_runs_in_chunk, sort key of the subruns setter, test of _sorted_subruns_check into Generated/SplitRuns.lean; `int(t)` read as the identity on the model's Int)",
    "harness plugins: a source that emits the chunk layout given by an untracked option, row-wise copy plugins above it",
    "run documents written by the harness into DataDirectory._run_meta_path (datetimes through bson.json_util)",
    "modelled not verified: JSON round trip of chunk metadata (sort_keys), sha1/base32 of DataKey (abstract injective H)",
    "shared chunk model Model/Chunk.lean (mkChunk, split, concatenate, Rechunker) validated by C07's components and by c14.iter / c14.concat / c14.continuity",
]
ASSUMPTIONS = [
    "plugin chain is linear, every plugin has one dependency and copies its input rows (ids stand for all bytes)",
    "deterministic_hash((sub_run_spec items sorted by run id, each with its selection; combining)) is collision-free on the specs that occur (H injective)",
    "sub_run_spec values are 'all' or one [start, end] window; run starts of the listed runs are pairwise distinct (ties: agreement only)",
    "subrun data is made in one go from the source (a pre-made level sits directly below superrun-capable levels only)",
    "savers: save_when = ALWAYS for every level; whole-superrun time_range / chunk_number / multi-target loading outside the model",
]

DGAP = "C14a-gap-between-subruns"
DORD = "C14b-subrun-order-lost-in-run-document"
DZERO = "C14c-zero-duration-chunk-in-superrun"
DZERO_STORE = "C14e-zero-duration-chunk-unreadable-store"
BASE = datetime.datetime(2020, 1, 1)
RUN_FIELDS = ("name", "number", "start", "end", "livetime", "mode", "source")


# ----------------------------------------------------------------------------- step 0: translator
def regen(ctx):
    """Regenerate Generated/RunDoc.lean: does DataDirectory.write_run_metadata dump the run document with sort_keys=True?
    (That decides whether the order of sub_run_spec computed by define_run survives the run document.)"""
    tree = ast.parse((REPO / "strax" / "storage" / "files.py").read_text())
    val = None
    for node in ast.walk(tree):
        if isinstance(node, ast.FunctionDef) and node.name == "write_run_metadata":
            dumps = [c for c in ast.walk(node) if isinstance(c, ast.Call) and isinstance(c.func, ast.Attribute) and c.func.attr in ("dumps", "dump")]
            if len(dumps) == 1:
                val = False
                for kw in dumps[0].keywords:
                    if kw.arg == "sort_keys":
                        try:
                            val = bool(ast.literal_eval(kw.value))
                        except Exception:
                            val = None
    out = LEAN / "StraxModel" / "Generated" / "RunDoc.lean"
    if val is None:
        ctx.translator["write_run_metadata.sort_keys"] = "untranslatable"
        ctx.violation("translator:write_run_metadata", "translator", None,
                      {"reason": "exactly one json.dumps(...) call with a literal sort_keys expected in DataDirectory.write_run_metadata"},
                      "translator regenerates Generated.runDocSortKeys from the source", False)
        return
    ctx.translator["write_run_metadata.sort_keys"] = val
    text = ("-- GENERATED by checks/props/c14.py:regen from /repo/strax/storage/files.py (DataDirectory.write_run_metadata). Do not edit.\n"
            "namespace Strax.Generated\n"
            f"def runDocSortKeys : Bool := {'true' if val else 'false'}\n"
            "end Strax.Generated\n")
    if not out.exists() or out.read_text() != text:
        out.write_text(text)
    _regen_split_runs(ctx)


class Untranslatable(Exception):
    pass


_CMP = {ast.LtE: "≤", ast.Lt: "<", ast.GtE: "≥", ast.Gt: ">", ast.Eq: "=", ast.NotEq: "≠"}
_FIELD = {"start": "start", "end": "stop"}


def _tr_scalar(e, env):
    """scalar expression over the split time and the fields of one run span.  env: python name -> lean name for plain
    ints, and '<dictname>' -> suffix for names bound to a {"start", "end"} dict"""
    if isinstance(e, ast.Name) and e.id in env["ints"]:
        return env["ints"][e.id]
    if isinstance(e, ast.Call) and isinstance(e.func, ast.Name) and e.func.id == "int" and len(e.args) == 1 and not e.keywords:
        return _tr_scalar(e.args[0], env)      # int(t): identity on the model's Int
    if isinstance(e, ast.Subscript) and isinstance(e.slice, ast.Constant) and e.slice.value in _FIELD:
        base = env["span"](e.value)
        if base is not None:
            return _FIELD[e.slice.value] + base
    if isinstance(e, ast.Constant) and isinstance(e.value, int) and not isinstance(e.value, bool):
        return f"({e.value})"
    raise Untranslatable(f"scalar expression {ast.dump(e)[:80]}")


def _tr_test(e, env):
    if isinstance(e, ast.Compare):
        terms = [e.left] + list(e.comparators)
        parts = []
        for op, a, b in zip(e.ops, terms, terms[1:]):
            if type(op) not in _CMP:
                raise Untranslatable(f"comparison {type(op).__name__}")
            parts.append(f"({_tr_scalar(a, env)} {_CMP[type(op)]} {_tr_scalar(b, env)})")
        return parts[0] if len(parts) == 1 else "(" + " ∧ ".join(parts) + ")"
    if isinstance(e, ast.BoolOp):
        j = " ∧ " if isinstance(e.op, ast.And) else " ∨ "
        return "(" + j.join(_tr_test(v, env) for v in e.values) + ")"
    if isinstance(e, ast.UnaryOp) and isinstance(e.op, ast.Not):
        return f"(¬ {_tr_test(e.operand, env)})"
    raise Untranslatable(f"test {ast.dump(e)[:80]}")


def _tr_split_runs(fn):
    """the if/elif chain in the loop of _split_runs_in_chunk -> body of Generated.splitRunCase"""
    if [a.arg for a in fn.args.args] != ["subruns", "t"] or fn.args.vararg or fn.args.kwarg or fn.args.defaults:
        raise Untranslatable("signature of _split_runs_in_chunk")
    loops = [n for n in fn.body if isinstance(n, ast.For)]
    rets = [n for n in fn.body if isinstance(n, ast.Return)]
    if len(loops) != 1 or len(rets) != 1 or [n for n in ast.walk(fn) if isinstance(n, (ast.While, ast.Try))]:
        raise Untranslatable("one for loop and one final return expected")
    loop, ret = loops[0], rets[0]
    if not (isinstance(ret.value, ast.Tuple) and len(ret.value.elts) == 2 and all(isinstance(x, ast.Name) for x in ret.value.elts)):
        raise Untranslatable("return of two names expected")
    first, second = (x.id for x in ret.value.elts)
    it = loop.iter
    if not (isinstance(it, ast.Call) and isinstance(it.func, ast.Attribute) and it.func.attr == "items" and isinstance(it.func.value, ast.Name)
            and it.func.value.id == "subruns" and isinstance(loop.target, ast.Tuple) and len(loop.target.elts) == 2
            and all(isinstance(x, ast.Name) for x in loop.target.elts)) or loop.orelse:
        raise Untranslatable("for key, value in subruns.items() expected")
    kname, vname = (x.id for x in loop.target.elts)
    if len(loop.body) != 1 or not isinstance(loop.body[0], ast.If):
        raise Untranslatable("loop body must be one if/elif chain")
    env = {"ints": {"t": "t"}, "span": lambda b: "" if isinstance(b, ast.Name) and b.id == vname else None}

    def span(v):
        if isinstance(v, ast.Name) and v.id == vname:
            return "some (start, stop)"
        if isinstance(v, ast.Dict) and [getattr(k, "value", None) for k in v.keys] == ["start", "end"]:
            return f"some ({_tr_scalar(v.values[0], env)}, {_tr_scalar(v.values[1], env)})"
        raise Untranslatable(f"span value {ast.dump(v)[:80]}")

    def branch(stmts):
        got = {first: "none", second: "none"}
        for st in stmts:
            if isinstance(st, ast.Pass):
                continue
            if not (isinstance(st, ast.Assign) and len(st.targets) == 1 and isinstance(st.targets[0], ast.Subscript)
                    and isinstance(st.targets[0].value, ast.Name) and st.targets[0].value.id in got
                    and isinstance(st.targets[0].slice, ast.Name) and st.targets[0].slice.id == kname):
                raise Untranslatable(f"branch statement {ast.dump(st)[:80]}")
            got[st.targets[0].value.id] = span(st.value)
        return f"({got[first]}, {got[second]})"

    def chain(node):
        txt = f"if {_tr_test(node.test, env)} then {branch(node.body)}\n  else "
        if not node.orelse:
            return txt + "(none, none)"
        if len(node.orelse) == 1 and isinstance(node.orelse[0], ast.If):
            return txt + chain(node.orelse[0])
        return txt + branch(node.orelse)

    return chain(loop.body[0])


def _tr_sort_key(cls):
    """Chunk.subruns setter: sorted(subruns.items(), key=lambda x: (x[1][f1], x[1][f2], ...)) -> lexicographic <= on the key"""
    setters = [n for n in cls.body if isinstance(n, ast.FunctionDef) and n.name == "subruns"
               and any(isinstance(d, ast.Attribute) and d.attr == "setter" for d in n.decorator_list)]
    if len(setters) != 1:
        raise Untranslatable("one subruns setter expected")
    calls = [c for c in ast.walk(setters[0]) if isinstance(c, ast.Call) and isinstance(c.func, ast.Name) and c.func.id == "sorted"]
    checks = [c for c in ast.walk(setters[0]) if isinstance(c, ast.Call) and isinstance(c.func, ast.Name) and c.func.id == "_sorted_subruns_check"]
    if len(calls) != 1 or len(checks) != 1:
        raise Untranslatable("one sorted(...) call followed by _sorted_subruns_check expected in the subruns setter")
    kws = {k.arg: k.value for k in calls[0].keywords}
    if set(kws) != {"key"} or not isinstance(kws["key"], ast.Lambda) or len(kws["key"].args.args) != 1:
        raise Untranslatable("sorted(..., key=lambda x: ...) without reverse expected")
    x = kws["key"].args.args[0].arg
    body = kws["key"].body
    elts = body.elts if isinstance(body, ast.Tuple) else [body]
    fields = []
    for e in elts:
        if not (isinstance(e, ast.Subscript) and isinstance(e.slice, ast.Constant) and e.slice.value in _FIELD
                and isinstance(e.value, ast.Subscript) and isinstance(e.value.value, ast.Name) and e.value.value.id == x
                and isinstance(e.value.slice, ast.Constant) and e.value.slice.value == 1):
            raise Untranslatable(f"sort key element {ast.dump(e)[:80]}")
        fields.append(_FIELD[e.slice.value])
    if not fields:
        raise Untranslatable("empty sort key")

    def le(fs):
        if len(fs) == 1:
            return f"({fs[0]}1 ≤ {fs[0]}2)"
        return f"(({fs[0]}1 < {fs[0]}2) ∨ (({fs[0]}1 = {fs[0]}2) ∧ {le(fs[1:])}))"

    return le(fields)


def _tr_overlap_check(fn):
    """_sorted_subruns_check: for i in range(len(xs) - 1): if xs[i][f] OP xs[i + 1][g]: raise ValueError"""
    loops = [n for n in fn.body if isinstance(n, ast.For)]
    if len(loops) != 1 or len(loops[0].body) != 1 or not isinstance(loops[0].body[0], ast.If) or loops[0].orelse:
        raise Untranslatable("one for loop with one if expected in _sorted_subruns_check")
    loop = loops[0]
    iff = loop.body[0]
    rng_ok = (isinstance(loop.iter, ast.Call) and isinstance(loop.iter.func, ast.Name) and loop.iter.func.id == "range" and len(loop.iter.args) == 1
              and isinstance(loop.iter.args[0], ast.BinOp) and isinstance(loop.iter.args[0].op, ast.Sub)
              and isinstance(loop.iter.args[0].right, ast.Constant) and loop.iter.args[0].right.value == 1
              and isinstance(loop.target, ast.Name))
    if not rng_ok or iff.orelse or len(iff.body) != 1 or not isinstance(iff.body[0], ast.Raise):
        raise Untranslatable("range(len(xs) - 1) / if …: raise expected")
    exc = iff.body[0].exc
    if not (isinstance(exc, ast.Call) and isinstance(exc.func, ast.Name) and exc.func.id == "ValueError"):
        raise Untranslatable("raise ValueError expected")
    i = loop.target.id

    def which(b):
        # xs[i] -> "1", xs[i + 1] -> "2"
        if isinstance(b, ast.Subscript) and isinstance(b.value, ast.Name):
            if isinstance(b.slice, ast.Name) and b.slice.id == i:
                return "1"
            s = b.slice
            if (isinstance(s, ast.BinOp) and isinstance(s.op, ast.Add) and isinstance(s.left, ast.Name) and s.left.id == i
                    and isinstance(s.right, ast.Constant) and s.right.value == 1):
                return "2"
        return None

    return _tr_test(iff.test, {"ints": {}, "span": which})


def _tr_pop_empty(fn):
    """_pop_out_empty_run_id: for key in subruns.keys(): if subruns[key][f] OP subruns[key][g]: keys_to_remove.append(key)"""
    loops = [n for n in fn.body if isinstance(n, ast.For)]
    if len(loops) != 2 or len(loops[0].body) != 1 or not isinstance(loops[0].body[0], ast.If) or loops[0].body[0].orelse:
        raise Untranslatable("collect loop with one if + removal loop expected in _pop_out_empty_run_id")
    loop = loops[0]
    if not (isinstance(loop.target, ast.Name) and len(loop.body[0].body) == 1 and isinstance(loop.body[0].body[0], ast.Expr)
            and isinstance(loop.body[0].body[0].value, ast.Call) and getattr(loop.body[0].body[0].value.func, "attr", None) == "append"):
        raise Untranslatable("if …: keys_to_remove.append(key) expected")
    rm = loops[1]
    if not (len(rm.body) == 1 and isinstance(rm.body[0], ast.Expr) and isinstance(rm.body[0].value, ast.Call)
            and getattr(rm.body[0].value.func, "attr", None) == "pop"):
        raise Untranslatable("for key in keys_to_remove: subruns.pop(key) expected")
    k = loop.target.id

    def which(b):
        return "" if (isinstance(b, ast.Subscript) and isinstance(b.value, ast.Name) and b.value.id == "subruns"
                      and isinstance(b.slice, ast.Name) and b.slice.id == k) else None

    return _tr_test(loop.body[0].test, {"ints": {}, "span": which})


def _tr_mergable(fn):
    """_mergable_check: the two raise conditions (concatenate mode: against the previous span; merge mode: against span 0)"""
    outer = [n for n in fn.body if isinstance(n, ast.For)]
    if len(outer) != 1 or not isinstance(outer[0].target, ast.Name):
        raise Untranslatable("one loop over the run ids expected in _mergable_check")
    rid = outer[0].target.id
    ifs = [n for n in outer[0].body if isinstance(n, ast.If)]
    if len(ifs) != 1 or not (isinstance(ifs[0].test, ast.UnaryOp) and isinstance(ifs[0].test.op, ast.Not)
                             and isinstance(ifs[0].test.operand, ast.Name) and ifs[0].test.operand.id == "merge"):
        raise Untranslatable("if not merge: … else: … expected")

    def mode(stmts):
        if len(stmts) != 1 or not isinstance(stmts[0], ast.For) or not isinstance(stmts[0].target, ast.Name):
            raise Untranslatable("one loop over i expected")
        loop = stmts[0]
        it = loop.iter
        if not (isinstance(it, ast.Call) and isinstance(it.func, ast.Name) and it.func.id == "range" and len(it.args) == 2
                and isinstance(it.args[0], ast.Constant) and it.args[0].value == 1):
            raise Untranslatable("range(1, len(...)) expected")
        i = loop.target.id

        def scalar(e):
            # merged_runs[run_id][IDX][0|1]
            if not (isinstance(e, ast.Subscript) and isinstance(e.slice, ast.Constant) and e.slice.value in (0, 1)
                    and isinstance(e.value, ast.Subscript) and isinstance(e.value.value, ast.Subscript)
                    and isinstance(e.value.value.slice, ast.Name) and e.value.value.slice.id == rid):
                raise Untranslatable(f"span field {ast.dump(e)[:80]}")
            idx = e.value.slice
            f = ("start", "stop")[e.slice.value]
            if isinstance(idx, ast.Name) and idx.id == i:
                return f + "C"
            if isinstance(idx, ast.Constant) and idx.value == 0:
                return f + "0"
            if (isinstance(idx, ast.BinOp) and isinstance(idx.op, ast.Sub) and isinstance(idx.left, ast.Name) and idx.left.id == i
                    and isinstance(idx.right, ast.Constant) and idx.right.value == 1):
                return f + "P"
            raise Untranslatable(f"span index {ast.dump(idx)[:80]}")

        def cmp(e):
            if not (isinstance(e, ast.Compare) and len(e.ops) == 1 and type(e.ops[0]) in _CMP):
                raise Untranslatable(f"mask {ast.dump(e)[:80]}")
            return f"({scalar(e.left)} {_CMP[type(e.ops[0])]} {scalar(e.comparators[0])})"

        terms, var, raised = [], None, False
        for st in loop.body:
            if isinstance(st, ast.Assign) and len(st.targets) == 1 and isinstance(st.targets[0], ast.Name) and not terms:
                var = st.targets[0].id
                terms.append(cmp(st.value))
            elif isinstance(st, ast.AugAssign) and isinstance(st.op, ast.BitOr) and isinstance(st.target, ast.Name) and st.target.id == var:
                terms.append(cmp(st.value))
            elif (isinstance(st, ast.If) and isinstance(st.test, ast.Name) and st.test.id == var and not st.orelse and len(st.body) == 1
                  and isinstance(st.body[0], ast.Raise) and getattr(getattr(st.body[0].exc, "func", None), "id", None) == "ValueError"):
                raised = True
            else:
                raise Untranslatable(f"statement {ast.dump(st)[:80]}")
        if not raised or not terms:
            raise Untranslatable("mask = …; if mask: raise ValueError expected")
        return terms[0] if len(terms) == 1 else "(" + " ∨ ".join(terms) + ")"

    return mode(ifs[0].body), mode(ifs[0].orelse)


def _regen_split_runs(ctx):
    """Generated/SplitRuns.lean: the three-way case split of _split_runs_in_chunk, the sort key of the Chunk.subruns setter and
    the test of _sorted_subruns_check, from the CURRENT source of strax/chunk.py"""
    out = LEAN / "StraxModel" / "Generated" / "SplitRuns.lean"
    parts = {}
    try:
        tree = ast.parse((REPO / "strax" / "chunk.py").read_text())
    except SyntaxError as e:
        tree = None
        err = str(e)
    for key, find, tr in (
            ("_split_runs_in_chunk", lambda n: isinstance(n, ast.FunctionDef) and n.name == "_split_runs_in_chunk", _tr_split_runs),
            ("Chunk.subruns.setter", lambda n: isinstance(n, ast.ClassDef) and n.name == "Chunk", _tr_sort_key),
            ("_sorted_subruns_check", lambda n: isinstance(n, ast.FunctionDef) and n.name == "_sorted_subruns_check", _tr_overlap_check),
            ("_pop_out_empty_run_id", lambda n: isinstance(n, ast.FunctionDef) and n.name == "_pop_out_empty_run_id", _tr_pop_empty),
            ("_mergable_check", lambda n: isinstance(n, ast.FunctionDef) and n.name == "_mergable_check", _tr_mergable)):
        try:
            if tree is None:
                raise Untranslatable(f"chunk.py does not parse: {err}")
            nodes = [n for n in ast.walk(tree) if find(n)]
            if len(nodes) != 1:
                raise Untranslatable(f"{len(nodes)} definitions found")
            parts[key] = tr(nodes[0])
            ctx.translator[key] = "translated"
        except Untranslatable as e:
            ctx.translator[key] = f"untranslatable: {e}"
            ctx.violation(f"translator:{key}", "translator", None, {"reason": str(e)},
                          f"translator regenerates Generated/SplitRuns.lean from the source of {key}", False)
    if len(parts) != 5:
        return
    text = ("-- GENERATED by checks/props/c14.py:regen from /repo/strax/chunk.py (_split_runs_in_chunk, the Chunk.subruns setter,\n"
            "-- _sorted_subruns_check, _pop_out_empty_run_id, _mergable_check). Do not edit.\n"
            "set_option linter.unusedVariables false\n"
            "namespace Strax.Generated\n"
            "/-- the if/elif chain inside the loop of `_split_runs_in_chunk` for one run span `[start, stop)` and split time `t`:\n"
            "(entry put into runs_first_chunk, entry put into runs_second_chunk); `none` = no entry -/\n"
            "def splitRunCase (t start stop : Int) : Option (Int × Int) × Option (Int × Int) :=\n"
            f"  {parts['_split_runs_in_chunk']}\n"
            "/-- `key=` of the `sorted(...)` call in the `subruns` setter, as `key(run 1) ≤ key(run 2)` (tuples compare lexicographically) -/\n"
            "def subrunsKeyLe (start1 stop1 start2 stop2 : Int) : Bool :=\n"
            f"  decide {parts['Chunk.subruns.setter']}\n"
            "/-- `_sorted_subruns_check`: the test on consecutive entries 1, 2 that raises ValueError -/\n"
            "def subrunsOverlap (start1 stop1 start2 stop2 : Int) : Bool :=\n"
            f"  decide {parts['_sorted_subruns_check']}\n"
            "/-- `_pop_out_empty_run_id`: the test that removes a run's entry -/\n"
            "def popEmptyTest (start stop : Int) : Bool :=\n"
            f"  decide {parts['_pop_out_empty_run_id']}\n"
            "/-- `_mergable_check`, `merge=False` (concatenate): span C (current) against span P (previous) raises ValueError -/\n"
            "def mergeMaskConcat (startC stopC startP stopP : Int) : Bool :=\n"
            f"  decide {parts['_mergable_check'][0]}\n"
            "/-- `_mergable_check`, `merge=True`: span C (current) against span 0 (first) raises ValueError -/\n"
            "def mergeMaskMerge (startC stopC start0 stop0 : Int) : Bool :=\n"
            f"  decide {parts['_mergable_check'][1]}\n"
            "end Strax.Generated\n")
    if not out.exists() or out.read_text() != text:
        out.write_text(text)


# ----------------------------------------------------------------------------- harness plugins / contexts
def _level_classes(levels, enc):
    """levels: list of dict(dt, allow, rechunk, target); index 0 is the source"""
    dt = sl.DTYPES[enc]
    classes = []
    for i, lv in enumerate(levels):
        common = dict(provides=(lv["dt"],), dtype=dt, data_kind="k", rechunk_on_save=bool(lv["rechunk"]),
                      chunk_target_size_mb=sl.target_mb(lv["target"], dt.itemsize), __version__="0")
        if i == 0:
            def source_finished(self):
                return True

            def is_ready(self, chunk_i):
                return chunk_i < len(self.config["c14_layout"][self.run_id])

            def compute(self, chunk_i, _enc=enc):
                s, e, rows = self.config["c14_layout"][self.run_id][chunk_i]
                return self.chunk(start=s, end=e, data=sl.mk_array(rows, _enc))

            cls = type(f"C14Src{i}", (strax.Plugin,), dict(common, depends_on=tuple(), source_finished=source_finished,
                                                           is_ready=is_ready, compute=compute))
            cls = strax.takes_config(strax.Option("c14_layout", default=None, track=False))(cls)
        else:
            def compute(self, k):
                return k.copy()

            cls = type(f"C14Lv{i}", (strax.Plugin,), dict(common, depends_on=(levels[i - 1]["dt"],),
                                                          allow_superrun=bool(lv["allow"]), compute=compute))
        classes.append(cls)
    return classes


def _write_doc(st, rid, start):
    from bson import json_util
    doc = {"name": rid, "start": BASE + datetime.timedelta(0, int(start)), "end": BASE + datetime.timedelta(0, int(start) + 1),
           "mode": "m", "source": "s"}
    with open(st.storage[0]._run_meta_path(str(rid)), "w") as fp:
        json.dump(doc, fp, sort_keys=True, indent=4, default=json_util.default)


def _context(d, classes, layout, write):
    st = strax.Context(storage=[strax.DataDirectory(d, provide_run_metadata=True, readonly=False, deep_scan=True)],
                       register=classes, config={"c14_layout": layout}, store_run_fields=RUN_FIELDS)
    st.set_context_config({"write_superruns": bool(write), "use_per_run_defaults": False})
    return st


@contextlib.contextmanager
def _quiet():
    buf = io.StringIO()
    with contextlib.redirect_stdout(buf), contextlib.redirect_stderr(buf):
        yield


def _canon_runs(d):
    if d is None:
        return "-"
    if not d:
        return "{}"
    items = sorted(((int(v["start"]), int(v["end"]), k) for k, v in d.items()))
    return ",".join(f"{k}:{a}:{b}" for a, b, k in items)


def _show_meta(ci):
    return f"{ci['run_id']}|{int(ci['start'])}|{int(ci['end'])}|{int(ci['n'])}|{_canon_runs(ci.get('subruns'))}"


def _bool(b):
    return "true" if b else "false"


def _ids(xs):
    xs = [int(x) for x in xs]
    return ",".join(map(str, xs)) if xs else "-"


# ----------------------------------------------------------------------------- sub_run_spec items
# an item of `data1` / `data2` is a run id ("all" of that run) or [run id, start, end] (only that time window)
T0 = 1_700_000_000_000_000_137     # epoch-scale nanoseconds: float64 arithmetic is NOT exact up here


def _rid(x):
    return x if isinstance(x, str) else x[0]


def _ids_of(data):
    return [_rid(x) for x in data]


def _sel_of(data):
    return {x[0]: (int(x[1]), int(x[2])) for x in data if not isinstance(x, str)}


def _define_arg(data):
    """what is handed to define_run: a list of run ids, or a dict with per-run selections"""
    if all(isinstance(x, str) for x in data):
        return list(data)
    return {_rid(x): ("all" if isinstance(x, str) else [int(x[1]), int(x[2])]) for x in data}


def _spec_tok(data):
    return ",".join(x if isinstance(x, str) else f"{x[0]}@{x[1]}@{x[2]}" for x in data) or "-"


# ----------------------------------------------------------------------------- the scenario
def impl_super(case):
    levels, n = case["levels"], case["n"]
    d = tempfile.mkdtemp(prefix="verif_c14_")
    try:
        with _quiet():
            return sl.guarded(lambda: _scenario(case, d, levels, n))
    finally:
        shutil.rmtree(d, ignore_errors=True)


def _scenario(case, d, levels, n):
    layout = {rid: [(s, e, [tuple(r) for r in rows]) for s, e, rows in chunks] for rid, chunks in case["src"].items()}
    st = _context(d, _level_classes(levels, case["enc"]), layout, case["write"])
    for rid, start in case["docs"]:
        _write_doc(st, rid, start)
    name = case["name"]
    sup = name if name.startswith("_") else "_" + name
    target = levels[n]["dt"] if n < len(levels) else "nonexistent_level"
    kw = dict(progress_bar=False, multi_run_progress_bar=False, processor=case["proc"])
    comb = bool(case["combining"])

    st.define_run(name, data=_define_arg(case["data1"]))
    spec1 = list(st.run_metadata(sup, projection="sub_run_spec")["sub_run_spec"].keys())
    if case["premake"] is not None:
        st.make(sup, levels[case["premake"]]["dt"], processor=case["proc"], multi_run_progress_bar=False)
    y1 = [sl.show_chunk(c) for c in st.get_iter(sup, target, combining=comb, **kw)]
    key1 = st.key_for(sup, target, combining=comb)._run_id
    m1 = []
    for lv in levels:
        # stored under the current definition (non-combining key unless the scenario combines)
        if st.is_stored(sup, lv["dt"], combining=comb):
            chunks = st.get_metadata(sup, lv["dt"])["chunks"]
            m1.append(f"{lv['dt']}:" + (";".join(_show_meta(ci) for ci in chunks) if chunks else "()"))
        else:
            m1.append(f"{lv['dt']}:-")
    y2 = [sl.show_chunk(c) for c in st.get_iter(sup, target, combining=comb, **kw)]
    stored1 = st.is_stored(sup, target, combining=comb)

    st.define_run(name, data=_define_arg(case["data2"]))
    spec2 = list(st.run_metadata(sup, projection="sub_run_spec")["sub_run_spec"].keys())
    same = st.key_for(sup, target, combining=comb)._run_id == key1
    stored2 = st.is_stored(sup, target, combining=comb)
    y3 = st.get_array(sup, target, combining=comb, **kw)
    st.define_run(name, data=_define_arg(case["data1"]))
    stored3 = st.is_stored(sup, target, combining=comb)
    base = []
    for rid, _ in case["docs"]:
        base.append(f"{rid}=" + _ids(st.get_array(rid, target, progress_bar=False, processor=case["proc"])["id"]))
    return (f"spec={','.join(spec1) or '-'} # y1 {' '.join(y1) or '-'} # m1 {' '.join(m1)} # y2 {' '.join(y2) or '-'} "
            f"# stored1={_bool(stored1)} # spec2={','.join(spec2) or '-'} samekey={_bool(same)} stored2={_bool(stored2)} "
            f"# y3 {_ids(y3['id'])} # stored3={_bool(stored3)} # base {'/'.join(base)}")


def op_super(case):
    lv = ",".join(f"{l['dt']}:{int(l['allow'])}:{int(l['rechunk'])}:{l['target']}" for l in case["levels"])
    docs = ",".join(f"{r}:{s}" for r, s in case["docs"])
    src = "/".join(f"{rid}=" + ";".join(f"{s}~{e}~{sl.show_rows(rows)}" for s, e, rows in chunks) for rid, chunks in case["src"].items())
    pm = "-" if case["premake"] is None else str(case["premake"])
    return (f"c14.super {case['name']} {lv} {case['n']} {int(case['combining'])} {int(case['write'])} {pm} {docs} "
            f"{_spec_tok(case['data1'])} {_spec_tok(case['data2'])} {src}")


def _parse_chunk(s):
    dt, k, rid, a, b, rows, sub, supr, tg = s.split("|")
    rows = [] if rows == "-" else [tuple(int(x) for x in t.split(":")) for t in rows.split(",")]
    return dict(dt=dt, run_id=None if rid == "-" else rid, start=int(a), end=int(b), rows=rows, subruns=sl.parse_runs(sub),
                superrun=sl.parse_runs(supr))


def _parse_super(out):
    secs = [s.strip() for s in out[3:].split(" # ")]
    r = {}
    r["spec"] = [] if secs[0] == "spec=-" else secs[0][5:].split(",")
    r["y1"] = [] if secs[1] == "y1 -" else [_parse_chunk(x) for x in secs[1][3:].split(" ")]
    r["m1"] = {}
    for tok in secs[2][3:].split(" "):
        dt, body = tok.split(":", 1)
        if body == "-":
            r["m1"][dt] = None
        elif body == "()":
            r["m1"][dt] = []
        else:
            ms = []
            for m in body.split(";"):
                rid, a, b, nn, sub = m.split("|")
                ms.append(dict(run_id=rid, start=int(a), end=int(b), n=int(nn), subruns=sl.parse_runs(sub)))
            r["m1"][dt] = ms
    r["y2"] = [] if secs[3] == "y2 -" else [_parse_chunk(x) for x in secs[3][3:].split(" ")]
    r["stored1"] = secs[4] == "stored1=true"
    t = secs[5].split(" ")
    r["spec2"] = [] if t[0] == "spec2=-" else t[0][6:].split(",")
    r["samekey"] = t[1] == "samekey=true"
    r["stored2"] = t[2] == "stored2=true"
    r["y3"] = [] if secs[6] == "y3 -" else [int(x) for x in secs[6][3:].split(",")]
    r["stored3"] = secs[7] == "stored3=true"
    r["base"] = {}
    for tok in secs[8][5:].split("/"):
        rid, v = tok.split("=")
        r["base"][rid] = [] if v == "-" else [int(x) for x in v.split(",")]
    return r


def _start_order(case, data):
    """the property's own wording: the listed runs, each once, in order of run start (ties: as listed)"""
    seen, ids = set(), []
    for x in data:
        if x not in seen:
            seen.add(x)
            ids.append(x)
    start = dict(case["docs"])
    return sorted(ids, key=lambda x: start[x])  # Python's sort is stable


def _clip(spans, a, b):
    """spans: {rid: (s, e)} of whole subruns -> what a chunk [a, b) must record"""
    out = {}
    for rid, (s, e) in spans.items():
        lo, hi = max(s, a), min(e, b)
        if lo < hi:
            out[rid] = {"start": lo, "end": hi}
    return out


def _nonempty(d):
    return {k: v for k, v in (d or {}).items() if v["start"] < v["end"]}


def oracle_super(case, out):
    shape = case["shape"]
    if shape == "malformed":
        return None
    expect_err = case.get("expect_err")
    id_order_differs = any(sorted(set(_ids_of(x))) != _start_order(case, _ids_of(x)) for x in (case["data1"], case["data2"]))
    sel1, sel2 = _sel_of(case["data1"]), _sel_of(case["data2"])
    if out.startswith("err"):
        if expect_err:
            return None
        if id_order_differs:
            return (f"{DORD}: superrun processing fails ({out}) when the lexicographic order of the subrun ids differs from "
                    f"the order of run start")
        lab = _zero_label(case) if out == "err TypeError" else ((_gap_label_error(case) or _zero_store_label(case)) if out == "err ValueError" else None)
        if lab:
            return lab
        return f"superrun scenario on valid input failed: {out}"
    if expect_err:
        return f"expected an error ({expect_err}) but the scenario succeeded"
    r = _parse_super(out)
    comb, write, n = case["combining"], case["write"], case["n"]
    spec = _start_order(case, _ids_of(case["data1"]))
    spec2 = _start_order(case, _ids_of(case["data2"]))
    sel1 = {k: v for k, v in sel1.items() if k in spec}
    sel2 = {k: v for k, v in sel2.items() if k in spec2}
    rowinfo = {r[2]: (r[0], r[1]) for ch in case["src"].values() for _, _, rows in ch for r in rows}
    if r["spec"] != spec:
        return f"{DORD}: sub_run_spec order {r['spec']} is not the listed runs in order of run start {spec}"
    if r["spec2"] != spec2:
        return f"{DORD}: sub_run_spec order after redefinition {r['spec2']} is not the order of run start {spec2}"
    want = [i for rid in spec for i in r["base"][rid]]
    for nm in ("y1", "y2"):
        got = [row[2] for c in r[nm] for row in c["rows"]]
        msg = _rows_msg(got, spec, sel1, r["base"], rowinfo)
        if msg:
            return f"rows of the superrun ({nm}) are not the subruns' rows concatenated in order of run start: {msg}"
    target_dt = case["levels"][n]["dt"]
    st = r["m1"].get(target_dt)
    if st is not None and not sel1 and sum(m["n"] for m in st) != len(want):
        return "stored superrun chunks do not hold exactly the subruns' rows"
    msg = _rows_msg(r["y3"], spec2, sel2, r["base"], rowinfo)
    if msg:
        return f"after redefinition get_array does not return the newly defined subruns' rows (stale or wrong data): {msg}"
    # storage flags / keys
    should_store = bool(write) and not comb
    if r["stored1"] != should_store:
        return f"is_stored after get = {r['stored1']}, expected {should_store}"
    if set(spec2) != set(spec) or sel1 != sel2:
        if r["samekey"]:
            return "redefining the superrun with another subrun list / another time selection did not change the data key"
        if r["stored2"]:
            return "after redefinition previously stored superrun data is still reported as stored"
    else:
        if not r["samekey"]:
            return "the same subruns with the same selections gave a different key"
    if r["stored3"] != should_store:
        return "restoring the original definition does not find the originally stored data again"
    # annotations (definitions with a time window: rows only — the window cuts the subrun, see C14a for the gaps it opens)
    if sel1:
        return None
    spans = {rid: (ch[0][0], ch[-1][1]) for rid, ch in case["src"].items() if rid in spec}
    msg = None
    if comb:
        for c in r["y1"] + r["y2"]:
            if c["subruns"] is not None or c["superrun"] != {c["run_id"]: {"start": c["start"], "end": c["end"]}}:
                return f"combined chunk [{c['start']},{c['end']}) of run {c['run_id']} does not record exactly its own run"
    else:
        info = _depth_info(case)
        stored_n = r["m1"].get(target_dt) is not None
        todo = [(f"yielded chunk [{c['start']},{c['end']})", c["start"], c["end"], c["subruns"], info["depth"], False) for c in r["y1"]]
        # the second get re-reads the stored target level when there is one
        todo += [(f"re-read chunk [{c['start']},{c['end']})", c["start"], c["end"], c["subruns"], info["depth"],
                  bool(stored_n and case["levels"][n]["rechunk"])) for c in r["y2"]]
        for i, lv in enumerate(case["levels"]):
            for m in r["m1"].get(lv["dt"]) or []:
                todo.append((f"stored {lv['dt']} chunk [{m['start']},{m['end']})", m["start"], m["end"], m["subruns"], i - info["base"], bool(lv["rechunk"])))
        gap_after = _gaps(case, spec)
        for what, a, b, sub, depth, rechunked in todo:
            if a == b and shape == "zerodur":
                continue
            got = _nonempty(sub) if shape == "zerodur" else (sub or {})
            if got != _clip(spans, a, b):
                msg = f"{what} records subruns {sub}, but it was built from {_clip(spans, a, b)}"
                # the open finding C14a only explains chunks ABOVE the first superrun level or stored through a rechunking
                # saver, of a superrun with a time gap between two subruns (the first level is proved correct for any gaps)
                if gap_after and (depth >= 2 or rechunked):
                    return (f"{DGAP}: [gap after subrun {gap_after[0]}; superrun levels computed={depth}; rechunking saver="
                            f"{'yes' if rechunked else 'no'}] {msg}")
                return msg
    return None


def _depth_info(case):
    """base = level fed by the concat loader (highest level <= n that does not allow superruns), depth = superrun levels above it"""
    n = case["n"]
    base = max(i for i in range(n + 1) if not case["levels"][i]["allow"])
    return dict(base=base, depth=n - base, rechunk_above=any(case["levels"][i]["rechunk"] for i in range(base + 1, n + 1)),
                base_rechunk=bool(case["levels"][base]["rechunk"]))


def _gaps(case, spec):
    """subruns of `spec` (time order) after which the next subrun starts later than this one ends"""
    out = []
    for x, y in zip(spec[:-1], spec[1:]):
        if case["src"][x][-1][1] < case["src"][y][0][0]:
            out.append(x)
    return out


def _gap_label_error(case):
    """ValueError of a superrun scenario is the open finding C14a only if: processed (not combined); some definition of the
    scenario has a time gap between two consecutive subruns (or a time window, which cuts one); the chunk made at that
    border is split / concatenated again, i.e. >= 2 superrun levels are computed or a rechunking saver writes a computed
    level; and the subrun behind the gap comes in >= 2 chunks (a single chunk merges in 'merge mode')."""
    if case["combining"]:
        return None
    info = _depth_info(case)
    resplit = info["depth"] >= 2 or (case["write"] and info["rechunk_above"])
    if not resplit:
        return None
    for data in (case["data1"], case["data2"]):
        spec, sel = _start_order(case, _ids_of(data)), _sel_of(data)
        borders = [(x, y) for x, y in zip(spec[:-1], spec[1:]) if case["src"][x][-1][1] < case["src"][y][0][0] or x in sel or y in sel]
        for x, y in borders:
            k = len(case["src"][y])
            if k >= 2 or info["base_rechunk"] or y in sel or x in sel:
                what = "window on" if (x in sel or y in sel) else "gap after"
                return (f"{DGAP}: [{what} subrun {x}; superrun levels computed={info['depth']}; rechunking saver="
                        f"{'yes' if case['write'] and info['rechunk_above'] else 'no'}; chunks in the following subrun={k}] "
                        f"get_iter raises ValueError (subrun spans are no longer clipped once promised_continuity is lost)")
    return None


def _zero_label(case):
    """TypeError is the open finding C14c only if: processed, >= 2 superrun levels computed, and a listed subrun holds a
    zero-duration chunk"""
    if case["combining"] or _depth_info(case)["depth"] < 2:
        return None
    for data in (case["data1"], case["data2"]):
        for rid in _ids_of(data):
            if any(a == b for a, b, _ in case["src"][rid]):
                return (f"{DZERO}: [zero-duration chunk in subrun {rid}; superrun levels computed={_depth_info(case)['depth']}] "
                        f"get_iter raises TypeError in continuity_check (last_subrun is None after a chunk that lost its subruns)")
    return None


def _zero_store_label(case):
    """ValueError is the open finding C14e only if: shape zerodur, processed, >= 2 superrun levels computed, write_superruns
    on (the chunk that lost its `subruns` is stored with `subruns: None` and the loader refuses it), and a listed subrun
    holds a zero-duration chunk"""
    if case["shape"] != "zerodur" or case["combining"] or not case["write"] or _depth_info(case)["depth"] < 2:
        return None
    for data in (case["data1"], case["data2"]):
        for rid in _ids_of(data):
            if any(a == b for a, b, _ in case["src"][rid]):
                return (f"{DZERO_STORE}: [zero-duration chunk in subrun {rid}; superrun levels computed={_depth_info(case)['depth']}; "
                        f"write_superruns=on] the stored superrun cannot be re-read: ValueError ('Superrun … has no subruns information!')")
    return None


def _rows_msg(got, spec, sel, base, rowinfo):
    """got = ids returned; must be, subrun after subrun in `spec` order, the subrun's rows — all of them, or for a
    subrun with a window [a, b]: a sublist that holds every row inside the window and no row that certainly lies
    outside (a row ending before `a` with an admissible cut in between; a row starting at or after an admissible `b`)"""
    pos = 0
    for rid in spec:
        mine = base[rid]
        if rid not in sel:
            if got[pos:pos + len(mine)] != mine:
                return f"subrun {rid}: expected all its rows {mine} at position {pos}, got {got[pos:pos + len(mine)]}"
            pos += len(mine)
            continue
        a, b = sel[rid]
        mset = set(mine)
        seg = []
        while pos < len(got) and got[pos] in mset:
            seg.append(got[pos])
            pos += 1
        it = iter(mine)
        if not all(x in it for x in seg):
            return f"subrun {rid}: rows {seg} are not a sublist of the subrun's rows"
        straddled = lambda t: any(rowinfo[i][0] < t < rowinfo[i][1] for i in mine)  # noqa: E731
        for i in mine:
            t, e = rowinfo[i]
            inside = a <= t and e <= b
            pts = sorted({e, a} | {x for j in mine for x in rowinfo[j] if e <= x <= a})
            before = e <= a and any(not straddled(p) for p in pts if e <= p <= a)
            after = t >= b and not straddled(b)
            if inside and i not in seg:
                return f"subrun {rid} window [{a},{b}]: row {i} [{t},{e}) lies inside the window but is missing"
            if (before or after) and i in seg:
                return f"subrun {rid} window [{a},{b}]: row {i} [{t},{e}) lies outside the window but was returned"
    if pos != len(got):
        return f"unexpected extra rows {got[pos:]}"
    return None


# ----------------------------------------------------------------------------- unit adapters
def impl_definerun(case):
    d = tempfile.mkdtemp(prefix="verif_c14_")
    try:
        with _quiet():
            def f():
                st = _context(d, _level_classes([dict(dt="l0", allow=0, rechunk=0, target=10)], "end"), {}, True)
                for rid, start in case["docs"]:
                    _write_doc(st, rid, start)
                passed = []
                sf = st.storage[0]
                orig = sf.write_run_metadata

                def spy(run_id, metadata):
                    passed.append(list(metadata["sub_run_spec"]))
                    return orig(run_id, metadata)
                sf.write_run_metadata = spy
                st.define_run("_s", data=list(case["data"]))
                stored = list(st.run_metadata("_s", projection="sub_run_spec")["sub_run_spec"].keys())
                return f"passed={','.join(passed[-1]) or '-'} stored={','.join(stored) or '-'}"
            return sl.guarded(f)
    finally:
        shutil.rmtree(d, ignore_errors=True)


def op_definerun(case):
    return f"c14.definerun {','.join(f'{r}:{s}' for r, s in case['docs']) or '-'} {','.join(case['data']) or '-'}"


def oracle_definerun(case, out):
    docs = dict(case["docs"])
    if any(x not in docs for x in case["data"]):
        return None if out.startswith("err") else "define_run accepted a run without run document"
    if not case["data"]:
        return None
    if out.startswith("err"):
        return f"define_run failed: {out}"
    passed, stored = (x.split("=")[1].split(",") for x in out[3:].split(" "))
    exp = _start_order(dict(docs=case["docs"]), case["data"])
    if passed != exp:
        return f"define_run hands sub_run_spec {passed} to the frontend, listed runs in order of start are {exp}"
    if stored != exp:
        return f"{DORD}: sub_run_spec read back from the run document is {stored}, listed runs in order of start are {exp}"
    return None


def _as_dict(data):
    return {_rid(x): ("all" if isinstance(x, str) else [int(x[1]), int(x[2])]) for x in data}


def impl_samekey(case):
    def key(spec, comb):
        return strax.DataKey("_s", "dt", {"dt": ("P", "0", {})}, subruns=_as_dict(spec), combining=bool(comb))._run_id
    return "ok " + _bool(key(case["s1"], case["c1"]) == key(case["s2"], case["c2"]))


def op_samekey(case):
    return f"c14.samekey {_spec_tok(case['s1'])} {int(case['c1'])} {_spec_tok(case['s2'])} {int(case['c2'])}"


def oracle_samekey(case, out):
    same = _as_dict(case["s1"]) == _as_dict(case["s2"]) and bool(case["c1"]) == bool(case["c2"])
    return None if out == "ok " + _bool(same) else f"keys equal = {out[3:]}, subrun sets / selections / combining equal = {same}"


_ITER_PLUGINS = {}


def _iter_plugin(allow, target):
    """a configured instance of a single-dependency copy plugin (fresh per call; class cached)"""
    k = (bool(allow), target)
    if k not in _ITER_PLUGINS:
        classes = _level_classes([dict(dt="d", allow=0, rechunk=0, target=1000), dict(dt="up", allow=allow, rechunk=0, target=target)], "end")
        _ITER_PLUGINS[k] = strax.Context(storage=[], register=classes, config={"c14_layout": {}})
    return _ITER_PLUGINS[k].get_single_plugin("r", "up")


def impl_iter(case):
    def f():
        p = _iter_plugin(case["allow"], case["target"])
        p.run_id = case["run_id"]
        chunks = [sl.build_chunk(rc) for rc in case["chunks"]]
        out = list(p.iter(iters={"d": iter(chunks)}))
        return " ".join(sl.show_chunk(c) for c in out) if out else "-"
    with _quiet():
        return sl.guarded(f)


def op_iter(case):
    return (f"c14.iter up:{int(case['allow'])}:0:{case['target']} {case['run_id']} "
            + " ".join(sl.raw_chunk_op(rc) for rc in case["chunks"])).rstrip()


def oracle_iter(case, out):
    if not case.get("valid"):
        return None
    if out.startswith("err"):
        return f"Plugin.iter failed on a valid stream: {out}"
    outs = [] if out == "ok -" else [_parse_chunk(s) for s in out[3:].split(" ")]
    if [tuple(r) for c in outs for r in c["rows"]] != [tuple(r) for rc in case["chunks"] for r in rc["rows"]]:
        return "rows changed by a row-wise plugin"
    if len(outs) != len(case["chunks"]):
        return "number of chunks changed"
    if case["run_id"].startswith("_") and case.get("loader"):
        for c, rc in zip(outs, case["chunks"]):
            exp = {rc["run_id"]: {"start": rc["start"], "end": rc["end"]}} if rc["start"] < rc["end"] else None
            if rc["start"] < rc["end"] and c["subruns"] != exp:
                return f"chunk built from {exp} records {c['subruns']}"
    return None


def impl_concat(case):
    def f():
        cs = [sl.build_chunk(rc) for rc in case["chunks"]]
        return sl.show_chunk(strax.Chunk.concatenate(cs, allow_superrun=bool(case["allow"])))
    with _quiet():
        return sl.guarded(f)


def op_concat(case):
    return "c14.concat " + str(int(case["allow"])) + " " + " ".join(sl.raw_chunk_op(rc) for rc in case["chunks"])


def oracle_concat(case, out):
    if not case.get("valid"):
        return None
    runs = {rc["run_id"] for rc in case["chunks"]}
    if len(runs) > 1 and not case["allow"]:
        return None if out.startswith("err") else "chunks of different runs concatenated without allow_superrun"
    if out.startswith("err"):
        return f"concatenation of adjacent chunks failed: {out}"
    c = _parse_chunk(out[3:])
    if c["rows"] != [tuple(r) for rc in case["chunks"] for r in rc["rows"]]:
        return "rows are not the concatenation"
    if len(runs) > 1:
        exp = {}
        for rc in case["chunks"]:
            cur = exp.get(rc["run_id"])
            exp[rc["run_id"]] = {"start": cur["start"] if cur else rc["start"], "end": rc["end"]}
        if c["run_id"] is not None or c["superrun"] != exp:
            return f"concatenation across runs records superrun {c['superrun']}, built from {exp}"
    return None


def impl_continuity(case):
    def f():
        cs = [sl.build_chunk(rc) for rc in case["chunks"]]
        for _ in strax.continuity_check(iter(cs)):
            pass
        return "-"
    with _quiet():
        return sl.guarded(f)


def op_continuity(case):
    return ("c14.continuity " + " ".join(sl.raw_chunk_op(rc) for rc in case["chunks"])).rstrip()


def oracle_continuity(case, out):
    exp = case.get("expect")
    if exp == "ok" and out != "ok -":
        return f"continuity_check rejected a continuous superrun stream: {out}"
    if exp == "reject" and out == "ok -":
        return "continuity_check accepted a hole inside one subrun"
    return None


def impl_splitruns(case):
    from strax.chunk import _split_runs_in_chunk
    a, b = _split_runs_in_chunk(sl.parse_runs(case["runs"]), case["t"])
    return f"ok {sl.show_runs(a)} {sl.show_runs(b)}"


def oracle_splitruns(case, out):
    """split_merge_runs evaluated on the real functions: halves merge back to the non-empty original spans, and tile"""
    from strax.chunk import _merge_runs_in_chunk, _mergable_check
    runs = sl.parse_runs(case["runs"])
    _, a, b = out.split(" ")
    a, b = sl.parse_runs(a), sl.parse_runs(b)
    t = case["t"]
    merged = {}
    _merge_runs_in_chunk(a, merged)
    _merge_runs_in_chunk(b, merged)
    try:
        _mergable_check(merged, False)
    except ValueError as e:
        return f"halves of a split do not merge back: {e}"
    exp = {k: v for k, v in runs.items() if v["start"] != v["end"]}
    if merged != exp or list(merged) != list(exp):
        return f"split at {t} then merge gives {merged}, original non-empty spans {exp}"
    for k, v in (a or {}).items():
        if not (v["start"] < v["end"] <= t):
            return f"left half holds {k}:{v} beyond t={t} or empty"
    for k, v in (b or {}).items():
        if not (t <= v["start"] < v["end"]):
            return f"right half holds {k}:{v} before t={t} or empty"
    return None


def _setter_rc(case):
    return sl.raw_chunk(data_type="d", kind="k", run_id="_s", start=0, end=case["end"], rows=(), subruns=sl.parse_runs(case["runs"]))


def impl_setter(case):
    """the `subruns` setter of the REAL Chunk.__init__ on a dict given in the case's insertion order"""
    return sl.guarded(lambda: sl.show_chunk(sl.build_chunk(_setter_rc(case))))


def op_setter(case):
    return "c14.mkchunk " + sl.raw_chunk_op(_setter_rc(case))


def oracle_setter(case, out):
    """a chunk records its subruns in order of (start, end), never overlapping; overlapping spans are refused"""
    given = list(sl.parse_runs(case["runs"]).items())
    exp = sorted(given, key=lambda kv: (kv[1]["start"], kv[1]["end"]))      # stable, like dict(sorted(...))
    overlap = any(exp[i][1]["end"] > exp[i + 1][1]["start"] for i in range(len(exp) - 1))
    if out.startswith("err"):
        return None if (overlap and out == "err ValueError") else f"constructor raised {out} on {'overlapping' if overlap else 'non-overlapping'} subruns {case['runs']}"
    if overlap:
        return f"chunk accepted overlapping subruns {case['runs']}"
    got = list(sl.parse_runs(out.split("|")[6]).items())
    if got != exp:
        return f"chunk records subruns {got}, expected the given spans in (start, end) order {exp}"
    return None


# ----------------------------------------------------------------------------- generators
NAMES = ["a", "b", "c", "d", "zz", "r10", "r9", "m"]


def gen_world(rng, shape):
    nsub = rng.randint(1, 4)
    ids = rng.sample(NAMES, nsub)
    if shape != "idorder":
        ids.sort()          # lexicographic order of the ids = order in time (see finding C14b for the other case)
    big = rng.choice([0.0, 0.3, 0.6])
    src, docs = {}, []
    t, next_id = rng.randint(0, 5), 0
    for rid in ids:
        rows = gen.gen_rows(rng, rng.randint(0, 5), t0=t, big_gap_p=big)
        rows = [(a, b, next_id + i) for i, (a, b, _) in enumerate(rows)]
        next_id += len(rows)
        s = t
        e = max([s + 1] + [r[1] for r in rows]) + rng.randint(0, 3)
        p_dup = 0.25 if shape == "zerodur" else 0.0
        chunks = gen.random_chunking(rng, rows, s, e, p_cut=rng.choice([0.0, 0.3, 0.8]), p_dup=p_dup)
        src[rid] = [[a, b, [list(r) for r in rs]] for a, b, rs in chunks]
        docs.append([rid, s])
        if shape in ("adjacent", "zerodur", "idorder", "windowed"):
            t = e
        else:
            t = e + (rng.randint(1, 30) if rng.random() < 0.5 else rng.randint(1001, 3000))
    return ids, src, docs


def gen_levels(rng, depth):
    lv = [dict(dt="l0", allow=0, rechunk=int(rng.random() < 0.25), target=rng.choice([1, 2, 3, 1000]))]
    for i in range(1, depth + 1):
        lv.append(dict(dt=f"l{i}", allow=int(rng.random() < 0.7), rechunk=int(rng.random() < 0.6), target=rng.choice([1, 2, 3, 5, 1000])))
    return lv


def gen_case(rng, shape, force=None):
    """force: optional stratum dict(depth, write, proc, rechunk) — target = top level, processed (not combined), the
    top level allows superruns and has the given rechunk_on_save"""
    force = force or {}
    ids, src, docs = gen_world(rng, shape)
    depth = force.get("depth") or rng.randint(1, 3)
    levels = gen_levels(rng, depth)
    n = depth if (force or rng.random() < 0.85) else rng.randint(1, depth)
    expect_err = None
    if force or rng.random() < 0.93:
        levels[n]["allow"] = 1
    if not levels[n]["allow"]:
        expect_err = "target does not allow superruns"
    combining = 0 if force else int(rng.random() < 0.2)
    write = force["write"] if force else int(rng.random() < 0.75)
    if force:
        levels[n]["rechunk"] = force["rechunk"]
        if force["rechunk"]:
            levels[n]["target"] = rng.choice([1, 2, 3, 5])
    premake = None
    # a pre-made lower level must sit directly below superrun-capable levels only: otherwise the subruns' data is made at
    # two different levels at two different times and its chunk boundaries depend on that history (the later `make` starts
    # from the stored, possibly rechunked, lower level) — the model derives subrun data from the source in one go
    cands = [p for p in range(1, n) if levels[p]["allow"] and all(levels[q]["allow"] for q in range(p + 1, n + 1))]
    if cands and not combining and rng.random() < 0.4:
        premake = rng.choice(cands)
    data1 = list(ids)
    rng.shuffle(data1)
    if rng.random() < 0.2:
        data1.append(rng.choice(ids))
    kind = rng.choice(["subset", "perm", "other"])
    if shape in ("adjacent", "zerodur", "idorder", "windowed"):
        # keep the redefined superrun free of time gaps as well: a contiguous slice of the subruns (in time order)
        i = rng.randint(0, len(ids) - 1)
        j = rng.randint(i + 1, len(ids))
        data2 = ids[i:j] if kind != "perm" else list(ids)
        rng.shuffle(data2)
    elif kind == "subset" and len(ids) > 1:
        data2 = rng.sample(ids, rng.randint(1, len(ids) - 1))
    elif kind == "perm":
        data2 = list(ids)
        rng.shuffle(data2)
    else:
        data2 = rng.sample(ids, rng.randint(1, len(ids)))
    if shape == "windowed":
        # same subrun ids before and after the redefinition; what changes is the time window of one subrun
        def window(rid):
            s0, e0 = src[rid][0][0], src[rid][-1][1]
            a = rng.randint(max(0, s0 - 2), e0 - 1)
            b = rng.randint(max(a + 1, s0 + 1), e0 + 2)
            return [rid, a, b]
        data1 = list(ids)
        rng.shuffle(data1)
        data2 = list(ids)
        rng.shuffle(data2)
        k1 = rng.choice(["all", "all", "win"])
        if k1 == "win":
            i = rng.randrange(len(data1))
            data1[i] = window(data1[i])
        k2 = rng.choice(["win", "win", "win", "same", "all"])
        if k2 == "win":
            i = rng.randrange(len(data2))
            data2[i] = window(data2[i])
        elif k2 == "same":
            data2 = [x if isinstance(x, str) else list(x) for x in data1]
            rng.shuffle(data2)
    if shape == "malformed":
        why = rng.choice(["docorder", "overlap"])
        if why == "docorder" and len(docs) > 1:
            i, j = rng.sample(range(len(docs)), 2)
            docs[i][1], docs[j][1] = docs[j][1], docs[i][1]
        elif len(ids) > 1:
            # move one subrun onto the time range of another
            a, b = rng.sample(ids, 2)
            shift = src[a][0][0] - src[b][0][0]
            src[b] = [[s + shift, e + shift, [[r[0] + shift, r[1] + shift, r[2]] for r in rows]] for s, e, rows in src[b]]
            if any(c[0] < 0 for c in src[b]):
                src[b] = src[a]
    return dict(shape=shape, name=rng.choice(["sup", "_sup"]), levels=levels, n=n, combining=combining, write=write, premake=premake,
                docs=docs, data1=data1, data2=data2, src=src, proc=force.get("proc") or rng.choice(["single_thread", "threaded_mailbox"]),
                enc=rng.choice(["end", "len"]), expect_err=expect_err)


def _loader_stream(rng, adjacent, zero=False):
    """chunks as loaders of several ordinary runs yield them, in time order"""
    chunks, t, nid = [], rng.randint(0, 4), 0
    for rid in rng.sample(["a", "b", "c"], rng.randint(1, 3)):
        for _ in range(rng.randint(1, 3)):
            rows = [(a, b, nid + i) for i, (a, b, _) in enumerate(gen.gen_rows(rng, rng.randint(0, 3), t0=t))]
            nid += len(rows)
            e = max([t + (0 if zero and rng.random() < 0.3 else 1)] + [r[1] for r in rows]) + rng.randint(0, 2)
            chunks.append(sl.raw_chunk(data_type="d", run_id=rid, start=t, end=e, rows=rows, target=1000))
            t = e
        if not adjacent:
            t += rng.randint(1, 9)
    return chunks


def _tiling(rng, a, b, names):
    cuts = sorted(rng.randint(a, b) for _ in range(len(names) - 1))
    cuts = [a, *cuts, b]
    return {nm: {"start": x, "end": y} for nm, x, y in zip(names, cuts[:-1], cuts[1:]) if x < y} or None


def _superrun_stream(rng):
    """chunks of a superrun with subruns annotations (tiling or not), contiguous or with holes"""
    chunks, t, nid = [], rng.randint(0, 4), 0
    names = ["a", "b", "c"]
    for _ in range(rng.randint(1, 4)):
        rows = [(a, b, nid + i) for i, (a, b, _) in enumerate(gen.gen_rows(rng, rng.randint(0, 3), t0=t))]
        nid += len(rows)
        e = max([t + 1] + [r[1] for r in rows]) + rng.randint(0, 2)
        k = rng.randint(1, 2)
        sub = _tiling(rng, t, e, rng.sample(names, k)) if rng.random() < 0.85 else None
        if sub and rng.random() < 0.3:
            first = next(iter(sub))
            sub[first] = dict(sub[first], start=sub[first]["start"] + (1 if sub[first]["end"] - sub[first]["start"] > 1 else 0))
        chunks.append(sl.raw_chunk(data_type="d", run_id="_sup", start=t, end=e, rows=rows, subruns=sub, target=1000))
        t = e + (0 if rng.random() < 0.7 else rng.randint(1, 5))
    return chunks


# ----------------------------------------------------------------------------- run
def run(ctx):
    rng = ctx.rng

    # 1. _split_runs_in_chunk, exhaustive small scope + split_merge_runs evaluated on the real functions
    cases = []
    grid = ctx.pick(5, 7)
    pts = list(range(grid + 1))
    for k in range(0, 4):
        for bounds in itertools.combinations_with_replacement(pts, 2 * k):
            # consecutive pairs are spans [b0,b1], [b2,b3], ... : sorted and non-overlapping by construction
            spans = [(bounds[2 * i], bounds[2 * i + 1]) for i in range(k)]
            runs = {f"s{i}": {"start": a, "end": b} for i, (a, b) in enumerate(spans)}
            for t in range(-1, grid + 2):
                cases.append(dict(runs=sl.show_runs(runs), t=t))
    if len(cases) > ctx.pick(20000, 120000):
        cases = rng.sample(cases, ctx.pick(20000, 120000))
    SPLIT_CASES[:] = cases
    ctx.correspond("split_runs/exhaustive", cases, impl_splitruns, lambda c: f"c14.splitruns {c['runs']} {c['t']}", oracle_splitruns,
                   exhaustive=True, nontrivial=lambda c, o: c["runs"] != "{}",
                   rule=f"all dicts of <= 3 sorted non-overlapping spans (empty spans and shared borders included) on grid 0..{grid} x every t in -1..{grid+1}; oracle: halves merge back (_merge_runs_in_chunk + _mergable_check) to the non-empty spans and lie on their side of t",
                   branch=lambda c, o: "cut" if any(v["end"] == c["t"] for v in (sl.parse_runs(o.split(" ")[1]) or {}).values()) and any(v["start"] == c["t"] for v in (sl.parse_runs(o.split(" ")[2]) or {}).values()) else "nocut")

    # 1b. (round 5) the `subruns` setter: order by (start, end) + overlap test, exhaustive small scope, any insertion order
    sgrid = ctx.pick(3, 4)
    spans = [(a, b) for a in range(sgrid + 1) for b in range(a, sgrid + 1)]
    cases = []
    for k in range(0, 4):
        for combo in itertools.product(spans, repeat=k):
            cases.append(dict(runs=sl.show_runs({f"s{i}": {"start": a, "end": b} for i, (a, b) in enumerate(combo)}), end=sgrid + 1))
    ctx.correspond("subruns_setter/exhaustive", cases, impl_setter, op_setter, oracle_setter, exhaustive=True,
                   nontrivial=lambda c, o: c["runs"].count(":") >= 4,
                   rule=f"all dicts of <= 3 spans [a,b], a <= b on grid 0..{sgrid}, in every insertion order (overlapping and equal spans included) given to the real Chunk constructor; oracle: recorded in (start, end) order, stable, or ValueError iff two consecutive spans of that order overlap",
                   branch=lambda c, o: "err" if o.startswith("err") else ("reordered" if o.split("|")[6] != c["runs"] else "kept"))

    # 2. define_run ordering
    cases = []
    for _ in range(ctx.pick(120, 800)):
        ids = rng.sample(NAMES, rng.randint(1, 5))
        docs = [[r, rng.randint(0, 6) * 10] for r in ids]
        data = [rng.choice(ids) for _ in range(rng.randint(1, 6))]
        if rng.random() < 0.05:
            data.append("nodoc")
        cases.append(dict(docs=docs, data=data))
    ctx.correspond("define_run", cases, impl_definerun, op_definerun, oracle_definerun, nontrivial=lambda c, o: len(set(c["data"])) >= 2,
                   rule="1..5 run documents with starts on a coarse grid (ties frequent), listed in random order with repetitions; 5% list a run without document",
                   branch=lambda c, o: "err" if o.startswith("err") else ("ties" if len({s for _, s in c["docs"]}) < len(c["docs"]) else "distinct"))

    # 3. DataKey._run_id
    cases = []
    for _ in range(ctx.pick(400, 4000)):
        s1 = rng.sample(NAMES, rng.randint(1, 4))
        kind = rng.choice(["perm", "subset", "other", "same"])
        if kind == "perm":
            s2 = list(s1)
            rng.shuffle(s2)
        elif kind == "subset":
            s2 = rng.sample(s1, rng.randint(1, len(s1)))
        elif kind == "other":
            s2 = rng.sample(NAMES, rng.randint(1, 4))
        else:
            s2 = list(s1)
        def sprinkle(spec):
            return [x if rng.random() < 0.7 else [x, rng.randint(0, 3) * 10, 40 + rng.randint(0, 2) * 10] for x in spec]
        if rng.random() < 0.5:
            s1 = sprinkle(s1)
            s2 = sprinkle(s2) if rng.random() < 0.6 else [next((y for y in s1 if _rid(y) == x), x) for x in s2]
        shift = T0 if rng.random() < 0.2 else 0
        s1 = [x if isinstance(x, str) else [x[0], x[1] + shift, x[2] + shift] for x in s1]
        s2 = [x if isinstance(x, str) else [x[0], x[1] + shift, x[2] + shift] for x in s2]
        cases.append(dict(s1=s1, c1=rng.randint(0, 1), s2=s2, c2=rng.randint(0, 1)))
    ctx.correspond("data_key", cases, impl_samekey, op_samekey, oracle_samekey,
                   rule="pairs of sub_run_specs (permutation / subset / unrelated / identical; half of them with [start, end] windows on some runs, equal or different; 20% at epoch-scale times) x combining flags: keys equal iff same runs, same selections and same flag",
                   branch=lambda c, o: o)

    # 4. Plugin.iter of a single-dependency plugin
    cases = []
    for _ in range(ctx.pick(700, 6000)):
        kind = rng.choice(["loader-adj", "loader-gap", "loader-zero", "super", "malformed"])
        if kind.startswith("loader"):
            chunks = _loader_stream(rng, kind == "loader-adj", zero=kind == "loader-zero")
            allow = int(rng.random() < 0.85)
            valid = bool(allow or len({c["run_id"] for c in chunks}) == 1) and kind != "loader-zero"
            cases.append(dict(kind=kind, chunks=chunks, allow=allow, run_id="_sup" if rng.random() < 0.85 else "a", target=rng.choice([3, 1000]),
                              valid=valid, loader=True))
        elif kind == "super":
            cases.append(dict(kind=kind, chunks=_superrun_stream(rng), allow=int(rng.random() < 0.8), run_id="_sup", target=1000, valid=False))
        else:
            chunks = _loader_stream(rng, rng.random() < 0.5)
            rng.shuffle(chunks)
            cases.append(dict(kind=kind, chunks=chunks if rng.random() < 0.9 else [], allow=1, run_id="_sup", target=1000, valid=False))
    ITER_CASES[:] = cases
    ctx.correspond("plugin_iter", cases, impl_iter, op_iter, oracle_iter, nontrivial=lambda c, o: len(c["chunks"]) >= 2,
                   rule="real Plugin.iter of a one-dependency copy plugin fed with loader streams of 1..3 runs (adjacent / gapped / zero-duration chunks), superrun streams with subruns annotations, shuffled (malformed) streams; allow_superrun on/off, plugin run id superrun or plain",
                   branch=lambda c, o: c["kind"] + ":" + o.split(" ")[0] + ("" if o.startswith("ok") else ":" + o.split(" ")[1]))

    # 5. concatenate across run ids, continuity_check on superrun chunks
    cases = []
    for _ in range(ctx.pick(800, 8000)):
        chunks = _loader_stream(rng, rng.random() < 0.6)
        k = rng.randint(2, min(4, max(2, len(chunks))))
        i = rng.randint(0, max(0, len(chunks) - k))
        sel = chunks[i:i + k]
        valid = True
        if rng.random() < 0.15:
            rng.shuffle(sel)
            valid = False
        cases.append(dict(chunks=sel, allow=int(rng.random() < 0.8), valid=valid))
    for _ in range(ctx.pick(300, 3000)):
        cases.append(dict(chunks=_superrun_stream(rng), allow=1, valid=False))
    CONCAT_CASES[:] = cases
    ctx.correspond("concatenate_superrun", cases, impl_concat, op_concat, oracle_concat, nontrivial=lambda c, o: len({x["run_id"] for x in c["chunks"]}) >= 2,
                   rule="2..4 consecutive loader chunks possibly of different runs (allow_superrun on/off; 15% shuffled) + superrun chunks with subruns annotations; non-trivial = at least two run ids",
                   branch=lambda c, o: f"runs={len({x['run_id'] for x in c['chunks']})}:allow={c['allow']}:" + o.split(" ")[0])
    cases = []
    for _ in range(ctx.pick(800, 8000)):
        chunks = _superrun_stream(rng)
        cases.append(dict(chunks=chunks))
    # streams produced by the model-independent recipe "level-1 output": contiguous inside a subrun, jump at a border
    for _ in range(ctx.pick(400, 4000)):
        ld = _loader_stream(rng, rng.random() < 0.5)
        out, prev = [], None
        for rc in ld:
            s = rc["start"] if prev is None else prev
            out.append(sl.raw_chunk(data_type="d", run_id="_sup", start=s, end=rc["end"], rows=rc["rows"],
                                    subruns={rc["run_id"]: {"start": rc["start"] if (prev is None or out[-1]["subruns"].keys() != {rc["run_id"]}) else s, "end": rc["end"]}}, target=1000))
            prev = rc["end"]
        expect = "ok"
        if len(out) > 1 and rng.random() < 0.3:
            # punch a hole inside one subrun: must be rejected
            idx = [i for i in range(1, len(out)) if list(out[i]["subruns"]) == list(out[i - 1]["subruns"]) and out[i]["end"] - out[i]["start"] > 1
                   and not any(r[0] < out[i]["start"] + 1 for r in out[i]["rows"])]
            if idx:
                i = rng.choice(idx)
                rid = next(iter(out[i]["subruns"]))
                out[i] = dict(out[i], start=out[i]["start"] + 1, subruns={rid: {"start": out[i]["start"] + 1, "end": out[i]["end"]}})
                expect = "reject"
        cases.append(dict(chunks=out, expect=expect))
    CONT_CASES[:] = cases
    ctx.correspond("continuity_superrun", cases, impl_continuity, op_continuity, oracle_continuity, nontrivial=lambda c, o: len(c["chunks"]) >= 2,
                   rule="continuity_check over random superrun chunk lists (subruns tiling or not, holes) and over streams shaped like the first superrun level (contiguous inside a subrun, jump at the border); 30% of the latter get a hole inside a subrun that must be rejected",
                   branch=lambda c, o: (c.get("expect") or "free") + ":" + o.split(" ")[0])

    # 6. whole scenarios on real contexts
    epoch_cases = []
    strata = [dict(depth=d, write=w, proc=p, rechunk=r) for d in (1, 2, 3) for w in (0, 1) for p in ("single_thread", "threaded_mailbox") for r in (0, 1)]
    for shape, nq, nt in (("adjacent", 40, 420), ("gapped", 45, 500), ("windowed", 40, 400), ("zerodur", 18, 200), ("idorder", 20, 250), ("malformed", 12, 150)):
        cases = [gen_case(rng, shape) for _ in range(ctx.pick(nq, nt))]
        if shape == "adjacent":
            # every (depth x write_superruns x processor x rechunking saver on the target) stratum is hit equally often; the
            # free cases above add combining, pre-made levels, targets below the top and refused targets
            cases += [gen_case(rng, shape, force=st) for st in strata for _ in range(ctx.pick(4, 20))]
            for _ in range(ctx.pick(8, 40)):     # combining subruns only
                c = gen_case(rng, shape)
                c.update(combining=1, premake=None)
                cases.append(c)
        if shape in ("adjacent", "gapped", "windowed"):
            epoch_cases += [shift_case(c, T0) for c in cases[: ctx.pick(8, 80)]]
        ctx.correspond(f"superrun/{shape}", cases, impl_super, op_super, oracle_super,
                       nontrivial=lambda c, o: len(set(_ids_of(c["data1"]))) >= 2 and o.startswith("ok"),
                       rule={"adjacent": "STRATIFIED: 24 strata (depth 1..3 x write_superruns x processor x rechunking saver on the target) x 4 cases (20 thorough) + free random cases; 1..4 subruns on adjacent time ranges, 1..n chunks each (random law-abiding layouts), chain of 1..3 plugins above the source with random allow_superrun / rechunk_on_save / target size, target level, combining, write_superruns, pre-made lower level, both processors, two dtypes; redefinition with subset / permutation / other list",
                             "gapped": "same, subruns separated by time gaps (1..30 ns or > 1000 ns): annotation failures and ValueError are the open finding C14a",
                             "zerodur": "same as adjacent with zero-duration chunks; empty spans and zero-duration chunks exempt from the annotation oracle; TypeError is the open finding C14c, ValueError on re-reading the store C14e",
                             "windowed": "adjacent subruns; the definitions list the same subrun ids but give one subrun a [start, end] time window (dict form of define_run), before and/or after the redefinition: the key must change with the selection, the stored data of the other selection must not be served, rows = the window's rows (inside: present; certainly outside: absent); annotation oracle only without window",
                             "idorder": "same as adjacent, but the run ids are in arbitrary lexicographic order relative to the run starts (the order must come from the run starts, not from the ids: finding C14b, fixed by D27)",
                             "malformed": "run starts contradicting the data order, overlapping subrun ranges: agreement of model and implementation only"}[shape],
                       branch=lambda c, o: ("comb" if c["combining"] else f"depth{c['n']}") + (":w" if c["write"] else ":nw") + (":pre" if c["premake"] is not None else "")
                       + ":" + o.split(" ")[0] + ("" if o.startswith("ok") else ":" + o.split(" ")[1]),
                       in_hyp=lambda c, o: c["shape"] == "adjacent", max_samples=2)

    # 6b. the same at epoch-scale times (float64 cannot represent these integers exactly)
    ctx.correspond("superrun/epoch", epoch_cases, impl_super, op_super, oracle_super,
                   nontrivial=lambda c, o: len(set(_ids_of(c["data1"]))) >= 2 and o.startswith("ok"),
                   rule=f"the first adjacent / gapped / windowed scenarios again with every data time (chunk ranges, rows, windows) shifted by T0 = {T0} ns; run documents unchanged",
                   branch=lambda c, o: c["shape"] + ":" + o.split(" ")[0], in_hyp=lambda c, o: c["shape"] == "adjacent", max_samples=1)
    ucases = [c for c in ITER_CASES[: ctx.pick(120, 800)]]
    ctx.correspond("plugin_iter/epoch", [dict(c, chunks=[shift_rc(rc, T0) for rc in c["chunks"]]) for c in ucases], impl_iter, op_iter, oracle_iter,
                   rule="plugin_iter cases shifted by T0", branch=lambda c, o: c["kind"] + ":" + o.split(" ")[0])
    ctx.correspond("concatenate_superrun/epoch", [dict(c, chunks=[shift_rc(rc, T0) for rc in c["chunks"]]) for c in CONCAT_CASES[: ctx.pick(150, 1000)]],
                   impl_concat, op_concat, oracle_concat, rule="concatenate cases shifted by T0")
    ctx.correspond("continuity_superrun/epoch", [dict(c, chunks=[shift_rc(rc, T0) for rc in c["chunks"]]) for c in CONT_CASES[: ctx.pick(150, 1000)]],
                   impl_continuity, op_continuity, oracle_continuity, rule="continuity_check cases shifted by T0")
    ctx.correspond("split_runs/epoch", [dict(runs=sl.show_runs({k: {"start": v["start"] + T0, "end": v["end"] + T0} for k, v in (sl.parse_runs(c["runs"]) or {}).items()}
                                                                 if sl.parse_runs(c["runs"]) is not None else None), t=c["t"] + T0)
                                        for c in SPLIT_CASES[:: max(1, len(SPLIT_CASES) // ctx.pick(400, 3000))]],
                   impl_splitruns, lambda c: f"c14.splitruns {c['runs']} {c['t']}", oracle_splitruns, rule="_split_runs_in_chunk cases shifted by T0")

    # 7. corpus: minimal witnesses of C14a (open: a fix shows up as the finding disappearing) and of C14b (fixed by D27,
    #    commit 31e710c: a regression is reported with this replay)
    ctx.correspond("superrun/ties", [tie_witness()], impl_super, op_super, None,
                   rule="two runs with IDENTICAL start times listed in both orders (same key, stored data of the other listing order is served): both orders are orders of run start, so this is outside the oracle's domain — model/implementation agreement only")
    ctx.correspond("superrun/corpus", [gap_witness(), order_witness()], impl_super, op_super, oracle_super,
                   rule="minimised witnesses: C14a (two 2-chunk subruns 10 ns apart, two superrun levels, rechunking saver); C14b (runs r9 then r10: id order differs from start order)")
    ctx.correspond("define_run/corpus", [dict(docs=[["r9", 0], ["r10", 100]], data=["r9", "r10"])], impl_definerun, op_definerun, oracle_definerun,
                   rule="C14b witness: run r9 starts before run r10")


ITER_CASES, CONCAT_CASES, CONT_CASES, SPLIT_CASES = [], [], [], []


def shift_rc(rc, T):
    """a raw chunk with every time shifted by T"""
    def sh(d):
        return None if d is None else {k: {"start": v["start"] + T, "end": v["end"] + T} for k, v in d.items()}
    return dict(rc, start=rc["start"] + T, end=rc["end"] + T, rows=[[r[0] + T, r[1] + T, r[2]] for r in rc["rows"]],
                subruns=sh(rc["subruns"]), superrun=sh(rc["superrun"]))


def shift_case(case, T):
    """a scenario with every data time (source chunks, rows, windows) shifted by T; run documents stay"""
    src = {rid: [[s + T, e + T, [[r[0] + T, r[1] + T, r[2]] for r in rows]] for s, e, rows in ch] for rid, ch in case["src"].items()}
    sh = lambda data: [x if isinstance(x, str) else [x[0], x[1] + T, x[2] + T] for x in data]  # noqa: E731
    return dict(case, src=src, data1=sh(case["data1"]), data2=sh(case["data2"]))


def gap_witness():
    return dict(shape="gapped", name="_sup", levels=[dict(dt="l0", allow=0, rechunk=0, target=1000), dict(dt="l1", allow=1, rechunk=0, target=1000),
                                                    dict(dt="l2", allow=1, rechunk=1, target=1000)],
                n=2, combining=0, write=1, premake=None, docs=[["a", 0], ["b", 30]], data1=["a", "b"], data2=["a"],
                src={"a": [[0, 10, [[1, 2, 0]]], [10, 20, [[12, 13, 1]]]], "b": [[30, 40, [[31, 32, 2]]], [40, 50, [[41, 42, 3]]]]},
                proc="single_thread", enc="end", expect_err=None)


def order_witness():
    return dict(shape="idorder", name="_sup", levels=[dict(dt="l0", allow=0, rechunk=0, target=1000), dict(dt="l1", allow=1, rechunk=0, target=1000)],
                n=1, combining=0, write=1, premake=None, docs=[["r9", 0], ["r10", 20]], data1=["r9", "r10"], data2=["r10"],
                src={"r9": [[0, 20, [[1, 2, 0]]]], "r10": [[20, 40, [[21, 22, 1]]]]},
                proc="single_thread", enc="end", expect_err=None)


def tie_witness():
    return dict(shape="adjacent", name="_sup", levels=[dict(dt="l0", allow=0, rechunk=0, target=1000), dict(dt="l1", allow=1, rechunk=0, target=1000)],
                n=1, combining=0, write=1, premake=None, docs=[["a", 0], ["b", 0]], data1=["a", "b"], data2=["b", "a"],
                src={"a": [[0, 20, [[1, 2, 0]]]], "b": [[20, 40, [[21, 22, 1]]]]},
                proc="single_thread", enc="end", expect_err=None)


def search(ctx):
    rng = ctx.rng
    cases = [gen_case(rng, "adjacent") for _ in range(300)]
    ctx.check_oracle("search/superrun", cases, impl_super, oracle_super)
    # round 5: the translated decisions on wider random scopes (spans sorted and non-overlapping for the split law, any for the setter)
    cases = []
    for _ in range(3000):
        k = rng.randint(1, 5)
        b = sorted(rng.randint(0, 12) for _ in range(2 * k))
        cases.append(dict(runs=sl.show_runs({f"s{i}": {"start": b[2 * i], "end": b[2 * i + 1]} for i in range(k)}), t=rng.randint(-1, 13)))
    ctx.check_oracle("search/split_runs", cases, impl_splitruns, oracle_splitruns)
    cases = []
    for _ in range(3000):
        sp = [sorted((rng.randint(0, 8), rng.randint(0, 8))) for _ in range(rng.randint(1, 5))]
        cases.append(dict(runs=sl.show_runs({f"s{i}": {"start": a, "end": b} for i, (a, b) in enumerate(sp)}), end=9))
    ctx.check_oracle("search/subruns_setter", cases, impl_setter, oracle_setter)


REPLAYERS = {
    "superrun": (impl_super, oracle_super), "split_runs": (impl_splitruns, oracle_splitruns), "define_run": (impl_definerun, oracle_definerun),
    "data_key": (impl_samekey, oracle_samekey), "plugin_iter": (impl_iter, oracle_iter), "concatenate_superrun": (impl_concat, oracle_concat),
    "continuity_superrun": (impl_continuity, oracle_continuity), "subruns_setter": (impl_setter, oracle_setter),
}


def replay(ctx, body):
    comp = body["component"].split("/")
    name = comp[0] if comp[0] != "search" else comp[1]
    impl, oracle = REPLAYERS.get(name, (None, None))
    if impl is None or body.get("case") is None:
        return f"obligation {body['component']} has no input to replay (no-failing-input-found); re-run the check"
    case = body["case"]["case"]
    out = impl(case)
    print("implementation output:", out)
    return oracle(case, out) if oracle else None
