"""C17 — interval primitives agree with their set-theoretic definitions.

Model: lean/StraxModel/Model/IntervalAlgos.lean (+ diffGaps from Model/Rechunk.lean); theorems: Props/C17.lean.
Tie: (0) translator: Generated/OverlapIndices.lean is regenerated from the AST of overlap_indices and proved equal to the
model; (1) differential correspondence of fully_contained_in / _fully_contained_in, split_by_containment (+ _split,
_get_empty_container_ids), overlap_indices, touching_windows / _touching_windows, split_touching_windows, diff,
_find_break_i / from_break, abs_time_to_prev_next_interval, sort_by_time (composite-key path, float64 guard band with the
wrapping int64 key, np.sort fallback) and sort_enforcement (stable_sort / stable_argsort / sort kinds) against the compiled
Lean driver: exhaustive small scope (every configuration of things x containers on a small grid, as *sweeps*: one engine
case = one things array against every container configuration of the scope), random larger arrays, a malformed stream,
every function again at nanosecond-epoch timestamps (T0 = 1.7e18), sort_by_time over spans 4e6 .. 5e18 ns.
Oracle: the definitions, evaluated directly (all pairs, O(n*m)) in plain Python on what the real code returned, inside the
documented preconditions only. Open findings probed in their own components: C17-sort-slow-path-not-stable,
C17-sort-guard-band-key-wrap.
"""
from __future__ import annotations

import itertools
import multiprocessing
import os
import warnings

import numpy as np

from lib import gen
from lib import straxlib as sl
from lib.straxlib import strax

from strax.processing import general as G  # noqa: E402  (after lib.straxlib: private numba cache)

warnings.simplefilter("ignore")  # strax.processing.general switches UserWarnings to "always" on import

ID = "C17"
LEAN_MODULES = ["StraxModel.Props.C17"]
TRUSTED = [
    "translator (checks/props/c17.py:regen): AST of overlap_indices -> Generated/OverlapIndices.lean (if/raise/return, +, -, unary -, max, min, comparisons, or)",
    "modelled not verified: numpy fancy indexing / np.diff / np.where / np.unique / stable mergesort argsort / np.sort(order=...) tie-break by the remaining fields, "
    "float64 conversion and division (round to nearest even) in the sort_by_time guard, numba typed-list plumbing",
    "sweep glue: the driver op `c17.sweep` applies one c17 op to every container configuration listed on the line and joins the answers with ';' (the Python adapter does the same with the real function)",
]
ASSUMPTIONS = [
    "rows are identified by an opaque id; both endtime encodings (endtime field, dt x length) are fed to the real code",
    "containment of a zero-length thing [t,t) is read as 'the instant t lies in the container' (b.time <= t < b.endt); for positive-length things this is the plain subset relation",
    "sort_by_time: guard (float64), composite int64 key (wraps) and the np.sort(order=...) fallback are modelled; `id` stands for all remaining fields of the dtype in the fallback's tie-break",
    "int64 wrap-around is modelled only in sort_by_time (key and time span); elsewhere times stay far from 2^63 (largest generated: 1.7e18 + small, 9.2e18 in the sort components)",
    "int16 overflow of the shifted channel / channel.max() + 1 and time spans >= 2^63 are not generated",
]

# ============================================================================================ step 0: translator
# overlap_indices is a pure scalar decision function: its Lean definition is regenerated from the current Python source
# and Props/C17.lean proves `Generated.overlapIndices = IntervalAlgos.overlapIndices` (so `overlap_indices_spec` is
# re-proved against what the code says now, for all integers — its input domain is infinite).

class Untranslatable(Exception):
    pass


def _tr_expr(e):
    import ast
    if isinstance(e, ast.Constant) and isinstance(e.value, int) and not isinstance(e.value, bool):
        return str(e.value) if e.value >= 0 else f"({e.value})"
    if isinstance(e, ast.Name):
        return e.id
    if isinstance(e, ast.UnaryOp) and isinstance(e.op, ast.USub):
        return f"(-{_tr_expr(e.operand)})"
    if isinstance(e, ast.BinOp) and isinstance(e.op, (ast.Add, ast.Sub)):
        return f"({_tr_expr(e.left)} {'+' if isinstance(e.op, ast.Add) else '-'} {_tr_expr(e.right)})"
    if isinstance(e, ast.Call) and isinstance(e.func, ast.Name) and e.func.id in ("max", "min") and len(e.args) == 2 and not e.keywords:
        return f"({e.func.id} {_tr_expr(e.args[0])} {_tr_expr(e.args[1])})"
    if isinstance(e, ast.Tuple):
        return "(" + ", ".join(_tr_expr(x) for x in e.elts) + ")"
    raise Untranslatable(ast.dump(e)[:80])


def _tr_cond(e):
    import ast
    if isinstance(e, ast.BoolOp):
        op = " ∨ " if isinstance(e.op, ast.Or) else " ∧ "
        return "(" + op.join(_tr_cond(v) for v in e.values) + ")"
    if isinstance(e, ast.Compare) and len(e.ops) == 1:
        sym = {ast.Lt: "<", ast.LtE: "≤", ast.Gt: ">", ast.GtE: "≥", ast.Eq: "="}.get(type(e.ops[0]))
        if sym:
            return f"({_tr_expr(e.left)} {sym} {_tr_expr(e.comparators[0])})"
    raise Untranslatable(ast.dump(e)[:80])


def _tr_block(stmts):
    """statements -> Lean term of type Except Err ((Int × Int) × (Int × Int))"""
    import ast
    if not stmts:
        raise Untranslatable("function may fall off its end")
    st, rest = stmts[0], stmts[1:]
    if isinstance(st, ast.Expr) and isinstance(st.value, ast.Constant) and isinstance(st.value.value, str):
        return _tr_block(rest)  # docstring
    if isinstance(st, ast.Return) and st.value is not None:
        return f"pure {_tr_expr(st.value)}"
    if isinstance(st, ast.Raise) and st.exc is not None:
        exc = st.exc.func if isinstance(st.exc, ast.Call) else st.exc
        if isinstance(exc, ast.Name) and exc.id == "ValueError":
            return "throw Strax.Err.valueError"
        raise Untranslatable("raise of something else than ValueError")
    if isinstance(st, ast.Assign) and len(st.targets) == 1 and isinstance(st.targets[0], ast.Name):
        return f"let {st.targets[0].id} : Int := {_tr_expr(st.value)}\n  {_tr_block(rest)}"
    if isinstance(st, ast.If):
        els = _tr_block(st.orelse + rest) if st.orelse else _tr_block(rest)
        # the translated subset only has `if`s whose body ends in return / raise, so the rest is the else branch
        if not isinstance(st.body[-1], (ast.Return, ast.Raise)):
            raise Untranslatable("if-body that falls through")
        return f"if {_tr_cond(st.test)} then ({_tr_block(st.body)})\n  else\n  {els}"
    raise Untranslatable(type(st).__name__)


def regen(ctx):
    """Regenerate Generated/OverlapIndices.lean from the current source of strax.processing.general.overlap_indices."""
    import ast
    from lib.engine import LEAN, REPO
    out = LEAN / "StraxModel" / "Generated" / "OverlapIndices.lean"
    try:
        tree = ast.parse((REPO / "strax" / "processing" / "general.py").read_text())
        fn = next(n for n in ast.walk(tree) if isinstance(n, ast.FunctionDef) and n.name == "overlap_indices")
        args = [a.arg for a in fn.args.args]
        if len(args) != 4 or fn.args.vararg or fn.args.kwarg or fn.args.kwonlyargs or fn.args.defaults:
            raise Untranslatable("signature")
        body = _tr_block(fn.body)
    except (Untranslatable, StopIteration, SyntaxError) as e:
        ctx.translator["overlap_indices"] = f"untranslatable: {e}"
        ctx.violation("translator:overlap_indices", "translator", None, {"reason": str(e)},
                      "translator regenerates Generated.overlapIndices from the source of overlap_indices", False)
        return
    ctx.translator["overlap_indices"] = "translated"
    text = ("-- GENERATED by checks/props/c17.py:regen from /repo/strax/processing/general.py (overlap_indices). Do not edit.\n"
            "import StraxModel.Model.Basic\n"
            "namespace Strax.Generated\n"
            f"def overlapIndices ({' '.join(args)} : Int) : Except Strax.Err ((Int × Int) × (Int × Int)) :=\n  {body}\n"
            "end Strax.Generated\n")
    if not out.exists() or out.read_text() != text:
        out.write_text(text)


# ============================================================================================ helpers

def rows_sorted(rows):
    return all(rows[i][0] <= rows[i + 1][0] for i in range(len(rows) - 1))


def ends_sorted(rows):
    return all(rows[i][1] <= rows[i + 1][1] for i in range(len(rows) - 1))


def non_neg(rows):
    return all(r[0] <= r[1] for r in rows)


def positive(rows):
    return all(r[0] < r[1] for r in rows)


def non_overlap(rows):
    return all(rows[i][1] <= rows[i + 1][0] for i in range(len(rows) - 1))


def show_pairs(ps):
    ps = list(ps)
    return ",".join(f"{int(a)}:{int(b)}" for a, b in ps) if ps else "-"


def show_groups(groups):
    return f"{len(groups)}:" + "|".join(sl.show_ids(g) for g in groups)


def parse_ints(s):
    return [] if s == "-" else [int(x) for x in s.split(",")]


def parse_pairs(s):
    return [] if s == "-" else [tuple(int(x) for x in tok.split(":")) for tok in s.split(",")]


def parse_groups(s):
    n, body = s.split(":", 1)
    if int(n) == 0:
        return []
    return [parse_ints(g) for g in body.split("|")]


# ============================================================================================ single functions
# Every function below takes real numpy arrays and returns the canonical answer line of the real code.

def r_fcin(t, c):
    return sl.guarded(lambda: sl.show_ints(strax.fully_contained_in(t, c)))


def r_fcincore(t, c):
    return sl.guarded(lambda: sl.show_ints(G._fully_contained_in(t, c)))


def r_split(t, c):
    def f():
        res = strax.split_by_containment(t, c)
        return show_groups([[(0, 0, int(k)) for k in g["id"]] for g in res])
    return sl.guarded(f)


def r_touch(t, c, w):
    return sl.guarded(lambda: show_pairs(strax.touching_windows(t, c, window=w)))


def r_splittouch(t, c, w):
    def f():
        res = strax.split_touching_windows(t, c, window=w)
        return show_groups([[(0, 0, int(k)) for k in g["id"]] for g in res])
    return sl.guarded(f)


def r_touchcore(t, c, w):
    return sl.guarded(lambda: show_pairs(G._touching_windows(t["time"], strax.endtime(t), c["time"], strax.endtime(c), window=w)))


def r_prevnext(t, c):
    def f():
        p, n = strax.abs_time_to_prev_next_interval(t, c)
        return show_pairs(zip(p, n))
    return sl.guarded(f)


PAIR_FUNCS = {"fcin": r_fcin, "fcincore": r_fcincore, "split": r_split, "touch": r_touch, "touchcore": r_touchcore, "splittouch": r_splittouch,
              "prevnext": r_prevnext}


# ---- oracles on (things rows, containers rows, extra, answer line): None or a message

def contained(a, b):
    """thing a inside container b. For a positive-length thing this is the subset relation of half-open intervals
    (b.time <= a.time and a.endt <= b.endt); a zero-length thing [t,t) counts as the instant t (t < b.endt)."""
    return b[0] <= a[0] and a[1] <= b[1] and a[0] < b[1]


def sanity_ok(t, c):
    return rows_sorted(t) and rows_sorted(c) and non_neg(t) and non_neg(c)


def o_fcin(t, c, extra, out):
    if not sanity_ok(t, c):
        return None if out == "err ValueError" else f"unsorted / negative-length input not rejected with ValueError: {out}"
    if out.startswith("err"):
        return f"valid input rejected: {out}"
    if not non_overlap(c):
        return None  # outside the documented precondition (only a warning): correspondence only
    exp = [next((j for j, b in enumerate(c) if contained(a, b)), -1) for a in t]
    got = parse_ints(out[3:])
    if got != exp:
        return f"fully_contained_in != first containing container: expected {exp}"
    for a, g in zip(t, got):  # for positive-length things the plain subset relation must give the same
        if a[0] < a[1] and g != next((j for j, b in enumerate(c) if b[0] <= a[0] and a[1] <= b[1]), -1):
            return "positive-length thing: result differs from the plain subset definition"
    return None


def o_fcincore(t, c, extra, out):
    if not (rows_sorted(t) and rows_sorted(c) and non_overlap(c)):
        return None
    exp = [next((j for j, b in enumerate(c) if contained(a, b)), -1) for a in t]
    if out != "ok " + sl.show_ints(exp):
        return f"_fully_contained_in != first containing container: expected {exp}"
    return None


def o_split(t, c, extra, out):
    if not sanity_ok(t, c):
        return None if out == "err ValueError" else f"unsorted / negative-length input not rejected with ValueError: {out}"
    if out.startswith("err"):
        return f"valid input rejected: {out}"
    if not non_overlap(c):
        return None
    exp = [[a[2] for a in t if contained(a, b)] for b in c]
    got = parse_groups(out[3:])
    if got != exp:
        return f"split_by_containment != things contained in each container: expected {exp}"
    return None


def touches(a, b, w):
    return a[1] > b[0] - w and a[0] < b[1] + w


def o_touch(t, c, w, out):
    if not sanity_ok(t, c):
        return None if out == "err ValueError" else f"unsorted / negative-length input not rejected with ValueError: {out}"
    if out.startswith("err"):
        return f"valid input rejected: {out}"
    if not ends_sorted(t):
        return None  # outside the documented precondition (only a warning)
    got = parse_pairs(out[3:])
    if len(got) != len(c):
        return "one window per container expected"
    for b, (l, r) in zip(c, got):
        el = sum(1 for a in t if a[1] <= b[0] - w)
        er = sum(1 for a in t if a[0] < b[1] + w)
        # a non-empty touching set fixes both indices; an empty one only asks for an empty slice (any l >= r would do,
        # the exact pair is compared with the model by the correspondence)
        if el < er and (l, r) != (el, er):
            return f"window of container {b[:2]} is ({l},{r}), definition gives ({el},{er})"
        for k, a in enumerate(t):
            if (l <= k < r) != touches(a, b, w):
                return f"thing {k} touching container {b[:2]} within {w}: window says {l <= k < r}, definition {touches(a, b, w)}"
    return None


def o_splittouch(t, c, w, out):
    if not sanity_ok(t, c):
        return None if out == "err ValueError" else f"unsorted / negative-length input not rejected with ValueError: {out}"
    if out.startswith("err"):
        return f"valid input rejected: {out}"
    if not ends_sorted(t):
        return None
    exp = [[a[2] for a in t if touches(a, b, w)] for b in c]
    if parse_groups(out[3:]) != exp:
        return f"split_touching_windows != things touching each container within {w}: expected {exp}"
    return None


def o_touchcore(t, c, w, out):
    if not (rows_sorted(t) and ends_sorted(t) and rows_sorted(c)):
        return None
    got = parse_pairs(out[3:])
    if len(got) != len(c):
        return "one window per container expected"
    for b, (l, r) in zip(c, got):
        el = sum(1 for a in t if a[1] <= b[0] - w)
        er = sum(1 for a in t if a[0] < b[1] + w)
        if el < er and (l, r) != (el, er):
            return f"_touching_windows: window of container {b[:2]} is ({l},{r}), definition gives ({el},{er})"
        if any((l <= k < r) != touches(a, b, w) for k, a in enumerate(t)):
            return f"_touching_windows: window ({l},{r}) of container {b[:2]} is not the set of touching things"
    return None


def prevnext_pre(t, c):
    """the documented precondition, nothing wider: things sorted and non-overlapping, intervals sorted and
    non-overlapping; lengths: intervals positive (a zero-length interval sitting on a thing's edge makes 'previous' / 'next'
    ambiguous), things non-negative. Outside of it (e.g. overlapping things, for which prev_next_spec also holds) only the
    agreement with the model is checked, so that a rewrite exploiting 'events cannot overlap' is not a false alarm."""
    return rows_sorted(t) and rows_sorted(c) and non_overlap(t) and non_overlap(c) and non_neg(t) and positive(c)


def o_prevnext(t, c, extra, out):
    if not (rows_sorted(t) and rows_sorted(c)):
        return None if out == "err ValueError" else f"unsorted input not rejected with ValueError: {out}"
    if out.startswith("err"):
        return f"valid input rejected: {out}"
    if not prevnext_pre(t, c):
        return None
    exp = []
    for a in t:
        before = [a[0] - b[1] for b in c if b[1] <= a[0]]
        after = [b[0] - a[1] for b in c if b[0] >= a[1]]
        exp.append((min(before) if before else -1, min(after) if after else -1))
    if parse_pairs(out[3:]) != exp:
        return f"abs_time_to_prev_next_interval != distance to the nearest interval before / after: expected {exp}"
    return None


PAIR_ORACLES = {"fcin": o_fcin, "fcincore": o_fcincore, "split": o_split, "touch": o_touch, "touchcore": o_touchcore, "splittouch": o_splittouch,
                "prevnext": o_prevnext}
HAS_EXTRA = {"touch", "touchcore", "splittouch"}


# ============================================================================================ pair cases (single)
# case = {"fn", "t": rows, "c": rows, "et", "ec", ["w"]}

def impl_pair(case):
    t = sl.mk_array(case["t"], case.get("et", "end"))
    c = sl.mk_array(case["c"], case.get("ec", "end"))
    f = PAIR_FUNCS[case["fn"]]
    return f(t, c, case["w"]) if case["fn"] in HAS_EXTRA else f(t, c)


def op_pair(case):
    s = f"c17.{case['fn']} {sl.show_rows(case['t'])} {sl.show_rows(case['c'])}"
    return s + (f" {case['w']}" if case["fn"] in HAS_EXTRA else "")


def oracle_pair(case, out):
    t = [tuple(r) for r in case["t"]]
    c = [tuple(r) for r in case["c"]]
    return PAIR_ORACLES[case["fn"]](t, c, case.get("w"), out)


# ============================================================================================ sweeps
# One engine case = one things array against EVERY container configuration of a named scope.
# case = {"fn", "t": rows, "cs": scope key, "et", "flip", ["w"]}

def _scope_rows(key):
    """key = '<kind>:<zero>:<max_n>:<grid>' ; kind: nonov (sorted, non-overlapping) | sorted (sorted by time)"""
    kind, zero, max_n, grid = key.split(":")
    out = []
    for rows in gen.all_sorted_rows(int(max_n), int(grid), allow_zero=(zero == "zero")):
        if kind == "sorted" or non_overlap(rows):
            out.append(rows)
    return out


_SCOPES = {}


def scope(key):
    s = _SCOPES.get(key)
    if s is None:
        rows = _scope_rows(key)
        s = _SCOPES[key] = dict(rows=rows, arr={e: [sl.mk_array(r, e) for r in rows] for e in ("end", "len")},
                                text=";".join(sl.show_rows(r) for r in rows))
    return s


ENCS = ("end", "len")


def sweep_eval(case):
    """(answer line, oracle message or None, index of the first failing configuration or None) — runs in a worker process"""
    sc = scope(case["cs"])
    fn = case["fn"]
    f, orc = PAIR_FUNCS[fn], PAIR_ORACLES[fn]
    trows = [tuple(r) for r in case["t"]]
    t = sl.mk_array(trows, case["et"])
    flip = case["flip"]
    w = case.get("w")
    outs = []
    msg = bad = None
    for j, crow in enumerate(sc["rows"]):
        c = sc["arr"][ENCS[(j + flip) % 2]][j]
        o = f(t, c, w) if fn in HAS_EXTRA else f(t, c)
        outs.append(o)
        if msg is None:
            m = orc(trows, crow, w, o)
            if m:
                msg, bad = f"containers {sl.show_rows(crow)}: {m}", j
    return ";".join(outs), msg, bad


def single_of(case, j):
    """the stand-alone pair case for configuration j of a sweep case (minimal replay)"""
    c = dict(fn=case["fn"], t=case["t"], c=[list(r) for r in scope(case["cs"])["rows"][j]], et=case["et"],
             ec=ENCS[(j + case["flip"]) % 2])
    if "w" in case:
        c["w"] = case["w"]
    return c


def op_sweep(case):
    sc = scope(case["cs"])
    s = f"c17.sweep c17.{case['fn']} {sl.show_rows(case['t'])} {sc['text']}"
    return s + (f" {case['w']}" if case["fn"] in HAS_EXTRA else "")


def impl_sweep(case):
    return sweep_eval(case)[0]


def oracle_sweep(case, out):
    return sweep_eval(case)[1]


_POOL = None
PAIRS = {}


def warmup():
    """compile every jitted function (and the typed-list methods split_by_containment uses on its Python-level paths)
    for both encodings in this process, before the workers are forked"""
    for et in ENCS:
        for ec in ENCS:
            for trows in ([(0, 2, 0), (3, 4, 1)], []):
                for crows in ([(0, 5, 0)], []):
                    t, c = sl.mk_array(trows, et), sl.mk_array(crows, ec)
                    for fn, f in PAIR_FUNCS.items():
                        f(t, c, 0) if fn in HAS_EXTRA else f(t, c)


def nproc():
    try:
        n = int(os.environ.get("VERIF_NPROC", "0"))
    except ValueError:
        n = 0
    return n if n > 0 else min(16, os.cpu_count() or 1)


def pool():
    global _POOL
    if _POOL is None and nproc() > 1:
        warmup()
        _POOL = multiprocessing.get_context("fork").Pool(nproc())
    return _POOL


def close_pool():
    global _POOL
    if _POOL is not None:
        _POOL.close()
        _POOL.join()
        _POOL = None

def run_sweep(ctx, name, cases, rule, pairs_per_case, branch=None, batch=1500):
    """evaluate the sweep cases (in worker processes when available) and hand them to the engine in batches"""
    cases = list(cases)
    for c in cases:
        scope(c["cs"])  # build before forking so the workers inherit it
    if os.environ.get("VERIF_C17_DRY"):  # development aid: only count
        PAIRS[name] = PAIRS.get(name, 0) + len(cases) * pairs_per_case
        return
    p = pool()
    for i in range(0, len(cases), batch):
        chunk = cases[i:i + batch]
        # map_async + timeout: a dead worker must end in a machinery error (exit 2), not in a hang
        res = p.map_async(sweep_eval, chunk, chunksize=8).get(timeout=3000) if p is not None else [sweep_eval(c) for c in chunk]
        table = {id(c): r for c, r in zip(chunk, res)}
        # a failing configuration is also handed over as a stand-alone pair so that the replay file is minimal
        singles = [single_of(c, r[2]) for c, r in zip(chunk, res) if r[2] is not None][:5]
        if singles:
            ctx.correspond(name + "/failing-pair", singles, impl_pair, op_pair, oracle_pair, rule="configurations of the sweep on which the oracle failed, as single cases")
        ctx.correspond(name, chunk, lambda c: table[id(c)][0], op_sweep, lambda c, o: table[id(c)][1],
                       nontrivial=lambda c, o: len(c["t"]) >= 1, rule=rule, exhaustive=True, branch=branch)
    PAIRS[name] = PAIRS.get(name, 0) + len(cases) * pairs_per_case


def things_cases(fn, things_list, cs, w=None, all_enc=False):
    out = []
    for i, t in enumerate(things_list):
        combos = [(e, f) for e in ENCS for f in (0, 1)] if all_enc else [(ENCS[i % 2], (i // 2) % 2)]
        for et, flip in combos:
            c = dict(fn=fn, t=[list(r) for r in t], cs=cs, et=et, flip=flip)
            if w is not None:
                c["w"] = w
            out.append(c)
    return out


def sorted_things(max_n, grid, zero=False, ends=False, nonov=False):
    out = []
    for rows in gen.all_sorted_rows(max_n, grid, allow_zero=zero):
        if ends and not ends_sorted(rows):
            continue
        if nonov and not non_overlap(rows):
            continue
        out.append(rows)
    return out


# ============================================================================================ other functions

def impl_overlap(case):
    return sl.guarded(lambda: ",".join(str(int(x)) for pair in strax.overlap_indices(case["a1"], case["na"], case["b1"], case["nb"]) for x in pair))


def op_overlap(case):
    return f"c17.overlap {case['a1']} {case['na']} {case['b1']} {case['nb']}"


def oracle_overlap(case, out):
    a1, na, b1, nb = case["a1"], case["na"], case["b1"], case["nb"]
    if na < 0 or nb < 0:
        return None if out == "err ValueError" else f"negative length not rejected: {out}"
    if out.startswith("err"):
        return f"valid input rejected: {out}"
    inter = sorted(set(range(a1, a1 + na)) & set(range(b1, b1 + nb)))
    exp = (0, 0, 0, 0) if not inter else (inter[0] - a1, inter[-1] + 1 - a1, inter[0] - b1, inter[-1] + 1 - b1)
    if tuple(parse_ints(out[3:])) != exp:
        return f"overlap_indices != index ranges of the intersection: expected {exp}"
    return None


def impl_diff(case):
    return "ok " + sl.show_ints(strax.diff(sl.mk_array(case["rows"], case.get("enc", "end"))))


def oracle_diff(case, out):
    rows = case["rows"]
    exp = [rows[i + 1][0] - max(r[1] for r in rows[: i + 1]) for i in range(len(rows) - 1)]
    return None if out == "ok " + sl.show_ints(exp) else f"diff != gap to the running maximum end: expected {exp}"


def impl_findbreak(case):
    data = sl.mk_array(case["rows"], case.get("enc", "end"))
    return sl.guarded(lambda: str(int(G._find_break_i(data, case["safe"], case["nb"]))))


def op_findbreak(case):
    return f"c17.findbreak {sl.show_rows(case['rows'])} {case['safe']} {case['nb']}"


def first_break(rows, safe, nb):
    for i in range(1, len(rows)):
        if rows[i][0] >= max([nb] + [r[1] for r in rows[:i]]) + safe:
            return i
    return None


def oracle_findbreak(case, out):
    rows = case["rows"]
    if len(rows) < 2:
        return None if out == "err AssertionError" else f"fewer than two rows: expected an assertion, got {out}"
    i = first_break(rows, case["safe"], case["nb"])
    exp = "err NoBreakFound" if i is None else f"ok {i}"
    return None if out == exp else f"_find_break_i != first index whose start >= running max end (from not_before) + safe_break: expected {exp}"


def impl_frombreak(case):
    data = sl.mk_array(case["rows"], case.get("enc", "end"))

    def f():
        x, t = strax.from_break(data, safe_break=case["safe"], not_before=case["nb"], left=bool(case["left"]), tolerant=bool(case["tol"]))
        return f"{sl.show_ids(sl.rows_of(x))} {int(t)}"
    return sl.guarded(f)


def op_frombreak(case):
    return f"c17.frombreak {sl.show_rows(case['rows'])} {case['safe']} {case['nb']} {int(case['left'])} {int(case['tol'])}"


def oracle_frombreak(case, out):
    rows = case["rows"]
    if case["tol"] or not rows:
        return None if out == "err NotImplementedError" else f"expected NotImplementedError, got {out}"
    i = first_break(rows, case["safe"], case["nb"]) if len(rows) >= 2 else None
    if i is None:
        return None if out == "err NoBreakFound" else f"no break exists: expected NoBreakFound, got {out}"
    part = rows[:i] if case["left"] else rows[i:]
    exp = f"ok {sl.show_ids(part)} {rows[i][0]}"
    return None if out == exp else f"from_break != rows on the requested side of the first break: expected {exp}"


# -- sort_by_time: rows are (time, channel, id)
DT_CH = np.dtype([(("Start time", "time"), np.int64), (("Channel", "channel"), np.int16), (("Identity", "id"), np.int64)])
DT_NOCH = np.dtype([(("Start time", "time"), np.int64), (("Identity", "id"), np.int64)])


def impl_sort(case):
    rows = case["rows"]
    a = np.zeros(len(rows), dtype=DT_CH if case["ch"] else DT_NOCH)
    for i, (t, ch, k) in enumerate(rows):
        a[i]["time"], a[i]["id"] = t, k
        if case["ch"]:
            a[i]["channel"] = ch
    return sl.guarded(lambda: sl.show_ints(strax.sort_by_time(a)["id"]))


def op_sort(case):
    return f"c17.sort {int(case['ch'])} {sl.show_rows(case['rows'])}"


def oracle_sort(case, out):
    rows = [tuple(r) for r in case["rows"]]
    if out.startswith("err"):
        return f"sort_by_time failed: {out}"
    got = parse_ints(out[3:])
    by_id = {r[2]: r for r in rows}
    if sorted(got) != sorted(by_id):
        return "result is not a permutation of the input"
    key = (lambda r: (r[0], r[1])) if case["ch"] else (lambda r: r[0])
    res = [by_id[k] for k in got]
    span, m1 = sort_span_m(case)
    if any(key(res[i]) > key(res[i + 1]) for i in range(len(res) - 1)):
        where = ""
        if span * m1 > 2**63 - 11 - m1 and not float_guard(span, m1):
            where = (f" [guard band: span*(maxch+1) = 2^63{span * m1 - 2**63:+d} with maxch+1 = {m1}: the float64 guard keeps the "
                     "composite-key path and the int64 key wraps]")
        return "result not sorted by (time, channel)" + where
    pos = {r[2]: i for i, r in enumerate(rows)}
    if any(key(res[i]) == key(res[i + 1]) and pos[res[i][2]] > pos[res[i + 1][2]] for i in range(len(res) - 1)):
        where = ""
        if sort_slow_path(case):
            where = (" [slow path: span*(maxch+1) > 2^63-11, np.sort(order=...) orders rows that tie on (time, channel) by "
                     "their remaining fields]")
        return "rows with equal key changed their relative order (sort not stable)" + where
    return None


def sort_span_m(case):
    """(time span, max shifted channel + 1) as sort_by_time computes them"""
    rows = case["rows"]
    if not rows:
        return 0, 1
    if case["ch"]:
        chans = [r[1] for r in rows]
        m = min(chans)
        mx = max(c - m for c in chans) if m < 0 else max(chans)
    else:
        mx = 1
    return max(r[0] for r in rows) - min(r[0] for r in rows), mx + 1


def sort_slow_path(case):
    """would sort_by_time leave its composite-key path if the guard were evaluated exactly?"""
    span, m1 = sort_span_m(case)
    return span * m1 > 2**63 - 11


def fl53(n):
    """int -> float64 -> int (round to nearest, ties to even)"""
    if n < 0:
        return -fl53(-n)
    if n < 2**53:
        return n
    e = n.bit_length() - 53
    q, r = n >> e, n & ((1 << e) - 1)
    half = 1 << (e - 1)
    if r > half or (r == half and q & 1):
        q += 1
    return q << e


def float_guard(span, m1):
    """`span > (2**63 - 11) / m1` as numpy evaluates it (both sides float64); only used to CLASSIFY generated cases
    (inside / outside the guard band), never to predict an output"""
    return float(fl53(span)) > float(2**63 - 11) / float(m1)


def sort_regular(case):
    """outside the guard band: the float guard decides like the exact one and the int64 key cannot wrap"""
    span, m1 = sort_span_m(case)
    exact = span * m1 > 2**63 - 11
    return span < 2**63 and float_guard(span, m1) == exact and (exact or span * m1 + m1 - 1 < 2**63)


def impl_splitraw(case):
    data = sl.mk_array(case["rows"], "end")
    return sl.guarded(lambda: show_groups([sl.rows_of(g) for g in G._split(data, np.array(case["idx"], dtype=np.int64))]))


def oracle_splitraw(case, out):
    rows, idx = [tuple(r) for r in case["rows"]], case["idx"]
    got = parse_groups(out[3:])
    flat = [k for g in got for k in g]
    if flat != [r[2] for r in rows]:
        return "_split pieces do not concatenate to the input"
    cuts = [0, *idx] + ([len(rows)] if (not idx or idx[-1] < len(rows)) else [])
    exp = [[r[2] for r in rows[a:b]] for a, b in zip(cuts[:-1], cuts[1:])]
    return None if got == exp else f"_split != slices between consecutive indices: expected {exp}"


def impl_emptyids(case):
    return sl.guarded(lambda: sl.show_ints(G._get_empty_container_ids(case["n"], np.array(case["full"], dtype=np.int64))))


def oracle_emptyids(case, out):
    exp = [i for i in range(case["n"]) if i not in case["full"]]
    return None if out == "ok " + sl.show_ints(exp) else f"_get_empty_container_ids != complement: expected {exp}"


# ============================================================================================ generation

def rnd_valid_containers(rng, n, zero_p=0.0):
    rows, t = [], rng.randint(0, 4)
    for i in range(n):
        ln = 0 if rng.random() < zero_p else rng.randint(1, 8)
        rows.append((t, t + ln, i))
        t = t + ln + rng.choice([0, 0, 1, 2, 5])
    return rows


def rnd_things(rng, n, span, zero_p=0.0, ends_sorted_too=False):
    ts = sorted(rng.randint(0, span) for _ in range(n))
    rows, last_e = [], None
    for i, t in enumerate(ts):
        ln = 0 if rng.random() < zero_p else rng.randint(1, 7)
        e = t + ln
        if ends_sorted_too and last_e is not None:
            e = max(e, last_e)
        last_e = e
        rows.append((t, e, i))
    return rows


def malform(rng, rows):
    """break sortedness or length sign of a valid array; returns (rows, what)"""
    rows = [list(r) for r in rows]
    what = rng.choice(["swap", "neg", "swap", "neg", "both"])
    if len(rows) >= 2 and what in ("swap", "both"):
        i = rng.randrange(len(rows) - 1)
        j = rng.randrange(i + 1, len(rows))
        rows[i], rows[j] = rows[j], rows[i]
    if rows and what in ("neg", "both"):
        i = rng.randrange(len(rows))
        rows[i][1] = rows[i][0] - rng.randint(1, 3)
    return [tuple(r) for r in rows]


T0 = 1_700_000_000_000_000_137  # a nanosecond-epoch timestamp: float64 spacing there is 256 ns


def shift_rows(rows, d=T0):
    return [(r[0] + d, r[1] + d, r[2]) for r in rows]


def epoch_components(ctx):
    """Every function again with EVERY time moved to a real nanosecond-epoch value. The model is translation invariant
    (theorem translation_invariant*), so any arithmetic in the real code that leaves exact int64 (float64 keeps only
    multiples of 256 ns there) shows up as a disagreement and as an oracle failure with the shifted input."""
    rng = ctx.rng
    n = ctx.pick(500, 4000)
    cases = []
    for fn in ("fcin", "fcincore", "split", "prevnext", "touch", "touchcore", "splittouch"):
        for _ in range(n):
            both = rng.random() < 0.85
            if fn in ("touch", "touchcore", "splittouch"):
                t = rnd_things(rng, rng.randint(0, 6), 10, zero_p=rng.choice([0, 0.2]), ends_sorted_too=both)
                c = rnd_things(rng, rng.randint(0, 4), 10, zero_p=rng.choice([0, 0.2]))
            else:
                c = rnd_valid_containers(rng, rng.randint(0, 4), zero_p=rng.choice([0, 0.2]))
                t = rnd_things(rng, rng.randint(0, 6), (c[-1][1] if c else 6) + 3, zero_p=rng.choice([0, 0.2]))
            if rng.random() < 0.1:
                t = malform(rng, t)
            case = dict(fn=fn, t=shift_rows(t), c=shift_rows(c), et=rng.choice(ENCS), ec=rng.choice(ENCS))
            if fn in HAS_EXTRA:
                case["w"] = rng.randint(-2, 3)
            cases.append(case)
    ctx.correspond("epoch/pairs", cases, impl_pair, op_pair, oracle_pair, nontrivial=lambda c, o: len(c["t"]) >= 1 and len(c["c"]) >= 1,
                   rule=f"all times shifted by T0 = {T0}: fully_contained_in (+core), split_by_containment, abs_time_to_prev_next_interval, touching_windows (+core), "
                        "split_touching_windows on random small arrays with many coinciding endpoints (lengths <= 8, windows -2..3), 10% malformed",
                   branch=lambda c, o: f"{c['fn']}:{o.split(' ')[0]}")
    cases, fcases, dcases = [], [], []
    for _ in range(n):
        rows = gen.gen_rows(rng, rng.randint(0, 8), mode=rng.choice(["disjoint", "touching", "mixed", "long"]))
        ends = [r[1] for r in rows] or [0]
        nb = rng.choice([0, T0, T0 + rng.choice(ends), T0 + rng.choice(ends) + 2, T0 - 3])
        c = dict(rows=shift_rows(rows), safe=rng.randint(0, 5), nb=nb, enc=rng.choice(ENCS))
        cases.append(c)
        fcases.append(dict(c, left=rng.randint(0, 1), tol=0))
        dcases.append(dict(rows=c["rows"], enc=c["enc"]))
    ctx.correspond("epoch/find_break", cases, impl_findbreak, op_findbreak, oracle_findbreak, nontrivial=lambda c, o: len(c["rows"]) >= 2,
                   rule="rows and not_before shifted by T0, safe_break 0..5", branch=lambda c, o: o if o.startswith("err") else "ok")
    ctx.correspond("epoch/from_break", fcases, impl_frombreak, op_frombreak, oracle_frombreak, nontrivial=lambda c, o: o.startswith("ok"),
                   rule="the same through from_break")
    ctx.correspond("epoch/diff", dcases, impl_diff, lambda c: f"c17.diff {sl.show_rows(c['rows'])}", oracle_diff,
                   nontrivial=lambda c, o: len(c["rows"]) >= 2, rule="rows shifted by T0")
    cases = [dict(a1=T0 + rng.randint(-6, 6), na=rng.randint(-1, 7), b1=T0 + rng.randint(-6, 6), nb=rng.randint(-1, 7)) for _ in range(n)]
    ctx.correspond("epoch/overlap_indices", cases, impl_overlap, op_overlap, oracle_overlap, nontrivial=lambda c, o: o.startswith("ok") and o != "ok 0,0,0,0",
                   rule="a1, b1 = T0 + (-6..6), lengths -1..7")
    cases = []
    for _ in range(n):
        k = rng.randint(0, 20)
        cases.append(dict(rows=[(T0 + rng.randint(0, 4), rng.randint(rng.choice([0, -2]), 3), i) for i in range(k)], ch=int(rng.random() < 0.7)))
    ctx.correspond("epoch/sort_by_time", cases, impl_sort, op_sort, oracle_sort, nontrivial=lambda c, o: len(c["rows"]) >= 2,
                   rule="times T0 + 0..4 (small span: composite-key path), 0..20 rows with many ties", branch=lambda c, o: f"ch={c['ch']}")


def dedupe_keys(rows, ch):
    """drop rows whose (time, channel) already occurred: stability is then vacuous"""
    seen, out = set(), []
    for r in rows:
        k = (r[0], r[1]) if ch else r[0]
        if k not in seen:
            seen.add(k)
            out.append(r)
    return [(t, c, i) for i, (t, c, _) in enumerate(out)]


def sort_regime_components(ctx):
    """sort_by_time beyond small spans: the band between 4e6 and 5e18 ns, the float64 landmarks (2^53), the guard
    threshold (exactly evaluated: span*(maxch+1) = 2^63-11) from far below to far above, with and without channel field"""
    rng = ctx.rng
    big = 5 * 10**18
    # (a) slow path without ties in (time, channel)
    cases = []
    opts = [(t, ch) for t in (0, 1, big, big + 1) for ch in (0, 1)]
    for n in range(2, 5):
        for combo in itertools.permutations(opts, n):
            if n == 4 and hash(combo) % (2 if ctx.thorough else 12):
                continue
            cases.append(dict(rows=[(t, ch, i) for i, (t, ch) in enumerate(combo)], ch=1))
    for _ in range(ctx.pick(500, 4000)):
        n = rng.randint(2, 14)
        base = rng.choice([0, 4 * 10**18, -4 * 10**18])
        rows = [(base + rng.choice([0, 1, 2, 7, big, big + 1, big - 3]), rng.randint(rng.choice([0, -2]), 2), i) for i in range(n)]
        rows[0] = (base, rows[0][1], rows[0][2])
        rows[-1] = (base + big, rows[-1][1], rows[-1][2])
        rng.shuffle(rows)
        ch = int(rng.random() < 0.7)
        cases.append(dict(rows=dedupe_keys(rows, ch), ch=ch))
    cases = [c for c in cases if sort_slow_path(c) and sort_regular(c)]
    ctx.correspond("sort_by_time/slow-path", cases, impl_sort, op_sort, oracle_sort, nontrivial=lambda c, o: len(c["rows"]) >= 3,
                   rule="time span 5e18 ns (> (2^63-10)/(channels+1), far from the guard band) with 2..5 channel values or no channel field, rows with pairwise "
                        "different (time, channel): all small arrays over times (0,1,5e18,5e18+1) x channels (0,1) and random arrays; model: lexicographic by "
                        "(time, channel, remaining field)", branch=lambda c, o: f"ch={c['ch']}")
    # (b) the open finding: ties on the slow path (kept to five probes)
    d54 = 4_700_000_000_000_000  # 54.4 days in ns: with 2000 channels this is already beyond the guard
    ties = [dict(rows=[(0, 1, 3), (0, 1, 2), (big, 0, 1)], ch=1),
            dict(rows=[(0, 0, 3), (0, 0, 2), (big, 0, 1)], ch=0),
            dict(rows=[(big, 1, 5), (0, 1, 4), (0, 1, 2), (big, 1, 1), (0, 1, 3)], ch=1),
            dict(rows=[(0, 1999, 3), (0, 1999, 2), (d54, 0, 1)], ch=1),
            dict(rows=[(T0 + d54, 0, 4), (T0, 1999, 3), (T0, 1999, 2), (T0, 7, 1)], ch=1)]
    ctx.correspond("sort_by_time/slow-path-ties", ties, impl_sort, op_sort, oracle_sort, rule="five probes of the open finding C17-sort-slow-path-not-stable: rows that tie on (time, channel) "
                   "with decreasing ids on the slow path, at 5e18 ns with 2 channels and at 54 days with 2000 channels", in_hyp=lambda c, o: False)
    # (c) spans from 4e6 to 5e18, outside the guard band: full oracle (keys pairwise different, so stability is vacuous on the slow path)
    cases = []
    for _ in range(ctx.pick(2500, 20000)):
        ch = int(rng.random() < 0.55)
        maxc = rng.choice([1, 1, 2, 3, 7, 100, 1999]) if ch else 1
        m1 = maxc + 1
        thr = (2**63 - 11) // m1
        kind = rng.choice(["2^53", "2^53", "log", "log", "below-thr", "above-thr"])
        if kind == "2^53":
            span = 2**53 + rng.randint(-4, 4) * rng.choice([1, 1, 2])
        elif kind == "log":
            span = int(4 * 10**6 * (1.25 * 10**12) ** rng.random()) + rng.randint(0, 3)
        elif kind == "below-thr":
            span = thr - rng.choice([1, 2, 5, 100]) * max(1, thr >> rng.choice([30, 40, 48]))
        else:
            span = thr + rng.choice([1, 2, 5, 100]) * max(1, thr >> rng.choice([30, 40, 48]))
        base = rng.choice([0, 0, -2**62, T0])
        if base + span > 2**63 - 1 or span < 8:
            base = -2**62 if span > 2**62 else 0
            if base + span > 2**63 - 1:
                continue
        k = rng.randint(1, 8)
        times = [0, span] + [rng.choice([0, 1, 2, 3, span - 1, span - 2, span - 3, span // 2, span // 2 + 1, 2**53, 2**53 + 1]) for _ in range(k)]
        times = [t for t in times if 0 <= t <= span]
        rows = [(base + t, (rng.choice([0, maxc, rng.randint(0, maxc)]) if ch else 0), i) for i, t in enumerate(times)]
        if ch:
            rows[0] = (rows[0][0], maxc, 0)
        rng.shuffle(rows)
        case = dict(rows=dedupe_keys(rows, ch), ch=ch, kind=kind)
        if sort_regular(case):
            cases.append(case)
    ctx.correspond("sort_by_time/spans", cases, impl_sort, op_sort, oracle_sort, nontrivial=lambda c, o: len(c["rows"]) >= 3,
                   rule="time spans log-uniform in 4e6..5e18 ns, at 2^53 +- 8, and from 2^-30 relative below to above the guard threshold (2^63-11)/(maxch+1), "
                        "maxch+1 in (2,3,4,8,101,2000) or no channel field, offsets 0 / -2^62 / T0; neighbouring times at both ends, the middle and 2^53; "
                        "only inputs outside the guard band (sortRegular), keys pairwise different",
                   branch=lambda c, o: f"ch={c['ch']}:{c['kind']}:{'slow' if sort_slow_path(c) else 'fast'}", in_hyp=lambda c, o: True)
    # (d) inside and right next to the guard band: the model (float64 guard, int64 wrap) must give what the code gives
    cases, probes = [], []
    for _ in range(ctx.pick(1500, 12000)):
        ch = int(rng.random() < 0.6)
        maxc = rng.choice([1, 1, 2, 3, 5, 7, 10, 100, 1999]) if ch else 1
        m1 = maxc + 1
        span = 2**63 // m1 + rng.choice([rng.randint(-3, 3), rng.randint(-40, 40), rng.randint(0, 1100), rng.randint(-3000, 3000)])
        base = rng.choice([0, -2**62, T0])
        if base + span > 2**63 - 1:
            base = -2**62 if span > 2**62 else 0
        k = rng.randint(1, 5)
        times = [0, span] + [rng.choice([0, 1, 2, span - 1, span - 2, span // 2, span // 2 + 1]) for _ in range(k)]
        rows = [(base + t, (rng.choice([0, maxc]) if ch else 0), i) for i, t in enumerate(times)]
        if ch:
            rows[0] = (rows[0][0], maxc, 0)
            rows[1] = (rows[1][0], maxc, 1)
        rng.shuffle(rows)
        cases.append(dict(rows=dedupe_keys(rows, ch), ch=ch))
    ctx.correspond("sort_by_time/guard-band", cases, impl_sort, op_sort,
                   lambda c, o: oracle_sort(c, o) if sort_regular(c) else None, nontrivial=lambda c, o: not sort_regular(c),
                   rule="span = 2^63 // (maxch+1) + offsets in -3..3, -40..40, 0..1100, -3000..3000 (maxch+1 in 2,3,4,6,8,11,101,2000): inside the band only model agreement is checked (float64 guard, "
                        "int64 key wrap are modelled); the band itself is the open finding probed in sort_by_time/guard-band-probe",
                   branch=lambda c, o: "regular" if sort_regular(c) else "band", in_hyp=lambda c, o: sort_regular(c))
    probes = [dict(rows=[(0, 0, 0), (5, 1999, 1), (4611686018427388, 1999, 2)], ch=1),     # 53.4 days, 2000 channels
              dict(rows=[(4611686018427388004, 1, 0), (0, 0, 1), (5, 1, 2)], ch=1),        # the reviewer's input
              dict(rows=[(0, 0, 0), (5, 0, 1), (2**62 + 100, 0, 2)], ch=0)]               # no channel field
    ctx.correspond("sort_by_time/guard-band-probe", probes, impl_sort, op_sort, oracle_sort,
                   rule="three probes of the open finding C17-sort-guard-band-key-wrap", in_hyp=lambda c, o: False)
    # (e) what the hypothesis of the sort theorems means: sortRegular / exact guard / float guard of the Lean model
    #     against the classification used above
    allc = cases[: ctx.pick(800, 4000)] + probes + ties
    ctx.correspond("sort_by_time/regime-deciders", allc,
                   lambda c: "ok " + "".join(str(int(b)) for b in (sort_regular(c), sort_slow_path(c), float_guard(*sort_span_m(c)))),
                   lambda c: f"c17.sortreg {int(c['ch'])} {sl.show_rows(c['rows'])}", None,
                   rule="sortRegular / sortSpanTooLarge / sortTooLargeFloat of the Lean model vs the classification the generators and oracles use, on guard-band cases and probes")


# -- sort_enforcement.py
def impl_enforce(case):
    from strax import sort_enforcement as SE
    kind, what = case["kind"], case["what"]

    def f():
        if what == "stablesort":
            return sl.show_ints(strax.stable_sort(np.array(case["arr"], dtype=np.int64), kind=kind))
        if what == "stableargsort":
            return sl.show_ints(strax.stable_argsort(np.array(case["arr"], dtype=np.int64), kind=kind))
        if what == "sortkind":
            rows = case["rows"]
            a = np.zeros(len(rows), dtype=DT_CH)
            for i, (t, c, k) in enumerate(rows):
                a[i]["time"], a[i]["channel"], a[i]["id"] = t, c, k
            ch = a["channel"].astype(np.int64)
            return sl.show_ints(G._sort_by_time_and_channel(a, ch, ch.max() + 1, kind)["id"])
        t, c = sl.mk_array(case["t"]), sl.mk_array(case["c"])
        return show_pairs(G._touching_windows(t["time"], strax.endtime(t), c["time"], strax.endtime(c), window=case["w"], endtime_sort_kind=kind))
    try:
        return "ok " + f()
    except SE.SortingError:
        return "err SortingError"
    except Exception as e:  # noqa: BLE001
        return "err " + sl.err_name(e)


def op_enforce(case):
    kind, what = case["kind"], case["what"]
    if what in ("stablesort", "stableargsort"):
        return f"c17.{what} {kind} {sl.show_ints(case['arr'])}"
    if what == "sortkind":
        return f"c17.sortkind {kind} 1 {sl.show_rows(case['rows'])}"
    return f"c17.touchkind {kind} {sl.show_rows(case['t'])} {sl.show_rows(case['c'])} {case['w']}"


def oracle_enforce(case, out):
    if case["kind"] != "mergesort":
        return None if out == "err SortingError" else f"sort kind {case['kind']!r} not rejected with SortingError: {out}"
    if out.startswith("err"):
        return f"mergesort rejected: {out}"
    if case["what"] == "stablesort":
        return None if parse_ints(out[3:]) == sorted(case["arr"]) else "stable_sort(kind='mergesort') did not sort"
    if case["what"] == "stableargsort":
        arr = case["arr"]
        exp = sorted(range(len(arr)), key=lambda i: arr[i])  # Python's sort is stable
        return None if parse_ints(out[3:]) == exp else f"stable_argsort != stable order of indices: expected {exp}"
    return None  # the kernels with kind='mergesort' are covered by their own components


def enforcement_component(ctx):
    rng = ctx.rng
    cases = []
    kinds = ["mergesort", "quicksort", "heapsort", "stable", "mergesort"]
    for _ in range(ctx.pick(300, 2000)):
        kind = rng.choice(kinds)
        what = rng.choice(["stablesort", "stableargsort", "sortkind", "touchkind"])
        c = dict(kind=kind, what=what)
        if what in ("stablesort", "stableargsort"):
            c["arr"] = [rng.randint(0, 5) * rng.choice([1, 1, 10**17]) for _ in range(rng.randint(0, 30))]
        elif what == "sortkind":
            c["rows"] = [(rng.randint(0, 3), rng.randint(0, 2), i) for i in range(rng.randint(1, 24))]
        else:
            c["t"] = rnd_things(rng, rng.randint(1, 5), 10, ends_sorted_too=True)
            c["c"] = rnd_things(rng, rng.randint(1, 3), 10)
            c["w"] = rng.randint(-1, 2)
        cases.append(c)
    ctx.correspond("sort_enforcement", cases, impl_enforce, op_enforce, oracle_enforce, nontrivial=lambda c, o: True,
                   rule="strax.stable_sort / strax.stable_argsort on integer arrays with ties, _sort_by_time_and_channel(sort_kind=...) and "
                        "_touching_windows(endtime_sort_kind=...) with kind in (mergesort, quicksort, heapsort, stable): everything but mergesort must raise SortingError",
                   branch=lambda c, o: f"{c['what']}:{c['kind']}:{o.split(' ')[0]}")


def tick(ctx, label):
    import time
    from lib.engine import log
    now = time.time()
    log(f"[C17] {label}: {now - getattr(ctx, '_c17_t', ctx.t0):.1f}s (total {now - ctx.t0:.1f}s)")
    ctx._c17_t = now


def run(ctx):
    try:
        _run(ctx)
        tick(ctx, "end")
        for name, n in PAIRS.items():
            ctx.note(f"{name}: {n} (things array, second array) pairs evaluated on the real code and on the model")
    finally:
        close_pool()


def _run(ctx):
    rng = ctx.rng
    T = ctx.thorough

    # ---------------------------------------------------------------- 0. the theorems' hypotheses
    # The Boolean deciders used as hypotheses in Props/C17.lean must mean what the oracles / generators mean by
    # "sorted", "non-overlapping", ...: compare them on arbitrary (also malformed) arrays.
    def hyp_bits(rows):
        return "".join(str(int(f(rows))) for f in (rows_sorted, ends_sorted, non_neg, positive, non_overlap))
    cases = []
    for rows in gen.all_sorted_rows(3, 3, allow_zero=True):
        cases.append(dict(t=rows, c=rows[::-1]))
    for _ in range(ctx.pick(3000, 20000)):
        t = rnd_things(rng, rng.randint(0, 6), 12, zero_p=0.2, ends_sorted_too=rng.random() < 0.5)
        c = rnd_valid_containers(rng, rng.randint(0, 5), zero_p=0.2)
        if rng.random() < 0.4:
            t = malform(rng, t)
        if rng.random() < 0.4:
            c = malform(rng, c)
        cases.append(dict(t=t, c=c))
    ctx.correspond("hypotheses/deciders", cases, lambda c: f"ok {hyp_bits(c['t'])} {hyp_bits(c['c'])}",
                   lambda c: f"c17.hyp {sl.show_rows(c['t'])} {sl.show_rows(c['c'])}", None,
                   nontrivial=lambda c, o: len(c["t"]) >= 2,
                   rule="sortedByTimeB / sortedByEndB / nonNegB / positiveRowsB / nonOverlapB of the Lean development vs the predicates the Python oracles use, "
                        "on small exhaustive arrays (and their reversals) and random valid / malformed arrays",
                   branch=lambda c, o: o[3:8])

    tick(ctx, "before section 1")
    # ---------------------------------------------------------------- 1. fully_contained_in
    # exhaustive: every sorted positive-length things array x every sorted non-overlapping containers array
    scopes = [(3, 6, "nonov:pos:2:6"), (4, 5, "nonov:pos:3:5")] if not T else [(4, 7, "nonov:pos:3:7")]
    for tn, tg, cs in scopes:
        things = sorted_things(tn, tg)
        run_sweep(ctx, "fcin/exhaustive", things_cases("fcin", things, cs), pairs_per_case=len(scope(cs)["rows"]),
                  rule=f"every time-sorted array of <= {tn} positive-length things on grid 0..{tg} x every scope '{cs}' "
                       "(kind:zero-length?:max containers:grid) configuration of sorted non-overlapping containers; one case = one things array "
                       "against all container configurations; endtime encodings end/len alternate over things and containers",
                  branch=lambda c, o: f"things={len(c['t'])}")
    # zero-length things and containers, all four encoding combinations
    for zt, zg, zc, allenc in ([(3, 4, "nonov:zero:3:4", False)] if not T else [(3, 4, "nonov:zero:3:4", True), (3, 5, "nonov:zero:3:5", False)]):
        run_sweep(ctx, "fcin/zero-length", things_cases("fcin", sorted_things(zt, zg, zero=True), zc, all_enc=allenc),
                  pairs_per_case=len(scope(zc)["rows"]),
                  rule="every time-sorted array of <= 3 things incl. zero-length on grid 0..4 (thorough: all 4 encoding combinations, and grid 0..5) x every "
                       "sorted non-overlapping containers array (<= 3, zero-length allowed) on the same grid",
                  branch=lambda c, o: f"things={len(c['t'])}")
    # the jitted core without the sanity wrapper, arbitrary (also overlapping / unsorted) containers: model agreement
    cc, cg = (2, 4) if not T else (3, 4)
    run_sweep(ctx, "fcin/core-any-containers", things_cases("fcincore", sorted_things(3, 4, zero=True), f"sorted:zero:{cc}:{cg}"),
              pairs_per_case=len(scope(f"sorted:zero:{cc}:{cg}")["rows"]),
              rule="_fully_contained_in on sorted things x every time-sorted (possibly overlapping) containers array: model agreement; definition checked where containers do not overlap")
    cases = []
    for _ in range(ctx.pick(6000, 60000)):
        c = rnd_valid_containers(rng, rng.randint(0, 8), zero_p=rng.choice([0, 0, 0.2]))
        span = (c[-1][1] if c else 10) + 4
        t = rnd_things(rng, rng.randint(0, 14), span, zero_p=rng.choice([0, 0, 0.2]))
        kind = rng.choice(["valid"] * 5 + ["bad-things", "bad-containers", "overlap"])
        if kind == "bad-things":
            t = malform(rng, t)
        elif kind == "bad-containers":
            c = malform(rng, c)
        elif kind == "overlap":
            c = rnd_things(rng, rng.randint(2, 6), span)
        fn = rng.choice(["fcin", "fcin", "split"])
        cases.append(dict(fn=fn, t=t, c=c, et=rng.choice(ENCS), ec=rng.choice(ENCS), kind=kind))
    ctx.correspond("containment/random", cases, impl_pair, op_pair, oracle_pair,
                   nontrivial=lambda c, o: len(c["t"]) >= 2 and len(c["c"]) >= 1,
                   rule="random: 0..8 non-overlapping containers (touching / gaps / zero-length), 0..14 sorted things; fully_contained_in and split_by_containment; "
                        "malformed stream: unsorted or negative-length things / containers (must be ValueError), overlapping containers (agreement only)",
                   branch=lambda c, o: f"{c['fn']}:{c['kind']}:{o.split(' ')[0]}{(':' + o.split(' ')[1]) if o.startswith('err') else ''}",
                   in_hyp=lambda c, o: sanity_ok(c["t"], c["c"]) and non_overlap(c["c"]))

    tick(ctx, "before section 2")
    # ---------------------------------------------------------------- 2. split_by_containment
    scopes = [(3, 5, "nonov:pos:3:5")] if not T else [(4, 5, "nonov:pos:3:5"), (3, 6, "nonov:pos:3:6")]
    for tn, tg, cs in scopes:
        run_sweep(ctx, "split/exhaustive", things_cases("split", sorted_things(tn, tg), cs), pairs_per_case=len(scope(cs)["rows"]),
                  rule="every time-sorted array of <= n positive-length things on grid 0..g x every sorted non-overlapping containers array (scope kind:zero?:max:grid); "
                       "(n, g, scope): " + ", ".join(f"({a},{b},{c})" for a, b, c in scopes),
                  branch=lambda c, o: f"things={len(c['t'])}")
    zt, zg, zc = (2, 4, "nonov:zero:3:4") if not T else (3, 4, "nonov:zero:3:4")
    run_sweep(ctx, "split/zero-length", things_cases("split", sorted_things(zt, zg, zero=True), zc), pairs_per_case=len(scope(zc)["rows"]),
              rule=f"every time-sorted array of <= {zt} things incl. zero-length on grid 0..{zg} x scope '{zc}'")
    cases = []
    for _ in range(ctx.pick(3000, 30000)):
        n = rng.randint(0, 8)
        idx = sorted(rng.sample(range(1, n + 1), rng.randint(0, min(3, n)))) if n else []
        cases.append(dict(rows=[(i, i + 1, i) for i in range(n)], idx=idx))
    ctx.correspond("split/_split", cases, impl_splitraw, lambda c: f"c17.splitraw {sl.show_rows(c['rows'])} {sl.show_ints(c['idx'])}",
                   oracle_splitraw, nontrivial=lambda c, o: len(c["idx"]) >= 1,
                   rule="_split on 0..8 rows with 0..3 strictly increasing split indices in 1..n")
    cases = []
    for n in range(0, 6):
        for k in range(n + 1):
            for full in itertools.combinations(range(n), k):
                cases.append(dict(n=n, full=list(full)))
    ctx.correspond("split/_get_empty_container_ids", cases, impl_emptyids,
                   lambda c: f"c17.emptyids {c['n']} {sl.show_ints(c['full'])}", oracle_emptyids, exhaustive=True,
                   nontrivial=lambda c, o: 0 < len(c["full"]) < c["n"], rule="every subset of 0..n-1 as the ascending full-id list, n <= 5")

    tick(ctx, "before section 3")
    # ---------------------------------------------------------------- 3. overlap_indices
    cases = []
    lim = ctx.pick(5, 7)
    for a1 in range(-lim, lim + 1):
        for b1 in (-1, 0, 2):
            for na in range(-1, lim + 1):
                for nb in range(-1, lim + 1):
                    cases.append(dict(a1=a1, na=na, b1=b1, nb=nb))
    ctx.correspond("overlap_indices/exhaustive", cases, impl_overlap, op_overlap, oracle_overlap, exhaustive=True,
                   nontrivial=lambda c, o: o.startswith("ok") and o != "ok 0,0,0,0",
                   rule=f"a1 in -{lim}..{lim}, b1 in (-1,0,2), n_a, n_b in -1..{lim}; non-trivial = non-empty intersection",
                   branch=lambda c, o: "err" if o.startswith("err") else ("empty" if o == "ok 0,0,0,0" else "overlap"))
    cases = [dict(a1=rng.randint(-10**9, 10**9), na=rng.randint(0, 2000), b1=0, nb=rng.randint(0, 2000)) for _ in range(ctx.pick(2000, 20000))]
    for c in cases:
        c["b1"] = c["a1"] + rng.randint(-2100, 2100)
    ctx.correspond("overlap_indices/random", cases, impl_overlap, op_overlap, oracle_overlap,
                   nontrivial=lambda c, o: o != "ok 0,0,0,0", rule="random large offsets, lengths 0..2000")

    tick(ctx, "before section 4")
    # ---------------------------------------------------------------- 4. touching_windows
    windows = range(-2, 4)
    if not T:
        tscopes = [(3, 5, "sorted:pos:2:5"), (4, 4, "sorted:pos:1:4"), (2, 4, "sorted:pos:3:4")]
    else:
        tscopes = [(4, 7, "sorted:pos:1:7"), (3, 7, "sorted:pos:2:7"), (2, 6, "sorted:pos:3:6"), (4, 5, "sorted:pos:2:5"), (4, 4, "sorted:pos:3:4")]
    def all_windows(fn, things, cs):
        return [c for w in windows for c in things_cases(fn, things, cs, w=w)]
    for tn, tg, cs in tscopes:
        run_sweep(ctx, "touching_windows/exhaustive", all_windows("touch", sorted_things(tn, tg, ends=True), cs),
                  pairs_per_case=len(scope(cs)["rows"]),
                  rule="every array of <= n positive-length things sorted by time and endtime x every time-sorted (overlapping allowed) containers array x window -2..3; "
                       "scopes (things n, grid, containers scope): " + ", ".join(f"({a},{b},{c})" for a, b, c in tscopes),
                  branch=lambda c, o: f"w={c['w']}")
    stn, stg, stc = (3, 4, "sorted:pos:2:4") if not T else (3, 5, "sorted:pos:2:5")
    run_sweep(ctx, "split_touching_windows/exhaustive", all_windows("splittouch", sorted_things(stn, stg, ends=True), stc),
              pairs_per_case=len(scope(stc)["rows"]),
              rule=f"every array of <= {stn} positive-length things sorted by time and endtime on grid 0..{stg} x scope '{stc}' x window -2..3",
              branch=lambda c, o: f"w={c['w']}")
    zt, zg, zc = (2, 4, "sorted:zero:2:4") if not T else (3, 4, "sorted:zero:2:4")
    run_sweep(ctx, "touching_windows/zero-length+unsorted-ends", all_windows("touch", sorted_things(zt, zg, zero=True), zc),
              pairs_per_case=len(scope(zc)["rows"]),
              rule=f"every time-sorted array of <= {zt} things incl. zero-length and unsorted endtimes (grid 0..{zg}) x scope '{zc}' x window -2..3; "
                   "definition checked where endtimes are sorted, agreement everywhere", branch=lambda c, o: f"w={c['w']}")
    cases = []
    for _ in range(ctx.pick(6000, 60000)):
        span = rng.choice([10, 30, 60])
        both = rng.random() < 0.8
        t = rnd_things(rng, rng.randint(0, 14), span, zero_p=rng.choice([0, 0, 0.2]), ends_sorted_too=both)
        c = rnd_things(rng, rng.randint(0, 7), span, zero_p=rng.choice([0, 0, 0.2]))
        kind = rng.choice(["valid"] * 6 + ["bad-things", "bad-containers"])
        if kind == "bad-things":
            t = malform(rng, t)
        elif kind == "bad-containers":
            c = malform(rng, c)
        cases.append(dict(fn=rng.choice(["touch", "touch", "splittouch", "touchcore"]), t=t, c=c, w=rng.randint(-4, 6), et=rng.choice(ENCS), ec=rng.choice(ENCS), kind=kind))
    ctx.correspond("touching_windows/random", cases, impl_pair, op_pair, oracle_pair,
                   nontrivial=lambda c, o: len(c["t"]) >= 2 and len(c["c"]) >= 1,
                   rule="random: 0..14 things (80% sorted by time and endtime, else by time only), 0..7 containers sorted by time (overlapping allowed), window -4..6; "
                        "wrapper, jitted core and split_touching_windows; malformed stream must be ValueError",
                   branch=lambda c, o: f"{c['fn']}:{c['kind']}:{o.split(' ')[0]}", in_hyp=lambda c, o: sanity_ok(c["t"], c["c"]) and ends_sorted(c["t"]))

    tick(ctx, "before section 5")
    # ---------------------------------------------------------------- 5. diff, _find_break_i, from_break
    cases = [dict(rows=r, enc=ENCS[i % 2]) for i, r in enumerate(gen.all_sorted_rows(ctx.pick(3, 4), ctx.pick(4, 5), allow_zero=True))]
    cases += [dict(rows=gen.gen_rows(rng, rng.randint(0, 12)), enc=rng.choice(ENCS)) for _ in range(ctx.pick(1000, 10000))]
    ctx.correspond("diff", cases, impl_diff, lambda c: f"c17.diff {sl.show_rows(c['rows'])}", oracle_diff,
                   nontrivial=lambda c, o: len(c["rows"]) >= 2, rule="every sorted array (<= 3/4 rows, zero-length allowed) on a small grid + random arrays")
    cases = []
    for i, rows in enumerate(gen.all_sorted_rows(ctx.pick(3, 4), ctx.pick(4, 5), allow_zero=True)):
        for safe in range(0, 4):
            for nb in (0, 2, 5):
                cases.append(dict(rows=rows, safe=safe, nb=nb, enc=ENCS[i % 2]))
    ctx.correspond("find_break/exhaustive", cases, impl_findbreak, op_findbreak, oracle_findbreak, exhaustive=True,
                   nontrivial=lambda c, o: len(c["rows"]) >= 2,
                   rule="every sorted array (<= 3/4 rows incl. zero-length, grid 0..4/5) x safe_break 0..3 x not_before in (0,2,5)",
                   branch=lambda c, o: o if o.startswith("err") else "ok")
    cases, fcases = [], []
    for _ in range(ctx.pick(3000, 30000)):
        rows = gen.gen_rows(rng, rng.randint(0, 12), mode=rng.choice(["disjoint", "disjoint", "mixed", "long"]))
        if rng.random() < 0.1:
            rng.shuffle(rows)
        ends = [r[1] for r in rows] or [0]
        c = dict(rows=rows, safe=rng.randint(0, 5), nb=rng.choice([0, 0, rng.choice(ends), rng.choice(ends) + 2, -3]), enc=rng.choice(ENCS))
        cases.append(c)
        fcases.append(dict(c, left=rng.randint(0, 1), tol=int(rng.random() < 0.05)))
    ctx.correspond("find_break/random", cases, impl_findbreak, op_findbreak, oracle_findbreak, nontrivial=lambda c, o: len(c["rows"]) >= 2,
                   rule="random arrays 0..12 rows (10% shuffled), safe_break 0..5, not_before at / after row ends", branch=lambda c, o: o if o.startswith("err") else "ok")
    ctx.correspond("from_break", fcases, impl_frombreak, op_frombreak, oracle_frombreak, nontrivial=lambda c, o: o.startswith("ok"),
                   rule="same arrays through from_break, both sides, 5% tolerant=True", branch=lambda c, o: o if o.startswith("err") else "ok")

    tick(ctx, "before section 6")
    # ---------------------------------------------------------------- 6. abs_time_to_prev_next_interval
    pscopes = [(3, 5, "nonov:pos:3:5")] if not T else [(4, 5, "nonov:pos:3:5"), (3, 6, "nonov:pos:3:6")]
    for pn, pg, pc in pscopes:
        run_sweep(ctx, "prev_next/exhaustive", things_cases("prevnext", sorted_things(pn, pg, zero=True), pc),
                  pairs_per_case=len(scope(pc)["rows"]),
                  rule="every time-sorted array of <= n things (overlapping and zero-length allowed) on grid 0..g x every sorted non-overlapping array of <= 3 "
                       "positive-length intervals; (n, g, scope): " + ", ".join(f"({a},{b},{c})" for a, b, c in pscopes))
    zt, zg, zc = (2, 4, "sorted:zero:2:4") if not T else (3, 4, "sorted:zero:3:4")
    run_sweep(ctx, "prev_next/any-sorted", things_cases("prevnext", sorted_things(zt, zg, zero=True), zc), pairs_per_case=len(scope(zc)["rows"]),
              rule=f"every time-sorted array of <= {zt} things x every time-sorted intervals array (overlapping and zero-length allowed, scope '{zc}'): model agreement; "
                   "definition checked inside the precondition")
    cases = []
    for _ in range(ctx.pick(4000, 40000)):
        c = rnd_valid_containers(rng, rng.randint(0, 8))
        span = (c[-1][1] if c else 10) + 6
        t = rnd_valid_containers(rng, rng.randint(0, 8), zero_p=rng.choice([0, 0.2]))
        kind = rng.choice(["valid"] * 5 + ["bad-things", "bad-intervals", "overlap"])
        if kind == "bad-things" and len(t) >= 2:
            t[0], t[-1] = t[-1], t[0]
        elif kind == "bad-intervals" and len(c) >= 2:
            c[0], c[-1] = c[-1], c[0]
        elif kind == "overlap":
            t = rnd_things(rng, rng.randint(0, 8), span)
        cases.append(dict(fn="prevnext", t=t, c=c, et=rng.choice(ENCS), ec=rng.choice(ENCS), kind=kind))
    ctx.correspond("prev_next/random", cases, impl_pair, op_pair, oracle_pair, nontrivial=lambda c, o: len(c["t"]) >= 1 and len(c["c"]) >= 1,
                   rule="random non-overlapping things and intervals (0..8 each); malformed: unsorted (ValueError), overlapping things (agreement only)",
                   branch=lambda c, o: f"{c['kind']}:{o.split(' ')[0]}", in_hyp=lambda c, o: prevnext_pre(c["t"], c["c"]))

    tick(ctx, "before section 7")
    # ---------------------------------------------------------------- 7. sort_by_time
    cases = []
    n_max = ctx.pick(4, 5)
    opts = [(t, ch) for t in (0, 1, 3) for ch in (-1, 0, 2)]
    for n in range(n_max + 1):
        for combo in itertools.product(opts, repeat=n):
            if n == n_max and not T and hash(combo) % 3:
                continue
            cases.append(dict(rows=[(t, ch, i) for i, (t, ch) in enumerate(combo)], ch=1))
    for n in range(6):
        for combo in itertools.product((0, 1, 3), repeat=n):
            cases.append(dict(rows=[(t, 0, i) for i, t in enumerate(combo)], ch=0))
    ctx.correspond("sort_by_time/small", cases, impl_sort, op_sort, oracle_sort, nontrivial=lambda c, o: len(c["rows"]) >= 2,
                   rule=f"arrays of <= {n_max} rows over times (0,1,3) x channels (-1,0,2) (with channel field; all of them in thorough, a third of the longest in quick) "
                        "and every array of <= 5 rows over times (0,1,3) without channel field", branch=lambda c, o: f"ch={c['ch']}")
    cases = []
    for _ in range(ctx.pick(3000, 30000)):
        n = rng.randint(0, 40)
        t0 = rng.choice([0, 10**9, 16 * 10**17])
        lo = rng.choice([0, 0, -1, -3])
        rows = [(t0 + rng.randint(0, 4) * rng.choice([1, 1, 10**6]), rng.randint(lo, 5), i) for i in range(n)]
        cases.append(dict(rows=rows, ch=int(rng.random() < 0.8)))
    ctx.correspond("sort_by_time/random", cases, impl_sort, op_sort, oracle_sort, nontrivial=lambda c, o: len(c["rows"]) >= 2,
                   rule="random 0..40 rows, many ties in (time, channel), negative channels, large time offsets (span stays far below the float guard)")
    sort_regime_components(ctx)
    enforcement_component(ctx)

    tick(ctx, "before section 8")
    # ---------------------------------------------------------------- 8. epoch-scale timestamps
    epoch_components(ctx)


# ============================================================================================ search / replay

def search(ctx):
    """an obligation broke: oracle-only hunt on the real code"""
    rng = ctx.rng
    cases = []
    for _ in range(30000):
        c = rnd_valid_containers(rng, rng.randint(0, 6), zero_p=0.1)
        span = (c[-1][1] if c else 10) + 4
        cases.append(dict(fn=rng.choice(["fcin", "split", "prevnext"]), t=rnd_things(rng, rng.randint(0, 8), span), c=c, et="end", ec="end"))
        t = rnd_things(rng, rng.randint(0, 8), 20, ends_sorted_too=True)
        cases.append(dict(fn="touch", t=t, c=rnd_things(rng, rng.randint(0, 4), 20), w=rng.randint(-3, 4), et="end", ec="end"))
    ctx.check_oracle("search/pair", cases, impl_pair, oracle_pair)
    cases = [dict(rows=gen.gen_rows(rng, rng.randint(0, 10)), safe=rng.randint(0, 5), nb=rng.randint(-2, 30)) for _ in range(20000)]
    ctx.check_oracle("search/find_break", cases, impl_findbreak, oracle_findbreak)


def replay(ctx, body):
    comp = body["component"]
    if body.get("case") is None:
        return f"obligation {comp} has no input to replay (no-failing-input-found); re-run the check"
    case = body["case"]["case"]
    if comp.startswith("hypotheses"):
        return "this component only compares the Lean hypothesis deciders with the Python predicates; re-run the check"
    table = [("overlap_indices", impl_overlap, oracle_overlap), ("diff", impl_diff, oracle_diff),
             ("find_break", impl_findbreak, oracle_findbreak), ("search/find_break", impl_findbreak, oracle_findbreak),
             ("from_break", impl_frombreak, oracle_frombreak), ("sort_by_time", impl_sort, oracle_sort),
             ("split/_split", impl_splitraw, oracle_splitraw), ("split/_get_empty", impl_emptyids, oracle_emptyids)]
    for prefix, impl, oracle in table:
        if comp.startswith(prefix):
            out = impl(case)
            print("implementation output:", out)
            return oracle(case, out)
    if "cs" in case:
        out, msg, _ = sweep_eval(case)
        print("implementation output (sweep):", out[:300])
        return msg
    out = impl_pair(case)
    print("implementation output:", out)
    return oracle_pair(case, out)
