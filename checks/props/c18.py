"""C18 — hit finding and data reduction keep exactly the samples they should.

Model: lean/StraxModel/Model/Pulse.lean (namespace Strax.Pulse); theorems: Props/C18.lean; lemmas:
Lemmas/Pulse{Hits,Cut,Links,Baseline,Shift}.lean (umbrella Lemmas/Pulse.lean); driver ops `c18.*` (Driver/C18.lean).
Tie: differential correspondence of find_hits, record_links, cut_outside_hits (explicit hits and the find->cut pipeline),
integrate, zero_out_of_bounds and baseline against the compiled driver, near time 0 and at nanosecond-epoch times (`epoch/*`).
Oracle: the property's wording evaluated in plain Python (fractions.Fraction) on what the real functions returned: maximal
runs at/above threshold, hit field formulas, links = consecutive fragments of one pulse in one channel, a sample survives
iff it lies within [left-le, right+re) of a hit of its own pulse (pulse coordinates, so the oracle does not use
record_links), metadata untouched, |area - (sum + frac*length)| <= 1/2, data' = +-(data - int(stored baseline)).
Oracle domain for links / reduction: `well_formed` (= Lean `wellFormedPulses`); outside it agreement with the model only.
Quantifier restriction (see ASSUMPTIONS): baselines / noise levels / thresholds only where the code's float32/float64
arithmetic is exact (dyadic 1/16 grid in the bulk, float32-grid values x power-of-two factors in one component).
Open finding: C18-nonpositive-hit-height-maxtime (probe component find_hits/probe-nonpositive-hit). cut_baseline is not
covered (does not compile under the installed numba).
"""
from __future__ import annotations

import contextlib
import io
import itertools
from fractions import Fraction as F

from lib import straxlib as sl
from lib.straxlib import strax  # first strax import of the process: sets the private numba cache
import numpy as np

ID = "C18"
T0 = 1_700_000_000_000_000_137   # epoch-scale time offset (int64-safe; float64 spacing there is 256)
LEAN_MODULES = ["StraxModel.Props.C18"]
TRUSTED = [
    "modelled not verified: numba/numpy semantics of the jitted kernels (negative slice bounds, negative indexing, "
    "int(round(x)) = round-half-to-even, w.mean()/w.std()), int16/int32 wrap-around (amplitudes and indices stay tiny)",
    "baseline_rms is compared through the exact variance recovered from the stored float32 (k/n^2 with float32(sqrt(k/n^2)) == rms)",
]
ASSUMPTIONS = [
    "RESTRICTION OF THE QUANTIFIER: baselines, noise levels and thresholds are generated only where every float32/float64 operation of the "
    "code is exact -- dyadic values with denominators <= 16 and magnitudes < 2^10 in the bulk components; float32-grid values (23-bit "
    "fractions) x power-of-two noise factors in `find_hits/float32-grid-thresholds`. Products baseline_rms * min_height_over_noise that "
    "are NOT exactly representable (e.g. rms = 1.3f, factor 3) are never generated: a change of float precision or a tolerance compare "
    "that only acts there is invisible to this check. (Samples are integers, so only ceil(threshold) decides the hits.)",
    "records of one array share samples_per_record (enforced by the numpy dtype)",
    "oracle domain for links/reduction = `wellFormedPulses` (fragments 0,1,2,.. of non-overlapping pulses per channel, no cut-away fragments), "
    "extensions 0..samples_per_record, samples beyond `length` zero; outside that domain (about 60 % of the record_links cases, which "
    "enumerate cut-away fragments on purpose) only model/implementation agreement, error kinds and metadata are checked",
    "cut_baseline is not covered: with the installed numba it fails to compile for every input (int16 scalar has no .astype)",
]

# ----------------------------------------------------------------------------- canonical text


def q(p, d=1):
    return [int(p), int(d)]


def qs(x):
    return f"{x[0]}/{x[1]}"


def fr(x):
    """exact value of a float as p/q in lowest terms"""
    x = float(x)
    if x != x:
        return "nan"
    f = F(x)
    return f"{f.numerator}/{f.denominator}"


def rec(t, length, dt, ch, ri, pl, data, bl=(0, 1), rms=(0, 1), shift=0, area=0, rl=0):
    return dict(t=t, len=length, dt=dt, ch=ch, ri=ri, pl=pl, area=area, rl=rl, bl=list(bl), rms=list(rms), sh=shift, data=list(data))


def rec_tok(r):
    data = ",".join(str(int(x)) for x in r["data"]) if r["data"] else "-"
    return (f"{r['t']}:{r['len']}:{r['dt']}:{r['ch']}:{r['ri']}:{r['pl']}:{r['area']}:{r['rl']}:{qs(r['bl'])}:{qs(r['rms'])}:"
            f"{r['sh']}:{data}")


def recs_tok(recs):
    return ";".join(rec_tok(r) for r in recs) if recs else "-"


def thr_tok(t):
    kind, v = t
    return "s=" + qs(v) if kind == "s" else "c=" + (",".join(qs(x) for x in v) if v else "-")


def thr_arg(t):
    kind, v = t
    if kind == "s":
        return int(v[0]) if v[1] == 1 else v[0] / v[1]
    return np.array([x[0] / x[1] for x in v], dtype=np.float64)


_DTYPES = {}


def mk_records(case):
    spr = case["spr"]
    dt = _DTYPES.get(spr)
    if dt is None:
        dt = _DTYPES[spr] = np.dtype(strax.record_dtype(spr))
        assert [n for n in dt.names] == ["time", "length", "dt", "channel", "pulse_length", "record_i", "area", "reduction_level", "baseline",
                                         "baseline_rms", "amplitude_bit_shift", "data"], dt.names
    rows = [(r["t"], r["len"], r["dt"], r["ch"], r["pl"], r["ri"], r["area"], r["rl"], r["bl"][0] / r["bl"][1], r["rms"][0] / r["rms"][1],
             r["sh"], r["data"]) for r in case["records"]]
    return np.array(rows, dtype=dt) if rows else np.zeros(0, dtype=dt)


def show_records(a):
    out = []
    for r in a:
        data = ",".join(str(int(x)) for x in r["data"]) if len(r["data"]) else "-"
        out.append(f"{int(r['time'])}:{int(r['length'])}:{int(r['dt'])}:{int(r['channel'])}:{int(r['record_i'])}:{int(r['pulse_length'])}:"
                   f"{int(r['area'])}:{int(r['reduction_level'])}:{fr(r['baseline'])}:{fr(r['baseline_rms'])}:{int(r['amplitude_bit_shift'])}:{data}")
    return ";".join(out) if out else "-"


def show_hits(h):
    out = []
    for x in h:
        out.append(f"{int(x['time'])}:{int(x['length'])}:{int(x['dt'])}:{int(x['channel'])}:{int(x['left'])}:{int(x['right'])}:{int(x['record_i'])}:"
                   f"{fr(x['area'])}:{fr(x['height'])}:{fr(x['threshold'])}:{int(x['max_time'])}")
    return ";".join(out) if out else "-"


def quiet(f):
    """numba kernels print before raising; keep stdout clean"""
    def g():
        with contextlib.redirect_stdout(io.StringIO()):
            return f()
    return sl.guarded(g)


def parse_frac(s):
    p, d = s.split("/")
    return F(int(p), int(d))


def parse_hits(s):
    if s == "-":
        return []
    out = []
    for tok in s.split(";"):
        t, ln, dt, ch, l, r, ri, area, height, thr, mt = tok.split(":")
        out.append(dict(t=int(t), len=int(ln), dt=int(dt), ch=int(ch), left=int(l), right=int(r), ri=int(ri), area=parse_frac(area),
                        height=parse_frac(height), thr=parse_frac(thr), mt=int(mt)))
    return out


def parse_records(s):
    if s == "-":
        return []
    out = []
    for tok in s.split(";"):
        t, ln, dt, ch, ri, pl, area, rl, bl, rms, sh, data = tok.split(":")
        out.append(dict(t=int(t), len=int(ln), dt=int(dt), ch=int(ch), ri=int(ri), pl=int(pl), area=int(area), rl=int(rl),
                        bl=bl, rms=rms, sh=int(sh), data=[] if data == "-" else [int(x) for x in data.split(",")]))
    return out


# ----------------------------------------------------------------------------- adapters (real code)

def impl_hits(case):
    return quiet(lambda: show_hits(strax.find_hits(mk_records(case), thr_arg(case["amp"]), thr_arg(case["hon"]))))


def op_hits(case):
    return f"c18.hits {thr_tok(case['amp'])} {thr_tok(case['hon'])} {recs_tok(case['records'])}"


def impl_links(case):
    def f():
        p, n = strax.record_links(mk_records(case))
        return sl.show_ints(p) + "|" + sl.show_ints(n)
    return quiet(f)


def op_links(case):
    return f"c18.links {recs_tok(case['records'])}"


def hitrefs_array(refs):
    h = np.zeros(len(refs), dtype=strax.hit_dtype)
    for i, (ri, l, r) in enumerate(refs):
        h[i]["record_i"], h[i]["left"], h[i]["right"] = ri, l, r
    return h


def impl_cut(case):
    def f():
        recs = mk_records(case)
        before = recs.copy()
        out = strax.cut_outside_hits(recs, hitrefs_array(case["hits"]), left_extension=case["le"], right_extension=case["re"])
        if len(recs) and not np.array_equal(before, recs):
            return "input-modified"
        return show_records(out)
    return quiet(f)


def op_cut(case):
    hits = ";".join(f"{a}:{b}:{c}" for a, b, c in case["hits"]) if case["hits"] else "-"
    return f"c18.cut {case['le']} {case['re']} {hits} {recs_tok(case['records'])}"


def impl_reduce(case):
    def f():
        recs = mk_records(case)
        hits = strax.find_hits(recs, thr_arg(case["amp"]), thr_arg(case["hon"]))
        out = strax.cut_outside_hits(recs, hits, left_extension=case["le"], right_extension=case["re"])
        return show_hits(hits) + " " + show_records(out)
    return quiet(f)


def op_reduce(case):
    return f"c18.reduce {thr_tok(case['amp'])} {thr_tok(case['hon'])} {case['le']} {case['re']} {recs_tok(case['records'])}"


def impl_integrate(case):
    def f():
        recs = mk_records(case)
        strax.integrate(recs)
        return sl.show_ints(recs["area"])
    return quiet(f)


def impl_zoob(case):
    def f():
        recs = mk_records(case)
        strax.zero_out_of_bounds(recs)
        return show_records(recs)
    return quiet(f)


def variance_of_rms(rms, n):
    """the rational k/n^2 whose float32 square root is the stored rms (std of n integers has variance k/n^2)"""
    rms = float(rms)
    if rms != rms:
        return "nan"
    k = round(rms * rms * n * n)
    for kk in (k, k - 1, k + 1):
        if kk >= 0 and np.float32(np.sqrt(kk / (n * n))) == np.float32(rms):
            f = F(kk, n * n)
            return f"sqrt{f.numerator}/{f.denominator}"
    return f"inexact({rms!r})"


def impl_baseline(case):
    def f():
        recs = mk_records(case)
        spr = case["spr"]
        n = min(case["k"], spr)
        strax.baseline(recs, baseline_samples=case["k"], flip=bool(case["flip"]), allow_sloppy_chunking=bool(case["sloppy"]),
                       fallback_baseline=case["fallback"])
        out = []
        for r, txt in zip(recs, show_records(recs).split(";") if len(recs) else []):
            # the rms column of the record text is replaced by a fixed 0/1 (the model keeps it apart)
            parts = txt.split(":")
            parts[9] = "0/1"
            out.append(":".join(parts) + "~" + variance_of_rms(r["baseline_rms"], n))
        return ";".join(out) if out else "-"
    return quiet(f)


def op_baseline(case):
    return f"c18.baseline {case['k']} {int(case['flip'])} {int(case['sloppy'])} {case['fallback']} {recs_tok(case['records'])}"


# ----------------------------------------------------------------------------- definitional oracles

def thr_values(case):
    """per-channel (amp, hon) as Fractions, resolved as the documentation says"""
    recs = case["records"]
    (ka, va), (kh, vh) = case["amp"], case["hon"]
    n = len(va) if ka == "c" else (len(vh) if kh == "c" else max(r["ch"] for r in recs) + 1)
    amp = [F(*x) for x in va] if ka == "c" else [F(*va)] * n
    hon = [F(*x) for x in vh] if kh == "c" else [F(*vh)] * n
    return amp, hon


def threshold_of(case, r):
    amp, hon = thr_values(case)
    if not (0 <= r["ch"] < len(amp)) or r["ch"] >= len(hon):
        return None
    return max(amp[r["ch"]], F(*r["rms"]) * hon[r["ch"]])


def maximal_runs(samples, thr):
    """all (l, r): every sample of [l, r) >= thr, and the run cannot be extended inside the record"""
    n = len(samples)
    out = []
    for l in range(n):
        for r in range(l + 1, n + 1):
            if all(samples[j] >= thr for j in range(l, r)) and (l == 0 or samples[l - 1] < thr) and (r == n or samples[r] < thr):
                out.append((l, r))
    return out


def frac_part(b):
    f = F(*b)
    return f - (f.numerator // f.denominator)


def oracle_hit_list(case, hits, carve_nonpositive=False):
    recs = case["records"]
    spr = case["spr"]
    expected = []
    for i, r in enumerate(recs):
        if r["len"] > spr:
            return "hits returned although a record is longer than its buffer"
        thr = threshold_of(case, r)
        if thr is None:
            return "hits returned although a channel has no threshold"
        for l, rr in maximal_runs(r["data"][: r["len"]], thr):
            expected.append((i, l, rr, thr))
    got = [(h["ri"], h["left"], h["right"]) for h in hits]
    if got != [(i, l, r) for i, l, r, _ in expected]:
        return f"hit intervals {got} are not the maximal runs at/above threshold {[(i, l, r) for i, l, r, _ in expected]}"
    for h, (i, l, rr, thr) in zip(hits, expected):
        r = recs[i]
        s = r["data"][l:rr]
        f = frac_part(r["bl"])
        if h["t"] != r["t"] + l * r["dt"] or h["len"] != rr - l or h["dt"] != r["dt"] or h["ch"] != r["ch"]:
            return f"hit {i}:{l}:{rr} has wrong time/length/dt/channel"
        if h["thr"] != thr:
            return f"hit {i}:{l}:{rr} stores threshold {h['thr']} instead of {thr}"
        if h["area"] != sum(s) + (rr - l) * f:
            return f"hit {i}:{l}:{rr} has area {h['area']} instead of {sum(s) + (rr - l) * f}"
        if carve_nonpositive and max(s) <= 0:
            continue  # open finding C18-nonpositive-hit (probed separately): height / max_time of such hits
        if h["height"] != max(s) + f:
            return f"hit {i}:{l}:{rr} has height {h['height']} instead of {max(s) + f} (max sample {max(s)})"
        if h["mt"] != r["t"] + (l + s.index(max(s))) * r["dt"]:
            return f"hit {i}:{l}:{rr} has max_time {h['mt']} instead of {r['t'] + (l + s.index(max(s))) * r['dt']} (max sample {max(s)})"
    return None


def oracle_hits(case, out, carve=False):
    if out.startswith("err"):
        return expected_hit_error(case, out)
    return oracle_hit_list(case, parse_hits(out[3:]), carve)


def oracle_hits_carved(case, out):
    return oracle_hits(case, out, True)


def expected_hit_error(case, out):
    recs = case["records"]
    for r in recs:
        thr = threshold_of(case, r)
        if thr is None:
            return None if out == "err ValueError" else f"missing channel threshold reported as {out}"
        if r["len"] > case["spr"]:
            return None if out == "err AssertionError" else f"over-long record reported as {out}"
    return f"find_hits failed on valid input: {out}"


def well_formed(case):
    """the property's domain (Lean: `wellFormedPulses`): in every channel the records are, in order, the fragments 0, 1, 2, ...
    of pulses that follow each other without overlap -- every fragment series starts with record_i = 0 and each further
    fragment is time-adjacent to the previous record of its channel (so no cut-away / orphan fragments)"""
    spr = case["spr"]
    if spr <= 0:
        return False
    last = {}
    for r in case["records"]:
        if r["ch"] < 0 or r["dt"] <= 0 or r["ri"] < 0 or r["len"] > spr:
            return False
        p = last.get(r["ch"])
        if r["ri"] == 0:
            if p is not None and r["t"] < p["t"] + spr * p["dt"]:
                return False
        elif p is None or r["ri"] != p["ri"] + 1 or r["dt"] != p["dt"] or r["t"] != p["t"] + spr * p["dt"]:
            return False
        last[r["ch"]] = r
    return True


def pulses_disjoint(case):
    """looser domain used for `baseline` only (its missing-0th-fragment behaviour is documented): per channel time-ordered
    records from pulses that do not overlap, counting a pulse from its possibly missing 0th fragment on"""
    spr = case["spr"]
    last = {}
    for r in case["records"]:
        if r["ch"] < 0 or r["dt"] <= 0 or r["ri"] < 0 or r["len"] > spr:
            return False
        if r["ch"] in last:
            p = last[r["ch"]]
            end_p = p["t"] + spr * p["dt"]
            if pulse_key(case, p) == pulse_key(case, r):
                if r["t"] < end_p:
                    return False
            elif pulse_key(case, r)[1] < end_p:
                return False
        last[r["ch"]] = r
    return True


def pulse_key(case, r):
    return (r["ch"], r["t"] - r["ri"] * case["spr"] * r["dt"], r["dt"])


def oracle_links(case, out):
    recs = case["records"]
    if out.startswith("err"):
        if any(r["ch"] < 0 for r in recs):
            return None if out == "err ValueError" else f"negative channel reported as {out}"
        return f"record_links failed on valid input: {out}"
    if any(r["ch"] < 0 for r in recs):
        return "negative channel accepted"
    if not well_formed(case):
        return None
    p, n = out[3:].split("|")
    p = [] if p == "-" else [int(x) for x in p.split(",")]
    n = [] if n == "-" else [int(x) for x in n.split(",")]
    exp_p, exp_n = [-1] * len(recs), [-1] * len(recs)
    for i, a in enumerate(recs):
        for j, b in enumerate(recs):
            if pulse_key(case, a) == pulse_key(case, b) and a["ri"] + 1 == b["ri"]:
                exp_n[i], exp_p[j] = j, i
    if p != exp_p:
        return f"previous_record {p} != adjacent fragments of one pulse in one channel {exp_p}"
    if n != exp_n:
        return f"next_record {n} != adjacent fragments of one pulse in one channel {exp_n}"
    return None


def oracle_reduction(case, hits, out_recs):
    """hits: list of (record index, left, right); out_recs: parsed output records"""
    recs, spr, le, re = case["records"], case["spr"], case["le"], case["re"]
    if len(out_recs) != len(recs):
        return "number of records changed"
    for r, o in zip(recs, out_recs):
        for k in ("t", "len", "dt", "ch", "ri", "pl", "area", "sh"):
            if r[k] != o[k]:
                return f"metadata field {k} changed from {r[k]} to {o[k]}"
        if o["bl"] != qs_norm(r["bl"]) or o["rms"] != qs_norm(r["rms"]):
            return "baseline fields changed"
        if o["rl"] != 2:
            return "reduction_level is not HITS_ONLY"
    if not (well_formed(case) and 0 <= le <= spr and 0 <= re <= spr):
        return None
    if any(any(x != 0 for x in r["data"][r["len"]:]) for r in recs):
        return None
    for m, (r, o) in enumerate(zip(recs, out_recs)):
        for j in range(spr):
            g = r["ri"] * spr + j
            keep = False
            for (k, l, rr) in hits:
                hk = recs[k]
                if pulse_key(case, hk) != pulse_key(case, r):
                    continue
                if k == m and j >= r["len"]:
                    continue
                if k != m and hk["ri"] == r["ri"]:
                    continue
                base = hk["ri"] * spr
                if base + l - le <= g < base + rr + re:
                    keep = True
            want = r["data"][j] if keep else 0
            if o["data"][j] != want:
                return (f"sample {j} of record {m} is {o['data'][j]} but should be {want} "
                        f"({'within' if keep else 'outside'} [left-{le}, right+{re}) of the hits of its pulse)")
    return None


def qs_norm(x):
    f = F(*x)
    return f"{f.numerator}/{f.denominator}"


def oracle_reduce(case, out, carve=False):
    if out.startswith("err"):
        if any(r["ch"] < 0 for r in case["records"]):
            return None
        e = expected_hit_error(case, out)
        if e is None:
            return None
        if (case["le"] < 0 or case["re"] < 0) and out == "err ValueError":
            return None
        return f"find_hits + cut_outside_hits failed on valid input: {out}"
    hs, rs = out[3:].split(" ")
    hits = parse_hits(hs)
    msg = oracle_hit_list(case, hits, carve)
    if msg:
        return msg
    return oracle_reduction(case, [(h["ri"], h["left"], h["right"]) for h in hits], parse_records(rs))


def oracle_cut(case, out):
    if out == "ok input-modified":
        return "cut_outside_hits modified its input"
    if out.startswith("err"):
        if any(r["ch"] < 0 for r in case["records"]) or case["le"] < 0 or case["re"] < 0:
            return None
        return f"cut_outside_hits failed on valid input: {out}"
    return oracle_reduction(case, [tuple(h) for h in case["hits"]], parse_records(out[3:]))


def oracle_integrate(case, out):
    areas = [] if out == "ok -" else [int(x) for x in out[3:].split(",")]
    for r, a in zip(case["records"], areas):
        exact = sum(r["data"]) * 2 ** r["sh"] + frac_part(r["bl"]) * r["len"]
        if abs(a - exact) > F(1, 2):
            return f"area {a} is more than 1/2 away from sum*2^shift + frac(baseline)*length = {exact}"
    return None if len(areas) == len(case["records"]) else "number of records changed"


def oracle_zoob(case, out):
    outs = parse_records(out[3:])
    for r, o in zip(case["records"], outs):
        want = r["data"][: r["len"]] + [0] * (case["spr"] - r["len"]) if r["len"] < case["spr"] else r["data"]
        if o["data"] != want:
            return f"zero_out_of_bounds gave {o['data']} instead of {want}"
        if any(r[k] != o[k] for k in ("t", "len", "dt", "ch", "ri", "pl", "area", "rl", "sh")):
            return "metadata changed"
    return None if len(outs) == len(case["records"]) else "number of records changed"


def oracle_baseline(case, out):
    recs, spr, k = case["records"], case["spr"], case["k"]
    if not pulses_disjoint(case):
        return None
    first_seen = set()
    orphan = False
    for r in recs:
        if r["ri"] == 0:
            first_seen.add(r["ch"])
        elif r["ch"] not in first_seen:
            orphan = True
    if out.startswith("err"):
        if orphan and not case["sloppy"] and out == "err RuntimeError":
            return None
        return f"baseline failed on valid input: {out}"
    if orphan and not case["sloppy"]:
        return "missing 0th fragment not reported"
    toks = out[3:].split(";") if out != "ok -" else []
    cur = {}  # channel -> (pulse key, mean, variance) of the last 0th fragment seen
    for r, tok in zip(recs, toks):
        rtxt, rms = tok.split("~")
        o = parse_records(rtxt)[0]
        stored = parse_frac(o["bl"])
        want = None
        if r["ri"] == 0:
            w = r["data"][:k]
            mean = F(sum(w), len(w))
            var = F(sum(x * x for x in w), len(w)) - mean * mean
            cur[r["ch"]] = (pulse_key(case, r), mean, var)
            want = (mean, f"sqrt{var.numerator}/{var.denominator}")
        elif r["ch"] not in cur:
            want = (F(case["fallback"]), "nan")
        elif cur[r["ch"]][0] == pulse_key(case, r):
            want = (cur[r["ch"]][1], f"sqrt{cur[r['ch']][2].numerator}/{cur[r['ch']][2].denominator}")
        # else: fragment of a pulse whose 0th fragment is missing in mid-stream: the documentation excludes it, no expectation
        if want is not None:
            if stored != want[0]:
                return f"stored baseline {stored} is not {want[0]} (mean of the first {k} samples of the pulse, or the fallback)"
            if rms != want[1]:
                return f"stored rms {rms} is not {want[1]}"
        ib = int(stored)  # toward zero, like int() in the code
        sign = -1 if case["flip"] else 1
        want_data = [sign * (x - ib) for x in r["data"][: r["len"]]] + r["data"][r["len"]:]
        if o["data"] != want_data:
            return f"data {o['data']} is not sign*(data - int(stored baseline)) = {want_data}"
    return None


# ----------------------------------------------------------------------------- generators

FRACS = [(0, 1), (1, 4), (1, 2), (3, 4), (5, 8), (-1, 4), (65001, 4)]


def one_record_cases(spr, alphabet, thresholds, lengths=None):
    for data in itertools.product(alphabet, repeat=spr):
        for ln in (lengths if lengths is not None else range(spr + 1)):
            for i, thr in enumerate(thresholds):
                bl = FRACS[(sum(data) + ln + i) % len(FRACS)]
                yield dict(spr=spr, records=[rec(3, ln, 2, 0, 0, ln, data, bl=bl)], amp=["s", thr], hon=["s", q(0)])


def gen_layout(rng, spr, n_channels, max_pulses=2, t0=1, p_drop=0.0, dts=(1, 2), alphabet=(0, 1, 2, 3), p_hot=0.4, skip_channel_p=0.0,
               pad_zero=True, rms_choices=((0, 1),), max_frag=3):
    """records of 1..max_frag fragments per pulse in 1..n_channels channels, sorted by time (ties in random order)"""
    recs = []
    for ch in range(n_channels):
        if rng.random() < skip_channel_p:
            continue
        t = t0 + rng.randint(0, 2 * spr)
        for _ in range(rng.randint(1, max_pulses)):
            dt = rng.choice(dts)
            nfrag = rng.randint(1, max_frag)
            last_len = rng.randint(1, spr)
            pl = (nfrag - 1) * spr + last_len
            bl = rng.choice(FRACS)
            rms = rng.choice(rms_choices)
            for f in range(nfrag):
                ln = spr if f < nfrag - 1 else last_len
                data = [rng.choice(alphabet) if rng.random() < p_hot else 0 for _ in range(spr)]
                if pad_zero:
                    data[ln:] = [0] * (spr - ln)
                if rng.random() >= p_drop:
                    recs.append(rec(t + f * spr * dt, ln, dt, ch, f, pl, data, bl=bl, rms=rms, shift=0))
            t += nfrag * spr * dt + rng.choice([0, 0, 1, dt, spr * dt, 3 * spr * dt])
    order = list(range(len(recs)))
    rng.shuffle(order)
    recs = [recs[i] for i in sorted(order, key=lambda i: recs[i]["t"])]
    return recs


def gen_thresholds(rng, n_channels, kind=None):
    kind = kind or rng.choice(["scalar", "scalar", "perch", "noise", "noise-perch"])
    amps = [q(1), q(2), q(3), q(3, 2), q(5, 2), q(1, 2)]
    if kind == "scalar":
        return ["s", rng.choice(amps)], ["s", q(0)], kind
    if kind == "perch":
        return ["c", [rng.choice(amps) for _ in range(n_channels)]], ["s", q(0)], kind
    if kind == "noise":
        return ["s", rng.choice(amps)], ["s", rng.choice([q(1), q(2), q(3, 2), q(1, 2)])], kind
    return (["c", [rng.choice(amps) for _ in range(n_channels)]],
            ["c", [rng.choice([q(0), q(1), q(2), q(1, 2)]) for _ in range(n_channels)]], kind)


RMS_CHOICES = ((0, 1), (1, 2), (1, 1), (3, 2), (5, 4), (2, 1))


def all_single_pulse_layouts(spr, nfrag, patterns, hot=3, dt=2, t0=5):
    """one pulse of nfrag fragments in channel 0; every 0/hot waveform of the patterns iterable (tuples of nfrag*spr bits)"""
    for bits in patterns:
        for last_len in (spr, max(1, spr - 1)):
            recs = []
            for f in range(nfrag):
                ln = spr if f < nfrag - 1 else last_len
                data = [hot * b for b in bits[f * spr:(f + 1) * spr]]
                data[ln:] = [0] * (spr - ln)
                recs.append(rec(t0 + f * spr * dt, ln, dt, 0, f, (nfrag - 1) * spr + last_len, data, bl=(1, 4)))
            yield recs


def branch_hits(c, o):
    if o.startswith("err"):
        return o
    n = 0 if o in ("ok -",) else o.split(" ")[1].count(";") + 1
    return f"hits={min(n, 6)}"


def nontrivial_hits(c, o):
    return o.startswith("ok") and o != "ok -"


def run(ctx):
    rng = ctx.rng
    sprs = ctx.pick([2, 4], [1, 2, 3, 4, 5, 6])
    big = ctx.pick(8, 10)
    thresholds = [q(1), q(2), q(3), q(3, 2), q(5, 2)]

    # 0. corpus / probes of open findings (dedicated components; the bulk generators below stay clear of them)
    spr0 = sprs[-1]
    z = [0] * spr0
    hot = [0, 3] + [0] * (spr0 - 2)
    probe = [
        dict(spr=spr0, records=[rec(10, spr0, 2, 0, 0, spr0, hot), rec(30, spr0, 2, 0, 0, spr0, z)], amp=["s", q(0)], hon=["s", q(0)]),
        dict(spr=spr0, records=[rec(10, spr0, 2, 0, 0, spr0, z)], amp=["s", q(0)], hon=["s", q(0)]),
        dict(spr=spr0, records=[rec(10, spr0, 2, 0, 0, spr0, [-1] * spr0, rms=(1, 1))], amp=["s", q(-2)], hon=["s", q(-1)]),
    ]
    ctx.correspond("find_hits/probe-nonpositive-hit", probe, impl_hits, op_hits, oracle_hits, nontrivial=nontrivial_hits,
                   rule="probe of open finding C18-nonpositive-hit: hits whose largest sample is <= 0 (needs threshold <= 0)")
    corner = [
        dict(spr=spr0, records=[rec(0, spr0, 1, 0, 1, 2 * spr0, hot)]),
        dict(spr=spr0, records=[rec(0, spr0, 1, 1, 1, 2 * spr0, hot), rec(5, spr0, 1, 0, 0, spr0, hot)]),
        dict(spr=spr0, records=[rec(0, spr0, 1, 1, 2, 3 * spr0, hot), rec(0, spr0, 1, 0, 1, 2 * spr0, hot), rec(spr0, spr0, 1, 0, 2, 2 * spr0, hot)]),
    ]
    ctx.correspond("record_links/orphan-at-time-zero", corner, impl_links, op_links, None,
                   rule="outside the property's domain (an orphan continuing fragment is not a pulse): a continuing fragment at time 0 that is the first "
                        "record of its channel makes the code write next_record[-1]; model/implementation agreement only (observation in notes/C18.md)")
    ctx.correspond("cut_outside_hits/orphan-at-time-zero", [dict(c, hits=[[0, spr0 - 1, spr0]], le=0, re=2) for c in corner], impl_cut, op_cut, None,
                   rule="same corner through cut_outside_hits: agreement only")

    # 1. find_hits, exhaustive single record: all waveforms over {0..3}, all lengths, scalar thresholds incl. half-integers
    cases = []
    for spr in sprs:
        cases += list(one_record_cases(spr, (0, 1, 2, 3), thresholds))
    ctx.correspond("find_hits/one-record-exhaustive", cases, impl_hits, op_hits, oracle_hits, nontrivial=nontrivial_hits, exhaustive=True,
                   rule=f"records of {sprs} samples: every waveform over {{0,1,2,3}} x every length 0..n x thresholds 1,3/2,2,5/2,3; baseline fractions cycle through 0,1/4,1/2,3/4,5/8,-1/4,16250.25; non-trivial = at least one hit",
                   branch=branch_hits)

    # 2. find_hits on layouts: 1-3 channels, 1-3 fragments, scalar / per-channel / noise-scaled thresholds
    cases = []
    for _ in range(ctx.pick(2500, 30000)):
        spr = rng.choice(sprs)
        nch = rng.randint(1, 3)
        amp, hon, kind = gen_thresholds(rng, nch)
        recs = gen_layout(rng, spr, nch, rms_choices=RMS_CHOICES, skip_channel_p=0.15, pad_zero=rng.random() < 0.7)
        if not recs:
            continue
        cases.append(dict(spr=spr, records=recs, amp=amp, hon=hon, kind=kind))
    for _ in range(ctx.pick(300, 4000)):  # larger
        nch = rng.randint(1, 3)
        amp, hon, kind = gen_thresholds(rng, nch)
        recs = gen_layout(rng, big, nch, max_pulses=3, rms_choices=RMS_CHOICES, alphabet=(0, 1, 2, 3, 4, 5, 7), dts=(1, 2, 10), p_hot=0.6)
        cases.append(dict(spr=big, records=recs, amp=amp, hon=hon, kind=kind))
    ctx.correspond("find_hits/layouts", cases, impl_hits, op_hits, oracle_hits, nontrivial=nontrivial_hits,
                   rule=f"random pulse layouts: 1..3 channels (some unused), 1..3 pulses per channel, 1..3 fragments per pulse, records of {sprs} samples over {{0..3}} and of {big} samples over {{0..7}}, "
                        "thresholds scalar / per channel / noise-scaled (rms x hon, both dyadic) / both per channel",
                   branch=lambda c, o: c["kind"] + ":" + branch_hits(c, o))
    # thresholds off the dyadic 1/16 grid but still exact in the code: float32 noise levels x power-of-two factors, float32 amplitudes
    def f32q(x):
        f = F(float(np.float32(x)))
        return (f.numerator, f.denominator)
    cases = []
    for _ in range(ctx.pick(400, 4000)):
        spr = rng.choice(sprs)
        nch = rng.randint(1, 3)
        rms_pool = tuple(f32q(rng.uniform(0.3, 3.2)) for _ in range(3))
        recs = gen_layout(rng, spr, nch, rms_choices=rms_pool, alphabet=(0, 1, 2, 3, 4, 5), p_hot=0.6)
        pw = [q(1, 2), q(1), q(2), q(4)]
        if rng.random() < 0.5:
            amp, hon = ["s", list(f32q(rng.uniform(0.5, 3.5)))], ["s", rng.choice(pw)]
        else:
            amp, hon = ["c", [list(f32q(rng.uniform(0.5, 3.5))) for _ in range(nch)]], ["c", [rng.choice(pw) for _ in range(nch)]]
        cases.append(dict(spr=spr, records=recs, amp=amp, hon=hon))
    ctx.correspond("find_hits/float32-grid-thresholds", cases, impl_hits, op_hits, oracle_hits, nontrivial=nontrivial_hits,
                   rule="noise levels and amplitudes = float32(random decimal) (23-bit fractions, e.g. 1.3f), noise factors 1/2, 1, 2, 4: thresholds far from the 1/16 grid, every float operation of the code still exact",
                   branch=branch_hits)
    # thresholds <= 0 and negative samples: the hit intervals, area, time, length are checked; height / max_time of hits whose
    # largest sample is <= 0 are the open finding probed above
    cases = []
    for _ in range(ctx.pick(600, 6000)):
        spr = rng.choice(sprs)
        nch = rng.randint(1, 2)
        recs = gen_layout(rng, spr, nch, alphabet=(-2, -1, 0, 1, 2), rms_choices=RMS_CHOICES, p_hot=0.7)
        amp = ["s", rng.choice([q(0), q(-1), q(-3, 2), q(1)])]
        hon = ["s", rng.choice([q(0), q(-1), q(-1, 2), q(1)])]
        cases.append(dict(spr=spr, records=recs, amp=amp, hon=hon))
    ctx.correspond("find_hits/nonpositive-thresholds", cases, impl_hits, op_hits, oracle_hits_carved, nontrivial=nontrivial_hits,
                   rule="samples over {-2..2}, thresholds 0 / negative / noise-scaled negative; oracle skips height and max_time of hits whose largest sample is <= 0 (open finding, probed separately)",
                   branch=branch_hits)
    # malformed: missing thresholds, over-long records
    cases = []
    for _ in range(ctx.pick(200, 1500)):
        spr = rng.choice(sprs)
        recs = gen_layout(rng, spr, 3)
        why = rng.choice(["few-thresholds", "long", "both", "few-hon-scalar-amp"])
        amp, hon = ["s", q(1)], ["s", q(0)]
        if why in ("few-thresholds", "both"):
            amp = ["c", [q(1)] * rng.randint(0, 2)]
        if why == "few-hon-scalar-amp":
            hon = ["c", [q(0)] * rng.randint(0, 2)]
        if why in ("long", "both"):
            k = rng.randrange(len(recs))
            recs[k] = dict(recs[k], len=spr + rng.randint(1, 2))
        cases.append(dict(spr=spr, records=recs, amp=amp, hon=hon, why=why))
    ctx.correspond("find_hits/malformed", cases, impl_hits, op_hits, oracle_hits, nontrivial=lambda c, o: o.startswith("err"),
                   rule="fewer channel thresholds than channels (ValueError), length > samples_per_record (AssertionError); the first offending record decides",
                   branch=lambda c, o: c["why"] + ":" + (o if o.startswith("err") else "ok"))

    # 3. record_links
    spr = sprs[-1]
    cases = []
    # exhaustive: <= 2 channels, per channel <= 2 pulses of 1..3 fragments, every non-empty subset of fragments kept, gaps 0 / 1 / one record
    pulse_shapes = []
    for nfrag in (1, 2, 3):
        for keep in itertools.product((0, 1), repeat=nfrag):
            if any(keep):
                pulse_shapes.append((nfrag, keep))
    chan_seqs = [[p] for p in pulse_shapes] + [[a, b, g] for a in pulse_shapes for b in pulse_shapes for g in (0, 1, spr)]
    if not ctx.thorough:
        chan_seqs = [c for c in chan_seqs if len(c) == 1 or (c[0][0] <= 2 and c[1][0] <= 2)]

    def build_channel(ch, seq, t0, dt):
        recs, t = [], t0
        pulses = seq[:2] if len(seq) == 3 else seq
        gap = seq[2] if len(seq) == 3 else 0
        for pi, (nfrag, keep) in enumerate(pulses):
            for f in range(nfrag):
                if keep[f]:
                    recs.append(rec(t + f * spr * dt, spr, dt, ch, f, nfrag * spr, [0] * spr))
            t += nfrag * spr * dt + gap
        return recs

    for seq in chan_seqs:
        cases.append(dict(spr=spr, records=build_channel(0, seq, 1, 1)))
    two = chan_seqs if ctx.thorough else [c for c in chan_seqs if len(c) == 1] + rng.sample([c for c in chan_seqs if len(c) == 3], 40)
    for a in two:
        for b in two:
            for off in (0, spr):
                recs = build_channel(0, a, 1, 1) + build_channel(1, b, 1 + off, 1)
                cases.append(dict(spr=spr, records=sorted(recs, key=lambda r: (r["t"], r["ch"]))))
                if off == 0:
                    cases.append(dict(spr=spr, records=sorted(recs, key=lambda r: (r["t"], -r["ch"]))))
    n_ex = len(cases)
    for _ in range(ctx.pick(1500, 15000)):
        s = rng.choice(sprs + [big])
        cases.append(dict(spr=s, records=gen_layout(rng, s, rng.randint(1, 3), max_pulses=3, p_drop=rng.choice([0, 0, 0, 0.2, 0.5]), skip_channel_p=0.1)))
    ctx.correspond("record_links", cases, impl_links, op_links, oracle_links, nontrivial=lambda c, o: "|" in o and any(x not in ("-1", "-") for x in o[3:].replace("|", ",").split(",")),
                   in_hyp=lambda c, o: well_formed(c),
                   rule=f"{n_ex} exhaustive layouts (<= 2 channels x <= 2 pulses of 1..3 fragments x every non-empty kept subset x gaps 0/1/one record x both tie orders) + random layouts with dropped fragments, 1..3 channels; oracle on well-formed pulse arrays (no cut-away fragments, counted as in_hypothesis), agreement on the rest; non-trivial = at least one link",
                   branch=lambda c, o: "err" if o.startswith("err") else f"links={min(6, sum(1 for x in o[3:].split('|')[0].split(',') if x not in ('-1', '-')))}")
    # malformed: negative channels, unsorted / overlapping records, inconsistent record_i (agreement only, except the error kind)
    cases = []
    for _ in range(ctx.pick(500, 5000)):
        s = rng.choice(sprs)
        recs = gen_layout(rng, s, rng.randint(1, 3), max_pulses=3)
        why = rng.choice(["negative-channel", "shuffled", "record_i", "overlap"])
        k = rng.randrange(len(recs))
        if why == "negative-channel":
            recs[k] = dict(recs[k], ch=-rng.randint(1, 2))
        elif why == "shuffled":
            rng.shuffle(recs)
        elif why == "record_i":
            recs[k] = dict(recs[k], ri=rng.randint(0, 3))
        else:
            recs[k] = dict(recs[k], t=max(1, recs[k]["t"] - rng.randint(1, s)))
        cases.append(dict(spr=s, records=recs, why=why))
    ctx.correspond("record_links/malformed", cases, impl_links, op_links, oracle_links,
                   rule="negative channel (ValueError), shuffled order, inconsistent record_i, overlapping records: error kind + model/implementation agreement",
                   branch=lambda c, o: c["why"] + ":" + ("err" if o.startswith("err") else "ok"))

    # 4. find_hits -> cut_outside_hits
    cases = []
    # exhaustive, one record: every waveform over {0..3} x thresholds 1, 2 x every le, re in 0..n
    for spr in sprs:
        if spr > ctx.pick(4, 5):
            continue
        for data in itertools.product((0, 1, 2, 3), repeat=spr):
            for thr in (q(1), q(5, 2)):
                for le in range(spr + 1):
                    for re in range(spr + 1):
                        ln = spr if (sum(data) + le) % 3 else max(0, spr - 1)
                        d = list(data)
                        d[ln:] = [0] * (spr - ln)
                        cases.append(dict(spr=spr, records=[rec(7, ln, 2, 0, 0, ln, d, bl=(1, 4))], amp=["s", thr], hon=["s", q(0)], le=le, re=re))
    n1 = len(cases)
    # exhaustive, one pulse of 2..3 fragments: every 0/3 waveform x every le, re in 0..n
    for spr in sprs:
        for nfrag in (2, 3):
            if nfrag * spr > ctx.pick(8, 12):
                continue
            patterns = itertools.product((0, 1), repeat=nfrag * spr)
            if nfrag * spr > 10:  # 12 bits: a seeded sample instead of all 4096 waveforms
                patterns = [tuple(rng.randint(0, 1) for _ in range(nfrag * spr)) for _ in range(150)]
            for recs in all_single_pulse_layouts(spr, nfrag, patterns):
                for le in range(spr + 1):
                    for re in range(spr + 1):
                        cases.append(dict(spr=spr, records=recs, amp=["s", q(1)], hon=["s", q(0)], le=le, re=re))
    n2 = len(cases) - n1
    if not ctx.thorough and len(cases) > 45000:
        keep1 = cases[:n1]
        keep2 = rng.sample(cases[n1:], 45000 - min(n1, 20000))
        cases = (keep1 if n1 <= 20000 else rng.sample(keep1, 20000)) + keep2
    ctx.correspond("reduce/exhaustive", cases, impl_reduce, op_reduce, oracle_reduce, exhaustive=True,
                   nontrivial=lambda c, o: o.startswith("ok") and not o.startswith("ok - "),
                   in_hyp=lambda c, o: well_formed(c),
                   rule=f"one record ({n1} cases: every waveform over {{0..3}} x thresholds 1, 5/2 x every le, re in 0..n) and one pulse of 2..3 fragments ({n2} cases: every 0/3 waveform of <= 10 samples in total, 150 sampled ones for 12 samples, x last fragment full or one short x every le, re in 0..n)",
                   branch=lambda c, o: f"frag={len(c['records'])}:" + branch_hits(c, o))
    # random: 1-3 channels, several pulses, dropped fragments, all threshold kinds
    cases = []
    for _ in range(ctx.pick(4000, 50000)):
        spr = rng.choice(sprs + [big])
        nch = rng.randint(1, 3)
        amp, hon, kind = gen_thresholds(rng, nch)
        alphabet = (0, 1, 2, 3) if spr != big else (0, 1, 2, 3, 5, 7)
        recs = gen_layout(rng, spr, nch, max_pulses=rng.randint(1, 3), p_drop=rng.choice([0, 0, 0.25]), rms_choices=RMS_CHOICES, alphabet=alphabet,
                          p_hot=rng.choice([0.15, 0.4]), dts=(1, 2, 10) if spr == big else (1, 2))
        if not recs:
            continue
        cases.append(dict(spr=spr, records=recs, amp=amp, hon=hon, le=rng.randint(0, spr), re=rng.randint(0, spr), kind=kind))
    ctx.correspond("reduce/layouts", cases, impl_reduce, op_reduce, oracle_reduce, nontrivial=lambda c, o: o.startswith("ok") and not o.startswith("ok - "),
                   in_hyp=lambda c, o: well_formed(c),
                   rule="random layouts (1..3 channels, 1..3 pulses per channel, 1..3 fragments, all threshold kinds), le, re uniform in 0..n; with dropped fragments (outside the domain) agreement + metadata only",
                   branch=lambda c, o: f"ch={len({r['ch'] for r in c['records']})}:" + c["kind"])
    # outside the oracle domain (agreement only): extensions beyond the record length, garbage beyond `length`, negative extensions
    cases = []
    for _ in range(ctx.pick(1200, 12000)):
        spr = rng.choice(sprs)
        nch = rng.randint(1, 2)
        amp, hon, kind = gen_thresholds(rng, nch)
        recs = gen_layout(rng, spr, nch, max_pulses=2, p_drop=rng.choice([0, 0.3]), pad_zero=False, rms_choices=RMS_CHOICES)
        if not recs:
            continue
        le, re = rng.choice([(-1, 2), (2, -3), (-1, -1), (2 * spr + 1, 0), (0, 2 * spr + 1), (spr + 1, spr + 1), (1, 1)])
        cases.append(dict(spr=spr, records=recs, amp=amp, hon=hon, le=le, re=re))
    ctx.correspond("reduce/beyond-domain", cases, impl_reduce, op_reduce, oracle_reduce,
                   rule="extensions < 0 (ValueError from overlap_indices when the kept range is negative) or > record length, non-zero samples beyond `length`: metadata check + model/implementation agreement",
                   branch=lambda c, o: ("neg" if min(c["le"], c["re"]) < 0 else "big") + ":" + ("err" if o.startswith("err") else "ok"))

    # 5. cut_outside_hits with arbitrary hit intervals (not necessarily found by find_hits)
    cases = []
    for _ in range(ctx.pick(2500, 25000)):
        spr = rng.choice(sprs)
        recs = gen_layout(rng, spr, rng.randint(1, 3), max_pulses=2, p_drop=rng.choice([0, 0.25]), p_hot=0.9, alphabet=(1, 2, 3))
        if not recs:
            continue
        hits = []
        for _ in range(rng.randint(0, 4)):
            k = rng.randrange(len(recs))
            l = rng.randint(0, max(0, recs[k]["len"] - 1))
            hits.append([k, l, rng.randint(l, recs[k]["len"])])
        cases.append(dict(spr=spr, records=recs, hits=hits, le=rng.randint(0, spr), re=rng.randint(0, spr)))
    ctx.correspond("cut_outside_hits/arbitrary-hits", cases, impl_cut, op_cut, oracle_cut, nontrivial=lambda c, o: bool(c["hits"]),
                   in_hyp=lambda c, o: well_formed(c),
                   rule="dense non-zero waveforms, 0..4 arbitrary (possibly empty, overlapping, unordered) hit intervals inside their records, le, re in 0..n; also checks the input array is left untouched",
                   branch=lambda c, o: f"hits={len(c['hits'])}")

    # 6. integrate: exhaustive small
    cases = []
    spr = sprs[0]
    for data in itertools.product((0, 1, -2), repeat=spr):
        for bl in FRACS + [(7, 8), (1, 8), (3, 8)]:
            for ln in range(spr + 1):
                for sh in (0, 1, 2):
                    cases.append(dict(spr=spr, records=[rec(0, ln, 1, 0, 0, ln, data, bl=bl, shift=sh)]))
    for _ in range(ctx.pick(300, 3000)):
        recs = gen_layout(rng, big, 2, alphabet=(-3, 1, 2, 5), p_hot=0.7)
        for r in recs:
            r["sh"] = rng.randint(0, 2)
            r["bl"] = rng.choice(FRACS + [(7, 8), (1, 16), (3, 8)])
        cases.append(dict(spr=big, records=recs))
    ctx.correspond("integrate", cases, impl_integrate, lambda c: f"c18.integrate {recs_tok(c['records'])}", oracle_integrate,
                   rule=f"every waveform over {{0,1,-2}} of {spr} samples x 10 dyadic baselines (fractions n/8, incl. exact halves and a negative one) x every length x shifts 0..2 + random larger; half-way cases hit on purpose (model: round half to even)",
                   branch=lambda c, o: "half" if any((frac_part(r["bl"]) * r["len"]).denominator == 2 for r in c["records"]) else "no-half")

    # 7. zero_out_of_bounds, baseline
    cases = []
    for _ in range(ctx.pick(300, 3000)):
        s = rng.choice(sprs)
        cases.append(dict(spr=s, records=gen_layout(rng, s, 2, pad_zero=False, p_hot=0.9, alphabet=(1, 2, 3))))
    ctx.correspond("zero_out_of_bounds", cases, impl_zoob, lambda c: f"c18.zoob {recs_tok(c['records'])}", oracle_zoob,
                   rule="random layouts with non-zero samples beyond `length`")
    cases = []
    for _ in range(ctx.pick(1500, 15000)):
        s = rng.choice([x for x in sprs if x in (2, 4)] or [4])
        recs = gen_layout(rng, s, rng.randint(1, 3), max_pulses=2, p_drop=rng.choice([0, 0, 0.3]), alphabet=tuple(range(90, 111)), p_hot=1.0, pad_zero=False)
        if not recs:
            continue
        for r in recs:
            r["bl"], r["rms"] = [0, 1], [0, 1]
        cases.append(dict(spr=s, records=recs, k=rng.choice([1, 2, 4, 8]), flip=rng.randint(0, 1), sloppy=rng.randint(0, 1), fallback=rng.choice([100, 16000, -3])))
    ctx.correspond("baseline", cases, impl_baseline, op_baseline, oracle_baseline, nontrivial=lambda c, o: o.startswith("ok"),
                   rule="raw pulses around 100 ADC counts, baseline_samples 1/2/4/8 (clamped by the record length, a power of two, so the mean is dyadic), flip on/off, dropped 0th fragments with and without allow_sloppy_chunking",
                   branch=lambda c, o: ("sloppy" if c["sloppy"] else "strict") + ":" + ("err" if o.startswith("err") else ("nan" if "nan" in o else "ok")))

    # 8. epoch-scale timestamps: the same kinds of cases with every record time shifted to a real nanosecond epoch.
    # Times near 0 hide integer -> float64 regressions (exact below 2**53, off by up to 256 ns at 1.7e18).
    def shifted(case):
        return dict(case, records=[dict(r, t=r["t"] + T0) for r in case["records"]])

    hcases, lcases, rcases, ccases, icases = [], [], [], [], []
    for _ in range(ctx.pick(150, 1500)):
        spr = rng.choice(sprs + [big])
        nch = rng.randint(1, 3)
        amp, hon, kind = gen_thresholds(rng, nch)
        recs = gen_layout(rng, spr, nch, max_pulses=2, rms_choices=RMS_CHOICES, dts=(1, 2, 10), p_hot=0.5)
        hcases.append(shifted(dict(spr=spr, records=recs, amp=amp, hon=hon, kind=kind)))
    for _ in range(ctx.pick(250, 2500)):
        spr = rng.choice(sprs + [big])
        recs = gen_layout(rng, spr, rng.randint(1, 3), max_pulses=3, p_drop=rng.choice([0, 0, 0.3]), dts=(1, 2, 10))
        lcases.append(shifted(dict(spr=spr, records=recs)))
    for _ in range(ctx.pick(250, 2500)):
        spr = rng.choice(sprs + [big])
        nch = rng.randint(1, 3)
        amp, hon, kind = gen_thresholds(rng, nch)
        recs = gen_layout(rng, spr, nch, max_pulses=2, p_drop=rng.choice([0, 0, 0, 0.25]), rms_choices=RMS_CHOICES, dts=(1, 2, 10), p_hot=rng.choice([0.15, 0.4]))
        if recs:
            rcases.append(shifted(dict(spr=spr, records=recs, amp=amp, hon=hon, le=rng.randint(0, spr), re=rng.randint(0, spr), kind=kind)))
    for spr in sprs[:2]:   # one pulse of 2..3 fragments, sampled waveforms, every le, re
        for nfrag in (2, 3):
            pats = [tuple(rng.randint(0, 1) for _ in range(nfrag * spr)) for _ in range(ctx.pick(2, 10))]
            for recs in all_single_pulse_layouts(spr, nfrag, pats):
                for le in range(spr + 1):
                    for re in range(spr + 1):
                        rcases.append(shifted(dict(spr=spr, records=recs, amp=["s", q(1)], hon=["s", q(0)], le=le, re=re, kind="scalar")))
    for _ in range(ctx.pick(100, 1000)):
        spr = rng.choice(sprs)
        recs = gen_layout(rng, spr, rng.randint(1, 2), max_pulses=2, p_hot=0.9, alphabet=(1, 2, 3), dts=(1, 2, 10))
        hits = []
        for _ in range(rng.randint(1, 3)):
            k = rng.randrange(len(recs))
            l = rng.randint(0, max(0, recs[k]["len"] - 1))
            hits.append([k, l, rng.randint(l, recs[k]["len"])])
        ccases.append(shifted(dict(spr=spr, records=recs, hits=hits, le=rng.randint(0, spr), re=rng.randint(0, spr))))
    for _ in range(ctx.pick(40, 400)):
        recs = gen_layout(rng, sprs[-1], 2, alphabet=(-3, 1, 2, 5), p_hot=0.7)
        for r in recs:
            r["bl"] = rng.choice(FRACS + [(7, 8), (3, 8)])
        icases.append(shifted(dict(spr=sprs[-1], records=recs)))
    rule = f"every record time shifted by T0 = {T0} (nanosecond epoch, odd, not representable in float64); dt in {{1,2,10}}; same oracles, full integers compared; "
    ctx.correspond("epoch/find_hits", hcases, impl_hits, op_hits, oracle_hits, nontrivial=nontrivial_hits, rule=rule + "hit time, max_time", branch=lambda c, o: c["kind"])
    ctx.correspond("epoch/record_links", lcases, impl_links, op_links, oracle_links, in_hyp=lambda c, o: well_formed(c),
                   nontrivial=lambda c, o: "|" in o and any(x not in ("-1", "-") for x in o[3:].replace("|", ",").split(",")),
                   rule=rule + "time adjacency time + samples_per_record*dt; non-trivial = at least one link")
    ctx.correspond("epoch/reduce", rcases, impl_reduce, op_reduce, oracle_reduce, in_hyp=lambda c, o: well_formed(c),
                   nontrivial=lambda c, o: o.startswith("ok") and not o.startswith("ok - "), rule=rule + "find_hits -> cut_outside_hits through the links")
    ctx.correspond("epoch/cut_outside_hits", ccases, impl_cut, op_cut, oracle_cut, in_hyp=lambda c, o: well_formed(c), rule=rule + "arbitrary hits")
    ctx.correspond("epoch/integrate", icases, impl_integrate, lambda c: f"c18.integrate {recs_tok(c['records'])}", oracle_integrate, rule=rule + "integrate (time-independent)")


def search(ctx):
    """an obligation broke: oracle-only hunt on the real code"""
    rng = ctx.rng
    sprs = [2, 4]
    cases = []
    for _ in range(20000):
        spr = rng.choice(sprs)
        nch = rng.randint(1, 3)
        amp, hon, kind = gen_thresholds(rng, nch)
        recs = gen_layout(rng, spr, nch, max_pulses=3, p_drop=rng.choice([0, 0.25]), rms_choices=RMS_CHOICES)
        if recs:
            cases.append(dict(spr=spr, records=recs, amp=amp, hon=hon, le=rng.randint(0, spr), re=rng.randint(0, spr), kind=kind))
    ctx.check_oracle("search/reduce", cases, impl_reduce, oracle_reduce)
    ctx.check_oracle("search/record_links", [dict(spr=c["spr"], records=c["records"]) for c in cases], impl_links, oracle_links)


REPLAYERS = {
    "find_hits": (impl_hits, oracle_hits), "record_links": (impl_links, oracle_links), "reduce": (impl_reduce, oracle_reduce),
    "cut_outside_hits": (impl_cut, oracle_cut), "integrate": (impl_integrate, oracle_integrate), "zero_out_of_bounds": (impl_zoob, oracle_zoob),
    "baseline": (impl_baseline, oracle_baseline),
}


def replay(ctx, body):
    comp = body["component"].split("/")
    name = comp[0] if comp[0] != "search" else comp[1]
    impl, oracle = REPLAYERS.get(name, (None, None))
    if impl is None or body.get("case") is None:
        return f"obligation {body['component']} has no input to replay (no-failing-input-found); re-run the check"
    case = body["case"]["case"]
    out = impl(case)
    print("implementation output:", out)
    if body["component"] == "find_hits/nonpositive-thresholds":
        oracle = oracle_hits_carved
    return oracle(case, out)
