"""Generators shared by the property modules: interval arrays, runs, law-abiding chunkings.

Rows are tuples (time, endt, id). A *run* is (start, end, rows) with start <= every row < end.
Everything random is drawn from the rng passed in (derived from VERIF_SEED by the engine).
"""
from __future__ import annotations

import itertools


def intervals(grid_lo, grid_hi, allow_zero=False):
    out = []
    for a in range(grid_lo, grid_hi + 1):
        for b in range(a if allow_zero else a + 1, grid_hi + 1):
            out.append((a, b))
    return out


def all_sorted_rows(max_n, grid_hi, allow_zero=False, grid_lo=0):
    """every list of <= max_n intervals on the grid, sorted by start time (ties in any end order)"""
    ivs = intervals(grid_lo, grid_hi, allow_zero)
    for n in range(max_n + 1):
        for combo in itertools.product(ivs, repeat=n):
            if all(combo[i][0] <= combo[i + 1][0] for i in range(n - 1)):
                yield [(a, b, i) for i, (a, b) in enumerate(combo)]


def gen_rows(rng, n, span=30, mode=None, max_len=6, t0=0, big_gap_p=0.0, big_gap=(1001, 4000)):
    """n rows sorted by time, positive duration. mode: disjoint | touching | overlap | long | mixed"""
    mode = mode or rng.choice(["disjoint", "touching", "overlap", "long", "mixed"])
    rows = []
    t = t0 + rng.randint(0, 3)
    for i in range(n):
        m = mode if mode != "mixed" else rng.choice(["disjoint", "touching", "overlap", "long"])
        ln = rng.randint(1, max_len)
        if m == "long" and rng.random() < 0.3:
            ln = rng.randint(max_len, 4 * max_len)
        rows.append((t, t + ln, i))
        if big_gap_p and rng.random() < big_gap_p:
            t = max(e for _, e, _ in rows) + rng.randint(*big_gap)
        elif m == "disjoint":
            t = t + ln + rng.randint(0, 4)
        elif m == "touching":
            t = t + ln
        else:  # overlap / long: next start anywhere from this start on
            t = t + rng.randint(0, ln + 2)
    return rows


def run_of(rng, rows, pad=3):
    """(start, end) of a run enclosing rows, with random slack"""
    if not rows:
        s = rng.randint(0, 5)
        return s, s + rng.randint(0, 10)
    s = max(0, rows[0][0] - rng.randint(0, pad))
    e = max(r[1] for r in rows) + rng.randint(0, pad)
    return s, e


def admissible_cuts(rows, start, end):
    """all integer t in [start, end] that no row straddles"""
    out = []
    for t in range(start, end + 1):
        if not any(a < t < b for a, b, _ in rows):
            out.append(t)
    return out


def admissible(rows, t):
    return not any(a < t < b for a, b, _ in rows)


def chunk_rows(rows, cuts):
    """cuts = [c0=start, c1, ..., cn=end] non-decreasing; returns list of (a, b, rows_in) per chunk"""
    out = []
    for a, b in zip(cuts[:-1], cuts[1:]):
        out.append((a, b, [r for r in rows if a <= r[0] and r[1] <= b and a < b]))
    return out


def random_chunking(rng, rows, start, end, p_cut=0.3, p_dup=0.1, candidates=None):
    """random law-abiding chunking of the run: list of (a, b, rows)"""
    cand = candidates if candidates is not None else _cut_candidates(rows, start, end)
    cuts = [start]
    for t in cand:
        if start < t < end and rng.random() < p_cut:
            cuts.append(t)
            if rng.random() < p_dup:
                cuts.append(t)
    if rng.random() < p_dup:
        cuts.insert(0, start)
    if rng.random() < p_dup:
        cuts.append(end)
    cuts.append(end)
    return chunk_rows(rows, cuts)


def _cut_candidates(rows, start, end):
    """admissible cut times without scanning huge ranges: endpoints of rows, +-1, midpoints of gaps"""
    pts = {start, end}
    for a, b, _ in rows:
        pts.update((a, b, a - 1, b + 1))
    ends = sorted(pts)
    for x, y in zip(ends[:-1], ends[1:]):
        pts.add((x + y) // 2)
    return sorted(t for t in pts if start <= t <= end and admissible(rows, t))


def all_chunkings(rows, start, end, max_chunks=None, with_dups=False):
    """every law-abiding chunking (cut sets over admissible interior times)"""
    cand = [t for t in admissible_cuts(rows, start, end) if start < t < end]
    for k in range(len(cand) + 1):
        if max_chunks is not None and k + 1 > max_chunks:
            break
        for sel in itertools.combinations(cand, k):
            yield chunk_rows(rows, [start, *sel, end])
    if with_dups and cand:
        for t in cand:
            yield chunk_rows(rows, [start, t, t, end])
        yield chunk_rows(rows, [start, start, end])
        yield chunk_rows(rows, [start, end, end])


def law_abiding(chunks):
    """chunks: list of (a, b, rows). Checks the laws of chunking; returns None or a message."""
    prev_end = None
    last_time = None
    for a, b, rows in chunks:
        if a > b:
            return f"chunk [{a},{b}) has negative length"
        if prev_end is not None and a != prev_end:
            return f"chunk starts at {a}, previous ended at {prev_end}"
        prev_end = b
        for (t, e, _i) in rows:
            if not (a <= t and e <= b):
                return f"row [{t},{e}) not inside chunk [{a},{b})"
            if last_time is not None and t < last_time:
                return f"rows not sorted by time at {t}"
            last_time = t
    return None
