"""Translator for the scalar predicates of strax/mailbox.py (used by checks/props/c05.py:regen and c13.py:regen).

Python AST of the CURRENT /repo source -> lean/StraxModel/Generated/MailboxGates.lean, definitions over the abstract
state `Strax.MailboxAbs.St` (lean/StraxModel/Model/MailboxAbs.lean).  Translated:

    Mailbox._has_msg                      -> hasMsg (s) (number : Option Nat) : Bool
    Mailbox._lowest_msg_number            -> lowestMsgNumber (s) : Option Nat          (none = IndexError)
    Mailbox._can_fetch                    -> canFetch (s) : Bool                        (`assert self.lazy` -> canFetchAsserts)
    can_write  (nested in Mailbox.send)   -> canWrite (s) : Bool
    next_ready (nested in Mailbox._read)  -> nextReady (s) (next_number : Nat) : Bool
    the test of the clean-up loop `while …: heapq.heappop(self._mailbox)` in Mailbox._read -> cleanupTest (s) : Option Bool
    `read_until = …; if <test>: raise InvalidMessageNumber` in Mailbox.send -> sendNumberStale (s) (msg_number : Nat) : Bool

Subset: if / return / assert / simple assignment / `for … in …: if c: return K` / `any(<comprehension>)`, `zip`, `len`,
`min(xs[, default=k])`, `and` / `or` / `not`, `is None` / `is not None`, comparisons, `self.<attr>` of the vocabulary,
calls of `self._has_msg`, `self._lowest_msg_number`, `self._mailbox[0][0]`.  Anything else raises Untranslatable.
Types are tracked (bool, nat, int, optnat, natinf, lists of these) so that `msg_number == number` between an int and a
maybe-None value, or `min(have_read) >= lowest` between an Int and a Nat, get the coercion Python's semantics implies.
"""
from __future__ import annotations

import ast


class Untranslatable(Exception):
    pass


ATTRS = {
    "_subscribers_have_read": ("s.haveRead", "list:int"),
    "_subscriber_waiting_for": ("s.waitingFor", "list:optnat"),
    "_subscriber_can_drive": ("s.canDrive", "list:bool"),
    "max_messages": ("s.maxMessages", "natinf"),
    "killed": ("s.killed", "bool"),
    "lazy": ("s.isLazy", "bool"),
}


class V:
    """a translated expression: Lean text, type tag, partial (text then has type Option <type>)"""

    def __init__(self, txt, ty, partial=False):
        self.txt, self.ty, self.partial = txt, ty, partial


def _is_self_attr(e, name=None):
    return (isinstance(e, ast.Attribute) and isinstance(e.value, ast.Name) and e.value.id == "self"
            and (name is None or e.attr == name))


class Tr:
    def __init__(self):
        self.fresh = 0

    def var(self):
        self.fresh += 1
        return f"v{self.fresh}"

    # ------------------------------------------------------------------ helpers
    def lift(self, vals, f, ty):
        """combine sub-values with f(texts); binds partial ones in the Option monad"""
        if not any(v.partial for v in vals):
            return V(f([v.txt for v in vals]), ty)
        names, wraps = [], []
        for v in vals:
            if v.partial:
                n = self.var()
                names.append(n)
                wraps.append((v.txt, n))
            else:
                names.append(v.txt)
        body = f"some ({f(names)})"
        for txt, n in reversed(wraps):
            body = f"({txt}).bind fun {n} => {body}"
        return V(f"({body})", ty, True)

    def as_bool(self, v):
        if v.ty == "bool":
            return v
        if v.ty == "nat":
            return self.lift([v], lambda t: f"({t[0]} != 0)", "bool")
        raise Untranslatable(f"truth value of a {v.ty}")

    def num_pair(self, a, b):
        """texts of two numeric operands brought to a common type"""
        if a.ty == b.ty and a.ty in ("nat", "int"):
            return (lambda x: x), (lambda y: y)
        if {a.ty, b.ty} == {"nat", "int"}:
            ca = (lambda x: f"(({x} : Nat) : Int)") if a.ty == "nat" else (lambda x: x)
            cb = (lambda y: f"(({y} : Nat) : Int)") if b.ty == "nat" else (lambda y: y)
            return ca, cb
        raise Untranslatable(f"comparison of {a.ty} with {b.ty}")

    # ------------------------------------------------------------------ expressions
    def expr(self, e, env):
        if isinstance(e, ast.Constant):
            if e.value is True or e.value is False:
                return V("true" if e.value else "false", "bool")
            if isinstance(e.value, int):
                return V(str(e.value), "nat") if e.value >= 0 else V(f"({e.value})", "int")
            raise Untranslatable(f"constant {e.value!r}")
        if isinstance(e, ast.UnaryOp) and isinstance(e.op, ast.USub) and isinstance(e.operand, ast.Constant) \
                and isinstance(e.operand.value, int) and not isinstance(e.operand.value, bool):
            return V(f"(-{e.operand.value})", "int")
        if isinstance(e, ast.Name):
            if e.id in env:
                return V(*env[e.id])
            raise Untranslatable(f"unknown name {e.id}")
        if _is_self_attr(e):
            if e.attr in ATTRS:
                return V(*ATTRS[e.attr])
            if e.attr == "_lowest_msg_number":
                return V("lowestMsgNumber s", "nat", True)
            raise Untranslatable(f"self.{e.attr} is outside the abstract state")
        if isinstance(e, ast.Subscript):
            # exactly self._mailbox[0][0]
            inner = e.value
            if (isinstance(e.slice, ast.Constant) and e.slice.value == 0 and isinstance(inner, ast.Subscript)
                    and isinstance(inner.slice, ast.Constant) and inner.slice.value == 0 and _is_self_attr(inner.value, "_mailbox")):
                return V("lowest? s.heap", "nat", True)
            raise Untranslatable("subscript other than self._mailbox[0][0]")
        if isinstance(e, ast.UnaryOp) and isinstance(e.op, ast.Not):
            v = self.as_bool(self.expr(e.operand, env))
            return self.lift([v], lambda t: f"(!{t[0]})", "bool")
        if isinstance(e, ast.BoolOp):
            vals = [self.as_bool(self.expr(x, env)) for x in e.values]
            is_and = isinstance(e.op, ast.And)
            acc = vals[-1]
            for v in reversed(vals[:-1]):
                if not v.partial and not acc.partial:
                    acc = V(f"({v.txt} {'&&' if is_and else '||'} {acc.txt})", "bool")
                else:
                    # short-circuit: a later operand that raises is evaluated only if the earlier ones let it
                    rest = acc.txt if acc.partial else f"some {acc.txt}"
                    if v.partial:
                        n = self.var()
                        body = f"if {n} then {rest} else some false" if is_and else f"if {n} then some true else {rest}"
                        acc = V(f"(({v.txt}).bind fun {n} => {body})", "bool", True)
                    else:
                        body = f"if {v.txt} then {rest} else some false" if is_and else f"if {v.txt} then some true else {rest}"
                        acc = V(f"({body})", "bool", True)
            return acc
        if isinstance(e, ast.Compare) and len(e.ops) == 1:
            op, a = e.ops[0], self.expr(e.left, env)
            if isinstance(op, (ast.Is, ast.IsNot)):
                c = e.comparators[0]
                if not (isinstance(c, ast.Constant) and c.value is None):
                    raise Untranslatable("`is` with something else than None")
                return self.compare(op, a, None)
            return self.compare(op, a, self.expr(e.comparators[0], env))
        if isinstance(e, ast.Compare):
            raise Untranslatable("chained comparison")
        if isinstance(e, ast.Call):
            return self.call(e, env)
        raise Untranslatable(type(e).__name__)

    def expr_or_none(self, e, env):
        if isinstance(e, ast.Constant) and e.value is None:
            return V("none", "none")
        return self.expr(e, env)

    def compare(self, op, a, b):
        if isinstance(op, (ast.Is, ast.IsNot)):
            if a.ty != "optnat":
                raise Untranslatable(f"`is None` on a {a.ty}")
            f = (lambda t: f"{t[0]}.isNone") if isinstance(op, ast.Is) else (lambda t: f"{t[0]}.isSome")
            return self.lift([a], f, "bool")
        if isinstance(op, (ast.Eq, ast.NotEq)):
            sym = "==" if isinstance(op, ast.Eq) else "!="
            if {a.ty, b.ty} == {"nat", "optnat"}:
                wa = (lambda x: f"some {x}") if a.ty == "nat" else (lambda x: x)
                wb = (lambda y: f"some {y}") if b.ty == "nat" else (lambda y: y)
                return self.lift([a, b], lambda t: f"({wa(t[0])} {sym} {wb(t[1])})", "bool")
            if a.ty == b.ty and a.ty in ("nat", "int", "bool", "optnat"):
                return self.lift([a, b], lambda t: f"({t[0]} {sym} {t[1]})", "bool")
            ca, cb = self.num_pair(a, b)
            return self.lift([a, b], lambda t: f"({ca(t[0])} {sym} {cb(t[1])})", "bool")
        sym = {ast.Lt: "<", ast.LtE: "≤", ast.Gt: ">", ast.GtE: "≥"}.get(type(op))
        if sym is None:
            raise Untranslatable(f"comparison {type(op).__name__}")
        if b.ty == "natinf" and a.ty == "nat" and sym in ("<", "≤"):
            fn = "ltInf" if sym == "<" else "leInf"
            return self.lift([a, b], lambda t: f"({fn} {t[0]} {t[1]})", "bool")
        if a.ty == "natinf" and b.ty == "nat" and sym in (">", "≥"):
            fn = "ltInf" if sym == ">" else "leInf"
            return self.lift([a, b], lambda t: f"({fn} {t[1]} {t[0]})", "bool")
        ca, cb = self.num_pair(a, b)
        return self.lift([a, b], lambda t: f"decide ({ca(t[0])} {sym} {cb(t[1])})", "bool")

    def iterable(self, e, target, env):
        """-> (Lean list text, Lean binder pattern, extended env)"""
        def names(t, n):
            if isinstance(t, ast.Name) and n == 1:
                return [t.id]
            if isinstance(t, ast.Tuple) and len(t.elts) == n and all(isinstance(x, ast.Name) for x in t.elts):
                return [x.id for x in t.elts]
            raise Untranslatable("loop target shape")
        env = dict(env)
        if _is_self_attr(e, "_mailbox"):
            num, payload = names(target, 2)
            env[num] = (num, "nat")      # the payload is not part of the abstract state: not bound, any use is untranslatable
            env.pop(payload, None)
            return "s.heap", num, env
        if isinstance(e, ast.Call) and isinstance(e.func, ast.Name) and e.func.id == "zip" and len(e.args) == 2 and not e.keywords:
            a, b = self.expr(e.args[0], env), self.expr(e.args[1], env)
            if not (a.ty.startswith("list:") and b.ty.startswith("list:")) or a.partial or b.partial:
                raise Untranslatable("zip of non-lists")
            x, y = names(target, 2)
            env[x] = (x, a.ty[5:])
            env[y] = (y, b.ty[5:])
            return f"(List.zip {a.txt} {b.txt})", f"({x}, {y})", env
        v = self.expr(e, env)
        if not v.ty.startswith("list:") or v.partial:
            raise Untranslatable("iteration over a non-list")
        (x,) = names(target, 1)
        env[x] = (x, v.ty[5:])
        return v.txt, x, env

    def call(self, e, env):
        f = e.func
        if isinstance(f, ast.Name) and f.id == "any" and len(e.args) == 1 and not e.keywords \
                and isinstance(e.args[0], (ast.GeneratorExp, ast.ListComp)):
            comp = e.args[0]
            if len(comp.generators) != 1 or comp.generators[0].ifs or comp.generators[0].is_async:
                raise Untranslatable("comprehension shape")
            g = comp.generators[0]
            lst, pat, env2 = self.iterable(g.iter, g.target, env)
            body = self.as_bool(self.expr(comp.elt, env2))
            if body.partial:
                raise Untranslatable("partial expression inside any(...)")
            return V(f"({lst}).any (fun {pat} => {body.txt})", "bool")
        if isinstance(f, ast.Name) and f.id == "len" and len(e.args) == 1 and not e.keywords:
            if _is_self_attr(e.args[0], "_mailbox"):
                return V("s.heap.length", "nat")
            v = self.expr(e.args[0], env)
            if v.ty.startswith("list:") and not v.partial:
                return V(f"{v.txt}.length", "nat")
            raise Untranslatable("len of a non-list")
        if isinstance(f, ast.Name) and f.id == "min" and len(e.args) == 1:
            v = self.expr(e.args[0], env)
            if v.ty != "list:int" or v.partial:
                raise Untranslatable("min of something else than a list of ints")
            if not e.keywords:
                return V(f"pyMin? {v.txt}", "int", True)
            if len(e.keywords) == 1 and e.keywords[0].arg == "default":
                d = self.expr(e.keywords[0].value, env)
                if d.partial or d.ty not in ("nat", "int"):
                    raise Untranslatable("min default")
                return V(f"(pyMinD {d.txt} {v.txt})", "int")
            raise Untranslatable("min keywords")
        if _is_self_attr(f, "_has_msg") and len(e.args) == 1 and not e.keywords:
            v = self.expr(e.args[0], env)
            if v.ty == "nat":
                return self.lift([v], lambda t: f"(hasMsg s (some {t[0]}))", "bool")
            if v.ty == "optnat":
                return self.lift([v], lambda t: f"(hasMsg s {t[0]})", "bool")
            raise Untranslatable(f"_has_msg of a {v.ty}")
        raise Untranslatable("call " + ast.dump(f)[:60])

    # ------------------------------------------------------------------ statements -> Lean term
    def block(self, stmts, env, ty, partial, asserts):
        """a statement list every path of which returns; -> Lean text of type `ty` (Option `ty` if partial)"""
        if not stmts:
            raise Untranslatable("function may fall off its end (returns None)")
        st, rest = stmts[0], stmts[1:]
        if isinstance(st, ast.Expr) and isinstance(st.value, ast.Constant) and isinstance(st.value.value, str):
            return self.block(rest, env, ty, partial, asserts)
        if isinstance(st, ast.Assert):
            v = self.as_bool(self.expr(st.test, env))
            if v.partial:
                raise Untranslatable("partial assert")
            asserts.append(v.txt)
            return self.block(rest, env, ty, partial, asserts)
        if isinstance(st, ast.Return) and st.value is not None:
            v = self.expr(st.value, env)
            if ty == "bool":
                v = self.as_bool(v)
            if v.ty != ty:
                raise Untranslatable(f"returns a {v.ty}, expected {ty}")
            if v.partial and not partial:
                raise Untranslatable("a value that may raise in a total function")
            return v.txt if (v.partial or not partial) else f"some {v.txt}"
        if isinstance(st, ast.Assign) and len(st.targets) == 1 and isinstance(st.targets[0], ast.Name):
            v = self.expr(st.value, env)
            if v.partial:
                raise Untranslatable("assignment of a value that may raise")
            lty = {"bool": "Bool", "nat": "Nat", "int": "Int", "optnat": "Option Nat"}.get(v.ty)
            if lty is None:
                raise Untranslatable(f"assignment of a {v.ty}")
            env2 = dict(env)
            env2[st.targets[0].id] = (st.targets[0].id, v.ty)
            return f"let {st.targets[0].id} : {lty} := {v.txt}\n  {self.block(rest, env2, ty, partial, asserts)}"
        if isinstance(st, ast.If):
            if not isinstance(st.body[-1], ast.Return):
                raise Untranslatable("if-body that falls through")
            c = self.as_bool(self.expr(st.test, env))
            if c.partial:
                raise Untranslatable("partial if-test")
            then = self.block(st.body, env, ty, partial, asserts)
            els = self.block(list(st.orelse) + rest, env, ty, partial, asserts)
            return f"if {c.txt} then {then}\n  else {els}"
        if isinstance(st, ast.For) and not st.orelse and len(st.body) == 1 and isinstance(st.body[0], ast.If) \
                and not st.body[0].orelse and len(st.body[0].body) == 1 and isinstance(st.body[0].body[0], ast.Return):
            # for <pat> in <xs>: if c: return K      ==  if xs.any (fun pat => c) then K else <rest>
            lst, pat, env2 = self.iterable(st.iter, st.target, env)
            c = self.as_bool(self.expr(st.body[0].test, env2))
            if c.partial:
                raise Untranslatable("partial test inside a for loop")
            ret = st.body[0].body[0].value
            if not (isinstance(ret, ast.Constant) and (ret.value is True or ret.value is False)):
                raise Untranslatable("for-loop returning a non-constant")
            then = self.block(st.body[0].body, env, ty, partial, asserts)
            els = self.block(rest, env, ty, partial, asserts)
            return f"if ({lst}).any (fun {pat} => {c.txt}) then {then}\n  else {els}"
        raise Untranslatable(type(st).__name__)


def _find_def(node, name):
    for n in ast.walk(node):
        if isinstance(n, ast.FunctionDef) and n.name == name:
            return n
    raise Untranslatable(f"no def {name}")


def _plain_args(fn, expect):
    a = fn.args
    names = [x.arg for x in a.args]
    if names != expect or a.vararg or a.kwarg or a.kwonlyargs or a.defaults or a.posonlyargs:
        raise Untranslatable(f"signature of {fn.name}: {names}")


FUNCTIONS = ["_has_msg", "_lowest_msg_number", "_can_fetch", "send.can_write", "_read.next_ready", "_read.cleanup", "send.msg_number_check"]


def translate(source: str):
    """-> (text of Generated/MailboxGates.lean, {function: 'translated'}) or raises Untranslatable('<function>: reason')"""
    tree = ast.parse(source)
    cls = next((n for n in tree.body if isinstance(n, ast.ClassDef) and n.name == "Mailbox"), None)
    if cls is None:
        raise Untranslatable("Mailbox: class not found")
    out = []
    where = ["?"]

    def step(name):
        where[0] = name

    try:
        # ---- _has_msg
        step("_has_msg")
        fn = _find_def(cls, "_has_msg")
        _plain_args(fn, ["self", "number"])
        tr = Tr()
        asserts = []
        body = tr.block(fn.body, {"number": ("number", "optnat")}, "bool", False, asserts)
        if asserts:
            raise Untranslatable("assert")
        out.append("/-- `Mailbox._has_msg(number)`; `number` may be None (`_can_fetch` guards with `x is not None`) -/\n"
                   f"def hasMsg (s : St) (number : Option Nat) : Bool :=\n  {body}\n")
        # ---- _lowest_msg_number
        step("_lowest_msg_number")
        fn = _find_def(cls, "_lowest_msg_number")
        _plain_args(fn, ["self"])
        body = Tr().block(fn.body, {}, "nat", True, asserts)
        if asserts:
            raise Untranslatable("assert")
        out.append("/-- `Mailbox._lowest_msg_number` (property); `none` = IndexError -/\n"
                   f"def lowestMsgNumber (s : St) : Option Nat :=\n  {body}\n")
        # ---- _can_fetch
        step("_can_fetch")
        fn = _find_def(cls, "_can_fetch")
        _plain_args(fn, ["self"])
        asserts = []
        body = Tr().block(fn.body, {}, "bool", False, asserts)
        out.append("/-- the `assert`s at the head of `Mailbox._can_fetch` -/\n"
                   f"def canFetchAsserts (s : St) : Bool :=\n  {' && '.join(asserts) if asserts else 'true'}\n")
        out.append("/-- `Mailbox._can_fetch()` (`None` and `False` are both `false`) -/\n"
                   f"def canFetch (s : St) : Bool :=\n  {body}\n")
        # ---- can_write (nested in send)
        step("send.can_write")
        send = _find_def(cls, "send")
        fn = _find_def(send, "can_write")
        _plain_args(fn, [])
        asserts = []
        body = Tr().block(fn.body, {}, "bool", False, asserts)
        if asserts:
            raise Untranslatable("assert")
        out.append("/-- `can_write()` inside `Mailbox.send`: the predicate a sender waits for on `_write_condition` -/\n"
                   f"def canWrite (s : St) : Bool :=\n  {body}\n")
        # ---- the number check of send
        step("send.msg_number_check")
        idx = [i for i, st in enumerate(send.body[-1].body if isinstance(send.body[-1], ast.With) else [])
               if isinstance(st, ast.Assign) and len(st.targets) == 1 and isinstance(st.targets[0], ast.Name)
               and st.targets[0].id == "read_until"]
        if len(idx) != 1:
            raise Untranslatable("`read_until = …` not found exactly once at the top level of the `with self._lock:` of send")
        wbody = send.body[-1].body
        i = idx[0]
        nxt = wbody[i + 1] if i + 1 < len(wbody) else None
        if not (isinstance(nxt, ast.If) and not nxt.orelse and len(nxt.body) == 1 and isinstance(nxt.body[0], ast.Raise)
                and "InvalidMessageNumber" in ast.dump(nxt.body[0])):
            raise Untranslatable("`read_until = …` is not followed by `if <test>: raise InvalidMessageNumber(…)`")
        stmts = [wbody[i], ast.Return(value=nxt.test)]
        body = Tr().block(stmts, {"msg_number": ("msg_number", "nat")}, "bool", False, asserts)
        out.append("/-- `read_until = …; if <test>: raise InvalidMessageNumber` in `Mailbox.send`: `true` = the number is refused -/\n"
                   f"def sendNumberStale (s : St) (msg_number : Nat) : Bool :=\n  {body}\n")
        # ---- next_ready (nested in _read)
        step("_read.next_ready")
        read = _find_def(cls, "_read")
        fn = _find_def(read, "next_ready")
        _plain_args(fn, [])
        body = Tr().block(fn.body, {"next_number": ("next_number", "nat")}, "bool", False, asserts)
        if asserts:
            raise Untranslatable("assert")
        out.append("/-- `next_ready()` inside `Mailbox._read`: the predicate a reader waits for on `_read_condition` -/\n"
                   f"def nextReady (s : St) (next_number : Nat) : Bool :=\n  {body}\n")
        # ---- clean-up loop of _read
        step("_read.cleanup")
        loops = [n for n in ast.walk(read) if isinstance(n, ast.While) and len(n.body) == 1 and not n.orelse
                 and isinstance(n.body[0], ast.Expr) and isinstance(n.body[0].value, ast.Call)
                 and ast.unparse(n.body[0].value) == "heapq.heappop(self._mailbox)"]
        if len(loops) != 1:
            raise Untranslatable("expected exactly one `while …: heapq.heappop(self._mailbox)` in _read")
        body = Tr().block([ast.Return(value=loops[0].test)], {}, "bool", True, asserts)
        out.append("/-- the test of the clean-up loop `while <test>: heapq.heappop(self._mailbox)` of `Mailbox._read`; `none` = it raises -/\n"
                   f"def cleanupTest (s : St) : Option Bool :=\n  {body}\n")
    except Untranslatable as e:
        raise Untranslatable(f"{where[0]}: {e}") from None
    text = ("-- GENERATED by checks/lib/mailbox_translate.py (checks/props/c05.py:regen, c13.py:regen) from /repo/strax/mailbox.py\n"
            "-- (Mailbox._has_msg, _lowest_msg_number, _can_fetch, send: can_write + message-number check, _read: next_ready + clean-up test).\n"
            "-- Do not edit.\n"
            "import StraxModel.Model.MailboxAbs\n"
            "namespace Strax.Generated.MailboxGates\n"
            "open Strax.MailboxAbs\n\n"
            + "\n".join(out) +
            "\nend Strax.Generated.MailboxGates\n")
    return text, {f: "translated" for f in FUNCTIONS}


def regen(ctx):
    """step 0 of C05 and C13: regenerate Generated/MailboxGates.lean; an untranslatable source is a violation, never a crash"""
    from lib.engine import LEAN, REPO
    out = LEAN / "StraxModel" / "Generated" / "MailboxGates.lean"
    try:
        text, status = translate((REPO / "strax" / "mailbox.py").read_text())
    except (Untranslatable, SyntaxError, OSError) as e:
        ctx.translator["mailbox_gates"] = f"untranslatable: {e}"
        ctx.violation("translator:mailbox_gates", "translator", None, {"reason": str(e)},
                      "translator regenerates Generated.MailboxGates (scalar predicates of strax/mailbox.py) from the source", False)
        return False
    except Exception as e:  # a translator bug must not crash the check either
        ctx.translator["mailbox_gates"] = f"untranslatable: {type(e).__name__}: {e}"
        ctx.violation("translator:mailbox_gates", "translator", None, {"reason": f"{type(e).__name__}: {e}"},
                      "translator regenerates Generated.MailboxGates (scalar predicates of strax/mailbox.py) from the source", False)
        return False
    for k, v in status.items():
        ctx.translator[f"mailbox.{k}"] = v
    if not out.exists() or out.read_text() != text:
        out.write_text(text)
    return True
