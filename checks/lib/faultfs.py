"""Fault-injecting file system for the strax save protocol (DESIGN.md §4.4).

Proxies for `os` (makedirs, rename, remove, listdir, rmdir, path.exists, access), `shutil.rmtree`
(decomposed into listdir + one unlink per entry + rmdir so that a fault can land between them),
`glob.glob` and the builtin `open` (a write is three fault points: truncate -> write -> close; a read is one)
are bound as module attributes into `strax.storage.files` and `strax.io` -- nothing in /repo is edited.

Every FS operation issued while the proxies are installed gets a global index and is appended to a
trace (also streamed to a side file, so the trace survives the death of the process).  A fault is
`(address, kind)` with kind in {"exc", "die_before", "die_after"}; the address of an operation is
`(key, role, j)`: the j-th operation of that role on the data directory of `key` (role = "S" for the
saver thread's operations, "W<i>" for the operations on chunk file i and for everything a pool task
(`InProcessPool`) does for chunk i, "R" for reader/probe operations issued outside the saver protocol).
Addresses are stable under thread interleaving; for deterministic configurations they are in bijection
with the global index.  Several faults can be armed for one run (each fires once): an exception followed
by a second exception or a death while the exception handler is closing the savers.

Exceptions are raised in place (OSError).  Death is `os._exit(DEATH_RC)` at the fault point: no
`finally`, no `atexit`; callers run the scenario in a fork()ed child (see `run_forked`).
"""
from __future__ import annotations

import builtins
import glob as _glob
import json
import os
import pickle
import re
import shutil as _shutil
import sys
import threading
import traceback

DEATH_RC = 77
MUTATING = {"mkdir", "open_w", "write", "close_w", "rename", "unlink", "rmdir"}
# operations at which an exception can really be raised by the OS (exists/access/glob swallow errors)
CAN_RAISE = MUTATING | {"listdir", "open_r"}
SAVER_FUNCS = {"FileSaver.__init__", "FileSaver._flush_metadata", "FileSaver._close", "FileSaver._save_chunk_metadata",
               "save_file", "_save_file", "FileSaver._save_chunk"}
WRITER_FUNCS = {"save_file", "_save_file"}          # strax.save_file: the chunk write (possibly on a pool thread)


class InjectedIOError(OSError):
    pass


# set while a task of `InProcessPool` runs on this thread: the chunk number the task works on
WORKER = threading.local()


class InProcessPool:
    """Stands in for `concurrent.futures.ProcessPoolExecutor` inside one process, so that the operations of the
    'worker processes' go through the same FaultFS: `submit` pickles the callable with its arguments (as the real
    pool does, so the task works on COPIES of the plugin and of its inlined savers), the task unpickles and runs
    them, and result or exception come back through a `concurrent.futures.Future` (the result pickled once more).
    sync=True runs the task to completion inside `submit` (one legal timing of a pool, deterministic);
    sync=False runs tasks on `max_workers` threads."""

    def __init__(self, max_workers=None, sync=True):
        from concurrent.futures import ThreadPoolExecutor
        self._threads = None if sync else ThreadPoolExecutor(max_workers=max_workers)

    def submit(self, fn, *args, **kwargs):
        from concurrent.futures import Future
        blob = pickle.dumps((fn, args, kwargs))
        chunk_i = kwargs.get("chunk_i")

        def task():
            WORKER.i = chunk_i
            try:
                f, a, k = pickle.loads(blob)
                return pickle.loads(pickle.dumps(f(*a, **k)))
            finally:
                WORKER.i = None

        if self._threads is not None:
            return self._threads.submit(task)
        fut = Future()
        fut.set_running_or_notify_cancel()
        try:
            fut.set_result(task())
        except Exception as e:  # noqa: BLE001  a pool hands every exception of the task to the future
            fut.set_exception(e)
        return fut

    def shutdown(self, wait=True, **kw):
        if self._threads is not None:
            self._threads.shutdown(wait=wait)


class Op:
    __slots__ = ("g", "name", "path", "path2", "key", "dirkind", "fname", "fname2", "role", "j", "func", "thread", "res", "content")

    def as_dict(self):
        return {k: getattr(self, k, None) for k in self.__slots__}


class FaultFS:
    """One instance per scenario run.  `root` is the DataDirectory path."""

    def __init__(self, root, fault=None, trace_path=None, rm_order="sorted", content_of=None):
        self.root = os.path.realpath(root)
        # None | one fault | list of faults; a fault is {"key":..., "role":..., "j":..., "kind":...} or {"g": int, "kind":...}
        self.faults = [] if fault is None else ([dict(f) for f in fault] if isinstance(fault, (list, tuple)) else [dict(fault)])
        self.fired = False          # did any exception fault fire
        self._spent = set()
        self.lock = threading.RLock()
        self.ops = []
        self.counters = {}
        self.trace_fd = os.open(trace_path, os.O_WRONLY | os.O_CREAT | os.O_TRUNC) if trace_path else None
        self.rm_order = rm_order    # "sorted" | "meta_first" | "meta_last" | "reverse"
        self.content_of = content_of
        self.real_open = builtins.open
        self.os = _OsProxy(self)
        self.shutil = _ShutilProxy(self)
        self.glob = _GlobProxy(self)

    # ------------------------------------------------------------------ classification
    def classify(self, path):
        """-> (key, dirkind, fname): key = data type of the data directory, dirkind in final/temp/root/outside,
        fname = canonical name of the entry inside the directory (meta | chunk:i | tmp:i | cmeta:i | other:<n>)."""
        p = os.path.realpath(path) if not os.path.isabs(path) else os.path.normpath(path)
        if p == self.root:
            return None, "root", None
        if not p.startswith(self.root + os.sep):
            return None, "outside", None
        rel = p[len(self.root) + 1:].split(os.sep)
        d = rel[0]
        dirkind = "final"
        if d.endswith("_temp"):
            dirkind, d = "temp", d[:-5]
        parts = d.split("-")
        if len(parts) != 3:
            return None, "outside", None
        key = parts[1]
        if len(rel) == 1:
            return key, dirkind, None
        return key, dirkind, self.fname(rel[1], parts[1] + "-" + parts[2])

    @staticmethod
    def fname(fn, prefix):
        if fn == f"{prefix}-metadata.json":
            return "meta"
        m = re.fullmatch(re.escape(prefix) + r"-(\d{6})", fn)
        if m:
            return f"chunk:{int(m.group(1))}"
        m = re.fullmatch(re.escape(prefix) + r"-(\d{6})_temp", fn)
        if m:
            return f"tmp:{int(m.group(1))}"
        m = re.fullmatch(r"metadata_" + re.escape(prefix) + r"-(\d{6})\.json", fn)
        if m:
            return f"cmeta:{int(m.group(1))}"
        return "other:" + fn

    @staticmethod
    def caller():
        f = sys._getframe(1)
        while f is not None:
            fn = f.f_code.co_filename
            if fn.endswith(("strax/storage/files.py", "strax/io.py")):
                return f.f_code.co_qualname
            f = f.f_back
        return "?"

    # ------------------------------------------------------------------ the fault point
    def point(self, name, path, path2=None, content=None):
        """Register one FS operation; returns the Op.  Raises / dies if the fault is scheduled here
        (kinds exc and die_before); `after(op)` handles die_after."""
        with self.lock:
            op = Op()
            op.g = len(self.ops)
            op.name, op.path, op.path2 = name, path, path2
            op.key, op.dirkind, op.fname = self.classify(path)
            op.fname2 = self.classify(path2)[2] if path2 else None
            if path2 and op.fname is None:          # directory rename: remember the destination kind
                op.fname2 = self.classify(path2)[1]
            op.func = self.caller()
            op.thread = threading.current_thread().name
            f = op.fname or ""
            g = op.fname2 or ""
            wi = getattr(WORKER, "i", None)
            if op.func not in SAVER_FUNCS:
                op.role = "R"
            elif wi is not None:
                op.role = f"W{wi}"
            elif op.func in WRITER_FUNCS and f.startswith(("chunk:", "tmp:")):
                op.role = "W" + f.split(":")[1]
            else:
                op.role = "S"
            ck = (op.key, op.role)
            op.j = self.counters.get(ck, 0)
            self.counters[ck] = op.j + 1
            op.content = content
            op.res = "?"
            self.ops.append(op)
            self._log(op, "begin")      # an operation in flight on another thread when the process dies is still known
            hit = self._hit(op)
            if hit == "die_before":
                self._log(op, "die_before")
                os._exit(DEATH_RC)
            if hit == "exc":
                op.res = "exc"
                self.fired = True
                self._log(op, "exc")
                raise InjectedIOError(5, f"injected I/O error at op {op.g} {name} {path}")
            return op

    def after(self, op, res="ok"):
        with self.lock:
            op.res = res
            self._log(op, res)
            if self._hit(op) == "die_after":
                os._exit(DEATH_RC)

    def _hit(self, op):
        """the kind of the armed fault addressed to this operation, if any.  `die_after` is asked twice (at the
        point and after the operation): it is spent only when it is acted on."""
        for n, ft in enumerate(self.faults):
            if n in self._spent:
                continue
            if "g" in ft:
                if ft["g"] != op.g:
                    continue
            elif (ft["key"], ft["role"], ft["j"]) != (op.key, op.role, op.j):
                continue
            if ft["kind"] == "exc":
                self._spent.add(n)
            return ft["kind"]
        return None

    def _log(self, op, res):
        if self.trace_fd is not None:
            d = op.as_dict()
            d["res"] = res
            os.write(self.trace_fd, (json.dumps(d) + "\n").encode())

    # ------------------------------------------------------------------ open()
    def open(self, fn, mode="r", *a, **kw):
        if not isinstance(fn, str):
            return self.real_open(fn, mode, *a, **kw)
        if "w" in mode:
            op = self.point("open_w", fn)
            try:
                f = self.real_open(fn, mode, *a, **kw)
            except Exception as e:
                self.after(op, "err:" + type(e).__name__)
                raise
            self.after(op)
            return _WFile(self, f, fn)
        op = self.point("open_r", fn)
        try:
            f = self.real_open(fn, mode, *a, **kw)
        except Exception as e:
            self.after(op, "err:" + type(e).__name__)
            raise
        self.after(op)
        return f

    # ------------------------------------------------------------------ install
    def install(self):
        import strax.io as IO
        import strax.storage.files as F
        self._saved = (F.os, F.osp, F.shutil, F.glob, getattr(F, "open", None), IO.os, getattr(IO, "open", None))
        F.os = self.os
        F.osp = self.os.path
        F.shutil = self.shutil
        F.glob = self.glob
        F.open = self.open
        IO.os = self.os
        IO.open = self.open
        return self

    def uninstall(self):
        import strax.io as IO
        import strax.storage.files as F
        F.os, F.osp, F.shutil, F.glob, fo, IO.os, io_o = self._saved
        for mod, o in ((F, fo), (IO, io_o)):
            if o is None:
                if "open" in mod.__dict__:
                    del mod.__dict__["open"]
            else:
                mod.open = o


class _WFile:
    """file object returned for mode 'w'/'wb': write and close are fault points"""

    def __init__(self, ffs, f, fn):
        self.ffs, self.f, self.fn = ffs, f, fn
        self.closed_ = False

    def write(self, data):
        content = self.ffs.content_of(self.fn, data) if self.ffs.content_of else None
        op = self.ffs.point("write", self.fn, content=content)
        r = self.f.write(data)
        self.f.flush()
        self.ffs.after(op)
        return r

    def close(self):
        if self.closed_:
            return
        self.closed_ = True
        try:
            op = self.ffs.point("close_w", self.fn)
        except BaseException:
            self.f.close()      # an I/O error on close still releases the descriptor
            raise
        self.f.close()
        self.ffs.after(op)

    def __enter__(self):
        return self

    def __exit__(self, et, ev, tb):
        if et is not None:
            # the with-block failed: python closes the file without a further fault point
            self.closed_ = True
            self.f.close()
            return False
        self.close()
        return False

    def __getattr__(self, k):
        return getattr(self.f, k)


class _PathProxy:
    def __init__(self, ffs):
        self._ffs = ffs

    def exists(self, p):
        op = self._ffs.point("exists", p)
        r = os.path.exists(p)
        self._ffs.after(op, "ok:" + str(int(r)))
        return r

    def __getattr__(self, k):
        return getattr(os.path, k)


class _OsProxy:
    def __init__(self, ffs):
        self._ffs = ffs
        self.path = _PathProxy(ffs)

    def _wrap(self, name, real, p, *rest, path2=None, **kw):
        op = self._ffs.point(name, p, path2)
        try:
            r = real(p, *rest, **kw)
        except Exception as e:
            self._ffs.after(op, "err:" + type(e).__name__)
            raise
        self._ffs.after(op)
        return r

    def makedirs(self, p, *a, **kw):
        return self._wrap("mkdir", os.makedirs, p, *a, **kw)

    def rename(self, a, b):
        return self._wrap("rename", os.rename, a, b, path2=b)

    def remove(self, p):
        return self._wrap("unlink", os.remove, p)

    unlink = remove

    def rmdir(self, p):
        return self._wrap("rmdir", os.rmdir, p)

    def listdir(self, p="."):
        return self._wrap("listdir", os.listdir, p)

    def access(self, p, mode):
        return self._wrap("access", os.access, p, mode)

    def __getattr__(self, k):
        return getattr(os, k)


class _ShutilProxy:
    def __init__(self, ffs):
        self._ffs = ffs

    def rmtree(self, p):
        names = self._ffs.os.listdir(p)
        for n in order_entries(names, self._ffs.rm_order):
            full = os.path.join(p, n)
            if os.path.isdir(full) and not os.path.islink(full):
                self.rmtree(full)
            else:
                self._ffs.os.remove(full)
        self._ffs.os.rmdir(p)

    def __getattr__(self, k):
        return getattr(_shutil, k)


def order_entries(names, how):
    names = sorted(names)
    if how == "sorted":
        return names
    if how == "reverse":
        return names[::-1]
    meta = [n for n in names if n.endswith("-metadata.json")]
    rest = [n for n in names if not n.endswith("-metadata.json")]
    if how == "meta_first":
        return meta + rest
    if how == "meta_last":
        return rest + meta
    raise ValueError(how)


class _GlobProxy:
    def __init__(self, ffs):
        self._ffs = ffs

    def glob(self, pat, *a, **kw):
        op = self._ffs.point("glob", os.path.dirname(pat))
        r = _glob.glob(pat, *a, **kw)
        self._ffs.after(op, "ok:" + str(len(r)))
        return r

    def __getattr__(self, k):
        return getattr(_glob, k)


# ---------------------------------------------------------------------- forked execution
def run_forked(fn, result_path, timeout=120):
    """Run fn() in a fork()ed child.  fn returns a picklable result which the child writes to
    result_path before leaving through os._exit(0) (so no atexit / finally of the parent's state
    runs twice).  Returns ("ok", result) | ("died", None) | ("crash", text)."""
    sys.stdout.flush()
    sys.stderr.flush()
    if os.path.exists(result_path):
        os.remove(result_path)
    pid = os.fork()
    if pid == 0:
        rc = 0
        try:
            import signal
            signal.signal(signal.SIGALRM, signal.SIG_DFL)
            signal.alarm(int(timeout))          # a hanging scenario kills itself; the parent reports "timeout"
            devnull = os.open(os.devnull, os.O_WRONLY)
            os.dup2(devnull, 1)
            if not os.environ.get("FAULTFS_DEBUG"):
                os.dup2(devnull, 2)
            res = fn()
            with builtins.open(result_path + ".part", "wb") as f:
                pickle.dump(res, f)
            os.rename(result_path + ".part", result_path)
        except BaseException:  # noqa: BLE001  harness bug inside the child
            try:
                with builtins.open(result_path + ".crash", "w") as f:
                    f.write(traceback.format_exc())
            except BaseException:  # noqa: BLE001
                pass
            rc = 3
        finally:
            os._exit(rc)
    # parent
    _, status = os.waitpid(pid, 0)
    rc = os.waitstatus_to_exitcode(status)
    if rc == -14:
        return "timeout", None
    if rc == DEATH_RC:
        return "died", None
    if rc == 0 and os.path.exists(result_path):
        with builtins.open(result_path, "rb") as f:
            return "ok", pickle.load(f)
    txt = ""
    if os.path.exists(result_path + ".crash"):
        txt = builtins.open(result_path + ".crash").read()
    return "crash", f"rc={rc} {txt}"


def read_trace(path):
    """the operations of a run that streamed its trace to a file; an operation that was begun but never finished
    (another thread made the process die meanwhile) has res == "inflight": its effect may or may not have happened"""
    recs = {}
    if not os.path.exists(path):
        return []
    with builtins.open(path) as f:
        for line in f:
            line = line.strip()
            if line:
                try:
                    d = json.loads(line)
                except ValueError:
                    continue       # a line cut by the death of the process
                recs[d["g"]] = d
    out = [recs[g] for g in sorted(recs)]
    for d in out:
        if d["res"] == "begin":
            d["res"] = "inflight"
    return out
