"""Cooperative scheduler (DESIGN.md §4.3): a drop-in for the `threading` names used by strax.mailbox /
strax.processors.threaded_mailbox under which exactly one thread runs at a time and every context switch
is a recorded decision.

    sc = Sched(RandomStrategy(rng))
    with sc.patch(strax.mailbox):            # strax.mailbox.threading = sc.threading
        mb = strax.Mailbox(...); mb.add_sender(...); mb.add_reader(...)
        mb.start()                           # tasks are created (real OS threads, parked)
        sc.run()                             # the calling thread is the controller
        mb.cleanup()
    sc.trace        -> list of task names, one per atomic step  (a schedule; feed it to ReplayStrategy)
    sc.deadlocks    -> [] or the list of (task, where) that were blocked when nothing was runnable

Threads are real OS threads; a baton (one lock per task) guarantees that only the task chosen by the
strategy runs.  Baton passing is decentralised: the task that reaches a yield point consults the strategy itself
and hands the baton directly to the chosen task (no OS-level switch at all when it chooses itself); the thread that
called `run()` sleeps until everything has ended.  `Thread.start()` *primes* the new task (runs it up to its first
yield point, not counted as a step) unless `prime=False`.  A task runs until its next *yield point*:
  * the outermost `acquire` of an RLock / Lock            (parks BEFORE acquiring, stays runnable)
  * `Condition.wait`                                      (releases the lock, BLOCKED until notified)
  * `Thread.join`, `Event.wait`, `SFuture.result` on something not finished yet   (BLOCKED)
  * `Thread.start` if `yield_on_start` (only when called from a task)
  * thread exit
  * explicit `sc.yield_point(tag)` calls placed by a harness (source iterators, workers)
so one scheduling decision = one atomic block = one action of the Lean model (Model/Mailbox.lean).
Timeouts never fire spontaneously: when no task is runnable and some are alive the scheduler records a
DEADLOCK and only then delivers timeouts to every blocked task (wait returns False, result raises
TimeoutError, ...) so the code under test unwinds; this repeats until every task has ended.

Strategies: RandomStrategy (seeded; optional stickiness), PCTStrategy (random priorities with d change
points), ReplayStrategy (a recorded schedule, optionally continued by another strategy), and Explorer
(CHESS-style systematic enumeration of all schedules with at most `bound` preemptions).
"""
from __future__ import annotations

import _thread
import concurrent.futures as _cf
import contextlib
import threading as _rt
import types

_local = _rt.local()

HANG_TIMEOUT = 60.0      # seconds without any progress after which the machinery gives up (SchedError)


class SchedError(RuntimeError):
    """machinery failure (not a property violation)"""


class _Abort(BaseException):
    """raised inside a parked task to unwind its thread when a run is abandoned"""


class Task:
    __slots__ = ("sched", "name", "state", "baton", "pred", "timed_out", "can_timeout", "exc", "real", "tag",
                 "_prime", "index")

    def __init__(self, sched, name):
        self.sched = sched
        self.name = name
        self.state = "new"            # new | runnable | blocked | done
        self.baton = _thread.allocate_lock()
        self.baton.acquire()
        self.pred = None
        self.timed_out = False
        self.can_timeout = True
        self.exc = None
        self.real = None
        self.tag = "start"
        self._prime = None            # lock of the starter while the task runs to its first yield point
        self.index = 0

    def is_runnable(self):
        if self.state == "runnable":
            return True
        if self.state == "blocked":
            return self.timed_out or bool(self.pred())
        return False

    def __repr__(self):
        return f"<Task {self.name} {self.state} @{self.tag}>"


class Sched:
    """Baton passing: the thread that reaches a yield point takes the decision (strategy, callbacks) itself and
    hands the baton directly to the chosen task — no switch at all when it chooses itself.  The thread that
    called `run()` (the controller) sleeps until every task has ended, the decision budget is used up or an
    error occurred in the machinery."""

    def __init__(self, strategy=None, prime=True, yield_on_start=True, on_step=None, on_deadlock=None,
                 max_steps=20000):
        self.strategy = strategy or FirstStrategy()
        self.prime = prime
        self.yield_on_start = yield_on_start
        self.on_step = on_step
        self.on_deadlock = on_deadlock
        self.max_steps = max_steps
        self.max_decisions = None
        self.tasks = []
        self.by_name = {}
        self.trace = []               # names, one per decision (before the first deadlock)
        self.unwind_trace = []        # names, after the first deadlock
        self.deadlocks = []           # one entry per "nothing runnable" event
        self.last = None              # task that ran last
        self.nsteps = 0
        self.unwinding = False
        self.aborting = False
        self.stopped = False
        self.error = None
        self._running = None
        self._ctl = _thread.allocate_lock()
        self._ctl.acquire()
        self._abort_lock = None
        self.threading = make_threading(self)

    # ------------------------------------------------------------------ task side
    def current(self):
        t = getattr(_local, "task", None)
        return t if (t is not None and t.sched is self) else None

    def _park(self, me):
        if self.aborting:
            raise _Abort()
        if me._prime is not None:
            lk, me._prime = me._prime, None
            lk.release()
            me.baton.acquire()
        else:
            self._dispatch(me)
        if self.aborting:
            raise _Abort()

    def yield_point(self, tag="yield"):
        me = self.current()
        if me is None:
            return
        me.state = "runnable"
        me.tag = tag
        self._park(me)

    def block(self, pred, tag="block", can_timeout=True):
        """park until pred() holds (or a timeout is delivered after a deadlock). Returns True on timeout."""
        me = self.current()
        if me is None:
            if pred():
                return False
            raise SchedError(f"the controller thread would block at {tag}; call Sched.run() first")
        me.state = "blocked"
        me.pred = pred
        me.tag = tag
        me.can_timeout = can_timeout
        me.timed_out = False
        try:
            self._park(me)
        finally:
            me.state = "runnable"
            me.pred = None
        to, me.timed_out = me.timed_out, False
        if to and not can_timeout:
            raise _Abort()
        return to

    # ------------------------------------------------------------------ decisions
    def _decide(self):
        """book-keeping for the step that just ended, then pick the next task (None = wake the controller)"""
        try:
            if self._running is not None:
                self.last, self._running = self._running, None
                self.nsteps += 1
                if not self.unwinding and self.on_step:
                    self.on_step(self, self.last)
                if self.nsteps > self.max_steps:
                    raise SchedError(f"more than {self.max_steps} steps (livelock?)")
            while True:
                live = [t for t in self.tasks if t.state != "done"]
                if not live:
                    return None
                runnable = [t for t in live if t.is_runnable()]
                if not runnable:
                    self.deadlocks.append([(t.name, t.tag) for t in live])
                    if len(self.deadlocks) == 1 and self.on_deadlock:
                        self.on_deadlock(self)
                    if len(self.deadlocks) > 200:
                        raise SchedError("tasks do not unwind after repeated timeout delivery")
                    for t in live:
                        t.timed_out = True
                    self.unwinding = True
                    continue
                if self.unwinding:
                    t = runnable[0]
                    self.unwind_trace.append(t.name)
                else:
                    if self.max_decisions is not None and len(self.trace) >= self.max_decisions:
                        self.stopped = True
                        return None
                    t = self.strategy.choose(self, runnable)
                    self.trace.append(t.name)
                self._running = t
                return t
        except BaseException as e:  # noqa: BLE001  (machinery error: hand it to the controller)
            self.error = e
            return None

    def _dispatch(self, me):
        """called by the thread holding the baton at a yield point (me = its Task, or None for the controller)"""
        nxt = self._decide()
        if nxt is me and me is not None:
            return
        if nxt is None:
            if me is None:
                return
            self._ctl.release()
        else:
            nxt.baton.release()
        if me is None:
            self._wait_ctl()
        elif me.state != "done":
            me.baton.acquire()

    def _wait_ctl(self):
        seen = -1
        while not self._ctl.acquire(timeout=HANG_TIMEOUT):
            if self.nsteps == seen:
                raise SchedError(f"no task reached a yield point within {HANG_TIMEOUT}s (blocked on something real?)")
            seen = self.nsteps

    # ------------------------------------------------------------------ controller side
    def _prime_task(self, task):
        lk = _thread.allocate_lock()
        lk.acquire()
        task._prime = lk
        task.baton.release()
        if not lk.acquire(timeout=HANG_TIMEOUT):
            raise SchedError(f"task {task.name} did not reach its first yield point within {HANG_TIMEOUT}s")

    def spawn(self, fn, name, args=(), kwargs=None):
        """create a task directly (without going through the Thread shim)"""
        th = self.threading.Thread(target=fn, name=name, args=args, kwargs=kwargs or {})
        th.start()
        return th

    def _register(self, task):
        base, k = task.name, 1
        while task.name in self.by_name:
            k += 1
            task.name = f"{base}#{k}"
        task.index = len(self.tasks)
        self.tasks.append(task)
        self.by_name[task.name] = task

    def runnable(self):
        return [t for t in self.tasks if t.state != "done" and t.is_runnable()]

    def live(self):
        return [t for t in self.tasks if t.state != "done"]

    def run(self, max_decisions=None):
        """start scheduling; returns when every task has ended (or after max_decisions decisions, leaving the
        tasks parked: call abort() then).  Raises SchedError on a failure of the machinery."""
        if self.current() is not None:
            raise SchedError("Sched.run called from a task")
        self.max_decisions = max_decisions
        self._dispatch(None)
        if self.error is not None:
            err = self.error
            self.abort()
            if isinstance(err, SchedError):
                raise err
            raise SchedError(f"strategy / callback failed: {type(err).__name__}: {err}") from err

    def abort(self):
        """unwind every parked task by raising a BaseException inside it"""
        self.aborting = True
        for _ in range(50):
            live = self.live()
            if not live:
                break
            for t in live:
                if t.state == "new":
                    t.state = "done"
                    continue
                self._abort_lock = _thread.allocate_lock()
                self._abort_lock.acquire()
                t.baton.release()
                if not self._abort_lock.acquire(timeout=HANG_TIMEOUT):
                    raise SchedError(f"task {t.name} does not unwind")
        self.join_real()

    def join_real(self):
        for t in self.tasks:
            if t.real is not None:
                t.real.join(timeout=5)

    @contextlib.contextmanager
    def patch(self, *modules, names=("threading",)):
        """rebind `module.threading` (and other names given) to the shim for the duration"""
        saved = []
        try:
            for m in modules:
                for n in names:
                    if hasattr(m, n):
                        saved.append((m, n, getattr(m, n)))
                        setattr(m, n, self.threading)
            yield self
        finally:
            for m, n, v in saved:
                setattr(m, n, v)


# ---------------------------------------------------------------------------------------- shim
def make_threading(sched: Sched):
    class Thread:
        def __init__(self, group=None, target=None, name=None, args=(), kwargs=None, daemon=None):
            self.name = name or f"Thread-{len(sched.tasks)}"
            self._target, self._args, self._kwargs = target, args, kwargs or {}
            self.task = Task(sched, self.name)
            self.daemon = True
            self.ident = None

        def run(self):
            if self._target is not None:
                self._target(*self._args, **self._kwargs)

        def start(self):
            t = self.task
            if t.state != "new":
                raise RuntimeError("threads can only be started once")

            def body():
                _local.task = t
                t.baton.acquire()
                try:
                    if not sched.aborting:
                        self.run()
                except _Abort:
                    pass
                except BaseException as e:  # noqa: BLE001  (recorded, like threading.excepthook would print)
                    t.exc = e
                finally:
                    t.state = "done"
                    t.tag = "exit"
                    _local.task = None
                    if t._prime is not None:
                        lk, t._prime = t._prime, None
                        lk.release()
                    elif sched.aborting:
                        if sched._abort_lock is not None:
                            sched._abort_lock.release()
                    else:
                        sched._dispatch(t)

            sched._register(t)
            self.name = t.name
            t.real = _rt.Thread(target=body, name=t.name, daemon=True)
            t.state = "runnable"
            t.real.start()
            self.ident = t.real.ident
            if sched.prime:
                sched._prime_task(t)
            if sched.yield_on_start and sched.current() is not None:
                sched.yield_point("start")

        def join(self, timeout=None):
            t = self.task
            if t.state == "done":
                return
            if t.state == "new":
                raise RuntimeError("cannot join thread before it is started")
            sched.block(lambda: t.state == "done", "join")

        def is_alive(self):
            return self.task.state not in ("done", "new")

        @property
        def exception(self):
            return self.task.exc

    class RLock:
        def __init__(self):
            self._owner = None
            self._count = 0

        def acquire(self, blocking=True, timeout=-1):
            me = sched.current() or _CONTROLLER
            if self._owner is me:
                self._count += 1
                return True
            sched.yield_point("acquire")
            while self._owner is not None:
                if not blocking:
                    return False
                if sched.block(lambda: self._owner is None, "lock", can_timeout=(timeout is not None and timeout >= 0)):
                    return False
            self._owner = me
            self._count = 1
            return True

        def release(self):
            me = sched.current() or _CONTROLLER
            if self._owner is not me:
                raise RuntimeError("cannot release un-acquired lock")
            self._count -= 1
            if self._count == 0:
                self._owner = None

        __enter__ = acquire

        def __exit__(self, *a):
            self.release()

        def _is_owned(self):
            return self._owner is (sched.current() or _CONTROLLER)

        def _release_save(self):
            st = (self._owner, self._count)
            self._owner, self._count = None, 0
            return st

        def _acquire_restore(self, st):
            while self._owner is not None:
                sched.block(lambda: self._owner is None, "relock", can_timeout=False)
            self._owner, self._count = st

        def locked(self):
            return self._owner is not None

        def __repr__(self):
            o = self._owner
            return f"<sched RLock owner={getattr(o, 'name', o)} count={self._count}>"

    class Lock(RLock):
        def acquire(self, blocking=True, timeout=-1):
            me = sched.current() or _CONTROLLER
            if self._owner is me:
                # a plain Lock self-deadlocks; treat as blocked forever (deadlock will be reported)
                if not blocking:
                    return False
                if sched.block(lambda: self._owner is None, "lock-self", can_timeout=(timeout is not None and timeout >= 0)):
                    return False
            return RLock.acquire(self, blocking, timeout)

        def release(self):            # a Lock may be released by any thread
            if self._owner is None:
                raise RuntimeError("release unlocked lock")
            self._owner, self._count = None, 0

    class Condition:
        def __init__(self, lock=None):
            self._lock = lock if lock is not None else RLock()
            self._waiters = []
            self.acquire = self._lock.acquire
            self.release = self._lock.release

        def __enter__(self):
            return self._lock.__enter__()

        def __exit__(self, *a):
            return self._lock.__exit__(*a)

        def wait(self, timeout=None):
            if not self._lock._is_owned():
                raise RuntimeError("cannot wait on un-acquired lock")
            flag = [False]
            self._waiters.append(flag)
            st = self._lock._release_save()
            try:
                to = sched.block(lambda: flag[0], "wait", can_timeout=timeout is not None)
                if to and flag in self._waiters:
                    self._waiters.remove(flag)
            finally:
                self._lock._acquire_restore(st)
            return not to

        def wait_for(self, predicate, timeout=None):
            result = predicate()
            while not result:
                ok = self.wait(timeout)
                result = predicate()
                if not ok:
                    break
            return result

        def notify(self, n=1):
            if not self._lock._is_owned():
                raise RuntimeError("cannot notify on un-acquired lock")
            for f in self._waiters[:n]:
                f[0] = True
            del self._waiters[:n]

        def notify_all(self):
            self.notify(len(self._waiters))

    class Event:
        def __init__(self):
            self._flag = False

        def is_set(self):
            return self._flag

        def set(self):
            self._flag = True

        def clear(self):
            self._flag = False

        def wait(self, timeout=None):
            if self._flag:
                return True
            return not sched.block(lambda: self._flag, "event", can_timeout=timeout is not None)

    def current_thread():
        t = sched.current()
        return types.SimpleNamespace(name=t.name if t else "MainThread", ident=_rt.get_ident())

    return types.SimpleNamespace(Thread=Thread, RLock=RLock, Lock=Lock, Condition=Condition, Event=Event,
                                 current_thread=current_thread, get_ident=_rt.get_ident, local=_rt.local,
                                 main_thread=_rt.main_thread, TIMEOUT_MAX=_rt.TIMEOUT_MAX, active_count=lambda: len(sched.live()) + 1)


_CONTROLLER = types.SimpleNamespace(name="<controller>")


class SFuture(_cf.Future):
    """concurrent.futures.Future whose `result`/`exception` wait cooperatively"""

    def __init__(self, sched):
        super().__init__()
        self._sched = sched

    def result(self, timeout=None):
        if not self.done():
            if self._sched.block(self.done, "future", can_timeout=timeout is not None):
                raise _cf.TimeoutError()
        return super().result(0)

    def exception(self, timeout=None):
        if not self.done():
            if self._sched.block(self.done, "future", can_timeout=timeout is not None):
                raise _cf.TimeoutError()
        return super().exception(0)


class SchedExecutor:
    """minimal ThreadPoolExecutor stand-in: `max_workers` worker tasks created on first submit; each job is
    one atomic step of its worker unless the job itself reaches yield points"""

    def __init__(self, sched, max_workers=2, name="pool"):
        self.sched, self.n, self.name = sched, max_workers, name
        self.queue = []
        self.workers = []
        self.down = False

    def _worker(self):
        while True:
            if not self.queue:
                if self.down:
                    return
                self.sched.block(lambda: bool(self.queue) or self.down, "pool-idle", can_timeout=False)
                continue
            fut, fn, a, kw = self.queue.pop(0)
            self.sched.yield_point("job")
            if not fut.set_running_or_notify_cancel():
                continue
            try:
                fut.set_result(fn(*a, **kw))
            except BaseException as e:  # noqa: BLE001
                if isinstance(e, _Abort):
                    raise
                fut.set_exception(e)

    def submit(self, fn, *a, **kw):
        if self.down:
            raise RuntimeError("cannot schedule new futures after shutdown")
        fut = SFuture(self.sched)
        self.queue.append((fut, fn, a, kw))
        if len(self.workers) < self.n:
            self.workers.append(self.sched.spawn(self._worker, f"{self.name}{len(self.workers)}"))
        return fut

    def shutdown(self, wait=True, cancel_futures=False):
        self.down = True
        if cancel_futures:
            for fut, *_ in self.queue:
                fut.cancel()
            self.queue.clear()
        if wait and self.sched.current() is not None:
            for w in self.workers:
                w.join()

    def __enter__(self):
        return self

    def __exit__(self, *a):
        self.shutdown(wait=True)


# ---------------------------------------------------------------------------------------- strategies
class FirstStrategy:
    def choose(self, sched, runnable):
        return runnable[0]


class RandomStrategy:
    """uniformly random among the runnable tasks; with probability `stick` keep running the last task"""

    def __init__(self, rng, stick=0.0):
        self.rng, self.stick = rng, stick

    def choose(self, sched, runnable):
        if self.stick and sched.last in runnable and self.rng.random() < self.stick:
            return sched.last
        return runnable[self.rng.randrange(len(runnable))]


class PCTStrategy:
    """Burckhardt et al.: random distinct priorities, highest-priority runnable task runs; at `depth-1`
    random step indices the running task's priority drops below all others."""

    def __init__(self, rng, depth=3, est_steps=60):
        self.rng = rng
        self.prio = {}
        self.change = sorted(rng.randrange(1, max(2, est_steps)) for _ in range(max(0, depth - 1)))
        self.low = 0

    def choose(self, sched, runnable):
        for t in runnable:
            if t.name not in self.prio:
                self.prio[t.name] = self.rng.random() + 1.0
        k = len(sched.trace)
        while self.change and self.change[0] <= k:
            self.change.pop(0)
            if sched.last is not None:
                self.low -= 1
                self.prio[sched.last.name] = self.low
        return max(runnable, key=lambda t: self.prio[t.name])


class PriorityStrategy:
    """adversarial fixed priorities: lower number first; unknown names get `default`"""

    def __init__(self, order, default=5):
        self.order, self.default = order, default

    def choose(self, sched, runnable):
        return min(runnable, key=lambda t: (self.order.get(t.name, self.default), t.index))


class ReplayStrategy:
    """follow a recorded schedule (list of task names). If the recorded task is not runnable the replay has
    diverged: `diverged_at` is set and `then` (default: first runnable) takes over."""

    def __init__(self, schedule, then=None):
        self.schedule = list(schedule)
        self.then = then or FirstStrategy()
        self.diverged_at = None

    def choose(self, sched, runnable):
        k = len(sched.trace)
        if self.diverged_at is None and k < len(self.schedule):
            for t in runnable:
                if t.name == self.schedule[k]:
                    return t
            self.diverged_at = k
        return self.then.choose(sched, runnable)


class Explorer:
    """systematic enumeration of all schedules with at most `bound` preemptions (a preemption = switching
    away from the task that ran last while it is still runnable). Stateless DFS: every schedule is a fresh
    run of the code under test.

        ex = Explorer(bound=2)
        while ex.more():
            sc = Sched(ex.strategy(), ...); ... sc.run(); ex.finish()
    """

    def __init__(self, bound=2, limit=None):
        self.bound = bound
        self.limit = limit
        self.stack = []      # nodes: [options(list of names), idx, used_before, costs, runnable names]
        self.depth = 0
        self.runs = 0
        self.exhausted = False
        self.truncated = False

    def more(self):
        if self.exhausted:
            return False
        if self.limit is not None and self.runs >= self.limit:
            self.truncated = True
            return False
        return True

    def strategy(self):
        self.depth = 0
        return self

    def choose(self, sched, runnable):
        d = self.depth
        names = [t.name for t in runnable]
        if d < len(self.stack):
            opts, idx, used, costs, seen = self.stack[d]
            if seen != names:
                raise SchedError(f"non-deterministic replay at depth {d}: recorded {seen}, now runnable {names}")
            name = opts[idx]
        else:
            last = sched.last.name if sched.last is not None else None
            used = 0
            if self.stack:
                _, pi, pu, pc, _ = self.stack[-1]
                used = pu + pc[pi]
            if last in names:
                opts = [last] + [n for n in names if n != last]
                costs = [0] + [1] * (len(opts) - 1)
            else:
                opts = list(names)
                costs = [0] * len(opts)
            keep = [i for i, c in enumerate(costs) if used + c <= self.bound]
            opts = [opts[i] for i in keep]
            costs = [costs[i] for i in keep]
            self.stack.append([opts, 0, used, costs, names])
            name = opts[0]
        self.depth += 1
        for t in runnable:
            if t.name == name:
                return t
        raise SchedError("explorer: chosen task vanished")

    def finish(self):
        self.runs += 1
        del self.stack[self.depth:]
        while self.stack and self.stack[-1][1] + 1 >= len(self.stack[-1][0]):
            self.stack.pop()
        if not self.stack:
            self.exhausted = True
        else:
            self.stack[-1][1] += 1
