"""Bridging real strax objects and the canonical line protocol of the Lean driver."""
from __future__ import annotations

import os
import sys
import warnings

warnings.filterwarnings("ignore")

# numba's on-disk cache (cache=True functions write next to the source, i.e. into /repo/strax/**/__pycache__)
# confuses structured dtypes that differ only in shapes/titles: feeding strax's jitted functions unusual dtypes
# from here would poison the cache that strax's own test-suite then loads. Always use a private, per-run cache.
if "NUMBA_CACHE_DIR" not in os.environ:
    import atexit
    import shutil
    import tempfile

    _nb = tempfile.mkdtemp(prefix="verif_numba_")
    os.environ["NUMBA_CACHE_DIR"] = _nb
    _pid = os.getpid()
    atexit.register(lambda: shutil.rmtree(_nb, ignore_errors=True) if os.getpid() == _pid else None)
REPO = os.environ.get("STRAX_REPO", "/repo")
if REPO not in sys.path:
    sys.path.insert(0, REPO)

import numpy as np  # noqa: E402
import strax  # noqa: E402

assert os.path.realpath(strax.__file__).startswith(os.path.realpath(REPO)), (strax.__file__, REPO)

# ---- dtypes: the same logical row (time, endt, id) in several physical encodings
DT_END = np.dtype([(("Start time", "time"), np.int64), (("End time", "endtime"), np.int64), (("Identity", "id"), np.int64)])
DT_LEN = np.dtype([(("Start time", "time"), np.int64), (("Length", "length"), np.int32), (("Width", "dt"), np.int16),
                   (("Identity", "id"), np.int64)])
DT_ARR = np.dtype([(("Start time", "time"), np.int64), (("End time", "endtime"), np.int64), (("Identity", "id"), np.int64),
                   (("Payload", "wave"), np.int16, (3,))])
DTYPES = {"end": DT_END, "len": DT_LEN, "arr": DT_ARR}


def mk_array(rows, enc="end"):
    """rows: iterable of (time, endt, id)."""
    rows = list(rows)
    dt = DTYPES[enc]
    a = np.zeros(len(rows), dtype=dt)
    for i, (t, e, k) in enumerate(rows):
        a[i]["time"] = t
        a[i]["id"] = k
        if enc == "len":
            a[i]["dt"] = 1
            a[i]["length"] = e - t
        else:
            a[i]["endtime"] = e
        if enc == "arr":
            a[i]["wave"] = [k % 7, k % 5, k % 3]
    return a


def rows_of(a):
    return [(int(t), int(e), int(k)) for t, e, k in zip(a["time"], strax.endtime(a), a["id"])]


def show_rows(rows):
    rows = list(rows)
    return ",".join(f"{t}:{e}:{k}" for t, e, k in rows) if rows else "-"


def show_ids(rows):
    rows = list(rows)
    return ",".join(str(r[2]) for r in rows) if rows else "-"


def show_ints(xs):
    xs = [int(x) for x in xs]
    return ",".join(map(str, xs)) if xs else "-"


def show_runs(d):
    if d is None:
        return "-"
    if not d:
        return "{}"
    return ",".join(f"{k}:{int(v['start'])}:{int(v['end'])}" for k, v in d.items())


def parse_runs(s):
    if s == "-":
        return None
    if s == "{}":
        return {}
    out = {}
    for tok in s.split(","):
        k, a, b = tok.split(":")
        out[k] = {"start": int(a), "end": int(b)}
    return out


# target size: model uses "rows"; real chunk uses MB. itemsize-dependent, monotone mapping.
def target_mb(rows_target, itemsize):
    return (rows_target * itemsize + itemsize / 2) / 1e6


def target_rows(target_mb_val, itemsize):
    return int(target_mb_val * 1e6 // itemsize)


def show_chunk(c):
    """canonical text of a real strax.Chunk == Lean `showChunk`"""
    rid = "-" if c.run_id is None else c.run_id
    return "|".join([
        c.data_type, c.data_kind, rid, str(int(c.start)), str(int(c.end)), show_rows(rows_of(c.data)),
        show_runs(c.subruns), show_runs(c.superrun), str(target_rows(c.target_size_mb, c.data.dtype.itemsize)),
    ])


def raw_chunk(data_type="d", kind="k", run_id="r", start=0, end=0, rows=(), subruns=None, superrun=None, target=1000):
    """JSON-able raw chunk description"""
    return dict(data_type=data_type, kind=kind, run_id=run_id, start=start, end=end, rows=[list(r) for r in rows],
                subruns=subruns, superrun=superrun, target=target)


def raw_chunk_op(rc):
    rid = "-" if rc["run_id"] is None else rc["run_id"]
    return "|".join([rc["data_type"], rc["kind"], rid, str(rc["start"]), str(rc["end"]), show_rows(rc["rows"]),
                     show_runs(rc["subruns"]), show_runs(rc["superrun"]), str(rc["target"])])


def build_chunk(rc, enc="end"):
    """construct the real strax.Chunk from a raw description (may raise like the constructor)"""
    data = mk_array(rc["rows"], enc)
    return strax.Chunk(data_type=rc["data_type"], data_kind=rc["kind"], dtype=data.dtype, run_id=rc["run_id"],
                       start=rc["start"], end=rc["end"], data=data, subruns=rc["subruns"], superrun=rc["superrun"],
                       target_size_mb=target_mb(rc["target"], data.dtype.itemsize))


ERR_NAMES = ["CannotSplit", "DataNotAvailable", "DataCorrupted", "PluginGaveWrongOutput", "MailboxKilled",
             "MailboxFullTimeout", "MailboxReadTimeout", "InvalidMessageNumber", "MailBoxAlreadyClosed", "NoBreakFound",
             "NotImplementedError", "AssertionError", "KeyError", "TypeError", "ValueError", "RuntimeError", "OSError"]


def err_name(e):
    for cls in type(e).__mro__:
        if cls.__name__ in ERR_NAMES:
            return cls.__name__
    return "Other"


def guarded(f):
    """run f(); map exceptions to `err <Kind>`; f returns the text after `ok `"""
    try:
        return "ok " + f()
    except Exception as e:  # noqa: BLE001
        return "err " + err_name(e)
