"""Line-level interleaver (DESIGN.md §4.5, property C15).

Two or more real threads run arbitrary callables (here: `Context.get_array` on ONE context).  Every
controlled thread runs under `sys.settrace`; a *line* event in a frame selected by `want_frame`
(the plugin-resolution functions of strax/context.py) is a yield point.  Exactly one controlled
thread runs at a time; at every yield point a strategy decides which thread proceeds (the baton).
Threads spawned by the code under test are not controlled.

Strategies: `RandomStrategy` (seeded), `ReplayStrategy` (a recorded list of thread indices, one per
decision), `PreemptStrategy` (run-to-completion except for a bounded list of forced switches —
the building block of preemption-bounded enumeration).

The schedule that was actually executed is recorded as a list of thread indices (one per decision)
and can be replayed exactly as long as the code under test is deterministic given the schedule.
"""
from __future__ import annotations

import sys
import threading
import time


class Stuck(Exception):
    """the running thread neither reached a yield point nor finished within the time limit"""


class RandomStrategy:
    def __init__(self, rng, p_switch=0.2):
        self.rng, self.p = rng, p_switch

    def choose(self, il, current, ready):
        if current in ready and self.rng.random() >= self.p:
            return current
        return self.rng.choice(sorted(ready))


class ReplayStrategy:
    """replays a recorded schedule; when it is exhausted (or names a thread that is not ready)
    the current thread continues, then the lowest ready one"""

    def __init__(self, schedule):
        self.schedule = list(schedule)
        self.i = 0
        self.diverged = False

    def choose(self, il, current, ready):
        if self.i < len(self.schedule):
            t = self.schedule[self.i]
            self.i += 1
            if t in ready:
                return t
            self.diverged = True
        return current if current in ready else min(ready)


class PreemptStrategy:
    """Non-preemptive (current thread continues; when it ends the lowest ready thread runs) except
    for forced switches: `switches` = list of (thread, k, to): when `thread` is about to take its
    k-th own step (k counts that thread's yield points, from 0), the baton goes to `to` instead."""

    def __init__(self, switches, first=0):
        self.switches = {(t, k): to for t, k, to in switches}
        self.first = first
        self.started = False

    def choose(self, il, current, ready):
        if not self.started:
            self.started = True
            if self.first in ready:
                return self.first
        if current in ready:
            to = self.switches.pop((current, il.steps[current]), None)
            if to is not None and to in ready:
                return to
            return current
        return min(ready)


class Interleaver:
    def __init__(self, strategy, want_frame, step_timeout=60.0, block_timeout=0.5):
        self.strategy = strategy
        self.want_frame = want_frame
        self.step_timeout = step_timeout
        # a baton holder that passes no yield point for this long is taken to be blocked on a lock held
        # by a parked thread: the baton moves on (the run is then flagged `uncontrolled`: the blocked
        # thread resumes on its own when the lock is released and parks at its next yield point)
        self.block_timeout = block_timeout
        self.uncontrolled = False
        self.cv = threading.Condition()
        self.local = threading.local()
        self.current = None          # index of the thread holding the baton
        self.waiting = {}            # thread index -> (function name, line) it is parked at
        self.finished = set()
        self.steps = []              # per thread: yield points passed so far
        self.schedule = []           # decisions: thread index chosen
        self.points = []             # per decision: (thread, function, line) of the thread that got the baton
        self.preempted = []          # (thread, function, line, its yield-point index) each time a ready thread lost the baton
        self.results = []
        self.free_run = False        # set when control was given up (Stuck)
        self.stuck = False
        self.n = 0

    # -- identity of the calling thread (None for uncontrolled threads)
    def me(self):
        return getattr(self.local, "idx", None)

    # -- tracing
    def _global_trace(self, frame, event, arg):
        if event == "call" and self.want_frame(frame):
            return self._local_trace
        return None

    def _local_trace(self, frame, event, arg):
        if event == "line":
            self._yield(frame.f_code.co_name, frame.f_lineno)
        return self._local_trace

    def _decide(self):
        """called with the lock held by a thread that gives up the baton"""
        ready = set(self.waiting)
        if not ready:
            self.current = None
            self.cv.notify_all()
            return
        cur = self.current
        t = self.strategy.choose(self, cur, ready)
        if cur is not None and cur in self.waiting and t != cur:
            fn0, ln0 = self.waiting[cur]
            self.preempted.append((cur, fn0, ln0, self.steps[cur]))
        self.current = t
        self.schedule.append(t)
        fn, ln = self.waiting[t]
        self.points.append((t, fn, ln))
        self.cv.notify_all()

    def _yield(self, fn, ln):
        idx = self.me()
        if idx is None or self.free_run:
            return
        with self.cv:
            self.waiting[idx] = (fn, ln)
            if self.current == idx or self.current is None:
                self._decide()
            self._park(idx)
            self.steps[idx] += 1

    def _park(self, idx):
        """wait (lock held) until this thread holds the baton"""
        t0 = time.time()
        while self.current != idx and not self.free_run:
            self.cv.wait(0.5)
            if time.time() - t0 > self.step_timeout * 4:
                self.stuck = True
                self.free_run = True
                self.cv.notify_all()
        self.waiting.pop(idx, None)
        self.t_last = time.time()

    def _thread_main(self, idx, fn):
        self.local.idx = idx
        with self.cv:
            self.waiting[idx] = ("<start>", 0)
            self.started += 1
            self.cv.notify_all()
            self._park(idx)
        sys.settrace(self._global_trace)
        try:
            self.results[idx] = ("ok", fn())
        except BaseException as e:  # noqa: BLE001
            self.results[idx] = ("err", e)
        finally:
            sys.settrace(None)
            with self.cv:
                self.finished.add(idx)
                if self.current == idx:
                    self._decide()

    def run(self, fns):
        self.n = len(fns)
        self.results = [None] * self.n
        self.steps = [0] * self.n
        self.started = 0
        self.t_last = time.time()
        threads = [threading.Thread(target=self._thread_main, args=(i, f), daemon=True) for i, f in enumerate(fns)]
        for t in threads:
            t.start()
        with self.cv:
            self.cv.wait_for(lambda: self.started == self.n, timeout=30)
            self._decide()
            # watchdog: the baton holder must keep making progress
            while len(self.finished) < self.n:
                self.cv.wait(0.05)
                idle = time.time() - self.t_last
                if self.free_run:
                    continue
                if idle > self.step_timeout:
                    self.stuck = True
                    self.free_run = True
                    self.cv.notify_all()
                elif (self.block_timeout is not None and idle > self.block_timeout and self.waiting
                      and self.current is not None and self.current not in self.waiting
                      and self.current not in self.finished):
                    self.uncontrolled = True
                    self.t_last = time.time()
                    self._decide()
        for t in threads:
            t.join(30)
        return self.results


# ----------------------------------------------------------------------------- instrumented shared state
class AccessLog:
    """total order of accesses of shared dicts / the cache attribute:
    entries (thread index, dict id, action token, result token, yield points the thread had passed, extra);
    extra: "keys"/"items"/"values" for an iterator creation, "guarded" for a look-up made inside
    `_make_progress_bar`'s try/except, "test"/"use" for a read of the cache attribute"""

    def __init__(self, il_ref):
        self.il_ref = il_ref     # callable returning the current Interleaver (or None)
        self.entries = []
        self.dicts = []          # DictLog per traced dict, index = dict id
        self.enabled = True

    def who(self):
        il = self.il_ref()
        i = il.me() if il is not None else None
        return -1 if i is None else i

    def new_dict(self):
        d = DictLog(self, len(self.dicts))
        self.dicts.append(d)
        return d

    def add(self, dict_id, act, res, extra=""):
        if self.enabled:
            il = self.il_ref()
            w = self.who()
            step = il.steps[w] if (il is not None and 0 <= w < len(il.steps)) else -1
            self.entries.append((w, dict_id, act, res, step, extra))


class DictLog:
    """naming of keys / stored objects / iterators of one traced dict"""

    def __init__(self, access_log, dict_id):
        self.al = access_log
        self.id = dict_id
        self.lock = threading.Lock()
        self.keymap = {}
        self.clsmap = {}
        self.n_plugin = 0
        self.n_temp = 0
        self.n_cls = 0
        self.n_iter = 0
        self.n_initial = 0
        self.traced = None

    def key(self, k, initial=False):
        """model name of a key: p<i> for the keys present at the start (whatever their name) and for
        ordinary data types, t<i> for `_temp*` names that appear later"""
        with self.lock:
            if k not in self.keymap:
                if isinstance(k, str) and k.startswith("_temp") and not initial:
                    self.keymap[k] = f"t{self.n_temp}"
                    self.n_temp += 1
                else:
                    self.keymap[k] = f"p{self.n_plugin}"
                    self.n_plugin += 1
            return self.keymap[k]

    def cls(self, c, base=None):
        with self.lock:
            if id(c) not in self.clsmap:
                self.clsmap[id(c)] = (self.n_cls if base is None else base, c)   # keep c alive: ids stay unique
                if base is None:
                    self.n_cls += 1
            return self.clsmap[id(c)][0]

    def add(self, act, res, extra=""):
        self.al.add(self.id, act, res, extra)


class _TracedIter:
    def __init__(self, d, it, proj, kind=""):
        self.d, self.it, self.proj = d, it, proj
        self.id = d.log.n_iter
        d.log.n_iter += 1
        self.size0 = dict.__len__(d)
        self.ins0 = d.inserts
        self.dead = False
        d.log.add(f"I{self.id}", "u", kind)

    def __iter__(self):
        return self

    def __next__(self):
        d = self.d
        tainted = (not self.dead) and dict.__len__(d) == self.size0 and d.inserts != self.ins0
        try:
            k, v = next(self.it)
        except StopIteration:
            if tainted:
                d.log.add(f"N{self.id}", "?")
                self.dead = True
            elif not self.dead:
                d.log.add(f"N{self.id}", "s")
            raise
        except RuntimeError as e:
            if not self.dead:
                d.log.add(f"N{self.id}", "?" if tainted else "eRuntimeError")
            self.dead = True
            raise e
        if tainted:
            d.log.add(f"N{self.id}", "?")
            self.dead = True
        elif not self.dead:
            d.log.add(f"N{self.id}", "i" + d.log.key(k))
        return self.proj(k, v)


class _TracedView:
    def __init__(self, d, proj, kind):
        self.d, self.proj, self.kind = d, proj, kind

    def __iter__(self):
        return _TracedIter(self.d, iter(dict.items(self.d)), self.proj, self.kind)

    def __len__(self):
        return dict.__len__(self.d)

    def __contains__(self, x):
        return x in list(self)


def _called_from(name, depth=14):
    """is a function called `name` among the callers (look-ups inside its try/except never surface)"""
    f = sys._getframe(2)
    for _ in range(depth):
        if f is None:
            return False
        if f.f_code.co_name == name:
            return True
        f = f.f_back
    return False


class TracedRegistry(dict):
    """drop-in replacement for Context._plugin_class_registry that logs every access"""

    def __init__(self, initial, log):
        dict.__init__(self)
        self.log = log
        self.inserts = 0
        log.traced = self
        for i, (k, v) in enumerate(initial.items()):
            dict.__setitem__(self, k, v)
            log.key(k, initial=True)
            log.cls(v, base=1000 + i)
        log.n_initial = dict.__len__(self)

    def __setitem__(self, k, v):
        if not dict.__contains__(self, k):
            self.inserts += 1
        dict.__setitem__(self, k, v)
        self.log.add(f"S{self.log.key(k)}/{self.log.cls(v)}", "u")

    def __delitem__(self, k):
        try:
            dict.__delitem__(self, k)
        except KeyError:
            self.log.add(f"D{self.log.key(k)}", "eKeyError")
            raise
        self.log.add(f"D{self.log.key(k)}", "u")

    def __getitem__(self, k):
        extra = "guarded" if _called_from("_make_progress_bar") else ""
        try:
            v = dict.__getitem__(self, k)
        except KeyError:
            self.log.add(f"G{self.log.key(k)}", "eKeyError", extra)
            raise
        self.log.add(f"G{self.log.key(k)}", "u", extra)
        return v

    def __contains__(self, k):
        r = dict.__contains__(self, k)
        self.log.add(f"C{self.log.key(k)}", "b1" if r else "b0", "guarded" if _called_from("_make_progress_bar") else "")
        return r

    def get(self, k, default=None):
        if dict.__contains__(self, k):
            v = dict.__getitem__(self, k)
            self.log.add(f"L{self.log.key(k)}", f"c{self.log.cls(v)}")
            return v
        self.log.add(f"L{self.log.key(k)}", "c-")
        return default

    def items(self):
        return _TracedView(self, lambda k, v: (k, v), "items")

    def values(self):
        return _TracedView(self, lambda k, v: v, "values")

    def keys(self):
        return _TracedView(self, lambda k, v: k, "keys")

    def __iter__(self):
        return iter(self.keys())

    def copy(self):
        return dict(dict.items(self))

    def plain_keys(self):
        return list(dict.keys(self))
