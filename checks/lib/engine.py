"""Shared pipeline for every property check (DESIGN.md §2.1).

Steps: regen (translator) -> prove (lake build + axiom audit + forbidden-token grep) ->
correspond (real code vs compiled Lean driver on the same op lines) -> oracle (property
predicate evaluated on the implementation's own outputs) -> search (only when a step broke)
-> report (known-findings filter, VIOLATION lines, exit code) -> evidence.

A per-property module in checks/props/cXX.py defines

    ID = "C07"
    LEAN_MODULES = ["StraxModel.Props.C07"]         # what `prove` builds and audits
    TRUSTED = [...]                                  # extra trusted-base lines for the evidence
    def run(ctx): ...                                # calls ctx.correspond(...) etc.
    def search(ctx): ...                             # optional: deeper oracle-only search
    def replay(ctx, case): ...                       # optional: re-run one recorded case

Exit codes: 0 held, 1 violation (line printed), 2 machinery error / timeout.
"""
from __future__ import annotations

import fcntl
import hashlib
import json
import os
import random
import re
import subprocess
import sys
import time
import traceback
from collections import Counter
from dataclasses import dataclass, field
from pathlib import Path

VERIF = Path(__file__).resolve().parents[2]
LEAN = VERIF / "lean"
DRIVER = LEAN / ".lake" / "build" / "bin" / "driver"
EVIDENCE = Path(os.environ.get("VERIF_EVIDENCE_DIR") or (VERIF / "evidence"))  # override only for mutant-validation runs
REPLAYS = VERIF / "replays"
CORPUS = VERIF / "corpus"
KNOWN = VERIF / "known_findings.json"
REPO = Path(os.environ.get("STRAX_REPO", "/repo"))

ALLOWED_AXIOMS = {"propext", "Classical.choice", "Quot.sound"}
FORBIDDEN = re.compile(
    r"\bsorry\b|\badmit\b|^\s*axiom\s|native_decide|bv_decide|implemented_by|\bunsafe\s|maxHeartbeats\s+0\b|\bextern\b"
)

BASE_TRUSTED = [
    "Lean 4.33.0 kernel (thorough tier additionally re-checks the .olean files with leanchecker)",
    "axioms allowed in property theorems: propext, Classical.choice, Quot.sound (audited with #print axioms on every run)",
    "Lean compiler/runtime executing the same model definitions in the line-protocol driver; driver parse/print glue",
    "correspondence harness (Python adapters, generators, canonicalisers) tying the hand-written model to /repo's working tree",
    "CPython / numpy / numba semantics (int64 wrap-around not modelled; inputs stay far from 2^63)",
]


def log(*a):
    print(*a, file=sys.stderr, flush=True)


# ----------------------------------------------------------------------------- lean side

def _strip_comments(text: str) -> str:
    # remove /- ... -/ (nested not handled beyond one level; fine for our files) and -- comments
    out = []
    i = 0
    depth = 0
    n = len(text)
    while i < n:
        if text.startswith("/-", i):
            depth += 1
            i += 2
            continue
        if depth and text.startswith("-/", i):
            depth -= 1
            i += 2
            continue
        if depth:
            if text[i] == "\n":
                out.append("\n")
            i += 1
            continue
        if text.startswith("--", i):
            j = text.find("\n", i)
            if j < 0:
                break
            i = j
            continue
        out.append(text[i])
        i += 1
    return "".join(out)


def lean_sources():
    files = [LEAN / "Main.lean", LEAN / "StraxModel.lean"]
    files += sorted((LEAN / "StraxModel").rglob("*.lean"))
    return [f for f in files if f.exists()]


IMPORT_RE = re.compile(r"^\s*import\s+(StraxModel(?:\.\w+)*)\s*$", re.M)


def import_closure(modules):
    """Lean source files reachable from the given modules (and from Main.lean, the driver) through
    `import StraxModel.…` lines: the files a property's verdict actually depends on."""
    seen, todo = {}, list(modules)
    main = LEAN / "Main.lean"
    if main.exists():
        seen[main] = True
        todo += IMPORT_RE.findall(main.read_text())
    while todo:
        m = todo.pop()
        f = props_file(m)
        if f in seen or not f.exists():
            continue
        seen[f] = True
        todo += IMPORT_RE.findall(f.read_text())
    return sorted(seen)


def forbidden_hits(files=None):
    hits = []
    for f in files or lean_sources():
        body = _strip_comments(f.read_text())
        for ln, line in enumerate(body.splitlines(), 1):
            if FORBIDDEN.search(line):
                hits.append(f"{f.relative_to(LEAN)}:{ln}: {line.strip()[:120]}")
    return hits


class LakeLock:
    def __enter__(self):
        (LEAN / ".lake").mkdir(exist_ok=True)
        self.f = open(LEAN / ".lake" / "verif.lock", "w")
        fcntl.flock(self.f, fcntl.LOCK_EX)
        return self

    def __exit__(self, *a):
        fcntl.flock(self.f, fcntl.LOCK_UN)
        self.f.close()


def lake_build(targets, timeout=3000):
    """Build targets under the project lock. Returns (ok, log)."""
    with LakeLock():
        p = subprocess.run(["lake", "build", *targets], cwd=LEAN, capture_output=True, text=True, timeout=timeout)
    return p.returncode == 0, (p.stdout + p.stderr)


THEOREM_RE = re.compile(r"^\s*(?:@\[[^\]]*\]\s*)?(?:private\s+|protected\s+)?theorem\s+([A-Za-z_][\w'.]*)", re.M)
NAMESPACE_RE = re.compile(r"^\s*namespace\s+(\S+)", re.M)


def props_file(module: str) -> Path:
    return LEAN / (module.replace(".", "/") + ".lean")


def theorems_of(module: str):
    """Theorem names (fully qualified) declared in a Props module. Convention: one
    `namespace X` at the top of the file that spans the whole file."""
    text = _strip_comments(props_file(module).read_text())
    ns = NAMESPACE_RE.search(text)
    prefix = (ns.group(1) + ".") if ns else ""
    return [prefix + m.group(1) for m in THEOREM_RE.finditer(text)]


def axiom_audit(modules):
    """Runs `#print axioms` on every theorem of the given Props modules.
    Returns dict name -> sorted list of axioms, and the raw log."""
    names = []
    for m in modules:
        names += theorems_of(m)
    src = "".join(f"import {m}\n" for m in modules) + "".join(f"#print axioms {n}\n" for n in names)
    tmp = LEAN / ".lake" / f"audit_{os.getpid()}.lean"
    tmp.parent.mkdir(exist_ok=True)
    tmp.write_text(src)
    try:
        p = subprocess.run(["lake", "env", "lean", str(tmp)], cwd=LEAN, capture_output=True, text=True, timeout=1800)
    finally:
        tmp.unlink(missing_ok=True)
    out = p.stdout + p.stderr
    res = {}
    # "'Name' depends on axioms: [a, b]"  or "'Name' does not depend on any axioms"
    for m in re.finditer(r"^'([^\n]+?)' depends on axioms:\s*\[([^\]]*)\]", out, re.M):
        res[m.group(1)] = sorted(a.strip() for a in m.group(2).replace("\n", " ").split(",") if a.strip())
    for m in re.finditer(r"^'([^\n]+?)' does not depend on any axioms", out, re.M):
        res[m.group(1)] = []
    return names, res, out, p.returncode


class Driver:
    """Pipes op lines to the compiled Lean driver (one output line per input line)."""

    def __init__(self):
        self.calls = 0
        self.lines = 0
        self.private = None

    def snapshot(self):
        """Copy the freshly built binary to a private file (under the build lock), so that a concurrent
        `lake build driver` of another check cannot pull it away in the middle of a run."""
        import atexit
        import shutil
        import tempfile
        if not DRIVER.exists():
            return
        with LakeLock():
            fd, path = tempfile.mkstemp(prefix="verif_driver_")
            os.close(fd)
            shutil.copy2(DRIVER, path)
        os.chmod(path, 0o755)
        self.private = path
        pid = os.getpid()
        atexit.register(lambda: os.path.exists(path) and os.getpid() == pid and os.unlink(path))

    def run(self, lines, timeout=1800):
        if not lines:
            return []
        for ln in lines:
            if "\n" in ln:
                raise ValueError("op line contains newline")
        data = "\n".join(lines) + "\n"
        if self.private is None:
            self.snapshot()
        p = subprocess.run([self.private or str(DRIVER)], input=data, capture_output=True, text=True, timeout=timeout)
        if p.returncode != 0:
            raise RuntimeError(f"driver failed rc={p.returncode}: {p.stderr[:500]}")
        out = p.stdout.split("\n")
        if out and out[-1] == "":
            out.pop()
        if len(out) != len(lines):
            raise RuntimeError(f"driver returned {len(out)} lines for {len(lines)} ops")
        self.calls += 1
        self.lines += len(lines)
        return out


# ----------------------------------------------------------------------------- bookkeeping

@dataclass
class Violation:
    component: str          # which correspondence / oracle / theorem
    kind: str               # "oracle" | "correspondence" | "proof" | "audit" | "translator"
    case: object            # JSON-serialisable case (op line etc.) or None
    observed: dict
    expected: str
    failing_input_found: bool
    known: str | None = None   # id of the matching known finding


@dataclass
class Component:
    name: str
    evaluations: int = 0
    distinct: set = field(default_factory=set)
    nontrivial: set = field(default_factory=set)
    disagreements: int = 0
    oracle_failures: int = 0
    exhaustive: bool = False
    rule: str = ""
    branch_hits: Counter = field(default_factory=Counter)
    samples: list = field(default_factory=list)
    in_hypothesis: int = 0


class Ctx:
    def __init__(self, mod, tier, seed):
        self.mod = mod
        self.prop = mod.ID
        self.tier = tier
        self.seed = seed
        self.rng = random.Random(seed * 1000003 + int(self.prop[1:]))
        self.driver = Driver()
        self.components: dict[str, Component] = {}
        self.violations: list[Violation] = []
        self.notes: list[str] = []
        self.theorems: list[dict] = []
        self.prove_ok = True
        self.prove_log = ""
        self.translator = {}
        self.t0 = time.time()
        self.known = json.loads(KNOWN.read_text()) if KNOWN.exists() else {"open": [], "fixed": []}
        self.known_seen = []
        self.model_available = DRIVER.exists()
        self.dev = False
        self.write_ev = True

    # -- tiers
    @property
    def thorough(self):
        return self.tier == "thorough"

    def pick(self, quick, thorough):
        return thorough if self.thorough else quick

    def comp(self, name, rule="") -> Component:
        c = self.components.get(name)
        if c is None:
            c = self.components[name] = Component(name, rule=rule)
        elif rule and not c.rule:
            c.rule = rule
        return c

    def note(self, s):
        self.notes.append(s)
        log(f"[{self.prop}] note: {s}")

    # -- step 1
    def prove(self):
        mods = list(getattr(self.mod, "LEAN_MODULES", []))
        hits = forbidden_hits(import_closure(mods) if mods else None)
        if hits:
            self.prove_ok = False
            self.violation("audit:forbidden-token", "audit", None, {"hits": hits[:20]},
                           "no sorry/admit/axiom/native_decide/bv_decide/implemented_by/unsafe in the Lean development", False)
        # a property's verdict depends on the driver and on its own Props modules (with their imports) only;
        # the whole library is built by MANIFEST.setup_cmd
        targets = ["driver", *mods]
        ok, out = lake_build(targets)
        self.prove_log = out[-4000:]
        if not ok:
            self.prove_ok = False
            # which modules failed
            failed = re.findall(r"✖ \[\d+/\d+\] Building (\S+)", out) or re.findall(r"error: (\S+\.lean)", out)
            self.violation("prove:lake-build", "proof", None, {"failed": failed[:10], "log_tail": out[-1500:]},
                           "lake build of the Lean development (models, generated definitions, theorems)", False)
            self.model_available = DRIVER.exists() and not any(re.search(r"(^|[./])(Driver|Model|Generated)[./]|(^|[./])Main(\.lean)?$", f) for f in failed)
            return
        self.model_available = True
        if not mods:
            return
        names, axioms, out, rc = axiom_audit(mods)
        for n in names:
            ax = axioms.get(n)
            status = "ok"
            if ax is None:
                status = "missing"
            elif not set(ax) <= ALLOWED_AXIOMS:
                status = "bad-axioms"
            self.theorems.append({"name": n, "axioms": ax, "status": status,
                                  "strength": ("partial" if n.endswith("_partial") else
                                               "witness" if re.search(r"counterexample|_witness|_example", n) else "full")})
            if status != "ok":
                self.prove_ok = False
                self.violation(f"audit:{n}", "audit", None, {"axioms": ax, "log_tail": out[-800:]},
                               "theorem checks with axioms ⊆ {propext, Classical.choice, Quot.sound}", False)

    # -- step 2/3
    def correspond(self, name, cases, impl, to_op=None, oracle=None, nontrivial=None, rule="",
                   exhaustive=False, branch=None, model_post=None, max_samples=4, in_hyp=None):
        """cases: iterable of JSON-serialisable cases.
        impl(case) -> canonical output string of the real code (exceptions already mapped).
        to_op(case) -> op line for the Lean driver (None: no model comparison).
        oracle(case, impl_out) -> None if the property holds on this case, else a message.
        nontrivial(case, impl_out) -> bool ; branch(case, impl_out) -> label for distribution.
        model_post(model_out) -> canonicalise model output before comparison (rarely needed).
        """
        comp = self.comp(name, rule)
        comp.exhaustive = comp.exhaustive or exhaustive
        cases = list(cases)
        outs = []
        for c in cases:
            try:
                o = impl(c)
            except Exception as e:  # adapter bug: machinery error, not a violation
                raise RuntimeError(f"adapter {name} crashed on case {c!r}: {type(e).__name__}: {e}") from e
            outs.append(o)
        model_outs = [None] * len(cases)
        if to_op is not None and self.model_available:
            ops = [to_op(c) for c in cases]
            idx = [i for i, o in enumerate(ops) if o is not None]
            res = self.driver.run([ops[i] for i in idx])
            for i, r in zip(idx, res):
                model_outs[i] = model_post(r) if model_post else r
        else:
            ops = [None] * len(cases)
        for c, o, op, mo in zip(cases, outs, ops, model_outs):
            comp.evaluations += 1
            key = hashlib.sha1(json.dumps(c, sort_keys=True, default=str).encode()).hexdigest()[:16]
            comp.distinct.add(key)
            if nontrivial is None or nontrivial(c, o):
                comp.nontrivial.add(key)
            if branch is not None:
                comp.branch_hits[branch(c, o)] += 1
            if in_hyp is not None and in_hyp(c, o):
                comp.in_hypothesis += 1
            if len(comp.samples) < max_samples and (nontrivial is None or nontrivial(c, o)):
                comp.samples.append({"case": c, "op": op, "impl": o, "model": mo})
            if oracle is not None:
                msg = oracle(c, o)
                if msg:
                    comp.oracle_failures += 1
                    self.violation(name, "oracle", {"case": c, "op": op}, {"impl": o, "model": mo}, msg, True)
            if mo is not None and mo != o:
                comp.disagreements += 1
                if mo == "bad-op":
                    raise RuntimeError(f"driver answered bad-op for {op!r} (component {name})")
                # reported even when the oracle failed on the same case: a listed finding on the oracle side must
                # not hide that model and implementation part ways there
                self.violation(name, "correspondence", {"case": c, "op": op}, {"impl": o, "model": mo},
                               f"correspondence {name}: implementation and Lean model agree on this input", False)
        return outs, model_outs

    def check_oracle(self, name, cases, impl, oracle, **kw):
        return self.correspond(name, cases, impl, None, oracle, **kw)

    def violation(self, component, kind, case, observed, expected, found):
        # de-duplicate massive floods: keep at most 5 per (component, kind) — counted separately for hits of listed
        # findings and for everything else, so that a flood of known hits can never crowd out an unlisted violation
        v = Violation(component, kind, case, observed, expected, found)
        v.known = self._match_known(v)
        n = sum(1 for w in self.violations if w.component == component and w.kind == kind and bool(w.known) == bool(v.known))
        if n >= 5:
            return
        self.violations.append(v)

    def _match_known(self, v: Violation):
        blob = json.dumps({"component": v.component, "case": v.case, "observed": v.observed, "expected": v.expected},
                          sort_keys=True, default=str)
        for k in self.known.get("open", []):
            if k.get("property") != self.prop:
                continue
            m = k.get("match", {})
            if "component" in m and m["component"] != v.component:
                continue
            if "kind" in m and m["kind"] != v.kind:
                continue
            if "regex" in m and not re.search(m["regex"], blob):
                continue
            if "case_equals" in m and m["case_equals"] != (v.case or {}).get("case"):
                continue
            return k["id"]
        return None

    def known_probe(self, finding_id, fails: bool, what=""):
        """For a listed finding with a dedicated probe: report it when the probe still fails."""
        if fails:
            self.known_seen.append(finding_id)

    # -- finish
    def finish(self):
        wall = time.time() - self.t0
        real = [v for v in self.violations if not v.known]
        known_hit = sorted({v.known for v in self.violations if v.known} | set(self.known_seen))
        for kid in known_hit:
            k = next((k for k in self.known.get("open", []) if k["id"] == kid), {"what": ""})
            print(f"KNOWN-FINDING: property={self.prop} {kid}: {k.get('what','')}")
        rc = 0
        if real:
            rc = 1
            # if a proof / correspondence broke and some oracle failure exists, report the failing input
            with_input = [v for v in real if v.failing_input_found]
            report = with_input if with_input else real
            REPLAYS.mkdir(exist_ok=True)
            seen_paths = set()
            for v in report[:10]:
                body = {
                    "property": self.prop,
                    "kind": v.kind,
                    "component": v.component,
                    "case": v.case,
                    "observed": v.observed,
                    "expected": v.expected,
                    "broken_obligation": None if v.failing_input_found else v.component,
                    "other_broken": [w.component for w in real if not w.failing_input_found][:10],
                    "failing_input_found": v.failing_input_found,
                    "seed": self.seed,
                    "tier": self.tier,
                    "replay_cmd": None,
                }
                h = hashlib.sha1(json.dumps(body, sort_keys=True, default=str).encode()).hexdigest()[:10]
                path = REPLAYS / f"{self.prop}-{h}.json"
                body["replay_cmd"] = f"/venv/bin/python checks/check.py {self.prop} --replay {path.relative_to(VERIF)}"
                if path in seen_paths:
                    continue
                seen_paths.add(path)
                path.write_text(json.dumps(body, indent=1, default=str))
                tail = "" if v.failing_input_found else " no-failing-input-found"
                print(f"VIOLATION property={self.prop} replay={path}{tail}")
        if self.write_ev:
            self.write_evidence(wall, len(real))
        else:
            log(f"[{self.prop}] development run (--skip-prove): evidence file not written")
        return rc

    def write_evidence(self, wall, n_viol):
        EVIDENCE.mkdir(exist_ok=True)
        comps = {}
        evals = distinct = 0
        samples = []
        for c in self.components.values():
            comps[c.name] = {
                "evaluations": c.evaluations,
                "distinct": len(c.distinct),
                "distinct_nontrivial": len(c.nontrivial),
                "disagreements": c.disagreements,
                "oracle_failures": c.oracle_failures,
                "exhaustive": c.exhaustive,
                "rule": c.rule,
                "branch_hits": dict(c.branch_hits.most_common(40)),
                "in_hypothesis": c.in_hypothesis,
            }
            evals += c.evaluations
            distinct += len(c.nontrivial)
            samples += [dict(component=c.name, **s) for s in c.samples[:3]]
        obligations = len(self.theorems)
        discharged = sum(1 for t in self.theorems if t["status"] == "ok")
        samples = samples[:12] + [{"theorem": t["name"], "axioms": t["axioms"]} for t in self.theorems[:6]]
        ev = {
            "property_id": self.prop,
            "tier": self.tier,
            "seed": self.seed,
            "level": "proof",
            "coverage": {
                "obligations": obligations,
                "discharged": discharged,
                "checker_cmd": "cd lean && lake build StraxModel driver && lake env lean <audit file with `#print axioms` of every theorem in "
                               + ", ".join(getattr(self.mod, "LEAN_MODULES", [])) + ">",
                "trusted_base": BASE_TRUSTED + list(getattr(self.mod, "TRUSTED", [])),
                "theorems": self.theorems,
                "evaluations": evals,
                "distinct_nontrivial": distinct,
                "rule": "per component, see `correspondence`; distinct = distinct canonical cases (sha1 of the case) that are non-trivial by the component's rule",
                "samples": samples or [{"note": "no cases generated"}],
                "correspondence": comps,
                "disagreements_checked": sum(c.disagreements for c in self.components.values()),
                "driver_lines": self.driver.lines,
                "translator": self.translator,
                "known_findings_seen": sorted({v.known for v in self.violations if v.known} | set(self.known_seen)),
                "notes": self.notes,
                "exhaustive": all(c.exhaustive for c in self.components.values()) if self.components else False,
            },
            "assumptions": list(getattr(self.mod, "ASSUMPTIONS", [])),
            "wall_s": round(wall, 2),
            "violations": n_viol,
        }
        (EVIDENCE / f"{self.prop}.json").write_text(json.dumps(ev, indent=1, default=str))


def load_module(prop):
    sys.path.insert(0, str(VERIF / "checks"))
    import importlib
    return importlib.import_module(f"props.{prop.lower()}")


def main(argv=None):
    import argparse
    ap = argparse.ArgumentParser()
    ap.add_argument("prop")
    ap.add_argument("--tier", default=os.environ.get("VERIF_TIER", "quick"), choices=["quick", "thorough"])
    ap.add_argument("--replay")
    ap.add_argument("--skip-prove", action="store_true", help="development only")
    ap.add_argument("--dev", action="store_true", help="development only: build just the driver and this property's modules")
    a = ap.parse_args(argv)
    seed = int(os.environ.get("VERIF_SEED", "0") or 0)
    _install_watchdog(a.prop, a.tier)
    try:
        mod = load_module(a.prop)
        ctx = Ctx(mod, a.tier, seed)
        ctx.dev = a.dev
        ctx.write_ev = not a.skip_prove
        if a.replay:
            body = json.loads(Path(a.replay).read_text())
            if not hasattr(mod, "replay"):
                print("this property has no replay function")
                return 2
            msg = mod.replay(ctx, body)
            if msg:
                print(f"replay: property {a.prop} FAILS on the recorded case: {msg}")
                print(f"VIOLATION property={a.prop} replay={a.replay}")
                return 1
            print(f"replay: property {a.prop} holds on the recorded case")
            return 0
        # step 0: translator
        if hasattr(mod, "regen"):
            mod.regen(ctx)
        if not a.skip_prove:
            ctx.prove()
        # corpus + generated cases, oracle
        mod.run(ctx)
        broke = any(not v.known for v in ctx.violations)
        found = any(v.failing_input_found and not v.known for v in ctx.violations)
        if broke and not found and hasattr(mod, "search"):
            log(f"[{a.prop}] an obligation broke; searching the implementation for a failing input")
            mod.search(ctx)
        if a.tier == "thorough" and hasattr(mod, "LEAN_MODULES") and not a.skip_prove and ctx.prove_ok:
            leanchecker(ctx)
        return ctx.finish()
    except subprocess.TimeoutExpired as e:
        log(f"timeout in machinery: {e}")
        return 2
    except Exception:
        traceback.print_exc()
        return 2


def _install_watchdog(prop, tier):
    """Global guard: a check must terminate on any tree. If the whole run exceeds a very generous limit
    (a real-code call that never returns under a changed strax, a dead worker pool) the process group is
    killed and the check exits 2 (machinery error / timeout), never hanging its caller."""
    import signal
    limit = int(os.environ.get("VERIF_MAX_SECONDS", "0") or 0) or (3600 if tier == "quick" else 6 * 3600)
    def descendants(root):
        kids = {}
        for d in os.listdir("/proc"):
            if d.isdigit():
                try:
                    with open(f"/proc/{d}/stat") as f:
                        parts = f.read().rsplit(")", 1)[1].split()
                    kids.setdefault(int(parts[1]), []).append(int(d))
                except (OSError, IndexError, ValueError):
                    pass
        out, todo = [], [root]
        while todo:
            for k in kids.get(todo.pop(), []):
                out.append(k)
                todo.append(k)
        return out

    def on_alarm():
        sys.stdout.flush()
        print(f"[{prop}] watchdog: the check did not finish within {limit} s; giving up with exit 2", file=sys.stderr, flush=True)
        for pid in descendants(os.getpid()):
            try:
                os.kill(pid, signal.SIGKILL)
            except OSError:
                pass
        os._exit(2)

    # a timer thread, not SIGALRM: property modules may use alarm() for their own per-case watchdogs
    import threading
    t = threading.Timer(limit, on_alarm)
    t.daemon = True
    t.start()


def leanchecker(ctx):
    mods = list(getattr(ctx.mod, "LEAN_MODULES", []))
    try:
        p = subprocess.run(["lake", "env", "leanchecker", *mods], cwd=LEAN, capture_output=True, text=True, timeout=3000)
        ctx.note(f"leanchecker {' '.join(mods)} rc={p.returncode}")
        if p.returncode != 0:
            ctx.violation("audit:leanchecker", "audit", None, {"log_tail": (p.stdout + p.stderr)[-1500:]},
                          "leanchecker re-checks the compiled Props modules", False)
    except subprocess.TimeoutExpired:
        ctx.note("leanchecker timed out (not counted)")
