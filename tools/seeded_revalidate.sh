#!/bin/sh
# Re-run the detection part of every seeded change on the current (quiet, green) tree.
# Each of N lanes works in its own copy of /verif (translators rewrite lean/StraxModel/Generated and would
# otherwise disturb checks of other lanes); results (meta.json) are copied back.  usage: tools/seeded_revalidate.sh [N]
cd "$(dirname "$0")/.."
V=$(pwd)
N=${1:-4}
ids=$(ls seeded)
i=0
for k in $(seq 1 "$N"); do rm -rf /tmp/verif_lane$k; cp -r "$V" /tmp/verif_lane$k; : > /tmp/verif_lane$k.ids; done
for s in $ids; do k=$(( i % N + 1 )); echo "$s" >> /tmp/verif_lane$k.ids; i=$((i+1)); done
for k in $(seq 1 "$N"); do
  ( cd /tmp/verif_lane$k && for s in $(cat /tmp/verif_lane$k.ids); do
      python3 tools/seeded_validate.py seeded/$s $s --skip-tests > /tmp/rv_$s.log 2>&1
      python3 -c "
import json
lane=json.load(open('seeded/$s/meta.json')); tgt_p='$V/seeded/$s/meta.json'; tgt=json.load(open(tgt_p))
tv=tgt.setdefault('validation',{}); lv=lane['validation']
keep={k:tv[k] for k in ('tests_rc','tests_summary','tests_repo_head') if k in tv}
tv.clear(); tv.update(lv); tv.update(keep)
tv['valid_seed']= tv.get('demo_clean_rc')==0 and tv.get('demo_patched_rc',0)!=0 and tv.get('tests_rc')==0
json.dump(tgt,open(tgt_p,'w'),indent=1)"
      python3 -c "
import json
m=json.load(open('seeded/$s/meta.json'))['validation']; print('$s', m.get('valid_seed'), m.get('caught_by'), m.get('caught_with_failing_input'))"
    done ) &
done
wait
for k in $(seq 1 "$N"); do rm -rf /tmp/verif_lane$k /tmp/verif_lane$k.ids; done
