#!/usr/bin/env python3
"""Validate one independently written breaking change and measure whether the checks catch it.

usage: seeded_validate.py <src_dir with patch.diff demo.py meta.json> <seeded-id> [--skip-tests] [--checks C07,C03]

Steps (all in a scratch git worktree of /repo outside /repo and /verif, removed afterwards):
  1. demo.py on the clean worktree -> must exit 0
  2. apply patch.diff; demo.py -> must exit != 0
  3. strax's own suite in the patched worktree vs BASELINE.json stable_pass -> must all pass
  4. the property's quick check with STRAX_REPO=<worktree> -> records exit code and VIOLATION lines
Writes /verif/seeded/<seeded-id>/{patch.diff,demo.py,meta.json}.
"""
import argparse
import json
import os
import shutil
import subprocess
import sys
import time
from pathlib import Path

VERIF = Path(__file__).resolve().parents[1]


def sh(cmd, cwd=None, env=None, timeout=3600):
    p = subprocess.run(cmd, shell=True, cwd=cwd, env=env, capture_output=True, text=True, timeout=timeout)
    return p.returncode, p.stdout + p.stderr


def main():
    ap = argparse.ArgumentParser()
    ap.add_argument("src")
    ap.add_argument("sid")
    ap.add_argument("--skip-tests", action="store_true")
    ap.add_argument("--checks", default=None)
    ap.add_argument("--tier", default="quick")
    a = ap.parse_args()
    src = Path(a.src).resolve()
    meta = json.loads((src / "meta.json").read_text())
    prop = meta["property"]
    checks = a.checks.split(",") if a.checks else [prop]
    wt = Path(f"/tmp/sv_{a.sid}")
    nb = f"/tmp/sv_{a.sid}_numba"
    env = dict(os.environ, NUMBA_CACHE_DIR=nb)
    sh(f"git -C /repo worktree remove --force {wt}")
    rc, out = sh(f"git -C /repo worktree add -q {wt} HEAD")
    assert rc == 0, out
    res = {"validated_at": time.strftime("%Y-%m-%d %H:%M:%S"), "repo_head": sh("git -C /repo rev-parse --short HEAD")[1].strip()}
    try:
        rc, out = sh(f"/venv/bin/python {src/'demo.py'}", cwd=wt, env=env, timeout=600)
        res["demo_clean_rc"] = rc
        rc, out = sh(f"git apply {src/'patch.diff'}", cwd=wt)
        assert rc == 0, "patch does not apply: " + out
        rc, out = sh(f"/venv/bin/python {src/'demo.py'}", cwd=wt, env=env, timeout=600)
        res["demo_patched_rc"] = rc
        res["demo_patched_tail"] = out[-400:]
        if not a.skip_tests:
            rc, out = sh(f"NPROC={os.environ.get('NPROC','8')} python3 {VERIF/'tools'/'baseline_compare.py'} /tmp/sv_{a.sid}.xml {wt}", env=env, timeout=7200)
            res["tests_rc"] = rc
            res["tests_summary"] = out[-600:]
        res["checks"] = {}
        for c in checks:
            t0 = time.time()
            rc, out = sh(f"/venv/bin/python checks/check.py {c} --tier {a.tier}", cwd=VERIF, env=dict(os.environ, STRAX_REPO=str(wt), VERIF_EVIDENCE_DIR=f"/tmp/sv_{a.sid}_evidence"), timeout=7200)
            lines = [ln for ln in out.splitlines() if ln.startswith(("VIOLATION", "KNOWN-FINDING"))]
            detail = []
            for ln in lines:
                if ln.startswith("VIOLATION") and "replay=" in ln:
                    rp = ln.split("replay=")[1].split()[0]
                    try:
                        b = json.loads(Path(rp).read_text())
                        detail.append({"component": b["component"], "kind": b["kind"], "failing_input_found": b["failing_input_found"], "expected": b["expected"][:200]})
                    except Exception:
                        pass
            res["checks"][c] = {"rc": rc, "wall_s": round(time.time() - t0, 1), "lines": lines[:8], "detail": detail[:8]}
            # restore generated files / evidence for the clean tree
            # (the evidence file now describes the mutant run; tools/run_all.py on the clean tree rewrites it before committing)
            mod = VERIF / "checks" / "props" / f"{c.lower()}.py"
            if "def regen" in mod.read_text():
                sh(f"/venv/bin/python -c \"import sys; sys.path.insert(0,'checks'); from lib import engine; m=engine.load_module('{c}'); m.regen(engine.Ctx(m,'quick',0))\"", cwd=VERIF)
    finally:
        sh(f"git -C /repo worktree remove --force {wt}")
        shutil.rmtree(nb, ignore_errors=True)
        shutil.rmtree(f"/tmp/sv_{a.sid}_evidence", ignore_errors=True)
        sh(f"rm -f /tmp/sv_{a.sid}.xml /tmp/sv_{a.sid}.xml.rerun")
    ok = res.get("demo_clean_rc") == 0 and res.get("demo_patched_rc", 0) != 0 and (a.skip_tests or res.get("tests_rc") == 0)
    res["valid_seed"] = ok
    res["caught_by"] = [c for c, r in res["checks"].items() if r["rc"] == 1 and any(x.startswith("VIOLATION") for x in r["lines"])
                        and any(d["component"] != "prove:lake-build" for d in r["detail"])]
    res["caught_with_failing_input"] = [c for c, r in res["checks"].items() if any(d["failing_input_found"] for d in r["detail"])]
    dst = VERIF / "seeded" / a.sid
    dst.mkdir(parents=True, exist_ok=True)
    if src.resolve() != dst.resolve():
        shutil.copy(src / "patch.diff", dst / "patch.diff")
        shutil.copy(src / "demo.py", dst / "demo.py")
    old = meta.get("validation", {})
    for k in ("tests_rc", "tests_summary", "tests_repo_head"):      # keep an earlier confirmed suite run
        if k in old and k not in res:
            res[k] = old[k]
    if a.skip_tests and "tests_rc" in res:
        res["valid_seed"] = res.get("demo_clean_rc") == 0 and res.get("demo_patched_rc", 0) != 0 and res["tests_rc"] == 0
    meta["validation"] = res
    (dst / "meta.json").write_text(json.dumps(meta, indent=1))
    print(json.dumps({"sid": a.sid, "valid_seed": ok, "caught_by": res["caught_by"], "checks": {c: (r["rc"], r["lines"][:2]) for c, r in res["checks"].items()},
                      "tests": res.get("tests_summary", "")[-200:]}, indent=1))


if __name__ == "__main__":
    main()
