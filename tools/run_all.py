#!/usr/bin/env python3
"""Run the quick (or thorough) command of every check in MANIFEST.json in parallel and summarise.

usage: tools/run_all.py [--tier quick|thorough] [--jobs N] [--seed S] [C07 C17 ...]
"""
import argparse
import json
import os
import subprocess
import sys
import time
from concurrent.futures import ThreadPoolExecutor
from pathlib import Path

VERIF = Path(__file__).resolve().parents[1]


def main():
    ap = argparse.ArgumentParser()
    ap.add_argument("--tier", default="quick")
    ap.add_argument("--jobs", type=int, default=6)
    ap.add_argument("--seed", default=None)
    ap.add_argument("--all", action="store_true", help="also run properties that have a module but are not claimed in MANIFEST")
    ap.add_argument("props", nargs="*")
    a = ap.parse_args()
    man = json.loads((VERIF / "MANIFEST.json").read_text())
    cmds = {c["property_id"]: c["quick_cmd" if a.tier == "quick" else "thorough_cmd"] for c in man["checks"]}
    if a.all:
        for f in sorted((VERIF / "checks" / "props").glob("c*.py")):
            pid = f.stem.upper()
            cmds.setdefault(pid, f"/venv/bin/python checks/check.py {pid} --tier {a.tier}")
    if a.props:
        cmds = {p: cmds.get(p, f"/venv/bin/python checks/check.py {p} --tier {a.tier}") for p in a.props}
    env = dict(os.environ)
    if a.seed is not None:
        env["VERIF_SEED"] = a.seed
    # build once so that the parallel runs only do a no-op build
    subprocess.run(["sh", "checks/setup.sh"], cwd=VERIF, check=False, stdout=subprocess.DEVNULL, stderr=subprocess.DEVNULL)
    logs = VERIF / "replays" / "logs"
    logs.mkdir(parents=True, exist_ok=True)

    def run(item):
        pid, cmd = item
        t0 = time.time()
        p = subprocess.run(cmd, shell=True, cwd=VERIF, env=env, capture_output=True, text=True)
        (logs / f"{pid}.{a.tier}.log").write_text(p.stdout + "\n--- stderr ---\n" + p.stderr)
        lines = [ln for ln in p.stdout.splitlines() if ln.startswith(("VIOLATION", "KNOWN-FINDING"))]
        return pid, p.returncode, time.time() - t0, lines

    bad = 0
    with ThreadPoolExecutor(a.jobs) as ex:
        for pid, rc, dt, lines in ex.map(run, sorted(cmds.items())):
            print(f"{pid}  rc={rc}  {dt:6.1f}s")
            for ln in lines:
                print("    " + ln[:200])
            bad += rc != 0
    sys.exit(1 if bad else 0)


if __name__ == "__main__":
    main()
