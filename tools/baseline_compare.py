#!/usr/bin/env python3
"""Run strax's test suite (xdist) and compare the passing set with /root/.vp/BASELINE.json stable_pass."""
import json, subprocess, sys, xml.etree.ElementTree as ET, os
out = sys.argv[1] if len(sys.argv) > 1 else "/tmp/strax_junit.xml"
n = os.environ.get("NPROC", "12")
subprocess.run(["/venv/bin/python", "-m", "pytest", "-q", "-p", "no:cacheprovider", "--timeout=900", "--continue-on-collection-errors",
                "-n", n, f"--junitxml={out}", "tests"], cwd="/repo", stdout=subprocess.DEVNULL, stderr=subprocess.DEVNULL)
base = set(json.load(open("/root/.vp/BASELINE.json"))["stable_pass"])
passed = set()
for tc in ET.parse(out).getroot().iter("testcase"):
    if not any(c.tag in ("failure", "error", "skipped") for c in tc):
        passed.add(f"{tc.get('classname')}::{tc.get('name')}")
missing = sorted(base - passed)
print(f"baseline {len(base)}  passed-now {len(passed)}  baseline-tests-not-passing {len(missing)}")
for m in missing:
    print("  MISSING", m)
sys.exit(1 if missing else 0)
