#!/usr/bin/env python3
"""Run strax's test suite (xdist) in a checkout and compare the passing set with /root/.vp/BASELINE.json stable_pass.

usage: baseline_compare.py [junit.xml] [repo_dir]      env NPROC (default 12)
Tests that fail only through a hypothesis deadline / flaky-failure under load are re-run once on their own."""
import json, os, subprocess, sys, xml.etree.ElementTree as ET

out = sys.argv[1] if len(sys.argv) > 1 else "/tmp/strax_junit.xml"
repo = sys.argv[2] if len(sys.argv) > 2 else "/repo"
n = os.environ.get("NPROC", "12")
env = dict(os.environ)
env.setdefault("NUMBA_CACHE_DIR", f"/tmp/numba_baseline_{os.getpid()}") if repo != "/repo" else None


def run(args, junit):
    subprocess.run(["/venv/bin/python", "-m", "pytest", "-q", "-p", "no:cacheprovider", "--timeout=900",
                    "--continue-on-collection-errors", f"--junitxml={junit}", *args], cwd=repo, env=env,
                   stdout=subprocess.DEVNULL, stderr=subprocess.DEVNULL)
    passed, failed = set(), {}
    for tc in ET.parse(junit).getroot().iter("testcase"):
        name = f"{tc.get('classname')}::{tc.get('name')}"
        bad = [c for c in tc if c.tag in ("failure", "error", "skipped")]
        if bad:
            failed[name] = (bad[0].get("message") or "")[:200]
        else:
            passed.add(name)
    return passed, failed


base = set(json.load(open("/root/.vp/BASELINE.json"))["stable_pass"])
passed, failed = run(["-n", n, "tests"], out)
missing = sorted(base - passed)
for attempt in range(3):
    if not missing:
        break
    # re-run the missing ones alone (load-induced hypothesis deadlines / 5-second mailbox timeouts)
    ids = []
    for m in missing:
        cls, name = m.split("::")
        parts = cls.split(".")
        f = "/".join(parts[:2]) + ".py"
        ids.append(f + ("::" + parts[2] if len(parts) > 2 else "") + "::" + name)
    p2, f2 = run(ids, out + ".rerun")
    passed |= p2
    failed.update(f2)
    missing = sorted(base - passed)
print(f"baseline {len(base)}  passed-now {len(passed & base)}  baseline-tests-not-passing {len(missing)}")
for m in missing:
    print("  MISSING", m, "|", failed.get(m, ""))
if repo != "/repo":
    subprocess.run(["rm", "-rf", env["NUMBA_CACHE_DIR"]])
sys.exit(1 if missing else 0)
