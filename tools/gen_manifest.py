#!/usr/bin/env python3
"""Regenerate MANIFEST.json from tools/manifest_table.json (claimed properties with their level text)."""
import json
from pathlib import Path
V = Path(__file__).resolve().parents[1]
props = [json.loads(l) for l in (V / "properties.jsonl").read_text().splitlines() if l.strip()]
table = json.loads((V / "tools" / "manifest_table.json").read_text())
claimed = table["claimed"]
m = {
    "version": 1,
    "setup_cmd": "sh checks/setup.sh",
    "hooks": {"guard": "STRAX_VERIF",
              "enable": "no source hooks are needed: the harness observes strax by calling its functions and by rebinding module attributes (threading / os / open / shutil / glob / sys.settrace) at run time; the guard name is reserved and unused",
              "baseline_off_cmd": "cd /repo && /venv/bin/python -m pytest -ra -q -p no:cacheprovider --timeout=900 --continue-on-collection-errors",
              "source_commits": [], "add_only": True},
    "engines": [{"name": "lean-proof+correspondence", "path": "checks/check.py", "serves_properties": sorted(claimed),
                 "kind_free_text": "Lean 4 theorems about hand-written executable models (lean/StraxModel), tied to /repo's working tree on every run by a differential correspondence check through a compiled line-protocol driver (plus small source-to-Lean translators for scalar decision functions), with an independent oracle on the implementation's outputs that supplies failing inputs"}],
    "checks": [], "not_applicable": [],
    "notes": "See DESIGN.md (§11 as built). Exit 0 held / 1 violation (VIOLATION line; `no-failing-input-found` when only a proof obligation or the correspondence broke) / 2 machinery error. KNOWN-FINDING lines are listed defects (known_findings.json).",
}
for p in props:
    pid = p["id"]
    if pid in claimed:
        c = claimed[pid]
        m["checks"].append({
            "property_id": pid,
            "quick_cmd": f"/venv/bin/python checks/check.py {pid} --tier quick",
            "thorough_cmd": f"/venv/bin/python checks/check.py {pid} --tier thorough",
            "evidence_file": f"evidence/{pid}.json",
            "replay_cmd_template": f"/venv/bin/python checks/check.py {pid} --replay {{path}}",
            "engine": "lean-proof+correspondence",
            "level_claimed": {"category": "proof", "text": c["text"], "design_ref": f"DESIGN.md §6 {pid}, §11.3 {pid}"},
            "level_note": c["note"],
            "technique": c.get("technique", "Lean 4 proof over hand-written model + differential correspondence check"
                               + (" + source-to-Lean translator (Python AST -> Generated/*.lean, proved equal to the model) for scalar decision functions"
                                  if "def regen" in (V / "checks" / "props" / f"{pid.lower()}.py").read_text() else "")),
        })
    else:
        m["not_applicable"].append({"property_id": pid, "reason": table["pending"].get(pid, "check under construction in this revision (model, theorems and correspondence not yet validated on the clean tree)")})
(V / "MANIFEST.json").write_text(json.dumps(m, indent=1))
print("claimed:", sorted(claimed), " pending:", [p["id"] for p in props if p["id"] not in claimed])
