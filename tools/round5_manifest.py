#!/usr/bin/env python3
"""Refresh the leading theorem counts of every level text in tools/manifest_table.json from the Props files (engine's rule)
and append / replace the round-5 sentence of the properties listed in tools/round5_texts.json.  Then run tools/gen_manifest.py."""
import json, re, sys
from pathlib import Path
V = Path(__file__).resolve().parents[1]
sys.path.insert(0, str(V / "checks"))
from lib import engine  # noqa: E402
tab_p = V / "tools" / "manifest_table.json"
tab = json.loads(tab_p.read_text())
r5_p = V / "tools" / "round5_texts.json"
r5 = json.loads(r5_p.read_text()) if r5_p.exists() else {}
for pid, c in tab["claimed"].items():
    mod = engine.load_module(pid)
    names = []
    for m in mod.LEAN_MODULES:
        if m.split('.')[-1].startswith(pid):      # e.g. c05.py also builds Props.C13: count only the property's own files
            names += engine.theorems_of(m)
    names = [n if isinstance(n, str) else n[0] for n in names]
    part = sum(n.endswith("_partial") for n in names)
    wit = sum((not n.endswith("_partial")) and bool(re.search(r"counterexample|_witness|_example", n)) for n in names)
    full = len(names) - part - wit
    head = f"{len(names)} Lean theorems ({full} full, {part} `_partial`, {wit} witness{'es' if wit != 1 else ''})"
    text = re.sub(r"^\d+ Lean theorems \([^)]*\)", head, c["text"], count=1)
    text = re.sub(r" Round 5: .*$", "", text)
    if pid in r5:
        text = text.rstrip() + " Round 5: " + r5[pid]
    c["text"] = text
    print(pid, head)
tab_p.write_text(json.dumps(tab, indent=1))
