#!/usr/bin/env python3
"""For every /verif/seeded/<id> whose meta.json has no confirmed test run yet: apply the patch in a scratch
worktree of /repo, run strax's own suite there and compare with BASELINE.json stable_pass; record the result
in meta.json (validation.tests_rc / tests_summary). usage: seeded_tests.py [id ...]"""
import json
import os
import subprocess
import sys
from pathlib import Path

VERIF = Path(__file__).resolve().parents[1]


def sh(cmd, cwd=None, env=None, timeout=7200):
    p = subprocess.run(cmd, shell=True, cwd=cwd, env=env, capture_output=True, text=True, timeout=timeout)
    return p.returncode, p.stdout + p.stderr


def main():
    ids = sys.argv[1:] or sorted(p.name for p in (VERIF / "seeded").iterdir() if (p / "meta.json").exists())
    for sid in ids:
        d = VERIF / "seeded" / sid
        meta = json.loads((d / "meta.json").read_text())
        v = meta.setdefault("validation", {})
        if v.get("tests_rc") == 0:
            continue
        wt = f"/tmp/st_{sid}"
        sh(f"git -C /repo worktree remove --force {wt}")
        rc, out = sh(f"git -C /repo worktree add -q {wt} HEAD")
        assert rc == 0, out
        try:
            rc, out = sh(f"git apply {d/'patch.diff'}", cwd=wt)
            if rc != 0:
                v["tests_rc"], v["tests_summary"] = 3, "patch does not apply on current HEAD: " + out[-300:]
            else:
                env = dict(os.environ, NUMBA_CACHE_DIR=f"/tmp/st_{sid}_numba")
                rc, out = sh(f"NPROC={os.environ.get('NPROC','8')} python3 {VERIF/'tools'/'baseline_compare.py'} /tmp/st_{sid}.xml {wt}", env=env)
                v["tests_rc"], v["tests_summary"] = rc, out[-600:]
                v["tests_repo_head"] = sh("git -C /repo rev-parse --short HEAD")[1].strip()
        finally:
            sh(f"git -C /repo worktree remove --force {wt}")
            sh(f"rm -rf /tmp/st_{sid}_numba /tmp/st_{sid}.xml /tmp/st_{sid}.xml.rerun")
        v["valid_seed"] = v.get("demo_clean_rc") == 0 and v.get("demo_patched_rc", 0) != 0 and v["tests_rc"] == 0
        (d / "meta.json").write_text(json.dumps(meta, indent=1))
        print(sid, "tests_rc", v["tests_rc"], v["tests_summary"].strip().splitlines()[-1] if v["tests_summary"].strip() else "")


if __name__ == "__main__":
    main()
