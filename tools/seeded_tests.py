#!/usr/bin/env python3
"""For every /verif/seeded/<id> whose meta.json has no confirmed test run yet: apply the patch in a scratch
worktree of /repo, run strax's own suite there and compare with BASELINE.json stable_pass; record the result
in meta.json (validation.tests_rc / tests_summary).

usage: seeded_tests.py [--lanes N] [id ...]
Each lane keeps ONE worktree (/tmp/st_lane<i>) and ONE numba cache for all its mutants: between mutants only the
patched files change (git checkout + git apply), so numba recompiles only what the patch touched."""
import json
import os
import subprocess
import sys
import threading
from pathlib import Path

VERIF = Path(__file__).resolve().parents[1]
LOCK = threading.Lock()


def sh(cmd, cwd=None, env=None, timeout=10800):
    p = subprocess.run(cmd, shell=True, cwd=cwd, env=env, capture_output=True, text=True, timeout=timeout)
    return p.returncode, p.stdout + p.stderr


def lane(i, ids, nproc):
    wt = f"/tmp/st_lane{i}"
    sh(f"git -C /repo worktree remove --force {wt}")
    rc, out = sh(f"git -C /repo worktree add -q {wt} HEAD")
    assert rc == 0, out
    env = dict(os.environ, NUMBA_CACHE_DIR=f"/tmp/st_lane{i}_numba")
    try:
        for sid in ids:
            d = VERIF / "seeded" / sid
            sh("git checkout -q -- . && git clean -qfd -e __pycache__ -e .hypothesis -e strax_data", cwd=wt)
            sh("git checkout -q --detach $(git -C /repo rev-parse HEAD)", cwd=wt)
            rc, out = sh(f"git apply {d/'patch.diff'}", cwd=wt)
            if rc != 0:
                res = (3, "patch does not apply on current HEAD: " + out[-300:])
            else:
                rc, out = sh(f"NPROC={nproc} python3 {VERIF/'tools'/'baseline_compare.py'} /tmp/st_lane{i}.xml {wt}", env=env)
                res = (rc, out[-600:])
            with LOCK:
                meta = json.loads((d / "meta.json").read_text())
                v = meta.setdefault("validation", {})
                v["tests_rc"], v["tests_summary"] = res
                v["tests_repo_head"] = sh("git -C /repo rev-parse --short HEAD")[1].strip()
                v["valid_seed"] = v.get("demo_clean_rc") == 0 and v.get("demo_patched_rc", 0) != 0 and v["tests_rc"] == 0
                (d / "meta.json").write_text(json.dumps(meta, indent=1))
                print(sid, "tests_rc", res[0], res[1].strip().splitlines()[-1] if res[1].strip() else "", flush=True)
    finally:
        sh(f"git -C /repo worktree remove --force {wt}")
        sh(f"rm -rf /tmp/st_lane{i}_numba /tmp/st_lane{i}.xml /tmp/st_lane{i}.xml.rerun")


def main():
    args = sys.argv[1:]
    lanes = 1
    if args and args[0] == "--lanes":
        lanes = int(args[1])
        args = args[2:]
    ids = args or sorted(p.name for p in (VERIF / "seeded").iterdir() if (p / "meta.json").exists())
    todo = []
    for sid in ids:
        v = json.loads((VERIF / "seeded" / sid / "meta.json").read_text()).get("validation", {})
        if v.get("tests_rc") != 0:
            todo.append(sid)
    nproc = os.environ.get("NPROC", str(max(2, 12 // lanes)))
    ths = [threading.Thread(target=lane, args=(i, todo[i::lanes], nproc)) for i in range(lanes)]
    for t in ths:
        t.start()
    for t in ths:
        t.join()


if __name__ == "__main__":
    main()
