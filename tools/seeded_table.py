#!/usr/bin/env python3
"""Print the Markdown table of seeded (independently written) breaking changes and which checks catch them."""
import json
from pathlib import Path
V = Path(__file__).resolve().parents[1]
print("| id | property | change | needs to manifest | demo clean/patched | strax suite | caught by (component) |")
print("|---|---|---|---|---|---|---|")
for d in sorted((V / "seeded").iterdir()):
    m = json.loads((d / "meta.json").read_text())
    v = m.get("validation", {})
    comps = []
    for c, r in v.get("checks", {}).items():
        if r["rc"] == 1:
            cs = sorted({x["component"] + ("" if x["failing_input_found"] else " (no failing input)") for x in r.get("detail", [])})
            comps.append(f"{c}: " + ", ".join(cs[:3]))
        else:
            comps.append(f"{c}: MISSED")
    tests = {0: "185/185 pass", None: "not yet confirmed"}.get(v.get("tests_rc"), f"rc={v.get('tests_rc')}")
    print(f"| {d.name} | {m['property']} | {m['summary'][:160].replace('|','/')} | {m['needs_to_manifest'][:160].replace('|','/')} | {v.get('demo_clean_rc')}/{v.get('demo_patched_rc')} | {tests} | {'; '.join(comps)} |")
