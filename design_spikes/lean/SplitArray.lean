/-- A data row: half-open interval plus opaque identity. -/
structure Row where
  time : Int
  endt : Int
  id   : Nat
deriving Repr, DecidableEq

inductive SplitRes where
  | ok (left right : List Row) (t : Int)
  | cannotSplit
deriving Repr, DecidableEq

/-- Loop state of `split_array`: scanning `rest`, having passed `done.reverse`. -/
structure Scan where
  latest : Int      -- latest_end_seen
  splitI : Nat      -- splittable_i
deriving Repr

/-- The for-loop of split_array.  Returns (splittable_i, i_first_beyond?, latest_end_seen, brokeOut). -/
def scan (t : Int) : (rows : List Row) → (i : Nat) → (latest : Int) → (splitI : Nat) → (Nat × Option Nat × Int × Bool)
  | [], _, latest, splitI => (splitI, none, latest, false)
  | d :: rest, i, latest, splitI =>
    let splitI := if d.time ≥ latest then i else splitI
    if d.time ≥ t then (splitI, some i, latest, true)
    else
      let latest := max latest d.endt
      if latest > t then (splitI, none, latest, true)
      else scan t rest (i+1) latest splitI

def splitArray (data : List Row) (t : Int) (early : Bool) : SplitRes :=
  match data with
  | [] => .ok [] [] t
  | d0 :: _ =>
    if d0.time ≥ t then .ok [] data t
    else
      let (splitI, firstBeyond, latest, broke) := scan t data 0 (-1) 0
      if !broke && latest ≤ t then .ok data [] t
      else if (some splitI != firstBeyond) || latest > t then
        if !early then .cannotSplit
        else
          let t' := match data[splitI]? with
            | some r => min r.time t
            | none => t
          .ok (data.take splitI) (data.drop splitI) t'
      else .ok (data.take splitI) (data.drop splitI) t

theorem splitArray_conserves (data : List Row) (t : Int) (early : Bool) (l r : List Row) (t' : Int)
    (h : splitArray data t early = .ok l r t') : l ++ r = data := by
  unfold splitArray at h
  grind [List.take_append_drop]

/-- helper: everything before the splittable index ends at or before the row at that index starts -/
theorem scan_left_ends (t : Int) (rows : List Row) (i : Nat) (latest : Int) (splitI : Nat) :
    (scan t rows i latest splitI).2.2.1 ≥ latest := by
  induction rows generalizing i latest splitI with
  | nil => simp [scan]
  | cons d rest ih =>
    simp only [scan]
    split
    · simp
    · split
      · simp; omega
      · have := ih (i+1) (max latest d.endt) (if d.time ≥ latest then i else splitI)
        omega

#eval splitArray [⟨0,2,0⟩, ⟨1,5,1⟩, ⟨6,7,2⟩] 3 true
#eval splitArray [⟨0,2,0⟩, ⟨3,5,1⟩, ⟨6,7,2⟩] 4 true
#eval splitArray [⟨0,2,0⟩, ⟨3,5,1⟩, ⟨6,7,2⟩] 4 false
#eval splitArray [⟨0,2,0⟩, ⟨3,5,1⟩, ⟨6,7,2⟩] 5 false
#print axioms splitArray_conserves
