import Spike.Basic

def parseRows (s : String) : List Row :=
  -- "t:e:id,t:e:id"
  if s.isEmpty then [] else
  (s.splitOn ",").filterMap fun tok =>
    match tok.splitOn ":" with
    | [a, b, c] => match a.toInt?, b.toInt?, c.toNat? with
      | some a, some b, some c => some ⟨a, b, c⟩
      | _, _, _ => none
    | _ => none

def showRows (rs : List Row) : String := ",".intercalate (rs.map fun r => toString r.id)

def step (line : String) : String :=
  match (line.trimAscii.toString).splitOn " " with
  | ["split", rows, t, early] =>
    match t.toInt? with
    | some t =>
      match splitArray (parseRows rows) t (early == "1") with
      | .ok l r t' => s!"ok [{showRows l}] [{showRows r}] {t'}"
      | .cannotSplit => "cannot"
    | none => "bad-op"
  | _ => "bad-op"

partial def loop (h : IO.FS.Stream) : IO Unit := do
  let line ← h.getLine
  if line.isEmpty then return ()
  IO.println (step line)
  loop h

def main : IO Unit := do loop (← IO.getStdin)
