/-! Spike: eager mailbox, sequential numbering, any number of subscribers, any capacity.
    Atomic actions = lock-protected blocks of `send` and `_read`.  Waiting is modelled with
    explicit notification flags, so a missing notify_all is a deadlock in the model. -/

structure MB where
  cap      : Nat
  heap     : List Nat            -- message numbers held (payload = number)
  next     : List Nat            -- per subscriber: next number to read (= have_read + 1)
  got      : List (List Nat)     -- ghost: what each subscriber has yielded
  nSent    : Nat
  toSend   : Nat                 -- sender still has to send numbers nSent .. toSend-1
  senderWaiting  : Bool          -- blocked in write_condition
  senderNotified : Bool
deriving Repr

def minNext (l : List Nat) : Nat := l.foldl min (l.headD 0)

/-- messages a reader at `n` can take right now: consecutive numbers present in the heap -/
def takeRun (heap : List Nat) : Nat → Nat → List Nat
  | 0, _ => []
  | fuel+1, n => if heap.contains n then n :: takeRun heap fuel (n+1) else []

inductive Act where
  | send            -- sender enters `send`
  | senderWake      -- sender re-checks after notification
  | read (i : Nat)  -- subscriber i runs one `_read` critical section
deriving Repr

def gc (heap : List Nat) (next : List Nat) : List Nat :=
  heap.filter (fun k => decide (minNext next ≤ k))

def step (s : MB) : Act → Option MB
  | .send =>
    if s.senderWaiting || s.nSent ≥ s.toSend then none else
    if s.heap.length < s.cap then
      some { s with heap := s.heap ++ [s.nSent], nSent := s.nSent + 1 }
    else some { s with senderWaiting := true, senderNotified := false }
  | .senderWake =>
    if !(s.senderWaiting && s.senderNotified) then none else
    if s.heap.length < s.cap then
      some { s with heap := s.heap ++ [s.nSent], nSent := s.nSent + 1, senderWaiting := false, senderNotified := false }
    else some { s with senderNotified := false }
  | .read i =>
    match s.next[i]?, s.got[i]? with
    | some n, some g =>
      let run := takeRun s.heap s.heap.length n
      if run.isEmpty then none else
      let next' := s.next.set i (n + run.length)
      some { s with next := next', got := s.got.set i (g ++ run), heap := gc s.heap next',
                    senderNotified := s.senderWaiting }   -- write_condition.notify_all()
    | _, _ => none

def init (cap nsub toSend : Nat) : MB :=
  { cap, heap := [], next := List.replicate nsub 0, got := List.replicate nsub [], nSent := 0, toSend,
    senderWaiting := false, senderNotified := false }

inductive Reachable (cap nsub toSend : Nat) : MB → Prop
  | init : Reachable cap nsub toSend (init cap nsub toSend)
  | step {s s' a} : Reachable cap nsub toSend s → step s a = some s' → Reachable cap nsub toSend s'

/-- capacity invariant -/
def CapInv (s : MB) : Prop := s.heap.length ≤ s.cap

theorem filter_len_le (l : List Nat) (p : Nat → Bool) : (l.filter p).length ≤ l.length :=
  List.length_filter_le p l

theorem step_cap (s s' : MB) (a : Act) (hc : 0 < s.cap) (h : CapInv s) (hs : step s a = some s') :
    CapInv s' ∧ s'.cap = s.cap := by
  unfold CapInv at *
  have hf : ∀ nx, (gc s.heap nx).length ≤ s.heap.length := fun nx => List.length_filter_le _ _
  cases a <;> simp only [step] at hs <;> grind

theorem reachable_cap (cap nsub toSend : Nat) (hc : 0 < cap) (s : MB)
    (h : Reachable cap nsub toSend s) : CapInv s ∧ s.cap = cap := by
  induction h with
  | init => simp [CapInv, init]
  | step _ hs ih =>
    obtain ⟨h1, h2⟩ := ih
    have := step_cap _ _ _ (by omega) h1 hs
    exact ⟨this.1, by omega⟩

#print axioms reachable_cap
#eval (do
  let s ← step (init 2 2 5) .send
  let s ← step s .send
  let s ← step s .send
  let s ← step s (.read 0)
  let s ← step s .senderWake
  let s ← step s (.read 1)
  let s ← step s .senderWake
  pure s : Option MB)

/-! ### delivery: every subscriber has received exactly 0,1,…,next-1, in order -/

theorem takeRun_range' (heap : List Nat) (fuel n : Nat) :
    takeRun heap fuel n = List.range' n (takeRun heap fuel n).length := by
  induction fuel generalizing n with
  | zero => simp [takeRun]
  | succ f ih =>
    simp only [takeRun]
    split
    · rw [List.length_cons, List.range'_succ]; congr 1; exact ih (n+1)
    · simp

def DelivInv (s : MB) : Prop :=
  s.next.length = s.got.length ∧ ∀ (i n : Nat) (g : List Nat), s.next[i]? = some n → s.got[i]? = some g → g = List.range n

theorem step_deliv (s s' : MB) (a : Act) (h : DelivInv s) (hs : step s a = some s') : DelivInv s' := by
  obtain ⟨hl, hg⟩ := h
  cases a with
  | send => simp only [step] at hs; unfold DelivInv; grind
  | senderWake => simp only [step] at hs; unfold DelivInv; grind
  | read i =>
    simp only [step] at hs
    split at hs
    · rename_i n g hn hgi
      split at hs
      · simp at hs
      · simp at hs; subst hs
        refine ⟨by simp [hl], ?_⟩
        intro j m g' hm hg'
        simp only at hm hg'
        by_cases hji : j = i
        · subst hji
          have hlt : j < s.next.length := by
            have := List.getElem?_eq_some_iff.mp hn; exact this.1
          have hlt' : j < s.got.length := by omega
          rw [List.getElem?_set_self hlt] at hm
          rw [List.getElem?_set_self hlt'] at hg'
          simp at hm hg'; subst hm; subst hg'
          rw [hg j n g hn hgi, takeRun_range' s.heap s.heap.length n]
          simp only [List.range_eq_range']
          have := @List.range'_append_1 0 n (takeRun s.heap s.heap.length n).length
          simpa using this
        · rw [List.getElem?_set_ne (Ne.symm hji)] at hm
          rw [List.getElem?_set_ne (Ne.symm hji)] at hg'
          exact hg j m g' hm hg'
    · simp at hs

theorem reachable_deliv (cap nsub toSend : Nat) (s : MB) (h : Reachable cap nsub toSend s) : DelivInv s := by
  induction h with
  | init =>
    refine ⟨by simp [init], ?_⟩
    intro i n g hn hg
    simp [init, List.getElem?_replicate] at hn hg
    obtain ⟨_, rfl⟩ := hn; obtain ⟨_, rfl⟩ := hg; rfl
  | step _ hs ih => exact step_deliv _ _ _ ih hs

#print axioms reachable_deliv
