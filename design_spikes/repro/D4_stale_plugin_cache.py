import numpy as np, strax, warnings, tempfile, os, shutil
warnings.simplefilter("ignore")
from strax.testutils import Records, Peaks
import logging; logging.disable(logging.CRITICAL)

# --- C04: failing chunk write on executor thread
d = tempfile.mkdtemp(prefix="exp2d")
st = strax.Context(storage=[strax.DataDirectory(d)], register=[Records], allow_multiprocess=False)
orig = strax.save_file
calls = {'n':0}
def bad_save_file(f, data, compressor="zstd"):
    calls['n'] += 1
    if calls['n'] == 3:
        raise OSError("disk full (injected)")
    return orig(f, data, compressor)
strax.save_file = bad_save_file
try:
    st.make('0', 'records', max_workers=2)
    print("make returned normally; calls", calls)
except Exception as e:
    print("make raised", type(e).__name__, e)
strax.save_file = orig
st2 = strax.Context(storage=[strax.DataDirectory(d)], register=[Records])
print("is_stored(records):", st2.is_stored('0','records'))
try:
    a = st2.get_array('0','records', progress_bar=False)
    print("loaded", len(a))
except Exception as e:
    print("load raised", type(e).__name__, str(e)[:200])
shutil.rmtree(d)

# --- C02: re-register same-named plugin with different default
d = tempfile.mkdtemp(prefix="exp2d")
def mkP(default):
    @strax.takes_config(strax.Option("scale", default=default))
    class P(strax.Plugin):
        provides = "pdata"; depends_on = ("records",); dtype = strax.time_fields + [("v", np.int64)]
        data_kind = "pdata"
        __version__ = "1"
        def compute(self, records):
            r = np.zeros(len(records), self.dtype); r['time']=records['time']; r['endtime']=strax.endtime(records); r['v']=self.config['scale']; return r
    return P
st = strax.Context(storage=[strax.DataDirectory(d)], register=[Records, mkP(1)])
a = st.get_array('0','pdata', progress_bar=False); k1 = str(st.key_for('0','pdata'))
st.register(mkP(2))
b = st.get_array('0','pdata', progress_bar=False); k2 = str(st.key_for('0','pdata'))
fresh = strax.Context(storage=[strax.DataDirectory(tempfile.mkdtemp(prefix='exp2d'))], register=[Records, mkP(2)])
c = fresh.get_array('0','pdata', progress_bar=False); k3 = str(fresh.key_for('0','pdata'))
print("after re-register: v =", set(b['v']), "key", k2, "; fresh ctx: v =", set(c['v']), "key", k3, "; first key", k1)
