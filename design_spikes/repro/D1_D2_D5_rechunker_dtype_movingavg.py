import numpy as np, strax, warnings
warnings.simplefilter("ignore")
# 1. Rechunker get_splits with exactly one gap
def mk(times, length=1):
    x = np.zeros(len(times), dtype=strax.time_dt_fields)
    x['time']=times; x['length']=length; x['dt']=1
    return x
d = mk([0,1,2,5000,5001,5002])
for tgt in [1*d.itemsize, 2*d.itemsize, 3*d.itemsize, 4*d.itemsize, 100*d.itemsize]:
    try:
        print("one-gap target rows", tgt//d.itemsize, strax.Rechunker.get_splits(d, tgt))
    except Exception as e:
        print("one-gap target rows", tgt//d.itemsize, "RAISES", type(e).__name__, e)
d = mk([0,1,2,5000,5001,5002, 10000, 10001, 20000])
for tgt in [1,2,3,4,5,6,7,8,100]:
    try:
        print("3-gap target rows", tgt, strax.Rechunker.get_splits(d, tgt*d.itemsize))
    except Exception as e:
        print("3-gap target rows", tgt, "RAISES", type(e).__name__, e)

# 2. Chunk dtype check
try:
    c = strax.Chunk(data_type='x', data_kind='x', dtype=strax.time_fields, run_id='0', start=0, end=10,
                data=np.zeros(0, dtype=[('time',np.int64),('endtime',np.int64),('foo',np.float32)]))
    print("Chunk with wrong dtype accepted:", c.data.dtype.names, "declared", c.dtype.names)
except Exception as e:
    print("Chunk wrong dtype rejected", e)

# 3. moving average
a = np.arange(10, dtype=np.float64)
print("sma", strax.symmetric_moving_average(a, 1))
print("ref", [a[max(0,i-1):i+2].mean() for i in range(10)])
