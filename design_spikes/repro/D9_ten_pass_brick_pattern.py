import numpy as np, strax, warnings, tempfile, shutil
warnings.simplefilter("ignore")
import logging; logging.disable(logging.CRITICAL)
dt = strax.time_fields + [("id", np.int64)]
def mk(bounds):
    x = np.zeros(len(bounds), dt); x['time']=[b[0] for b in bounds]; x['endtime']=[b[1] for b in bounds]; x['id']=np.arange(len(bounds)); return x
N = 40
A_rows = mk([(2*i, 2*i+2) for i in range(N)])          # [0,2),[2,4),...
B_rows = mk([(2*i+1, 2*i+3) for i in range(N-1)])      # [1,3),[3,5),...
END = 2*N
class SrcA(strax.Plugin):
    provides="aa"; depends_on=(); dtype=dt; data_kind="aa"; rechunk_on_save=False; save_when=strax.SaveWhen.NEVER
    cuts=[0, 30, END]
    def is_ready(self, chunk_i): return chunk_i < len(self.cuts)-1
    def source_finished(self): return True
    def compute(self, chunk_i):
        s,e = self.cuts[chunk_i], self.cuts[chunk_i+1]
        r = self.rows(); r = r[(r['time']>=s)&(r['endtime']<=e)]
        return self.chunk(start=s,end=e,data=r)
    def rows(self): return A_rows
class SrcB(SrcA):
    provides="bb"; data_kind="bb"; cuts=[0, 31, END]
    def rows(self): return B_rows
class Both(strax.Plugin):
    provides="both"; depends_on=("aa","bb"); dtype=dt; data_kind="both"; save_when=strax.SaveWhen.NEVER
    def compute(self, aa, bb):
        r = np.zeros(len(aa), dt); r['time']=aa['time']; r['endtime']=aa['endtime']; r['id']=aa['id']; return r
class BothSaved(Both):
    provides="both_saved"; save_when=strax.SaveWhen.ALWAYS
d = tempfile.mkdtemp(prefix="exp6d")
st = strax.Context(storage=[strax.DataDirectory(d)], register=[SrcA, SrcB, Both, BothSaved])
for tgt in ("both", "both_saved"):
    try:
        a = st.get_array('0', tgt, progress_bar=False); print(tgt, "ok rows", len(a), "expected", N)
    except Exception as e:
        print(tgt, "raised", type(e).__name__, str(e)[:110])
shutil.rmtree(d)
