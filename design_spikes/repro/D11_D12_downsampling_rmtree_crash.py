import numpy as np, strax, warnings, tempfile, shutil, os, json, glob
warnings.simplefilter("ignore")
import logging; logging.disable(logging.CRITICAL)
# ---- C19 downsampling: peak of length 5 samples into buffer of 4 samples, hit covering the last sample
pd = strax.peak_dtype(n_channels=2, n_sum_wv_samples=4)
rec = np.zeros(1, strax.record_dtype(8)); rec['time']=0; rec['length']=8; rec['dt']=1; rec['channel']=0; rec['data'][0]=[0,0,0,0,7,0,0,0]
hits = strax.find_hits(rec, min_amplitude=1)
hits['left_integration']=hits['left']; hits['right_integration']=hits['right']
peaks = np.zeros(1, pd); peaks['time']=0; peaks['length']=5; peaks['dt']=1; peaks['channel']=-1
strax.sum_waveform(peaks, hits, rec, strax.record_links(rec), np.ones(2))
p = peaks[0]
print("C19: area", p['area'], "sum(data)", p['data'][:p['length']].sum(), "length", p['length'], "dt", p['dt'], "data", p['data'])

# ---- C04: crash inside rmtree of broken data, metadata already unlinked
from strax.testutils import Records
d = tempfile.mkdtemp(prefix="exp8d")
st = strax.Context(storage=[strax.DataDirectory(d)], register=[Records])
st.make('0','records')
dirn = glob.glob(d+"/0-records-*")[0]
md = glob.glob(dirn+"/*metadata.json")[0]
m = json.load(open(md)); m['exception']="boom"; json.dump(m, open(md,'w'))   # make it "broken data"
os.remove(md)   # simulate death inside rmtree after metadata unlink (listdir order is arbitrary)
st2 = strax.Context(storage=[strax.DataDirectory(d)], register=[Records])
for what, f in (("is_stored", lambda: st2.is_stored('0','records')), ("get_array", lambda: len(st2.get_array('0','records',progress_bar=False)))):
    try: print("C04:", what, "->", f())
    except Exception as e: print("C04:", what, "raised", type(e).__name__, str(e)[:90])
shutil.rmtree(d)
