"""D29 (C06): divide_outputs informs its source with `source.throw(e)`; its source is a `Mailbox._read` generator, which
SWALLOWS MailboxKilled (kill_from_exception does not re-raise it) and simply goes on.  If the message being divided was
the last one (the StopIteration marker was collected in the same critical section), the generator ends and
`source.throw(e)` raises StopIteration *inside the except block*: it replaces the MailboxKilled, the outer handler kills
every output with reason (StopIteration, ...) and re-raises it.  Downstream, ThreadedMailboxProcessor.iter re-raises
that reason inside a generator -> the caller gets RuntimeError('generator raised StopIteration') instead of the saver's
exception.  Deterministic, no threads needed:   NUMBA_CACHE_DIR=/tmp/x python D29_divider_throw_stopiteration.py"""
import os, sys
sys.path.insert(0, os.environ.get("STRAX_REPO", "/repo"))
import strax

src = strax.Mailbox(name="divider")
gen = src.subscribe()
src.send(dict(xx=1, yy=1))      # the last (only) result of the multi-output plugin ...
src.close()                     # ... and the end marker: `_read` collects both at once
outs = dict(xx=strax.Mailbox(name="xx"), yy=strax.Mailbox(name="yy"))
for m in outs.values():
    m.subscribe()
original = OSError("disk full while saving yy")
outs["yy"].kill(upstream=True, reason=(OSError, original, None))     # what the failing saver's source.throw(e) did
try:
    strax.divide_outputs(gen, outs, outputs=("xx", "yy"))
    print("divide_outputs returned")
except BaseException as e:
    print("divide_outputs raised", type(e).__name__)
print("xx killed because:", outs["xx"].killed_because[:2])
print("expected         :", (OSError, original))
