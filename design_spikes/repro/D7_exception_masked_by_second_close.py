import numpy as np, strax, warnings, tempfile, os, shutil, traceback
warnings.simplefilter("ignore")
from strax.testutils import Records
import logging; logging.disable(logging.CRITICAL)
class P(strax.Plugin):
    provides = "pdata"; depends_on = ("records",); dtype = strax.time_fields + [("v", np.int64)]
    data_kind = "pdata"; __version__ = "1"
    def compute(self, records):
        r = np.zeros(len(records), self.dtype); r['time']=records['time']; r['endtime']=strax.endtime(records); return r
d = tempfile.mkdtemp(prefix="exp4d")
st = strax.Context(storage=[strax.DataDirectory(d)], register=[Records, P])
import strax.storage.files as F
orig_rename = os.rename
class OSProxy:
    def __getattr__(self, k): return getattr(os, k)
    def rename(self, a, b):
        if 'pdata' in a and a.endswith('_temp'):
            raise OSError("injected: final rename failed")
        return orig_rename(a, b)
F.os = OSProxy()
try:
    st.make('0', 'pdata')
    print("returned normally")
except Exception as e:
    print("caller got:", type(e).__name__, str(e)[:100]); print("  context:", type(e.__context__).__name__, str(e.__context__)[:80])
F.os = os
st2 = strax.Context(storage=[strax.DataDirectory(d)], register=[Records, P])
print("stored records/pdata:", st2.is_stored('0','records'), st2.is_stored('0','pdata'))
shutil.rmtree(d)
