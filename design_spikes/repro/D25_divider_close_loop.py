"""D25 (C06): a saver of a side output of a multi-output plugin fails on the LAST chunk.
`divide_outputs` is then in (or about to enter) its closing loop `for m in mbs_to_kill: m.close()`, which sits in the
`else:` branch of its try statement: `yy.close()` raises MailboxKilled (yy was force-killed by the failing saver),
nothing catches it, and the outputs after `yy` (here `zz`) are neither closed nor killed.  Their readers wait for the
full mailbox timeout; the caller gets RuntimeError('Thread discard_zz did not terminate!') instead of the saver's error.
Run: NUMBA_CACHE_DIR=/tmp/x python D25_divider_close_loop.py"""
import os, sys, time, tempfile, shutil, warnings, logging
sys.path.insert(0, os.environ.get("STRAX_REPO", "/repo"))
import numpy as np, strax
from immutabledict import immutabledict
warnings.simplefilter("ignore"); logging.disable(logging.CRITICAL)
dt = strax.time_fields + [("id", np.int64)]
NCH, CH = 3, 10

class Src(strax.Plugin):
    provides = "ss"; depends_on = (); dtype = dt; data_kind = "ss"; save_when = strax.SaveWhen.NEVER
    def is_ready(self, chunk_i): return chunk_i < NCH
    def source_finished(self):
        time.sleep(0.5)          # the run ends a little after the last chunk: the saver has time to fail first
        return True
    def compute(self, chunk_i):
        r = np.zeros(1, dt); r["time"] = chunk_i * CH + 2; r["endtime"] = chunk_i * CH + 4; r["id"] = chunk_i
        return self.chunk(start=chunk_i * CH, end=(chunk_i + 1) * CH, data=r)

class MO(strax.Plugin):
    provides = ("xx", "yy", "zz"); depends_on = ("ss",); data_kind = dict(xx="xx", yy="yy", zz="zz")
    dtype = dict(xx=dt, yy=dt, zz=dt); rechunk_on_save = False
    save_when = immutabledict(xx=strax.SaveWhen.NEVER, yy=strax.SaveWhen.ALWAYS, zz=strax.SaveWhen.NEVER)
    def compute(self, ss):
        r = np.zeros(len(ss), dt); r["time"] = ss["time"]; r["endtime"] = ss["endtime"]; r["id"] = ss["id"]
        return dict(xx=r, yy=r.copy(), zz=r.copy())

class T(strax.Plugin):
    provides = "tt"; depends_on = ("xx",); dtype = dt; data_kind = "tt"; save_when = strax.SaveWhen.NEVER
    def compute(self, xx):
        r = np.zeros(len(xx), dt); r["time"] = xx["time"]; r["endtime"] = xx["endtime"]; r["id"] = xx["id"]; return r

import strax.storage.files as F
orig = F.FileSaver._save_chunk
def failing(self, data, chunk_info, executor=None):
    if "yy" in self.dirname and chunk_info["chunk_i"] == NCH - 1:
        raise OSError("injected: disk full on the last chunk of yy")
    return orig(self, data, chunk_info, executor=executor)
F.FileSaver._save_chunk = failing

d = tempfile.mkdtemp()
st = strax.Context(storage=[strax.DataDirectory(d)], register=[Src, MO, T], timeout=5, allow_lazy=False)
t0 = time.time()
try:
    a = st.get_array("0", "tt", processor="threaded_mailbox", progress_bar=False)
    print(f"returned normally, {len(a)} rows ({time.time() - t0:.1f}s)")
except Exception as e:
    print(f"caller got {type(e).__name__}: {str(e)[:90]} ({time.time() - t0:.1f}s)")
shutil.rmtree(d)
