import numpy as np, strax, warnings, tempfile, shutil, time, sys
from immutabledict import immutabledict
warnings.simplefilter("ignore")
import logging; logging.disable(logging.CRITICAL)
dt = strax.time_fields + [("id", np.int64)]
NCH=6
class Src(strax.Plugin):
    provides="ss"; depends_on=(); dtype=dt; data_kind="ss"; rechunk_on_save=False; save_when=strax.SaveWhen.NEVER
    def is_ready(self, chunk_i): return chunk_i < NCH
    def source_finished(self): return True
    def compute(self, chunk_i):
        r = np.zeros(2, dt); r['time']=[chunk_i*10+1, chunk_i*10+5]; r['endtime']=r['time']+2; r['id']=[2*chunk_i,2*chunk_i+1]
        return self.chunk(start=chunk_i*10, end=(chunk_i+1)*10, data=r)
class MO(strax.Plugin):
    provides=("xx","yy"); depends_on=("ss",); dtype=dict(xx=dt, yy=dt); data_kind=dict(xx="xx", yy="yy")
    save_when=immutabledict(xx=strax.SaveWhen.NEVER, yy=strax.SaveWhen.ALWAYS); rechunk_on_save=False
    def compute(self, ss):
        return dict(xx=ss.copy(), yy=ss[::2].copy())
class T(strax.Plugin):
    provides="tt"; depends_on=("xx","yy"); dtype=dt; data_kind="tt"; save_when=strax.SaveWhen.NEVER
    def compute(self, xx, yy):
        r=np.zeros(len(xx),dt); r['time']=xx['time']; r['endtime']=xx['endtime']; r['id']=xx['id']*100+len(yy); return r
for proc in ("single_thread","threaded_mailbox"):
    for lazy in (True, False):
        d = tempfile.mkdtemp(prefix="exp9d")
        st = strax.Context(storage=[strax.DataDirectory(d)], register=[Src, MO, T], timeout=8, allow_lazy=lazy)
        st.make('0','yy', processor='single_thread')          # yy now stored, xx never stored
        assert st.is_stored('0','yy')
        t0=time.time()
        try:
            a = st.get_array('0','tt', progress_bar=False, processor=proc); out=f"ok ids {list(a['id'])}"
        except Exception as e:
            out=f"raised {type(e).__name__} {str(e)[:90]}"
        print(proc, "lazy" if lazy else "eager", "->", out, f"({time.time()-t0:.1f}s)"); sys.stdout.flush()
        shutil.rmtree(d)
