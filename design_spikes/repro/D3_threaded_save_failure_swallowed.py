import numpy as np, strax, warnings, tempfile, os, shutil, traceback, threading
warnings.simplefilter("ignore")
from strax.testutils import Records
import logging; logging.disable(logging.CRITICAL)
d = tempfile.mkdtemp(prefix="exp2d")
st = strax.Context(storage=[strax.DataDirectory(d)], register=[Records], allow_multiprocess=False)
orig = strax.save_file
calls = {'n':0}
def bad_save_file(f, data, compressor="zstd"):
    calls['n'] += 1
    pass #, calls['n'], "thread", threading.current_thread().name)
    if calls['n'] == 3:
        raise OSError("disk full (injected)")
    return orig(f, data, compressor)
strax.save_file = bad_save_file
try:
    st.make('0', 'records', max_workers=2, processor='threaded_mailbox')
    print("make returned normally; calls", calls)
except Exception as e:
    traceback.print_exc()
import glob, json
for p in glob.glob(d+"/*"):
    print(p, sorted(os.listdir(p))[:4])
    md = json.load(open(glob.glob(p+"/*metadata.json")[0]))
    print({k: (v if k!='chunks' else len(v)) for k,v in md.items() if k in ('writing_ended','exception','chunks')})
strax.save_file = orig
st2 = strax.Context(storage=[strax.DataDirectory(d)], register=[Records])
print("is_stored(records):", st2.is_stored('0','records'))
try:
    a = st2.get_array('0','records', progress_bar=False)
    print("loaded", len(a))
except Exception as e:
    print("load raised", type(e).__name__, str(e)[:300])
