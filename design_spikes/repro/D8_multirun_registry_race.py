import numpy as np, strax, warnings, tempfile, os, shutil, traceback, sys, collections
warnings.simplefilter("ignore")
from strax.testutils import Records
import logging; logging.disable(logging.CRITICAL)
class PA(strax.Plugin):
    provides = "pa"; depends_on = ("records",); dtype = strax.time_dt_fields + [("a", np.int64)]; data_kind="records"; __version__="1"; save_when = strax.SaveWhen.NEVER
    def compute(self, records):
        r = np.zeros(len(records), self.dtype); r['time']=records['time']; r['length']=records['length']; r['dt']=records['dt']; return r
class PB(PA):
    provides = "pb"; dtype = strax.time_dt_fields + [("b", np.int64)]
res = collections.Counter()
for interval in (5e-3, 1e-6):
    sys.setswitchinterval(interval)
    for trial in range(8):
        d = tempfile.mkdtemp(prefix="exp5d")
        st = strax.Context(storage=[strax.DataDirectory(d)], register=[Records, PA, PB])
        runs = [str(i) for i in range(6)]
        try:
            a = st.get_array(runs, ("pa","pb"), max_workers=6, progress_bar=False, multi_run_progress_bar=False)
            res[(interval, "ok", len(a))] += 1
        except Exception as e:
            res[(interval, type(e).__name__, str(e)[:60])] += 1
        shutil.rmtree(d)
sys.setswitchinterval(5e-3)
for k, v in res.items(): print(k, v)
