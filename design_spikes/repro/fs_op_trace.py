import numpy as np, strax, warnings, tempfile, shutil, os, builtins, glob as _glob
warnings.simplefilter("ignore")
import logging; logging.disable(logging.CRITICAL)
from strax.testutils import Records
import strax.storage.files as F, strax.io as IO
log=[]
def short(p, root): return str(p).replace(root, "<D>")
class OSP:
    def __init__(s, root): s.root=root; s.path=PathP(root)
    def __getattr__(s,k):
        f=getattr(os,k)
        if k in ("makedirs","rename","remove","listdir","access","rmdir","unlink"):
            def w(*a,**kw):
                log.append((k,)+tuple(short(x,s.root) for x in a if isinstance(x,str))); return f(*a,**kw)
            return w
        return f
class PathP:
    def __init__(s,root): s.root=root
    def __getattr__(s,k):
        f=getattr(os.path,k)
        if k in ("exists",):
            def w(*a):
                r=f(*a); log.append(("exists?",short(a[0],s.root),r)); return r
            return w
        return f
def mk_open(root):
    def o(fn, mode="r", *a, **kw):
        log.append(("open",short(fn,root),mode)); return builtins.open(fn, mode, *a, **kw)
    return o
class SH:
    def __init__(s,root): s.root=root
    def rmtree(s,p): log.append(("rmtree",short(p,s.root))); return shutil.rmtree(p)
    def __getattr__(s,k): return getattr(shutil,k)
class GL:
    def __init__(s,root): s.root=root
    def glob(s,p): r=_glob.glob(p); log.append(("glob",short(p,s.root),len(r))); return r
d = tempfile.mkdtemp(prefix="exp10d")
F.os=OSP(d); F.open=mk_open(d); F.shutil=SH(d); F.glob=GL(d); IO.os=OSP(d); IO.open=mk_open(d)
st = strax.Context(storage=[strax.DataDirectory(d)], register=[Records], config=dict(n_chunks=2))
log.clear()
st.make('0','records')
for i,l in enumerate(log): print(i,l)
shutil.rmtree(d)
