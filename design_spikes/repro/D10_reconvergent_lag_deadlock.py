import numpy as np, strax, warnings, tempfile, shutil, time, sys
warnings.simplefilter("ignore")
import logging; logging.disable(logging.CRITICAL)
dt = strax.time_fields + [("id", np.int64)]
NCH = 40; CH = 10   # 40 chunks of 10 ns, one row [t, t+1) per ns? keep 1 row per chunk
class Src(strax.Plugin):
    provides="ss"; depends_on=(); dtype=dt; data_kind="ss"; rechunk_on_save=False; save_when=strax.SaveWhen.NEVER
    def is_ready(self, chunk_i): return chunk_i < NCH
    def source_finished(self): return True
    def compute(self, chunk_i):
        r = np.zeros(1, dt); r['time']=chunk_i*CH+2; r['endtime']=chunk_i*CH+4; r['id']=chunk_i
        return self.chunk(start=chunk_i*CH, end=(chunk_i+1)*CH, data=r)
def mk_overlap(name, dep, window):
    class O(strax.OverlapWindowPlugin):
        provides=name; depends_on=(dep,); dtype=dt; data_kind=name; save_when=strax.SaveWhen.NEVER
        def get_window_size(self): return window
        def compute(self, **kw):
            x = list(kw.values())[0]; r = np.zeros(len(x), dt); r['time']=x['time']; r['endtime']=x['endtime']; r['id']=x['id']; return r
    O.__name__ = "O_"+name
    return O
class C(strax.Plugin):
    provides="cc"; depends_on=("ss","b2"); dtype=dt; data_kind="cc"; save_when=strax.SaveWhen.NEVER
    def compute(self, ss, b2):
        r = np.zeros(len(ss), dt); r['time']=ss['time']; r['endtime']=ss['endtime']; r['id']=ss['id']; return r
def trial(window, max_messages, lazy):
    d = tempfile.mkdtemp(prefix="exp7d")
    st = strax.Context(storage=[strax.DataDirectory(d)], register=[Src, mk_overlap("b1","ss",window), mk_overlap("b2","b1",window), C],
                       timeout=6, max_messages=max_messages, allow_lazy=lazy)
    t0=time.time()
    try:
        a = st.get_array('0', 'cc', progress_bar=False, processor='threaded_mailbox'); out=f"ok rows {len(a)}"
    except Exception as e:
        out=f"raised {type(e).__name__} {str(e)[:70]}"
    shutil.rmtree(d); return out + f" ({time.time()-t0:.1f}s)"
# window w => each overlap plugin withholds results for about (2w+1)/CH chunks
for window, mm, lazy in [(5,4,False),(12,4,False),(14,4,False),(14,8,False),(14,4,True)]:
    print(f"window={window} (lag per plugin ~{(2*window+1)/CH:.1f} chunks) max_messages={mm} lazy={lazy}:", trial(window, mm, lazy)); sys.stdout.flush()
