import os
import sys; sys.path.insert(0, os.path.dirname(os.path.abspath(__file__)))
import strax, strax.mailbox as mbm, sched as S, time, collections
def run(seed, n_msgs=5, n_sub=2, cap=2, lazy=False):
    sc = S.Sched(seed); sc.register_main()
    mbm.threading = S.make_threading(sc)
    mb = strax.Mailbox(name="m", max_messages=cap, lazy=lazy, timeout=1)
    got = [[] for _ in range(n_sub)]; maxlen = [0]
    def src():
        for i in range(n_msgs):
            yield i
    def reader(source, k):
        for x in source:
            got[k].append(x); maxlen[0] = max(maxlen[0], len(mb._mailbox))
    mb.add_sender(src())
    for k in range(n_sub): mb.add_reader(reader, k=k, can_drive=(k == 0))
    mb.start(); mb.cleanup()
    return got, maxlen[0], sc.deadlocked, len(sc.trace)
t0 = time.time(); res = collections.Counter()
for seed in range(300):
    for lazy in (False, True):
        got, ml, dl, n = run(seed, lazy=lazy)
        ok = all(g == list(range(5)) for g in got) and not dl and (lazy or ml <= 2)
        res[(lazy, ok)] += 1
        if not ok: print("BAD", seed, lazy, got, ml, dl)
print(res, "in", round(time.time()-t0, 2), "s")
