import os
"""Spike: cooperative deterministic scheduler replacing `threading` inside strax.mailbox."""
import threading as _rt, random, types, sys

class Deadlock(Exception): pass

class Sched:
    def __init__(self, seed=0, choose=None):
        self.rng = random.Random(seed)
        self.mutex = _rt.Lock()
        self.tasks = []          # all tasks
        self.current = None
        self.trace = []
        self.choose = choose or (lambda runnable, cur: self.rng.choice(runnable))
        self.deadlocked = False
    # each task: .state in {'new','runnable','blocked','done'}, .wake = real Event, .blocked_on = predicate
    def register_main(self):
        t = Task(self, None, "main"); t.state = 'runnable'; t.real = _rt.current_thread()
        self.tasks.append(t); self.current = t; _local.task = t
        return t
    def yield_point(self, why, blocked_pred=None):
        me = _local.task
        if blocked_pred is not None:
            me.state = 'blocked'; me.pred = blocked_pred
        self.switch(me, why)
    def switch(self, me, why):
        # re-evaluate blocked tasks
        for t in self.tasks:
            if t.state == 'blocked' and t.pred():
                t.state = 'runnable'
        runnable = [t for t in self.tasks if t.state == 'runnable']
        if not runnable:
            self.deadlocked = True
            blocked = [t for t in self.tasks if t.state == 'blocked']
            # fire "timeouts": wake everyone with timeout flag
            for t in blocked:
                t.timed_out = True; t.state = 'runnable'
            runnable = blocked
            if not runnable:
                return
        nxt = self.choose(runnable, me)
        self.trace.append((nxt.name, why))
        if nxt is me:
            return
        self.current = nxt
        nxt.wake.set()
        if me.state != 'done':
            me.wake.wait(); me.wake.clear()

_local = _rt.local()

class Task:
    def __init__(self, sched, fn, name):
        self.sched, self.fn, self.name = sched, fn, name
        self.state = 'new'; self.wake = _rt.Event(); self.pred = None; self.timed_out = False

def make_threading(sched):
    class Thread:
        def __init__(self, target=None, name=None, args=(), kwargs=None):
            self.name = name or f"t{len(sched.tasks)}"
            self.task = Task(sched, None, self.name)
            self._target, self._args, self._kwargs = target, args, kwargs or {}
            self.exc = None
        def start(self):
            t = self.task
            def run():
                _local.task = t
                t.wake.wait(); t.wake.clear()
                try:
                    self._target(*self._args, **self._kwargs)
                except BaseException as e:
                    self.exc = e
                finally:
                    t.state = 'done'
                    sched.switch(t, 'exit')
            t.real = _rt.Thread(target=run, name=self.name, daemon=True)
            t.state = 'runnable'
            sched.tasks.append(t)
            t.real.start()
            sched.yield_point('start')
        def join(self, timeout=None):
            if self.task.state != 'done':
                sched.yield_point('join', lambda: self.task.state == 'done')
        def is_alive(self):
            return self.task.state not in ('done', 'new')
    class RLock:
        def __init__(self): self.owner = None; self.count = 0
        def acquire(self, blocking=True, timeout=-1):
            me = _local.task
            if self.owner is me:
                self.count += 1; return True
            sched.yield_point('acquire')
            if self.owner is not None:
                sched.yield_point('acquire-blocked', lambda: self.owner is None)
            self.owner = me; self.count = 1
            return True
        def release(self):
            self.count -= 1
            if self.count == 0: self.owner = None
        __enter__ = acquire
        def __exit__(self, *a): self.release()
        def __repr__(self): return f"<SRLock {self.owner and self.owner.name} {self.count}>"
    class Condition:
        def __init__(self, lock=None):
            self.lock = lock or RLock(); self.waiters = []
        def wait(self, timeout=None):
            me = _local.task
            cnt = self.lock.count; self.lock.count = 0; self.lock.owner = None
            flag = {'n': False}
            self.waiters.append(flag)
            me.timed_out = False
            sched.yield_point('wait', lambda: flag['n'])
            to = me.timed_out
            if to and flag in self.waiters: self.waiters.remove(flag)
            # reacquire
            if self.lock.owner is not None:
                sched.yield_point('reacquire-blocked', lambda: self.lock.owner is None)
            self.lock.owner = me; self.lock.count = cnt
            return not to
        def wait_for(self, predicate, timeout=None):
            result = predicate()
            while not result:
                ok = self.wait(timeout)
                result = predicate()
                if not ok: break
            return result
        def notify_all(self):
            for f in self.waiters: f['n'] = True
            self.waiters.clear()
    m = types.SimpleNamespace(Thread=Thread, RLock=RLock, Condition=Condition)
    return m
