import os
"""Prototype (plain Python on tuples) of the planned Lean model of Plugin.iter, diffed against the real code."""
import random, sys, numpy as np, warnings, collections
warnings.simplefilter("ignore")
import strax
dt = np.dtype(strax.time_fields + [("id", np.int64)])

# ---------------- model ----------------
class Err(Exception):
    def __init__(self, kind): self.kind = kind
def split_array(rows, t, early):
    if not rows: return [], [], t
    if rows[0][0] >= t: return [], rows, t
    latest, sp, fb, broke = -1, 0, -1, False
    for i, (a, b, _) in enumerate(rows):
        if a >= latest: sp = i
        if a >= t: fb = i; broke = True; break
        latest = max(latest, b)
        if latest > t: broke = True; break
    if not broke and latest <= t: return rows, [], t
    if sp != fb or latest > t:
        if not early: raise Err("CannotSplit")
        t = min(rows[sp][0], t)
    return rows[:sp], rows[sp:], t
def csplit(c, t, early):            # chunk = (start, end, rows)
    s, e, rows = c
    t = max(min(t, e), s)
    if t == e: d1, d2 = rows, []
    elif t == s: d1, d2 = [], rows
    else: d1, d2, t = split_array(rows, t, early)
    return (s, max(s, t), d1), (max(s, t), max(t, e), d2)
def cconcat(cs):
    cs = [c for c in cs if c is not None]
    if len(cs) == 1: return cs[0]
    prev = 0
    for c in cs:
        if c[0] < prev: raise Err("ValueError")
        prev = c[1]
    out = (cs[0][0], cs[-1][1], [r for c in cs for r in c[2]])
    chk(out); return out
def chk(c):
    s, e, rows = c
    if s < 0 or s > e: raise Err("ValueError")
    if rows and (rows[0][0] < s or max(r[1] for r in rows[-500:]) > e): raise Err("ValueError")
def iter_model(deps, kinds, chunks, strict):
    rem = {d: list(chunks[d]) for d in deps}; buf = {d: None for d in deps}
    def fetch(d, check=None):
        if rem[d]:
            buf[d] = cconcat([buf[d], rem[d].pop(0)]); return True
        if check is not None and buf[d][1] < check: raise Err("RuntimeError")
        return False
    calls = []
    pm, _end = None, float("inf")
    for d in deps:
        fetch(d)
        if buf[d] is None: raise Err("ValueError")
        if buf[d][1] < _end: pm, _end = d, buf[d][1]
    first = True
    while True:
        if not first:
            if not fetch(pm): break
        first = False
        end = buf[pm][1]
        inputs = {}
        for d in deps:
            if d != pm:
                while buf[d] is None or buf[d][1] < end: fetch(d, end)
            inputs[d], buf[d] = csplit(buf[d], end, True)
        passes = 10
        while passes > 0:
            ends = [x[1] for x in inputs.values()]
            end = min(ends + [end])
            if len(set(ends)) <= 1: break
            for d in deps:
                inputs[d], back = csplit(inputs[d], end, True)
                buf[d] = cconcat([back, buf[d]])
            passes -= 1
        else:
            raise Err("RuntimeError")
        # merge by kind: same kind must have equal length and range
        bykind = collections.OrderedDict()
        for d in deps: bykind.setdefault(kinds[d], []).append(d)
        merged = {}
        for k, ds in bykind.items():
            cs = [inputs[d] for d in ds]
            if len(cs) > 1:
                if len(set(len(c[2]) for c in cs)) != 1: raise Err("ValueError")
                if len(set((c[0], c[1]) for c in cs)) != 1: raise Err("ValueError")
            merged[k] = (cs[0][0], cs[0][1], {d: [r[2] for r in inputs[d][2]] for d in ds})
        tr = set((m[0], m[1]) for m in merged.values())
        if len(tr) != 1:
            if strict: raise Err("ValueError")
            s, e = min(m[0] for m in merged.values()), max(m[1] for m in merged.values())
        else: (s, e), = tr
        calls.append((s, e, {k: m[2] for k, m in merged.items()}))
    for d in deps:
        if fetch(d): raise Err("RuntimeError")
    if strict:
        for d in deps:
            if buf[d] is not None and len(buf[d][2]): raise Err("RuntimeError")
    return calls

# ---------------- real code adapter ----------------
class FakeDep:
    def __init__(self, kind): self.kind = kind
    def data_kind_for(self, d): return self.kind
def run_real(deps, kinds, chunks, strict):
    rec = []
    kindnames = list(collections.OrderedDict.fromkeys(kinds[d] for d in deps))
    src = "def compute(self, %s, start, end):\n    self.rec.append((start, end, {k: v for k, v in zip(%r, [%s])}))\n    return np.zeros(0, self.dtype)" % (
        ", ".join(kindnames), kindnames, ", ".join(kindnames))
    ns = {"np": np}; exec(src, ns)
    P = type("HP", (strax.Plugin,), dict(provides=("out",), depends_on=tuple(deps), dtype=dt, data_kind="out",
             save_when=strax.SaveWhen.ALWAYS if strict else strax.SaveWhen.NEVER, compute=ns["compute"]))
    p = P(); p.rec = rec; p.run_id = "0"; p.deps = {d: FakeDep(kinds[d]) for d in deps}; p.fix_dtype()
    def mkchunk(d, c):
        s, e, rows = c
        a = np.zeros(len(rows), np.dtype(strax.time_fields + [("id_" + d, np.int64)]))
        for i, r in enumerate(rows): a[i] = r
        return strax.Chunk(start=s, end=e, data=a, data_type=d, data_kind=kinds[d], dtype=a.dtype, run_id="0")
    iters = {d: iter([mkchunk(d, c) for c in chunks[d]]) for d in deps}
    try:
        for _ in p.iter(iters): pass
    except (ValueError, RuntimeError, strax.CannotSplit) as e:
        return ("err", type(e).__name__)
    out = []
    for s, e, kw in rec:
        out.append((s, e, {k: {d: list(map(int, arr["id_" + d])) for d in deps if kinds[d] == k} for k, arr in kw.items()}))
    return ("ok", out)
def run_model(deps, kinds, chunks, strict):
    try: return ("ok", iter_model(deps, kinds, chunks, strict))
    except Err as e: return ("err", e.kind)

# ---------------- generator ----------------
def gen_rows(rng, T, overlap):
    rows, t, i = [], 0, 0
    while True:
        t += rng.choice([0, 0, 1, 2, 3]) if overlap else rng.choice([0, 1, 2])
        ln = rng.randint(1, 4)
        if t + ln > T: break
        rows.append((t, t + ln, i)); i += 1
        if not overlap: t += ln
    return rows
def gen_chunking(rng, rows, T, end_T):
    cuts = [x for x in range(1, T) if not any(a < x < b for a, b, _ in rows)]
    k = rng.randint(0, min(4, len(cuts)))
    cs = sorted(rng.sample(cuts, k)) if k else []
    if rng.random() < .2 and cs: cs.insert(rng.randrange(len(cs)), cs[rng.randrange(len(cs))]); cs.sort()   # zero-duration chunk
    bounds = [0] + cs + [end_T]
    out = []
    for s, e in zip(bounds[:-1], bounds[1:]):
        out.append((s, e, [r for r in rows if r[0] >= s and r[1] <= e and not (s == e)] if s != e else []))
    # rows exactly at zero-duration position stay with the next chunk: rebuild by assigning each row to first chunk that contains it
    assigned = set(); out2 = []
    for s, e in zip(bounds[:-1], bounds[1:]):
        rr = [r for r in rows if r[2] not in assigned and r[0] >= s and r[1] <= e and s != e]
        assigned.update(r[2] for r in rr); out2.append((s, e, rr))
    return out2
def main(seed, n):
    rng = random.Random(seed); stats = collections.Counter(); bad = 0
    for case in range(n):
        T = rng.randint(4, 16)
        nk = rng.randint(1, 3); ndep = rng.randint(nk, 4)
        deps = ["d%d" % i for i in range(ndep)]
        kinds = {d: "k%d" % (i if i < nk else rng.randrange(nk)) for i, d in enumerate(deps)}
        rows_by_kind = {"k%d" % k: gen_rows(rng, T, rng.random() < .4) for k in range(nk)}
        chunks = {}
        for d in deps:
            endT = T if rng.random() < .9 else T - rng.randint(1, 2)   # sometimes deps end at different times
            rows = [r for r in rows_by_kind[kinds[d]] if r[1] <= endT]
            chunks[d] = gen_chunking(rng, rows, endT, endT)
        strict = rng.random() < .7
        a, b = run_real(deps, kinds, chunks, strict), run_model(deps, kinds, chunks, strict)
        stats[(a[0], a[1] if a[0] == "err" else len(a[1]))] += 1
        if a != b:
            bad += 1
            if bad <= 3: print("DISAGREE", deps, kinds, chunks, strict, "\n real ", a, "\n model", b)
    print("cases", n, "disagreements", bad); print(sorted(stats.items(), key=lambda kv: -kv[1])[:12])
main(int(sys.argv[1]) if len(sys.argv) > 1 else 0, int(sys.argv[2]) if len(sys.argv) > 2 else 3000)
