import os
import sys; sys.path.insert(0, os.path.dirname(os.path.abspath(__file__)))
import strax, strax.mailbox as mbm, sched as S
def run():
    # adversarial: always prefer the sender thread when runnable; never run the driver (reader0) unless nothing else
    def choose(runnable, cur):
        order = {"source:m": 0, "read_1:m": 9, "read_0:m": 3, "main": 1}
        # saver (read_1) stays "busy": we let it take exactly no steps unless forced
        return sorted(runnable, key=lambda t: order.get(t.name, 5))[0]
    sc = S.Sched(0, choose=choose); sc.register_main()
    mbm.threading = S.make_threading(sc)
    mb = strax.Mailbox(name="m", lazy=True, timeout=1)
    produced = []; log = []
    def src():
        for i in range(50):
            produced.append(i)
            log.append(("fetch", i, "driver_waiting_for", list(mb._subscriber_waiting_for), "heap", sorted(n for n, _ in mb._mailbox)))
            yield i
    def driver(source):
        for x in source: pass
    def saver(source):
        for x in source: pass
    mb.add_sender(src()); mb.add_reader(driver, can_drive=True); mb.add_reader(saver, can_drive=False)
    mb.start(); mb.cleanup()
    return log
for l in run()[:8]: print(l)
