import os
import sys, numpy as np, strax, time
dt = np.dtype(strax.time_fields + [("id", np.int64)])
def run(lines):
    out = []
    for line in lines:
        op, rows, t, early = line.split(" ")
        rows = [tuple(map(int, x.split(":"))) for x in rows.split(",")] if rows else []
        a = np.array(rows, dtype=dt) if rows else np.zeros(0, dt)
        try:
            l, r, t2 = strax.split_array(a, int(t), allow_early_split=(early.strip() == "1"))
            out.append(f"ok [{','.join(map(str, l['id']))}] [{','.join(map(str, r['id']))}] {t2}")
        except strax.CannotSplit:
            out.append("cannot")
    return out
lines = open(os.path.dirname(os.path.abspath(__file__)) + '/ops.txt').read().splitlines()[:50000]
t0 = time.time(); out = run(lines); print("py", time.time()-t0, file=sys.stderr)
open(os.path.dirname(os.path.abspath(__file__)) + '/py_out.txt','w').write("\n".join(out)+"\n")
