import os
import sys, random, collections, numpy as np, warnings
warnings.simplefilter("ignore")
src=open(os.path.dirname(os.path.abspath(__file__)) + '/itermodel.py').read(); src=src[:src.index("def main(seed, n):")]
sys.argv=['x']; exec(src)
import strax
# ---- model of OverlapWindowPlugin (single dependency, single output), on top of the iter model
def f_whole(rows, wl, wr):
    # window-local per-row computation: value = number of other rows within the window
    out=[]
    for (a,b,i) in rows:
        n=sum(1 for (c,d,j) in rows if j!=i and d > a-wl and c < b+wr)
        out.append((a,b,i*100+n))
    return out
def overlap_model(chunks, wl, wr):
    cached_in=None; cached_res=None; sent_until=0; outs=[]
    calls=iter_model(["d0"],{"d0":"k0"},{"d0":chunks},True)
    for (s,e,kw) in calls:
        ids=kw["k0"]["d0"]
        rows_in=[r for c in chunks for r in c[2] if r[2] in ids]
        X=(s,e,rows_in)
        I = cconcat([cached_in, X]) if cached_in is not None else X
        end=I[1]
        invalid_beyond=int(end-2*wr-1)
        R=(I[0],I[1],f_whole(I[2],wl,wr))
        chk(R)
        R=csplit(R,sent_until,False)[1]
        res,cached_res=csplit(R,invalid_beyond,True)
        sent_until=cached_res[0]
        cib=int(sent_until-2*wl-1)
        cached_in=csplit(I,cib,True)[1]
        outs.append(res)
    outs.append(cached_res)
    return outs
# ---- real
dt2=np.dtype(strax.time_fields+[("id",np.int64)])
def overlap_real(chunks, wl, wr):
    class O(strax.OverlapWindowPlugin):
        provides=("out",); depends_on=("d0",); dtype=dt2; data_kind="out"; save_when=strax.SaveWhen.ALWAYS
        def get_window_size(self): return (wl,wr)
        def compute(self, k0):
            rows=[(int(a),int(b),int(i)) for a,b,i in zip(k0['time'],k0['endtime'],k0['id'])]
            o=f_whole(rows,wl,wr); r=np.zeros(len(o),dt2)
            for n,(a,b,v) in enumerate(o): r[n]=(a,b,v)
            return r
    p=O(); p.run_id="0"; p.deps={"d0":FakeDep("k0")}; p.fix_dtype()
    def mk(c):
        a=np.zeros(len(c[2]),dt2)
        for n,r in enumerate(c[2]): a[n]=r
        return strax.Chunk(start=c[0],end=c[1],data=a,data_type="d0",data_kind="k0",dtype=dt2,run_id="0")
    out=[]
    for c in p.iter({"d0":iter([mk(c) for c in chunks])}):
        out.append((c.start,c.end,[(int(a),int(b),int(v)) for a,b,v in zip(c.data['time'],c.data['endtime'],c.data['id'])]))
    return out
rng=random.Random(3); stats=collections.Counter()
for case in range(1500):
    T=rng.randint(6,40); rows=gen_rows(rng,T,False)
    chunks=gen_chunking(rng,rows,T,T)
    wl,wr=rng.choice([(0,0),(1,1),(3,3),(5,2),(0,4),(7,7),(12,12)])
    try: a=("ok",overlap_real(chunks,wl,wr))
    except Exception as e: a=("err",type(e).__name__)
    try: b=("ok",overlap_model(chunks,wl,wr))
    except Err as e: b=("err",e.kind)
    same = a==b
    whole = None
    if a[0]=="ok":
        flat=[r for c in a[1] for r in c[2]]
        whole = flat==f_whole(rows,wl,wr)
        tiles = a[1][0][0]==0 and a[1][-1][1]==T and all(x[1]==y[0] for x,y in zip(a[1],a[1][1:]))
    stats[(a[0], same, whole, tiles if a[0]=="ok" else None)]+=1
    if not same and stats["shown"]<2:
        stats["shown"]+=1; print("DISAGREE",chunks,wl,wr,"\n real ",a,"\n model",b)
print(stats)
