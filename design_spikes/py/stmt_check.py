import os
import itertools, sys
sys.argv=['x','0','0']
exec(open(os.path.dirname(os.path.abspath(__file__)) + '/itermodel.py').read().split("# ---------------- real code adapter")[0])
G=7
def all_rows(maxn):
    ivs=[(a,b) for a in range(G) for b in range(a+1,G+1)]
    for n in range(maxn+1):
        for combo in itertools.combinations_with_replacement(ivs,n):
            rows=sorted(combo,key=lambda r:r[0])
            # all orders among equal start times matter (sorted by time only): enumerate permutations within ties is overkill; keep as is + reversed ties
            yield [(a,b,i) for i,(a,b) in enumerate(rows)]
            rows2=sorted(combo,key=lambda r:(r[0],-r[1]))
            if rows2!=rows: yield [(a,b,i) for i,(a,b) in enumerate(rows2)]
def straddled(rows,t): return any(a<t<b for a,b,_ in rows)
bad1=bad2=bad3=n=0
for rows in all_rows(4):
    for t in range(-1,G+2):
        n+=1
        # (1) refusal iff straddled  (split_array itself, any t)
        try: l,r,t2=split_array(rows,t,False); refused=False
        except Err: refused=True
        if refused!=straddled(rows,t):
            bad1+=1
            if bad1<=3: print("refuse-iff fails",rows,t,refused)
        # (2) early split: result admissible, conserves, separates, and is the latest admissible time <= t
        l,r,t2=split_array(rows,t,True)
        ok = (l+r==rows) and all(b<=t2 for a,b,_ in l) and all(a>=t2 for a,b,_ in r) and t2<=t
        if not ok:
            bad2+=1
            if bad2<=3: print("early-valid fails",rows,t,(l,r,t2))
        later=[tau for tau in range(t2+1,t+1) if not straddled(rows,tau)]
        if straddled(rows,t) and later:
            bad3+=1
            if bad3<=3: print("early-latest fails",rows,t,t2,later)
print("checked",n,"refuse-iff bad",bad1,"early-valid bad",bad2,"early-latest bad",bad3)
