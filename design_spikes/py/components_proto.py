import os
import sys, random, collections, tempfile, shutil, numpy as np, warnings, logging
warnings.simplefilter("ignore"); logging.disable(logging.CRITICAL)
import strax
from immutabledict import immutabledict
dt = strax.time_fields + [("id", np.int64)]
SW = strax.SaveWhen
# ---------- model ----------
class DNA(Exception): pass
class VE(Exception): pass
def should_save(pol, t, targets, save):
    if pol == SW.NEVER:
        if t in save: raise VE()
        return False
    if pol == SW.TARGET and t not in targets: return False
    if pol == SW.EXPLICIT and t not in save: return False
    return True
def components_model(plugins, stored, targets, save, mods, forbid):
    # plugins: name -> dict(provides, deps, policy{t:SW}); prov: dtype -> plugin name
    prov = {t: n for n, p in plugins.items() for t in p["provides"]}
    seen, loaders, compute, savers = set(), set(), set(), set()
    def check(t):
        if t in seen: return
        seen.add(t); p = plugins[prov[t]]
        loadable = t in stored
        if loadable: loaders.add(t)
        else:
            if mods["time_range"] and p["policy"][t] > SW.EXPLICIT: raise DNA()
            if "*" in forbid or t in forbid: raise DNA()
            compute.add(t)
            for d in p["deps"]: check(d)
        if loadable: return
        cur = [t]
        if not should_save(p["policy"][t], t, targets, save):
            if len(p["provides"]) > 1: cur = []
            else: return
        if any(mods.values()): return
        for d in sorted(set(cur + list(p["provides"]))):
            if d in stored: continue
            if not should_save(p["policy"][d], d, targets, save) or d in savers: continue
            savers.add(d)
    for t in targets: check(t)
    return ("ok", tuple(sorted(loaders)), tuple(sorted(compute)), tuple(sorted(savers)))
def run_model(*a):
    try: return components_model(*a)
    except DNA: return ("err", "DataNotAvailable")
    except VE: return ("err", "ValueError")
# ---------- real ----------
def mk_class(name, p, all_always=False):
    provides = tuple(p["provides"]); multi = len(provides) > 1
    pol = {t: (SW.ALWAYS if all_always else p["policy"][t]) for t in provides}
    attrs = dict(provides=provides, depends_on=tuple(p["deps"]), __version__="1", rechunk_on_save=False,
                 save_when=immutabledict(pol) if multi else pol[provides[0]],
                 dtype={t: dt for t in provides} if multi else dt,
                 data_kind={t: t for t in provides} if multi else provides[0])
    if not p["deps"]:
        def is_ready(self, chunk_i): return chunk_i < 2
        def source_finished(self): return True
        def compute(self, chunk_i):
            r = np.zeros(1, dt); r["time"] = chunk_i * 10 + 1; r["endtime"] = chunk_i * 10 + 3; r["id"] = chunk_i
            res = {t: self.chunk(start=chunk_i*10, end=chunk_i*10+10, data=r, data_type=t) for t in self.provides}
            return res if self.multi_output else res[self.provides[0]]
        attrs.update(is_ready=is_ready, source_finished=source_finished, compute=compute)
    else:
        first_kind = None
        src = "def compute(self, **kw):\n    x = list(kw.values())[0]\n    r = np.zeros(len(x), self.dtype_for(self.provides[0]))\n    r['time']=x['time']; r['endtime']=x['endtime']; r['id']=x['id']\n    return {t: r.copy() for t in self.provides} if self.multi_output else r"
        ns = {"np": np}; exec(src, ns); attrs.update(compute=ns["compute"])
    return type(name, (strax.Plugin,), attrs)
def run_real(plugins, stored, targets, save, mods, forbid):
    d = tempfile.mkdtemp(prefix="cproto")
    try:
        prep = strax.Context(storage=[strax.DataDirectory(d)], register=[mk_class(n, p, True) for n, p in plugins.items()])
        # store exactly `stored`: make everything needed, then delete the rest
        for t in stored: prep.make("0", t, save=(t,))
        import os, glob
        for path in glob.glob(d + "/0-*"):
            if path.split("-")[-2] not in stored: shutil.rmtree(path)
        st = strax.Context(storage=[strax.DataDirectory(d)], register=[mk_class(n, p) for n, p in plugins.items()],
                           forbid_creation_of=tuple(forbid))
        kw = {}
        if mods["time_range"]: kw["time_range"] = (0, 20)
        if mods["selection"]: kw["selection"] = "id >= 0"
        if mods["columns"]: kw["keep_columns"] = ("time", "endtime")
        try:
            c = st.get_components("0", targets=tuple(targets), save=tuple(save), **kw)
        except strax.DataNotAvailable: return ("err", "DataNotAvailable")
        except ValueError: return ("err", "ValueError")
        for ss in c.savers.values():
            for s in ss: s.close()
        return ("ok", tuple(sorted(c.loaders)), tuple(sorted(c.plugins)), tuple(sorted(k for k, v in c.savers.items() if v)))
    finally:
        shutil.rmtree(d, ignore_errors=True)
# ---------- generator ----------
def gen(rng):
    n = rng.randint(2, 6); plugins = {}; types = []
    for i in range(n):
        k = 2 if rng.random() < .3 else 1
        prov = ["t%d%s" % (i, "ab"[j]) for j in range(k)]
        deps = sorted(rng.sample(types, rng.randint(1, min(2, len(types))))) if types and i > 0 else []
        if i > 0 and not deps: deps = [types[0]]
        plugins["P%d" % i] = dict(provides=prov, deps=deps, policy={t: rng.choice(list(SW)) for t in prov})
        types += prov
    stored = set(t for t in types if rng.random() < .35)
    target = rng.choice(types)
    save = [t for t in types if rng.random() < .2]
    mods = dict(time_range=rng.random() < .15, selection=rng.random() < .1, columns=rng.random() < .1)
    forbid = [t for t in types if rng.random() < .1]
    return plugins, stored, [target], save, mods, forbid
rng = random.Random(int(sys.argv[1]) if len(sys.argv) > 1 else 0); stats = collections.Counter(); bad = 0
for case in range(int(sys.argv[2]) if len(sys.argv) > 2 else 150):
    g = gen(rng)
    a = run_real(*g); b = run_model(*g)
    stats[a[0] if a[0] == "ok" else a] += 1
    if a != b:
        bad += 1
        if bad <= 4: print("DISAGREE", g, "\n real ", a, "\n model", b)
print("cases", sum(stats.values()), "disagreements", bad, dict(stats))
