import os
import sys
src=open(os.path.dirname(os.path.abspath(__file__)) + '/itermodel.py').read()
src=src[:src.index("def main(seed, n):")]
sys.argv=['x']
exec(src)
import random, collections
rng=random.Random(7); stats=collections.Counter()
for case in range(6000):
    T = rng.randint(4, 16); nk = rng.randint(1, 3); ndep = rng.randint(nk, 4)
    deps = ["d%d" % i for i in range(ndep)]
    kinds = {d: "k%d" % (i if i < nk else rng.randrange(nk)) for i, d in enumerate(deps)}
    rows_by_kind = {"k%d" % k: gen_rows(rng, T, rng.random() < .4) for k in range(nk)}
    chunks = {d: gen_chunking(rng, rows_by_kind[kinds[d]], T, T) for d in deps}
    strict = rng.random() < .7
    res = run_model(deps, kinds, chunks, strict)
    if res[0]=="err": stats["err "+res[1]]+=1; continue
    calls=res[1]
    ok_adj = calls[0][0]==0 and all(a[1]==b[0] for a,b in zip(calls,calls[1:]))
    delivered={d: [i for c in calls for i in c[2][kinds[d]][d]] for d in deps}
    ok_once = all(delivered[d]==[r[2] for ch in chunks[d] for r in ch[2]] for d in deps)
    ok_end = calls[-1][1]==T
    stats[("ok", ok_adj, ok_once if strict else "tolerant:"+str(ok_once), ok_end)]+=1
for k,v in sorted(stats.items(), key=lambda kv:-kv[1]): print(v,k)
