import StraxModel.Model.Basic
import StraxModel.Model.SplitArray
import StraxModel.Model.Chunk
import StraxModel.Model.Rechunk
import StraxModel.Props.C07
