import StraxModel.Driver.Parse
namespace Strax.Driver
open Strax

/-- ops of property C14 (stub: no ops yet) -/
def handleC14 : List String → Option String
  | _ => none

end Strax.Driver
