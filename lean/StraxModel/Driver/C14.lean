import StraxModel.Driver.C07
import StraxModel.Model.Superrun
import StraxModel.Generated.RunDoc
namespace Strax.Driver
open Strax Strax.Superrun

namespace C14

/-- `dt:allow:rechunk:target,…` -/
def parseLevels (s : String) : Option (List Level) :=
  (splitList s ",").mapM fun tok =>
    match tok.splitOn ":" with
    | [dt, a, r, t] => do pure ⟨dt, ← parseBool a, ← parseBool r, ← t.toNat?⟩
    | _ => none

/-- `rid:start,…` -/
def parseDocs (s : String) : Option (List (String × Int)) :=
  (splitList s ",").mapM fun tok =>
    match tok.splitOn ":" with
    | [rid, a] => do pure (rid, ← a.toInt?)
    | _ => none

def parseIds (s : String) : List String := splitList s ","

/-- a `sub_run_spec`: `rid` (all) or `rid@a@b` (window), comma separated; returns ids in listing order + selection -/
def parseSpec (s : String) : Option (List String × Sel) := do
  let items ← (splitList s ",").mapM fun tok =>
    match tok.splitOn "@" with
    | [rid] => some (rid, (none : Option (Int × Int)))
    | [rid, a, b] => do pure (rid, some (← a.toInt?, ← b.toInt?))
    | _ => none
  pure (items.map (·.1), items.filterMap fun (r, o) => o.map fun tr => (r, tr))

/-- `start~stop~rows` -/
def parseRawC (s : String) : Option RawC :=
  match s.splitOn "~" with
  | [a, b, rows] => do pure ⟨← a.toInt?, ← b.toInt?, ← parseRows rows⟩
  | _ => none

/-- `rid=chunk;chunk/rid=…` -/
def parseSrc (s : String) : Option (List (String × List RawC)) :=
  (splitList s "/").mapM fun tok =>
    match tok.splitOn "=" with
    | [rid, cs] => do pure (rid, ← (splitList cs ";").mapM parseRawC)
    | _ => none

/-- the concrete stand-in for the hash in the driver: an injective printing of (sorted spec, combining) -/
def keyH (items : List (String × Option (Int × Int))) (combining : Bool) : String :=
  ",".intercalate (items.map fun (r, o) => match o with
    | none => r
    | some (a, b) => s!"{r}@{a}@{b}") ++ (if combining then "+c" else "+n")

def showIdsL (l : List String) : String := if l.isEmpty then "-" else ",".intercalate l

/-- canonical order for a JSON dict of runs: by (start, end, id) -/
def canonRuns (rs : Runs) : Runs :=
  rs.mergeSort fun a b => decide (a.start < b.start) || (decide (a.start = b.start) &&
    (decide (a.stop < b.stop) || (decide (a.stop = b.stop) && decide (a.id ≤ b.id))))

/-- stored chunk metadata entry: `run_id|start|end|n|subruns` -/
def showMeta (c : Chunk) : String :=
  s!"{showStrOpt c.runId}|{c.start}|{c.stop}|{c.rows.length}|{showRunsOpt (c.subruns.map canonRuns)}"

def showStoredLevels (w : World) (key : Key String) (store : Store String) : String :=
  " ".intercalate (w.levels.map fun lv =>
    match store.lookup (key, lv.dataType) with
    | none => s!"{lv.dataType}:-"
    | some cs => s!"{lv.dataType}:" ++ (if cs.isEmpty then "()" else ";".intercalate (cs.map showMeta)))

/-- the whole scenario of one correspondence case, see checks/props/c14.py -/
def scenario (w : World) (docs : List (String × Int)) (data1 : List String) (sel1 : Sel) (data2 : List String) (sel2 : Sel) (n : Nat)
    (combining write : Bool) (premake : Option Nat) : Except Err String := do
  let spec1 ← definedSpec Generated.runDocSortKeys docs data1
  let store : Store String := []
  let store ← match premake with
    | none => pure store
    | some p => do
      let (_, st) ← superGet keyH w spec1 sel1 store p false write
      pure st
  let (y1, store) ← superGet keyH w spec1 sel1 store n combining write
  let key1 := superrunKey keyH w.superName spec1 sel1 combining
  let m1 := showStoredLevels w key1 store
  let (y2, store) ← superGet keyH w spec1 sel1 store n combining write
  let stored1 := isStored keyH w spec1 sel1 store n combining
  let spec2 ← definedSpec Generated.runDocSortKeys docs data2
  let same := decide (superrunKey keyH w.superName spec2 sel2 combining = key1)
  let stored2 := isStored keyH w spec2 sel2 store n combining
  let (y3, store) ← superGet keyH w spec2 sel2 store n combining write
  let stored3 := isStored keyH w spec1 sel1 store n combining
  -- single-run results of every documented run (what the oracle concatenates)
  let base ← docs.mapM fun (rid, _) => do
    let cs ← subrunStored w rid n
    pure s!"{rid}={showIds (cs.flatMap (·.rows))}"
  pure (s!"spec={showIdsL spec1} # y1 {showChunks y1} # m1 {m1} # y2 {showChunks y2} # stored1={stored1} " ++
    s!"# spec2={showIdsL spec2} samekey={same} stored2={stored2} # y3 {showIds (y3.flatMap (·.rows))} # stored3={stored3} # base {"/".intercalate base}")

def parseNatOpt (s : String) : Option (Option Nat) := if s == "-" then some none else do pure (some (← s.toNat?))

end C14
open C14

/-- ops of property C14 -/
def handleC14 : List String → Option String
  | ["c14.definerun", docs, data] => do
    let docs ← parseDocs docs
    pure <| showExcept (fun l => s!"passed={showIdsL l} stored={showIdsL (runDocSpec Generated.runDocSortKeys l)}") (defineRun docs (parseIds data))
  | ["c14.samekey", s1, c1, s2, c2] => do
    let c1 ← parseBool c1; let c2 ← parseBool c2
    let (i1, l1) ← parseSpec s1; let (i2, l2) ← parseSpec s2
    let same := decide (superrunKey keyH "_s" i1 l1 c1 = superrunKey keyH "_s" i2 l2 c2)
    pure s!"ok {same}"
  | "c14.iter" :: lv :: runId :: cs => do
    let lvs ← parseLevels lv; let lv ← lvs.head?; let cs ← cs.mapM parseRawChunk
    pure <| showExcept showChunks (rawChunksToChunks cs >>= pluginRun lv runId)
  | ["c14.super", name, levels, n, combining, write, premake, docs, data1, data2, src] => do
    let levels ← parseLevels levels; let n ← n.toNat?; let c ← parseBool combining; let wr ← parseBool write
    let pm ← parseNatOpt premake; let docs ← parseDocs docs; let src ← parseSrc src
    let (d1, l1) ← parseSpec data1; let (d2, l2) ← parseSpec data2
    let w : World := ⟨Generated.getSplitsArgmin0, superName name, levels, src⟩
    pure <| showExcept id (scenario w docs d1 l1 d2 l2 n c wr pm)
  | "c14.concat" :: rest => handleC07 ("concat" :: rest)
  | "c14.continuity" :: cs => do
    let cs ← cs.mapM parseRawChunk
    -- both models of `continuity_check` (Model/Superrun.lean and the shared Model/Chunk.lean) must agree
    let a := showExcept (fun _ => "-") (rawChunksToChunks cs >>= Superrun.continuityCheck)
    let b := showExcept (fun _ => "-") (rawChunksToChunks cs >>= Strax.continuityCheck)
    pure (if a == b then a else s!"models-disagree {a} / {b}")
  | "c14.splitruns" :: rest => handleC07 ("splitruns" :: rest)
  -- round 5: the `subruns` setter of `Chunk.__init__` (order by (start, end), overlap test) on a dict given in any order
  | "c14.mkchunk" :: rest => handleC07 ("mkchunk" :: rest)
  | _ => none

end Strax.Driver
