import StraxModel.Driver.Parse
namespace Strax.Driver
open Strax

/-- ops of property C15 (stub: no ops yet) -/
def handleC15 : List String → Option String
  | _ => none

end Strax.Driver
