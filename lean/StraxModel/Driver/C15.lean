import StraxModel.Driver.Parse
import StraxModel.Model.MultiRun
namespace Strax.Driver
open Strax Strax.MultiRun

namespace C15

def parseErr (s : String) : Option Err :=
  [Err.valueError, .runtimeError, .typeError, .keyError, .dataNotAvailable, .dataCorrupted,
   .osError, .assertionError, .notImplemented, .other].find? (·.name == s)

def plusNats (s : String) : Option (List Nat) :=
  if s.isEmpty then some [] else (s.splitOn "+").mapM (·.toNat?)

/-- `run/Kind` (raises), `run/1+2+3` (rows), `run/` (no rows) -/
def parseResult (tok : String) : Option (Nat × Except Err Rows) :=
  match tok.splitOn "/" with
  | [r, v] => do
    let r ← r.toNat?
    match parseErr v with
    | some e => pure (r, .error e)
    | none => pure (r, .ok (← plusNats v))
  | _ => none

def resultsFn (tbl : List (Nat × Except Err Rows)) (r : Nat) : Except Err Rows :=
  match tbl.find? (·.1 == r) with
  | some (_, v) => v
  | none => .ok []

def showRowsPlus (l : List Nat) : String := if l.isEmpty then "-" else "+".intercalate (l.map toString)

/-- a result array with its run_id column; an empty array shows no run id -/
def showEntry (e : Nat × Rows) : String :=
  if e.2.isEmpty then "_:-" else s!"{e.1}:{showRowsPlus e.2}"

def showEntries (l : List (Nat × Rows)) : String :=
  if l.isEmpty then "-" else ",".intercalate (l.map showEntry)

def parseKey (s : String) : Option Key :=
  if s.startsWith "p" then (s.drop 1).toNat?.map Key.plugin
  else if s.startsWith "t" then (s.drop 1).toNat?.map Key.temp
  else none

def showKey : Key → String
  | .plugin n => s!"p{n}"
  | .temp k => s!"t{k}"

def showKeys (l : List Key) : String := if l.isEmpty then "-" else "+".intercalate (l.map showKey)

def parseAct (s : String) : Option Act :=
  let rest := (s.drop 1).toString
  match s.front with
  | 'L' => (parseKey rest).map Act.lookup
  | 'S' => match rest.splitOn "/" with
    | [k, c] => do pure (.setKey (← parseKey k) (← c.toNat?))
    | _ => none
  | 'I' => rest.toNat?.map Act.iterBegin
  | 'N' => rest.toNat?.map Act.iterNext
  | 'C' => (parseKey rest).map Act.contains
  | 'G' => (parseKey rest).map Act.getKey
  | 'K' => if rest.isEmpty then some .snapshot else none
  | 'D' => (parseKey rest).map Act.delKey
  | 'R' => if rest.isEmpty then some .cacheRead else none
  | 'W' => (parseBool rest).map Act.cacheWrite
  | _ => none

def showRes : Res → String
  | .unit => "u"
  | .bool b => if b then "b1" else "b0"
  | .cls none => "c-"
  | .cls (some c) => s!"c{c}"
  | .item k => s!"i{showKey k}"
  | .stop => "s"
  | .keys l => s!"k{showKeys l}"
  | .err e => s!"e{e.name}"
  | .unspecified => "?"

/-- `d_key` -/
def parseDictKey (s : String) : Option (Nat × Key) :=
  match s.splitOn "_" with
  | [d, k] => do pure (← d.toNat?, ← parseKey k)
  | _ => none

def parseInstr (s : String) : Option Instr :=
  let rest := (s.drop 1).toString
  match s.front with
  | 'H' => if rest.isEmpty then some .contextHash else none
  | 'R' => rest.toNat?.map Instr.registerTemp
  | 'X' => rest.toNat?.map Instr.resolve
  | 'C' => if rest.isEmpty then some .cacheLookup else none
  | 'D' => if rest.isEmpty then some .deleteAllTemp else none
  | 'G' => rest.toNat?.map Instr.lookupTemp
  | 'g' => rest.toNat?.map Instr.tryLookupTemp
  | 'T' => if rest.isEmpty then some .cacheTest else none
  | 'U' => if rest.isEmpty then some .cacheUse else none
  | 'N' => if rest.isEmpty then some .cacheInit else none
  | 'I' => rest.toNat?.map Instr.innerIter
  | 'S' => (parseDictKey rest).map fun (d, k) => Instr.innerSet d k
  | 'Q' => (parseDictKey rest).map fun (d, k) => Instr.innerGet d k
  | _ => none

def showInstr : Instr → String
  | .contextHash => "H"
  | .registerTemp k => s!"R{k}"
  | .resolve k => s!"X{k}"
  | .cacheLookup => "C"
  | .deleteAllTemp => "D"
  | .lookupTemp k => s!"G{k}"
  | .tryLookupTemp k => s!"g{k}"
  | .cacheTest => "T"
  | .cacheUse => "U"
  | .cacheInit => "N"
  | .innerIter d => s!"I{d}"
  | .innerSet d k => s!"S{d}_{showKey k}"
  | .innerGet d k => s!"Q{d}_{showKey k}"

/-- initial inner dicts: `-` or `+`-separated key lists separated by `;`-free `,` : `p0+p1,p0` -/
def parseInner (s : String) : Option (List (List Key)) :=
  (splitList s ",").mapM fun tok => (splitList tok "+").mapM parseKey

def parseProg (s : String) : Option (List Instr) := (splitList s ".").mapM parseInstr

def showThread (t : Thread) : String :=
  match t.failed with
  | some e => s!"err:{e.name}"
  | none => if t.prog.isEmpty then "done" else s!"run:{t.prog.length}"

def showSys (sys : Sys) : String :=
  let ts := " ".intercalate (sys.threads.map showThread)
  s!"{ts} reg={showKeys (regKeys sys.shared.reg)} cache={if sys.shared.cacheSet then 1 else 0}"

end C15

open C15 in
/-- ops of property C15 (theory T12) -/
def handleC15 : List String → Option String
  | ["c15.mr", runs, order, results, ignore, throw, workers] => do
    let runs ← parseNats runs; let order ← parseNats order
    let tbl ← (splitList results ",").mapM parseResult
    let ig ← parseBool ignore; let th ← parseBool throw; let w ← workers.toNat?
    match multiRunFull ⟨order, resultsFn tbl, ig, th, w⟩ runs with
    | .error (e, sub) => pure s!"err {e.name} sub={showNats sub}"
    | .ok (none, sub) => pure s!"ok none sub={showNats sub}"
    | .ok (some r, sub) => pure s!"ok {showEntries r} sub={showNats sub}"
  | ["c15.seq", runs, results] => do
    let runs ← parseNats runs
    let tbl ← (splitList results ",").mapM parseResult
    pure s!"ok {showEntries (sequential runs (resultsFn tbl))}"
  | "c15.replay" :: cacheSet :: dicts => do
    -- one token `n:acts` per traced dict (dict 0 = the plugin registry, which also carries the
    -- reads / writes of the `_fixed_plugin_cache` attribute; the others = inner plugin-cache dicts)
    let c ← parseBool cacheSet
    let outs ← dicts.mapM fun tok => do
      match tok.splitOn ":" with
      | [n, acts] =>
        let n ← n.toNat?
        let acts ← (splitList acts ",").mapM parseAct
        let s0 : Shared := { reg := baseRegistry n, cacheSet := c, inserts := 0 }
        let res := replay s0 [] acts
        let fin := finalShared s0 [] acts
        let rs := if res.isEmpty then "-" else ",".intercalate (res.map showRes)
        pure s!"{rs} reg={showKeys (regKeys fin.reg)} cache={if fin.cacheSet then 1 else 0}"
      | _ => none
    pure ("ok " ++ " | ".intercalate outs)
  | ["c15.sched", nPlugins, cacheSet, inner, progs, schedule] => do
    let n ← nPlugins.toNat?; let c ← parseBool cacheSet; let inner ← parseInner inner
    let progs ← (progs.splitOn "/").mapM parseProg
    let sch ← parseNats schedule
    pure s!"ok {showSys ((Sys.initWith n c inner progs).run sch)}"
  | ["c15.blocks", nPlugins, cacheSet, inner, progs, schedule] => do
    let n ← nPlugins.toNat?; let c ← parseBool cacheSet; let inner ← parseInner inner
    let progs ← (progs.splitOn "/").mapM parseProg
    let sch ← parseNats schedule
    pure s!"ok {showSys ((Sys.initWith n c inner progs).runBlocks sch)}"
  | ["c15.workerprog", k] => do
    let k ← k.toNat?
    pure s!"ok {".".intercalate ((workerProg k).map showInstr)} {".".intercalate ((lockedProg k).map showInstr)}"
  | _ => none

end Strax.Driver
