import StraxModel.Driver.Parse
namespace Strax.Driver
open Strax

/-- ops of property C04 (stub: no ops yet) -/
def handleC04 : List String → Option String
  | _ => none

end Strax.Driver
