import StraxModel.Driver.Parse
import StraxModel.Model.FS
import StraxModel.Model.StorePolicy
/-
  Driver ops of property C04 (crash safety of the save protocol).

    c04.run <chunks> <attempt> …      run `make` attempts one after the other on one key, starting from the empty
                                      file system; one `;`-separated report per attempt

  chunks   `-` or `/`-separated `start;stop;rows`            (rows as everywhere: `t:e:id,…` or `-`)
  attempt  `variant|recheck|rmorder|fault|extraStart|extraChunks|abandoned|lostClose|show`
           lostClose 1 = threaded processor as it is (an exception of the final close is not reported, the behaviour before the D26 fix)
           variant ser|exe|frk, protocol 1 (current) | 0 (before the D3 fix) | 2 (before the D12 fix) | 3 (before the D35 fix), rmorder li|mf|ml,
           fault `none` | `+`-separated list of `exc@k` | `db@k` | `da@k` (k-th FS operation of the attempt) | `ab@k` (exception
           thrown in after k ops) | `sk@k` (the thread that would issue operation k fails without issuing it)
    c04.policy ow <never|if_broken|always> <ended 0|1> <exc 0|1>     `_can_overwrite`            -> `ok true|false`
    c04.policy broken <allow_incomplete 0|1> <ended> <exc>           check_broken block of `find` -> `ok` | `err DataNotAvailable`
    c04.policy wfind <dir exists 0|1> <policy> <ended> <exc>         `_find(write=True)`          -> `ok` | `err DataExistsError`

  report   `<result> find=<ok|err Kind> load=<ok chunks|err Kind> d12=<0|1> ops=<op,op,…>`
-/
namespace Strax.Driver.C04
open Strax Strax.FS Strax.Driver

def c04Chunk (i : String) : Option Chunk :=
  match i.splitOn ";" with
  | [a, b, rows] => do
    let rows ← parseRows rows
    pure { dataType := "d", kind := "k", runId := some "0", start := ← a.toInt?, stop := ← b.toInt?, rows,
           subruns := none, superrun := [], target := 0 }
  | _ => none

def c04Chunks (s : String) : Option (List Chunk) :=
  if s == "-" then some [] else (s.splitOn "/").mapM c04Chunk

def c04Variant : String → Option Variant
  | "ser" => some .serial | "exe" => some .executor | "frk" => some .forked | _ => none

/-- `1` current protocol, `0` before the D3 fix (futures unchecked), `2` before the D12 fix (broken data deleted in place),
`3` before the D35 fix (cleanup of inlined savers only waited) -/
def c04Proto : String → Option Proto
  | "1" => some {} | "0" => some { recheck := false } | "2" => some { atomicRemove := false }
  | "3" => some { cleanupChecks := false } | _ => none

def c04RmOrder : String → Option RmOrder
  | "li" => some .sorted | "mf" => some .metaFirst | "ml" => some .metaLast | _ => none

def c04Fault1 (s : String) : Option Fault :=
  match s.splitOn "@" with
  | ["exc", k] => do pure ⟨← k.toNat?, .exc⟩
  | ["db", k] => do pure ⟨← k.toNat?, .dieBefore⟩
  | ["da", k] => do pure ⟨← k.toNat?, .dieAfter⟩
  | ["ab", k] => do pure ⟨← k.toNat?, .abort⟩
  | ["sk", k] => do pure ⟨← k.toNat?, .skip⟩
  | _ => none

/-- `none` or `+`-separated faults of one attempt, e.g. `exc@7+da@12` -/
def c04Fault (s : String) : Option (List Fault) :=
  if s == "none" then some [] else (s.splitOn "+").mapM c04Fault1

def showDirId : DirId → String
  | .final => "F" | .temp => "T"

def showName : Name → String
  | .md => "m" | .chunk i => s!"c{i}" | .tmp i => s!"t{i}" | .cmeta i => s!"x{i}"

def showContent : Content → String
  | .empty => "0"
  | .rows rs => "r" ++ ".".intercalate (rs.map (toString ·.id))
  | .json m => s!"j{m.chunks.length}{if m.ended then "e" else "-"}{if m.exc then "x" else "-"}"
  | .info ci => s!"i{ci.i}"

def showOp : Op → String
  | .existsDir d => s!"exists:{showDirId d}"
  | .listdir d => s!"listdir:{showDirId d}"
  | .glob d => s!"glob:{showDirId d}"
  | .read d n => s!"read:{showDirId d}:{showName n}"
  | .mkdir d => s!"mkdir:{showDirId d}"
  | .openTrunc d n => s!"open:{showDirId d}:{showName n}"
  | .write d n c => s!"write:{showDirId d}:{showName n}:{showContent c}"
  | .close d n => s!"close:{showDirId d}:{showName n}"
  | .rename d a b => s!"mv:{showDirId d}:{showName a}:{showName b}"
  | .renameDir a b => s!"mvdir:{showDirId a}:{showDirId b}"
  | .unlink d n => s!"rm:{showDirId d}:{showName n}"
  | .rmdir d => s!"rmdir:{showDirId d}"

def showOps (l : List Op) : String := if l.isEmpty then "-" else ",".intercalate (l.map showOp)

def showResult : Result → String
  | .success => "success" | .raised => "raised" | .died => "died" | .stored => "stored" | .corrupted => "corrupted"

def showLoaded (cs : List Chunk) : String :=
  if cs.isEmpty then "-" else "/".intercalate (cs.map fun c => s!"{c.start}.{c.stop}.{showIds c.rows}")

def showUnit (r : Except Err Unit) : String :=
  match r with
  | .ok _ => "ok"
  | .error e => "err " ++ e.name

def showLoad (r : Except Err (List Chunk)) : String :=
  match r with
  | .ok cs => "ok " ++ showLoaded cs
  | .error e => "err " ++ e.name

structure C04Attempt where
  v : Variant
  proto : Proto
  order : RmOrder
  fault : List Fault
  extraStart : Nat
  extra : List Chunk
  abandoned : Bool
  lostClose : Bool
  show_ : String      -- which parts of the report to print: r(esult) o(ps) l(isting)

def c04Attempt (s : String) : Option C04Attempt :=
  match s.splitOn "|" with
  | [v, r, o, f, es, ex, ab, lc, sh] => do
    pure ⟨← c04Variant v, ← c04Proto r, ← c04RmOrder o, ← c04Fault f, ← es.toNat?, ← c04Chunks ex, ← parseBool ab,
          ← parseBool lc, sh⟩
  | _ => none

def nameKey : Name → Nat × Nat
  | .md => (0, 0) | .chunk i => (1, i) | .tmp i => (2, i) | .cmeta i => (3, i)

def showDir : Option Dir → String
  | none => "-"
  | some d =>
    let ns := (d.map (·.1)).mergeSort (fun a b => let x := nameKey a; let y := nameKey b; x.1 < y.1 || (x.1 == y.1 && x.2 ≤ y.2))
    "[" ++ ",".intercalate (ns.map showName) ++ "]"

def c04Report (fs : FS) (cs : List Chunk) (a : C04Attempt) : FS × String :=
  let (rr, res) := attempt fs a.v a.proto cs ⟨a.v, a.extra, a.extraStart, a.abandoned, a.lostClose⟩ a.order a.fault
  let c := rr.cfg
  let has (ch : Char) : Bool := a.show_.toList.contains ch
  let r := if has 'r' then showResult res else "*"
  let o := if has 'o' then showOps rr.log.reverse else "*"
  let l := if has 'l' then s!"F{showDir c.fs.final}T{showDir c.fs.temp}" else "*"
  (c.fs, s!"{r} find={showUnit (find c.fs)} load={showLoad (loads c.fs)} d12={if D12 c.fs then 1 else 0} ls={l} ops={o}")

def c04Run (cs : List Chunk) : FS → List C04Attempt → List String
  | _, [] => []
  | fs, a :: rest =>
    let (fs', line) := c04Report fs cs a
    line :: c04Run cs fs' rest

def c04Overwrite : String → Option Overwrite
  | "never" => some .never | "if_broken" => some .ifBroken | "always" => some .always | _ => none

def c04Bit : String → Option Bool
  | "0" => some false | "1" => some true | _ => none

end Strax.Driver.C04

namespace Strax.Driver
open Strax Strax.FS Strax.Driver.C04

def handleC04 : List String → Option String
  | "c04.run" :: chunks :: attempts => do
    let cs ← c04Chunks chunks
    let as ← attempts.mapM c04Attempt
    pure <| " ; ".intercalate (c04Run cs FS.empty as)
  | ["c04.policy", "ow", p, e, x] => do
    let p ← c04Overwrite p
    pure s!"ok {canOverwrite p ⟨[], ← c04Bit e, ← c04Bit x⟩}"
  | ["c04.policy", "broken", a, e, x] => do
    pure <| showUnit (brokenCheck (← c04Bit a) ⟨[], ← c04Bit e, ← c04Bit x⟩)
  | ["c04.policy", "wfind", d, p, e, x] => do
    let p ← c04Overwrite p
    pure <| if writeRefused (← c04Bit d) p ⟨[], ← c04Bit e, ← c04Bit x⟩ then "err DataExistsError" else "ok"
  | _ => none

end Strax.Driver
