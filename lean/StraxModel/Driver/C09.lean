import StraxModel.Driver.Parse
import StraxModel.Model.Overlap
import StraxModel.Model.OverlapDecl
namespace Strax.Driver
open Strax Strax.Overlap

/-- chunk of the dependency: `start~stop~rows` (rows `t:e:id,…` or `-`) -/
def c09ParseChunk (name kind : String) (s : String) : Option RawChunk :=
  match s.splitOn "~" with
  | [a, b, rows] => do
    pure ⟨name, kind, some "0", ← a.toInt?, ← b.toInt?, ← parseRows rows, none, none, 1000⟩
  | _ => none

def c09ShowChunk (c : Chunk) : String := s!"{c.start}~{c.stop}~{showRows c.rows}"

def c09ShowDict (d : Dict Chunk) : String :=
  if d.isEmpty then "{}" else ";".intercalate (d.map fun kv => s!"{kv.1}={c09ShowChunk kv.2}")

def c09ShowDicts (ds : List (Dict Chunk)) : String :=
  if ds.isEmpty then "-" else " ".intercalate (ds.map c09ShowDict)

/-- number of rows of the second kind within the window of every row of the first kind -/
def c09Cross (wl wr : Int) (rows other : List Row) : List Row :=
  rows.map fun r => { r with id := r.id * 1000 + (other.filter (near wl wr r)).length }

/-- NOT window-local on purpose: every output row tells which batch `compute` was called with
(id of the first row of the batch and its length) — makes the input cache rule observable -/
def c09Batch (rows : List Row) : List Row :=
  let first := match rows with
    | [] => 0
    | r :: _ => r.id
  rows.map fun r => { r with id := r.id * 1000000 + first * 1000 + rows.length }

/-- built-in computations, selectable by name; each takes the row lists of the input kinds in
keyword order (all but `cross` look at the first kind only) -/
def c09Comp (wl wr : Int) (name : String) : Option (List (List Row) → List Row) :=
  let first (f : List Row → List Row) : List (List Row) → List Row := fun l => f (l.headD [])
  match name.splitOn ":" with
  | ["ident"] => some (first fIdent)
  | ["count"] => some (first (fCount wl wr))
  | ["sum"] => some (first (fSum wl wr))
  | ["batch"] => some (first c09Batch)
  | ["gap", g] => do let g ← g.toInt?; pure (first (fGap g))
  | ["pair0", g] => do let g ← g.toInt?; pure (first (fPair 0 g))
  | ["pair1", g] => do let g ← g.toInt?; pure (first (fPair 1 g))
  | ["cross"] => some (fun l => match l with
      | [a, b] => c09Cross wl wr a b
      | _ => [])
  | _ => none

def c09Comp1 (wl wr : Int) (name : String) : Option (List Row → List Row) :=
  (c09Comp wl wr name).map fun f => fun rows => f [rows]

/-- plugin with outputs `o0, o1, …` computing the named computations -/
def c09Spec (multi : Bool) (wl wr : Int) (comps : List (List (List Row) → List Row)) : Spec where
  wl := wl
  wr := wr
  multi := multi
  provides := (List.range comps.length).map fun i => (s!"o{i}", s!"ok{i}")
  compute := fun kw => (List.range comps.length).zip comps |>.map fun (i, f) => (s!"o{i}", f (kw.map (·.2)))
  strict := true
  runId := "0"
  target := 1000

/-- what `get_window_size()` returns: `s:w` a number, `p:a:b` a tuple / list of two, `x` anything else -/
def c09ParseDecl (s : String) : Option WindowDecl :=
  match s.splitOn ":" with
  | ["s", w] => do pure (.scalar (← w.toInt?))
  | ["p", a, b] => do pure (.pair (← a.toInt?) (← b.toInt?))
  | ["x"] => some .other
  | _ => none

/-- one aligned call: `kind=chunk;kind=chunk` -/
def c09ParseCall (s : String) : Option (List (String × RawChunk)) :=
  (s.splitOn ";").mapM fun tok =>
    match tok.splitOn "=" with
    | [k, c] => do pure (k, ← c09ParseChunk s!"d_{k}" k c)
    | _ => none

def c09BuildCall (l : List (String × RawChunk)) : Except Err (Dict Chunk) :=
  Overlap.mapE (fun (p : String × RawChunk) => match p.2.mk' with
    | .error e => .error e
    | .ok c => .ok (p.1, c)) l

/-- hypotheses of the C09 theorems on a concrete chunk list -/
def c09Hyp (cs : List Chunk) : String :=
  s!"stream={if streamB cs then 1 else 0}"

/-- ops of theory T5 (overlap-window plugins). The real harness builds every `strax.Chunk`
before the plugin runs, so an invalid chunk is a constructor error on both sides. -/
def handleC09 : List String → Option String
  | "c09.run" :: comp :: wl :: wr :: cs => do
    let wl ← wl.toInt?; let wr ← wr.toInt?
    let f ← c09Comp1 wl wr comp
    let cs ← cs.mapM (c09ParseChunk "d0" "k0")
    pure <| showExcept (fun outs => if outs.isEmpty then "-" else " ".intercalate (outs.map c09ShowChunk))
      (Overlap.mapE (·.mk') cs >>= fun cs => runOverlap f (wl, wr) cs)
  | "c09.multi" :: comps :: wl :: wr :: cs => do
    let wl ← wl.toInt?; let wr ← wr.toInt?
    let fs ← (comps.splitOn ",").mapM (c09Comp wl wr)
    let cs ← cs.mapM (c09ParseChunk "d0" "k0")
    pure <| showExcept c09ShowDicts
      (Overlap.mapE (·.mk') cs >>= fun cs => runDicts (c09Spec true wl wr fs) "k0" cs)
  | "c09.calls" :: multi :: comps :: wl :: wr :: calls => do
    let m ← parseBool multi; let wl ← wl.toInt?; let wr ← wr.toInt?
    let fs ← (comps.splitOn ",").mapM (c09Comp wl wr)
    let calls ← calls.mapM c09ParseCall
    pure <| showExcept c09ShowDicts
      (Overlap.mapE c09BuildCall calls >>= fun calls => runCalls (c09Spec m wl wr fs) calls)
  | "c09.win" :: comps :: decl :: cs => do     -- any declared window form through `_get_window_size`
    let d ← c09ParseDecl decl
    let (wl, wr, ok, sign) := windowOf d
    let names := comps.splitOn ","
    let fs ← names.mapM (c09Comp wl wr)
    let cs ← cs.mapM (c09ParseChunk "d0" "k0")
    let spec := { c09Spec (decide (fs.length > 1)) wl wr fs with declOK := ok, signCheck := sign }
    let res : Except Err (List (Dict Chunk)) := Overlap.mapE (·.mk') cs >>= fun cs => runDicts spec "k0" cs
    let res1 : Except Err (List Chunk) := res >>= fun ds => Overlap.mapE single ds
    let out : String :=
      if fs.length > 1 then showExcept c09ShowDicts res
      else showExcept (fun (outs : List Chunk) => if outs.isEmpty then "-" else " ".intercalate (outs.map c09ShowChunk)) res1
    pure out
  | ["c09.getwin", decl] => do                 -- `_get_window_size` alone on a declared window form
    let d ← c09ParseDecl decl
    pure <| showExcept (fun (w : Int × Int) => s!"{w.1} {w.2}") (windowResult d)
  | "c09.bounds" :: comps :: wl :: wr :: cs => do   -- (invalid_beyond, cache_inputs_beyond) of every `do_compute` call
    let wl ← wl.toInt?; let wr ← wr.toInt?
    let fs ← (comps.splitOn ",").mapM (c09Comp wl wr)
    let cs ← cs.mapM (c09ParseChunk "d0" "k0")
    pure <| showExcept (fun (bs : List (Int × Int)) => if bs.isEmpty then "-" else " ".intercalate (bs.map fun b => s!"{b.1}:{b.2}"))
      (Overlap.mapE (·.mk') cs >>= fun cs => runBounds (c09Spec true wl wr fs) "k0" cs)
  | ["c09.whole", comp, wl, wr, rows] => do
    let wl ← wl.toInt?; let wr ← wr.toInt?
    let f ← c09Comp1 wl wr comp
    let rows ← parseRows rows
    pure s!"ok {showRows (f rows)}"
  | "c09.hyp" :: cs => do
    let cs ← cs.mapM (c09ParseChunk "d0" "k0")
    pure <| showExcept c09Hyp (Overlap.mapE (·.mk') cs)
  | _ => none

end Strax.Driver
