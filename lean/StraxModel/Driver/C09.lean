import StraxModel.Driver.Parse
namespace Strax.Driver
open Strax

/-- ops of property C09 (stub: no ops yet) -/
def handleC09 : List String → Option String
  | _ => none

end Strax.Driver
