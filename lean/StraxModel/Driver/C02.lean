import StraxModel.Driver.Parse
import StraxModel.Model.Lineage
/-
  Driver of property C02.  All ops start with `c02.`.  Values, classes and histories are sent in
  prefix notation (space separated tokens); every string payload is written `~text` so that the
  empty string is a token too.

    val   ::= i <int> | s ~str | t <n> val*n | l <n> val*n | d <n> (~key val)*n | S <n> ~str*n
            | b <0/1> | n | f <neg 0/1> <int part> <k> digit*k      (float: plain decimal repr, k >= 1)
    opt   ::= ~name <track 0/1> (~parent | -) (0 | 1 val)
    class ::= ~name ~version ~provides <n> ~dep*n <child 0/1> <n> (~base ~version)*n ~compressor <timeout> <n> opt*n <n> ~alsoProvides*n
    op    ::= SC <who> <n> (~key val)*n | RG <who> class | NC <who> | SF <who> <n> ~t*n <n> ~o*n
            | LN <who> ~d | ST <who> ~d | MK <who> ~d | GT <who> ~d | LS   (LS: list the directory)

    c02.canon val                 -> the JSON text fed to SHA-1 (now / before the set fix: c02.canon0)
    c02.run <rules> op*           -> outputs of all ops, joined by " ;; "
    c02.autover <n> (~attr ~source-digest)*n <n> (~attr ~source-digest)*n   -> same auto-inferred version?
    c02.match <rule: vals|canon|text> lineage lineage <n> ~t*n <n> ~o*n   (lineage ::= <n> (~type ~cls ~version <n> (~key val)*n)*n)
-/
namespace Strax.Driver
open Strax Strax.Lineage

abbrev Toks := List String

def pStr : Toks → Option (String × Toks)
  | t :: rest => if t.startsWith "~" then some ((t.drop 1).toString, rest) else none
  | [] => none

def pNat : Toks → Option (Nat × Toks)
  | t :: rest => do pure (← t.toNat?, rest)
  | [] => none

def pInt : Toks → Option (Int × Toks)
  | t :: rest => do pure (← t.toInt?, rest)
  | [] => none

def pBool : Toks → Option (Bool × Toks)
  | t :: rest => do pure (← parseBool t, rest)
  | [] => none

/-- `n` repetitions of a token parser -/
def pMany (p : Toks → Option (α × Toks)) : Nat → Toks → Option (List α × Toks)
  | 0, ts => some ([], ts)
  | n + 1, ts => do
    let (a, ts) ← p ts
    let (as, ts) ← pMany p n ts
    pure (a :: as, ts)

def pDigit : Toks → Option (Fin 10 × Toks)
  | t :: rest => do
    let n ← t.toNat?
    if h : n < 10 then pure (⟨n, h⟩, rest) else none
  | [] => none

def pCounted (p : Toks → Option (α × Toks)) (ts : Toks) : Option (List α × Toks) := do
  let (n, ts) ← pNat ts
  pMany p n ts

/-- values; fuel bounds the nesting depth -/
def pVal : Nat → Toks → Option (Val × Toks)
  | 0, _ => none
  | fuel + 1, t :: ts =>
    if t == "i" then do let (i, ts) ← pInt ts; pure (.int i, ts)
    else if t == "s" then do let (s, ts) ← pStr ts; pure (.str s, ts)
    else if t == "t" then do let (l, ts) ← pCounted (pVal fuel) ts; pure (.seq true l, ts)
    else if t == "l" then do let (l, ts) ← pCounted (pVal fuel) ts; pure (.seq false l, ts)
    else if t == "S" then do let (l, ts) ← pCounted pStr ts; pure (.sset l, ts)
    else if t == "b" then do let (b, ts) ← pBool ts; pure (.bool b, ts)
    else if t == "n" then pure (.none, ts)
    else if t == "f" then do
      let (neg, ts) ← pBool ts
      let (ip, ts) ← pNat ts
      let (ds, ts) ← pCounted pDigit ts
      match ds with
      | d :: rest => pure (.float neg ip d rest, ts)
      | [] => none
    else if t == "d" then do
      let (l, ts) ← pCounted (fun ts => do
        let (k, ts) ← pStr ts
        let (v, ts) ← pVal fuel ts
        pure ((k, v), ts)) ts
      pure (.dict l, ts)
    else none
  | _, [] => none

def pValue (ts : Toks) : Option (Val × Toks) := pVal 32 ts

def pKV (ts : Toks) : Option ((String × Val) × Toks) := do
  let (k, ts) ← pStr ts
  let (v, ts) ← pValue ts
  pure ((k, v), ts)

def pOpt (ts : Toks) : Option (Opt × Toks) := do
  let (name, ts) ← pStr ts
  let (track, ts) ← pBool ts
  let (parent, ts) ← match ts with
    | "-" :: rest => some (none, rest)
    | _ => do let (p, ts) ← pStr ts; pure (some p, ts)
  let (has, ts) ← pBool ts
  if has then do
    let (v, ts) ← pValue ts
    pure (⟨name, some v, track, parent⟩, ts)
  else pure (⟨name, none, track, parent⟩, ts)

def pClass (ts : Toks) : Option (PluginClass × Toks) := do
  let (name, ts) ← pStr ts
  let (version, ts) ← pStr ts
  let (provides, ts) ← pStr ts
  let (deps, ts) ← pCounted pStr ts
  let (child, ts) ← pBool ts
  let (bases, ts) ← pCounted (fun ts => do
    let (b, ts) ← pStr ts
    let (v, ts) ← pStr ts
    pure ((b, v), ts)) ts
  let (compressor, ts) ← pStr ts
  let (timeout, ts) ← pInt ts
  let (opts, ts) ← pCounted pOpt ts
  let (also, ts) ← pCounted pStr ts
  pure (⟨name, version, provides, deps, opts, child, bases, compressor, timeout, also⟩, ts)

/-- `LS` (no context): list the shared directory; everything else is an op of one context -/
def pOp : Toks → Option (Option Op × Toks)
  | "LS" :: ts => some (none, ts)
  | tag :: ts => do
    let (o, ts) ← pCtxOp tag ts
    pure (some o, ts)
  | [] => none
where pCtxOp (tag : String) (ts : Toks) : Option (Op × Toks) := do
    let (who, ts) ← pBool ts
    if tag == "SC" then do let (kvs, ts) ← pCounted pKV ts; pure (⟨who, .setConfig kvs⟩, ts)
    else if tag == "RG" then do let (c, ts) ← pClass ts; pure (⟨who, .register c⟩, ts)
    else if tag == "NC" then pure (⟨who, .newContext⟩, ts)
    else if tag == "SF" then do
      let (ff, ts) ← pCounted pStr ts
      let (ffo, ts) ← pCounted pStr ts
      pure (⟨who, .setFuzzy ff ffo⟩, ts)
    else do
      let (d, ts) ← pStr ts
      if tag == "LN" then pure (⟨who, .lineage d⟩, ts)
      else if tag == "ST" then pure (⟨who, .isStored d⟩, ts)
      else if tag == "MK" then pure (⟨who, .make d⟩, ts)
      else if tag == "GT" then pure (⟨who, .get d⟩, ts)
      else none

/-- all ops until the tokens run out -/
def pOps : Nat → Toks → Option (List (Option Op))
  | _, [] => some []
  | 0, _ => none
  | fuel + 1, ts => do
    let (o, ts) ← pOp ts
    let os ← pOps fuel ts
    pure (o :: os)

def pLineage (ts : Toks) : Option (Lineage × Toks) :=
  pCounted (fun ts => do
    let (t, ts) ← pStr ts
    let (c, ts) ← pStr ts
    let (v, ts) ← pStr ts
    let (cfg, ts) ← pCounted pKV ts
    pure ((t, (⟨c, v, cfg⟩ : Entry)), ts)) ts

def pRules (s : String) : Option Rules :=
  if s == "fixed" then some Rules.fixed
  else if s == "old" then some Rules.old
  else if s == "mergedhash" then some Rules.mergedHash
  else if s == "pyeqmatch" then some Rules.pyEqMatch
  else if s == "pyeqcanon" then some Rules.pyEqCanonMatch
  else none

def showLineage (l : Lineage) : String := canonString (lineageCanon l)

def showOut : Out → String
  | .err e => showErr e
  | .unit => "ok"
  | .lin l => "ok " ++ showLineage l
  | .bool b => if b then "ok True" else "ok False"
  | .data prov fuzzy => if fuzzy then "ok fuzzy" else "ok " ++ showLineage prov

def showListing (storage : List (Item String)) : String :=
  let l := sortS (storage.map fun it => it.dataType ++ "=" ++ showLineage it.lineage)
  if l.isEmpty then "ok -" else "ok " ++ " & ".intercalate l

/-- the driver instantiates the abstract hash with the identity on the JSON text -/
def runHistory (rules : Rules) : State String → List (Option Op) → List String
  | _, [] => []
  | s, none :: os => showListing s.storage :: runHistory rules s os
  | s, some o :: os =>
    match step rules (fun x : String => x) s o with
    | (out, s') => showOut out :: runHistory rules s' os

def handleC02 : List String → Option String
  | "c02.canon" :: ts => do
    let (v, rest) ← pValue ts
    if rest.isEmpty then pure ("ok " ++ canonString (canon v)) else none
  | "c02.canon0" :: ts => do
    let (v, rest) ← pValue ts
    if rest.isEmpty then pure ("ok " ++ canonString (canonWith false v)) else none
  | "c02.run" :: rules :: ts => do
    let rules ← pRules rules
    let ops ← pOps (ts.length + 1) ts
    pure (" ;; ".intercalate (runHistory rules State.init ops))
  | "c02.match" :: cm :: ts => do
    let cm ← (if cm == "vals" then some MatchRule.pyEqVals else if cm == "canon" then some .pyEqCanon
              else if cm == "text" then some .textEq else none)
    let (stored, ts) ← pLineage ts
    let (want, ts) ← pLineage ts
    let (ff, ts) ← pCounted pStr ts
    let (ffo, ts) ← pCounted pStr ts
    if ts.isEmpty then pure (if fuzzyMatches cm stored want ff ffo then "ok True" else "ok False") else none
  | "c02.autover" :: ts => do
    -- do two classes (attribute ↦ digest of its source) get the same auto-inferred version?
    let pAttr := fun (ts : Toks) => do
      let (a, ts) ← pStr ts
      let (src, ts) ← pStr ts
      pure ((a, src), ts)
    let (a1, ts) ← pCounted pAttr ts
    let (a2, ts) ← pCounted pAttr ts
    if ts.isEmpty then
      pure (if autoVersion (fun x => x) a1 == autoVersion (fun x => x) a2 then "ok True" else "ok False")
    else none
  | _ => none

end Strax.Driver
