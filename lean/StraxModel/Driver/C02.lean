import StraxModel.Driver.Parse
namespace Strax.Driver
open Strax

/-- ops of property C02 (stub: no ops yet) -/
def handleC02 : List String → Option String
  | _ => none

end Strax.Driver
