import StraxModel.Driver.Parse
import StraxModel.Model.Backpressure
import StraxModel.Driver.C06
import StraxModel.Model.NetPath
/-
  Driver ops of property C13 (chain model of Model/Backpressure.lean).

  wiring description, shared by all ops:  `<lazy> <caps> <savers>`
     lazy    0 | 1
     caps    capacities of the mailboxes of the chain, source side first, joined by `,`
     savers  number of savers per mailbox, joined by `,`
  `c13.wire <lazy> <caps> <savers>`
     answer `ok <mb_0>;<mb_1>;… B=<B> Blazy=<Blazy> Bpool=<B + 1>` with `<mb> = <cap>:<lazy>:<can_drive flags>`
  `c13.rest <lazy> <caps> <savers> <pool> <N> <k> <pre> <post>`
     pool = 1: worker pool (every stage sends futures, `Tid.resolve` resolves the futures somebody waits for);
     a source of N chunks; the pipeline runs under priority policy `pre` (`up` | `down` | `lag`) until the consumer
     has been handed k chunks, then the consumer is paused and everything else runs under `post` until nothing is
     enabled.  answer `ok wire=<mb_0>;<mb_1>;… pause=<source chunks computed at the pause> quiet=<… at quiescence>
     heaps=<messages buffered in every mailbox at the pause, joined by .>/<… at quiescence>
     rest=<1 if quiescent> B=<bound: B, with a pool Bpool, in lazy mode Blazy>`
  `c13.path <allowLazy> <maxWorkers|-> <maxMessages> <targets> <loaders> <defs> <plugins> <savers>`   (arguments as `c06.wire`)
     wires the components with c06's `wire` (Model/Net.lean), finds the cheapest path source mailbox -> consumer subscription
     and evaluates the hypothesis and the bound of `dag_rest_bound` on it.
     answer `ok hyp=<pathOk 0/1> sole=<the consumer is the only reader of its subscription 0/1> B=<pathBound>
     lagR=<pathLagR> path=<mailbox names joined by `>`> lags=<lag of every link joined by ,>
     gated=<names (sorted, joined by ,) of the mailboxes whose sender satisfies `senderOk`, the hypothesis of dag_lazy_gate; - if none>`
  `c13.netrest <allowLazy> <maxWorkers|-> <maxMessages> <targets> <loaders> <defs> <plugins> <savers> <k> <prio>`
     the DYNAMICS of the net that `wire` builds (Model/Net.lean `step`, consumer = drain), as `c06.run` runs them: fixed
     priorities (`prio` = thread names, highest first; the first enabled one runs) until the consumer has been handed k
     messages, then the consumer is left out until no other thread is enabled.
     answer `ok pause=<n_sent of every mailbox, creation order, joined by .> quiet=<… at quiescence> rest=<1 if no thread but
     the consumer is enabled>`
-/
namespace Strax.Driver.C13
open Strax Strax.Mailbox Strax.Backpressure

def parseWiring (lazy caps savers : String) : Option Wiring := do
  let lazy ← parseBool lazy
  let caps ← parseNats caps
  let savers ← parseNats savers
  if caps.isEmpty || savers.length != caps.length then none else
  pure { lazy := lazy, caps := caps, savers := savers }

def parsePolicy (s : String) : Option Policy :=
  if s == "up" then some .up else if s == "down" then some .down else if s == "lag" then some .lag else none

def b01 (b : Bool) : String := if b then "1" else "0"

def showMb (mb : MB) : String :=
  let cap := match mb.cap with
    | none => "inf"
    | some c => toString c
  s!"{cap}:{b01 mb.lazy}:{String.join (mb.subs.map fun sub => b01 sub.canDrive)}"

def wireDesc (w : Wiring) : String := ";".intercalate ((wire w 0).mbs.map showMb)

def showWire (w : Wiring) : String := s!"ok {wireDesc w} B={B w} Blazy={Blazy} Bpool={Bpool w}"

/-- the bound that applies to this wiring -/
def bound (w : Wiring) : Nat := if w.lazy then min Blazy (B w) else if w.pool then Bpool w else B w

def heapsOf (s : Net) : String := ".".intercalate (s.mbs.map fun mb => toString mb.heap.length)

def chunks (n : Nat) (s : Net) : Nat := min s.emitted n

def rest (w : Wiring) (n k : Nat) (pre post : Policy) : String :=
  let fuel := 200 * (n + 2) * (w.caps.length + 2) * (w.caps.foldl max 1 + 1)
  let (s1, _) := runPolicy pre true (fun s => decide (k ≤ s.pulled)) fuel (wire w n)
  let (s2, q) := runPolicy post false (fun _ => false) fuel s1
  s!"ok wire={wireDesc w} pause={chunks n s1} quiet={chunks n s2} heaps={heapsOf s1}/{heapsOf s2} rest={b01 (q && s2.quiescent)} B={bound w}"

/-! ### c13.path -/
open Strax.Net Strax.NetBP in
/-- largest excess of reads of (mi, si) over sends into mo, over all points of the program; and the other way round -/
def lagsOf (th : Net.Thread) (mi si mo : Nat) : Nat × Nat :=
  let r := cntRead mi si th.body
  let o := cntOut mo th.body
  (tails th.body).foldl (fun (acc : Nat × Nat) p =>
    (max acc.1 (r + cntOut mo p - (o + cntRead mi si p)), max acc.2 (o + cntRead mi si p - (r + cntOut mo p)))) (0, 0)

open Strax.Net Strax.NetBP in
def senderOf (net : Net.Net) (m : Nat) : Option Nat :=
  net.threads.findIdx? fun th => th.body.any fun i => i == .send m

open Strax.Net Strax.NetBP in
/-- cheapest way upstream from mailbox `m`: (cost = Σ 2·cap + lag - 1, first mailbox, links) -/
def bestPath (net : Net.Net) : Nat → Nat → Option (Nat × Nat × List Link)
  | 0, _ => none
  | fuel + 1, m =>
    let here := 2 * capOf net m
    match senderOf net m with
    | none => some (here, m, [])
    | some t =>
      match net.threads[t]? with
      | none => some (here, m, [])
      | some th =>
        if th.subs.isEmpty then some (here, m, [])
        else
          let cands := th.subs.filterMap fun (mi, si) =>
            match bestPath net fuel mi with
            | none => none
            | some (cost, m0, links) =>
              let (lag, lagR) := lagsOf th mi si m
              some (cost + here + lag - 1, m0, links ++ [({ t := t, mi := mi, si := si, mo := m, lag := lag, lagR := lagR } : Link)])
          cands.foldl (fun (best : Option (Nat × Nat × List Link)) c =>
            match best with
            | none => some c
            | some b => if c.1 < b.1 then some c else some b) none

open Strax.Net Strax.NetBP in
def pathOp (net : Net.Net) : String :=
  let c := net.threads.length - 1
  match net.threads[c]? with
  | none => "err no-consumer"
  | some main =>
    match main.subs with
    | [(mk, sk)] =>
      (match bestPath net (net.mbs.length + 1) mk with
       | none => "err no-path"
       | some (_, m0, links) =>
         let names := (m0 :: links.map (·.mo)).map fun m => (net.mbs[m]?.map (·.name)).getD "?"
         let gated := ((List.range net.mbs.length).filterMap fun m =>
           match senderOf net m with
           | some t => if senderOk net t m then net.mbs[m]?.map (·.name) else none
           | none => none).mergeSort (· ≤ ·)
         let gatedS := if gated.isEmpty then "-" else ",".intercalate gated
         s!"ok hyp={b01 (pathOk net m0 links mk sk)} sole={b01 (soleReader net c mk sk)} B={pathBound net m0 links} lagR={pathLagR links} path={">".intercalate names} lags={",".intercalate (links.map fun L => toString L.lag)} gated={gatedS}")
    | _ => "err consumer-subscriptions"

open Strax.Net in
def pathWire (lazy mw mm targets loaders defs plugins savers : String) : Option String := do
  let allowLazy ← parseBool lazy
  let mw ← if mw == "-" then some none else mw.toNat?.map some
  let mm ← mm.toNat?
  let loaders ← (splitList loaders ",").mapM C06.parseLoader
  let defs ← (splitList defs ";").mapM C06.parseDef
  let plugins ← (splitList plugins ",").mapM C06.parseKV
  let savers ← (splitList savers ",").mapM C06.parseKV
  let c : Components := { plugins := plugins, defs := defs, loaders := loaders,
                          savers := savers.map (fun (d, n) => (d, List.replicate n {})), targets := splitList targets "," }
  pure (pathOp (wire c { allowLazy := allowLazy, maxWorkers := mw, maxMessages := mm } .drain))

/-! ### c13.netrest -/
open Strax.Net Strax.NetBP in
/-- run under fixed priorities (first enabled thread of `prio`) until `stop` holds or nothing in `prio` is enabled -/
def runPrioUntil (net : Net.Net) (prio : List Nat) (stop : NState → Bool) : Nat → NState → NState × Bool
  | 0, s => (s, false)
  | f + 1, s =>
    if stop s then (s, false) else
    match prio.find? (fun t => (Net.step net s t).isSome) with
    | none => (s, true)
    | some t =>
      match Net.step net s t with
      | some s' => runPrioUntil net prio stop f s'
      | none => (s, true)

open Strax.Net Strax.NetBP in
def netRest (net : Net.Net) (k : Nat) (names : List String) : String :=
  let c := net.threads.length - 1
  match net.threads[c]? with
  | none => "err no-consumer"
  | some main =>
    match main.subs with
    | [(mk, sk)] =>
      let listed := names.filterMap fun n => net.threads.findIdx? (fun t => t.name == n)
      let prio := listed ++ (List.range net.threads.length).filter fun t => !listed.contains t
      let (s1, _) := runPrioUntil net prio (fun s => decide (k ≤ delivered s mk sk)) 1000000 (Net.init net)
      let (s2, q) := runPrioUntil net (prio.filter (· != c)) (fun _ => false) 1000000 s1
      let vec (s : NState) : String := ".".intercalate (s.mbs.map fun a => toString a.nSent)
      s!"ok pause={vec s1} quiet={vec s2} rest={b01 q}"
    | _ => "err consumer-subscriptions"

open Strax.Net in
def netRestWire (lazy mw mm targets loaders defs plugins savers k prio : String) : Option String := do
  let allowLazy ← parseBool lazy
  let mw ← if mw == "-" then some none else mw.toNat?.map some
  let mm ← mm.toNat?
  let loaders ← (splitList loaders ",").mapM C06.parseLoader
  let defs ← (splitList defs ";").mapM C06.parseDef
  let plugins ← (splitList plugins ",").mapM C06.parseKV
  let savers ← (splitList savers ",").mapM C06.parseKV
  let c : Components := { plugins := plugins, defs := defs, loaders := loaders,
                          savers := savers.map (fun (d, n) => (d, List.replicate n {})), targets := splitList targets "," }
  pure (netRest (wire c { allowLazy := allowLazy, maxWorkers := mw, maxMessages := mm } .drain) (← k.toNat?) (splitList prio ","))

end Strax.Driver.C13

namespace Strax.Driver
open Strax Strax.Driver.C13

/-- ops of property C13 -/
def handleC13 : List String → Option String
  | ["c13.wire", lazy, caps, savers] => do
    let w ← parseWiring lazy caps savers
    pure (showWire w)
  | ["c13.rest", lazy, caps, savers, pool, n, k, pre, post] => do
    let w ← parseWiring lazy caps savers
    let pool ← parseBool pool
    pure (rest { w with pool := pool } (← n.toNat?) (← k.toNat?) (← parsePolicy pre) (← parsePolicy post))
  | ["c13.path", lazy, mw, mm, targets, loaders, defs, plugins, savers] =>
    pathWire lazy mw mm targets loaders defs plugins savers
  | ["c13.netrest", lazy, mw, mm, targets, loaders, defs, plugins, savers, k, prio] =>
    netRestWire lazy mw mm targets loaders defs plugins savers k prio
  | _ => none

end Strax.Driver
