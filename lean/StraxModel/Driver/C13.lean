import StraxModel.Driver.Parse
namespace Strax.Driver
open Strax

/-- ops of property C13 (stub: no ops yet) -/
def handleC13 : List String → Option String
  | _ => none

end Strax.Driver
