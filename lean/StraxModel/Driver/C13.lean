import StraxModel.Driver.Parse
import StraxModel.Model.Backpressure
/-
  Driver ops of property C13 (chain model of Model/Backpressure.lean).

  wiring description, shared by all ops:  `<lazy> <caps> <savers>`
     lazy    0 | 1
     caps    capacities of the mailboxes of the chain, source side first, joined by `,`
     savers  number of savers per mailbox, joined by `,`
  `c13.wire <lazy> <caps> <savers>`
     answer `ok <mb_0>;<mb_1>;… B=<B> Blazy=<Blazy>` with `<mb> = <cap>:<lazy>:<can_drive flags>`
  `c13.rest <lazy> <caps> <savers> <N> <k> <pre> <post>`
     a source of N chunks; the pipeline runs under priority policy `pre` (`up` | `down` | `lag`) until the consumer
     has been handed k chunks, then the consumer is paused and everything else runs under `post` until nothing is
     enabled.  answer `ok wire=<mb_0>;<mb_1>;… pause=<source chunks computed at the pause> quiet=<… at quiescence>
     rest=<1 if quiescent> B=<bound: B, in lazy mode Blazy>`
-/
namespace Strax.Driver.C13
open Strax Strax.Mailbox Strax.Backpressure

def parseWiring (lazy caps savers : String) : Option Wiring := do
  let lazy ← parseBool lazy
  let caps ← parseNats caps
  let savers ← parseNats savers
  if caps.isEmpty || savers.length != caps.length then none else
  pure ⟨lazy, caps, savers⟩

def parsePolicy (s : String) : Option Policy :=
  if s == "up" then some .up else if s == "down" then some .down else if s == "lag" then some .lag else none

def b01 (b : Bool) : String := if b then "1" else "0"

def showMb (mb : MB) : String :=
  let cap := match mb.cap with
    | none => "inf"
    | some c => toString c
  s!"{cap}:{b01 mb.lazy}:{String.join (mb.subs.map fun sub => b01 sub.canDrive)}"

def wireDesc (w : Wiring) : String := ";".intercalate ((wire w 0).mbs.map showMb)

def showWire (w : Wiring) : String := s!"ok {wireDesc w} B={B w} Blazy={Blazy}"

/-- the bound that applies to this wiring -/
def bound (w : Wiring) : Nat := if w.lazy then min Blazy (B w) else B w

def chunks (n : Nat) (s : Net) : Nat := min s.emitted n

def rest (w : Wiring) (n k : Nat) (pre post : Policy) : String :=
  let fuel := 200 * (n + 2) * (w.caps.length + 2) * (w.caps.foldl max 1 + 1)
  let (s1, _) := runPolicy pre true (fun s => decide (k ≤ s.pulled)) fuel (wire w n)
  let (s2, q) := runPolicy post false (fun _ => false) fuel s1
  s!"ok wire={wireDesc w} pause={chunks n s1} quiet={chunks n s2} rest={b01 (q && s2.quiescent)} B={bound w}"

end Strax.Driver.C13

namespace Strax.Driver
open Strax Strax.Driver.C13

/-- ops of property C13 -/
def handleC13 : List String → Option String
  | ["c13.wire", lazy, caps, savers] => do
    let w ← parseWiring lazy caps savers
    pure (showWire w)
  | ["c13.rest", lazy, caps, savers, n, k, pre, post] => do
    let w ← parseWiring lazy caps savers
    pure (rest w (← n.toNat?) (← k.toNat?) (← parsePolicy pre) (← parsePolicy post))
  | _ => none

end Strax.Driver
