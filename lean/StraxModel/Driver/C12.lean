import StraxModel.Driver.Parse
namespace Strax.Driver
open Strax

/-- ops of property C12 (stub: no ops yet) -/
def handleC12 : List String → Option String
  | _ => none

end Strax.Driver
