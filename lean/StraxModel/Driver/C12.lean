import StraxModel.Driver.Parse
import StraxModel.Model.Contract
/-
  Driver ops of property C12 (theory T11 Contract).  One token per argument, no spaces inside.

  rdtype   `-` (no fields) or fields separated by `;`, a field is `name:code` or `title/name:code`
  plugin   `provides+dtype+dtypes+kind+kinds+runId+target`
             provides `a,b` ; dtypes `d=rdtype&d=rdtype` or `-` ; kinds `d=k&d=k` or `-`
  leaf     `A~rdtype~rows` array | `C~declared~datadtype~rawchunk` chunk (built with `chunkInit`)
           | `D~k=1,2&k2=3` column dict (`D~-` empty) | `N` None | `S~n` sequence | `P~n` plain array
  result   leaf | `O@key^leaf@key^leaf` dict of outputs (`O` = empty)
  range    `-` | `start,stop`
  down     `X` not a generator | `G#result#result…`
-/
namespace Strax.Driver.C12
open Strax Strax.Contract Strax.Driver

def parseField (s : String) : Option RField :=
  match s.splitOn ":" with
  | [nm, code] =>
    match nm.splitOn "/" with
    | [n] => some ⟨none, n, code⟩
    | [t, n] => some ⟨some t, n, code⟩
    | _ => none
  | _ => none

def parseRDtype (s : String) : Option RDtype :=
  if s == "-" then some [] else (s.splitOn ";").mapM parseField

def parseKV (f : String → Option α) (s : String) : Option (List (String × α)) :=
  if s == "-" then some []
  else (s.splitOn "&").mapM fun kv =>
    match kv.splitOn "=" with
    | [k, v] => do pure (k, ← f v)
    | _ => none

def parsePlugin (s : String) : Option Plugin :=
  match s.splitOn "+" with
  | [prov, dt, dts, k, ks, rid, tg] => do
    pure { provides := splitList prov ",", dtype := ← parseRDtype dt, dtypes := ← parseKV parseRDtype dts,
           kind := k, kinds := ← parseKV some ks, runId := rid, target := ← tg.toNat? }
  | _ => none

def showDtype (d : Dtype) : String :=
  if d.isEmpty then "-" else ";".intercalate (d.map fun (n, c) => s!"{n}:{c}")

/-- chunk text without the target size (it depends on the item size of the dtype) -/
def showChunk12 (c : Chunk) : String :=
  s!"{c.dataType}|{c.kind}|{showStrOpt c.runId}|{c.start}|{c.stop}|{showRows c.rows}|{showRunsOpt c.subruns}|{showRuns c.superrun}"

def showCChunk (c : CChunk) : String :=
  s!"{showChunk12 c.c}~{showDtype (stripTitles c.dtype)}~{showDtype (stripTitles c.dataDtype)}"

def showFixed : Fixed → String
  | .one c => s!"one {showCChunk c}"
  | .many l => "many" ++ String.join (l.map fun (d, c) => s!" {d}={showCChunk c}")

def rawToCChunk (declared : RDtype) (data : DataArg) (r : RawChunk) : Except Err CChunk :=
  chunkInit r.dataType r.kind r.runId declared r.start r.stop data r.subruns r.superrun r.target

/-- `Option (Except …)`: outer = parse failure, inner = the chunk could not be constructed -/
def parseLeaf (s : String) : Option (Except Err Leaf) :=
  match s.splitOn "~" with
  | ["A", dt, rows] => do pure (.ok (.array (← parseRDtype dt) (← parseRows rows)))
  | ["C", decl, ddt, rc] => do
    let decl ← parseRDtype decl; let ddt ← parseRDtype ddt; let rc ← parseRawChunk rc
    pure ((rawToCChunk decl (.array ddt rc.rows) rc).map Leaf.chunk)
  | ["D", e] => do pure (.ok (.cols (← parseKV parseInts e)))
  | ["N"] => some (.ok .noneVal)
  | ["S", n] => do pure (.ok (.seq (← n.toNat?)))
  | ["P", n] => do pure (.ok (.plain (← n.toNat?)))
  | _ => none

def seqExcept : List (String × Except Err Leaf) → Except Err (List (String × Leaf))
  | [] => .ok []
  | (k, x) :: rest => do
    let v ← x
    let r ← seqExcept rest
    pure ((k, v) :: r)

def parseResult (s : String) : Option (Except Err Result) :=
  if s == "O" then some (.ok (.outputs []))
  else if s.startsWith "O@" then do
    let entries ← ((s.drop 2).toString.splitOn "@").mapM fun kv =>
      match kv.splitOn "^" with
      | [k, l] => do pure (k, ← parseLeaf l)
      | _ => none
    pure ((seqExcept entries).map Result.outputs)
  else do
    let l ← parseLeaf s
    pure (l.map Result.leaf)

def parseRange (s : String) : Option (Option (Int × Int)) :=
  if s == "-" then some none
  else match s.splitOn "," with
    | [a, b] => do pure (some (← a.toInt?, ← b.toInt?))
    | _ => none

def seqExceptL : List (Except Err α) → Except Err (List α)
  | [] => .ok []
  | x :: rest => do
    let v ← x
    let r ← seqExceptL rest
    pure (v :: r)

def parseDown (s : String) : Option (Except Err DownResult) :=
  if s == "X" then some (.ok .notGenerator)
  else if s == "G" then some (.ok (.gen []))
  else if s.startsWith "G#" then do
    let items ← ((s.drop 2).toString.splitOn "#").mapM parseResult
    pure ((seqExceptL items).map DownResult.gen)
  else none

def parseDataArg (s : String) (rows : List Row) : Option DataArg :=
  if s == "None" then some .none
  else if s == "!" then some .notArray
  else do pure (.array (← parseRDtype s) rows)

def showPartial (f : α → String) (x : List α × Option Err) : String :=
  let body := if x.1.isEmpty then "-" else " ".intercalate (x.1.map f)
  match x.2 with
  | none => s!"ok {x.1.length} {body}"
  | some e => s!"err {e.name} after {x.1.length} {body}"

def parseDecl (prov dt kd : String) : Option PluginDecl := do
  let d ← if dt == "missing" then some DtypeDecl.missing
    else if dt.startsWith "dict:" then do pure (DtypeDecl.dict (← parseKV parseRDtype (dt.drop 5).toString))
    else do pure (DtypeDecl.single (← parseRDtype dt))
  pure ⟨splitList prov ",", d, ← parseBool kd⟩

/-- a saver-protocol run: outputs `start:stop` (an accepted chunk), `!` (rejected with ValueError) or `!P` (PluginGaveWrongOutput) -/
def parseOuts (s : String) : Option (List (Except Err (Int × Int))) :=
  (splitList s ",").mapM fun t =>
    if t == "!P" then some (.error .pluginGaveWrongOutput)
    else if t.startsWith "!" then some (.error .valueError)
    else match t.splitOn ":" with
      | [a, b] => do pure (.ok (← a.toInt?, ← b.toInt?))
      | _ => none

end Strax.Driver.C12

namespace Strax.Driver
open Strax Strax.Contract Strax.Driver.C12

def handleC12 : List String → Option String
  | ["c12.chunk", decl, data, rc] => do
    let decl ← parseRDtype decl; let rc ← parseRawChunk rc; let data ← parseDataArg data rc.rows
    pure <| showExcept showCChunk (rawToCChunk decl data rc)
  | ["c12.pchunk", p, range, d, data, rows] => do
    let p ← parsePlugin p; let rows ← parseRows rows; let data ← parseDataArg data rows
    let (a, b) ← (← parseRange range)
    pure <| showExcept showCChunk (p.chunk a b data (parseStrOpt d))
  | ["c12.checkdtype", p, d, leaf] => do
    let p ← parsePlugin p; let l ← parseLeaf leaf
    pure <| showExcept (fun _ => "-") (l >>= fun l => checkDtype p l (parseStrOpt d))
  | ["c12.fix", p, range, sup, sub, res] => do
    let p ← parsePlugin p; let range ← parseRange range; let sup ← parseRunsOpt sup; let sub ← parseRunsOpt sub
    let r ← parseResult res
    pure <| showExcept showFixed (r >>= fun r => fixOutput p r range sup sub)
  | ["c12.fixdown", p, sup, sub, res] => do
    let p ← parsePlugin p; let sup ← parseRunsOpt sup; let sub ← parseRunsOpt sub
    let r ← parseDown res
    match r with
    | .error e => pure (showErr e)
    | .ok r => pure <| showPartial showFixed (fixOutputDown p r sup sub)
  | "c12.stream" :: cs => do
    let cs ← cs.mapM parseRawChunk
    match rawChunksToChunks' cs with
    | .error e => pure (showErr e)
    | .ok cs => pure <| showPartial (fun c => s!"{c.start}:{c.stop}") (targetStream cs)
  | ["c12.fixdtype", prov, dt, kd] => do
    let d ← parseDecl prov dt kd
    pure <| showExcept (fun _ => "-") (fixDtype d)
  | ["c12.process", outs] => do
    let outs ← parseOuts outs
    let (sv, out, e) := process contCheck none outs {}
    let vis := if sv.visible then "stored" else "not-stored"
    let cl := if sv.closed then 1 else 0
    pure <| match e with
      | none => s!"ok {out.length} {vis} written={sv.written.length} closed={cl}"
      | some e => s!"err {e.name} after {out.length} {vis} written={sv.written.length} closed={cl}"
  | ["c12.processeager", outs] => do
    let outs ← parseOuts outs
    let (sv, e) := processEager contCheck none outs {}
    let vis := if sv.visible then "stored" else "not-stored"
    pure <| match e with
      | none => s!"ok {vis}"
      | some e => s!"err {e.name} {vis}"
  | _ => none
where
  rawChunksToChunks' (rs : List RawChunk) : Except Err (List Chunk) := rs.mapM (·.mk')

end Strax.Driver
