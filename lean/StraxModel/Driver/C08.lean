import StraxModel.Driver.Parse
import StraxModel.Model.Align
namespace Strax.Driver.C08
open Strax Strax.Align Strax.Driver

/-- chunk of a dependency: `start~stop~rows` (rows `t:e:id,…` or `-`) -/
def parseDepChunk (name kind : String) (s : String) : Option RawChunk :=
  match s.splitOn "~" with
  | [a, b, rows] => do
    pure ⟨name, kind, some "0", ← a.toInt?, ← b.toInt?, ← parseRows rows, none, none, 1000⟩
  | _ => none

/-- one dependency: `name;kind;chunk;chunk;…` -/
def parseDepTok (s : String) : Option (Dep × List RawChunk) :=
  match s.splitOn ";" with
  | name :: kind :: cs => do
    let cs ← cs.mapM (parseDepChunk name kind)
    pure (⟨name, kind⟩, cs)
  | _ => none

def showCall (c : Call) : String :=
  ";".intercalate (toString c.start :: toString c.stop :: c.rows.map showRows)

def showCalls (cs : List Call) : String := if cs.isEmpty then "-" else " ".intercalate (cs.map showCall)

def showBools (l : List Bool) : String := if l.isEmpty then "-" else ",".intercalate (l.map fun b => if b then "1" else "0")

/-- the real harness builds every `strax.Chunk` before `iter` starts, so an invalid chunk is a
constructor error for both sides -/
def buildDeps (ds : List (Dep × List RawChunk)) : Except Err (List Dep × List (List Chunk)) :=
  match ds.mapM (fun (p : Dep × List RawChunk) => p.2.mapM (·.mk')) with
  | .error e => .error e
  | .ok cs => .ok (ds.map (·.1), cs)

/-- save policy token: `0` / `1` (tolerant / strict) or `s:<n>,<n>…` = the `save_when` values of the
provided data types (`NEVER 0, EXPLICIT 1, TARGET 2, ALWAYS 3`), decided by `saveWhenStrict` -/
def parsePolicy (s : String) : Option Bool :=
  if s.startsWith "s:" then (parseNats (s.drop 2).toString).map saveWhenStrict else parseBool s

end Strax.Driver.C08

namespace Strax.Driver
open Strax Strax.Align Strax.Driver.C08

/-- ops of theory T4 (input alignment in `Plugin.iter`). -/
def handleC08 : List String → Option String
  | "c08.iter" :: strict :: deps => do
    let st ← parsePolicy strict; let ds ← deps.mapM parseDepTok
    pure <| showExcept showCalls (buildDeps ds >>= fun (d, cs) => iterModel d cs st)
  | "c08.tenpass" :: strict :: deps => do   -- is this input's failure exactly the ten-pass limit (D9)?
    let st ← parsePolicy strict; let ds ← deps.mapM parseDepTok
    pure <| showExcept (fun (d, cs) =>
        -- first digit: ten passes give RuntimeError; second: a budget that always suffices runs to the end
        let ten := match iterRunP maxPasses d cs st with
          | .error .runtimeError => "1"
          | _ => "0"
        let big := match iterRunP (maxPasses + (cs.map allRows).flatten.length + 2) d cs st with
          | .ok _ => "1"
          | .error _ => "0"
        ten ++ big) (buildDeps ds)
  | "c08.run" :: strict :: deps => do    -- calls and leftover
    let st ← parseBool strict; let ds ← deps.mapM parseDepTok
    pure <| showExcept (fun r => s!"{showCalls r.calls} | {";".intercalate (r.leftover.map showRows)}")
      (buildDeps ds >>= fun (d, cs) => iterRun d cs st)
  | "c08.hyp" :: strict :: t0 :: deps => do   -- hypotheses of the theorems on this input
    let st ← parseBool strict; let t0 ← t0.toInt?; let ds ← deps.mapM parseDepTok
    pure <| showExcept (fun (d, cs) =>
        s!"law={showBools (cs.map lawAbidingB)} start={if startAtB t0 cs then 1 else 0} passes={if passesSufficeB d cs st then 1 else 0}")
      (buildDeps ds)
  | _ => none

end Strax.Driver
