import StraxModel.Driver.Parse
namespace Strax.Driver
open Strax

/-- ops of property C08 (stub: no ops yet) -/
def handleC08 : List String → Option String
  | _ => none

end Strax.Driver
