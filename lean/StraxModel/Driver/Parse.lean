import StraxModel.Model.Rechunk
/-
  Line-protocol glue shared by all drivers: parsing of rows / runs / chunks and canonical printing.
  Trusted, kept trivial.  Lists use `,`, record fields `:`, chunk fields `|`, `-` = empty / None.
-/
namespace Strax.Driver
open Strax

def splitList (s : String) (sep : String) : List String :=
  if s == "-" || s.isEmpty then [] else s.splitOn sep

def parseRow (tok : String) : Option Row :=
  match tok.splitOn ":" with
  | [a, b, c] => do pure ⟨← a.toInt?, ← b.toInt?, ← c.toNat?⟩
  | _ => none

def parseRows (s : String) : Option (List Row) := (splitList s ",").mapM parseRow

def parseInts (s : String) : Option (List Int) := (splitList s ",").mapM (·.toInt?)
def parseNats (s : String) : Option (List Nat) := (splitList s ",").mapM (·.toNat?)

def parseRun (tok : String) : Option Run :=
  match tok.splitOn ":" with
  | [a, b, c] => do pure ⟨a, ← b.toInt?, ← c.toInt?⟩
  | _ => none

/-- `-` = None, `{}` = empty dict, else `id:s:e,id:s:e` -/
def parseRunsOpt (s : String) : Option (Option Runs) :=
  if s == "-" then some none
  else if s == "{}" then some (some [])
  else do pure (some (← (s.splitOn ",").mapM parseRun))

def parseStrOpt (s : String) : Option String := if s == "-" then none else some s

/-- raw chunk description (before constructor validation):
`dataType|kind|runId|start|stop|rows|subruns|superrun|target` -/
structure RawChunk where
  dataType : String
  kind : String
  runId : Option String
  start : Int
  stop : Int
  rows : List Row
  subruns : Option Runs
  superrun : Option Runs
  target : Nat

def parseRawChunk (s : String) : Option RawChunk :=
  match s.splitOn "|" with
  | [dt, k, rid, a, b, rows, sub, sup, tg] => do
    pure ⟨dt, k, parseStrOpt rid, ← a.toInt?, ← b.toInt?, ← parseRows rows,
          ← parseRunsOpt sub, ← parseRunsOpt sup, ← tg.toNat?⟩
  | _ => none

def RawChunk.mk' (r : RawChunk) : Except Err Chunk :=
  mkChunk r.dataType r.kind r.runId r.start r.stop r.rows r.subruns r.superrun r.target

def showRow (r : Row) : String := s!"{r.time}:{r.endt}:{r.id}"
def showRows (rs : List Row) : String := if rs.isEmpty then "-" else ",".intercalate (rs.map showRow)
def showIds (rs : List Row) : String := if rs.isEmpty then "-" else ",".intercalate (rs.map (toString ·.id))
def showNats (l : List Nat) : String := if l.isEmpty then "-" else ",".intercalate (l.map toString)
def showInts (l : List Int) : String := if l.isEmpty then "-" else ",".intercalate (l.map toString)
def showRuns (rs : Runs) : String :=
  if rs.isEmpty then "{}" else ",".intercalate (rs.map fun r => s!"{r.id}:{r.start}:{r.stop}")
def showRunsOpt : Option Runs → String
  | none => "-"
  | some rs => showRuns rs
def showStrOpt : Option String → String
  | none => "-"
  | some s => s

def showChunk (c : Chunk) : String :=
  s!"{c.dataType}|{c.kind}|{showStrOpt c.runId}|{c.start}|{c.stop}|{showRows c.rows}|{showRunsOpt c.subruns}|{showRuns c.superrun}|{c.target}"

def showChunks (cs : List Chunk) : String := if cs.isEmpty then "-" else " ".intercalate (cs.map showChunk)

def showErr (e : Err) : String := s!"err {e.name}"

def showExcept (f : α → String) : Except Err α → String
  | .ok a => "ok " ++ f a
  | .error e => showErr e

def parseBool (s : String) : Option Bool :=
  if s == "1" then some true else if s == "0" then some false else none

end Strax.Driver
