import StraxModel.Driver.Parse
namespace Strax.Driver
open Strax

/-- ops of property C10 (stub: no ops yet) -/
def handleC10 : List String → Option String
  | _ => none

end Strax.Driver
