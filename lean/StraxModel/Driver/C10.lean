import StraxModel.Driver.Parse
import StraxModel.Model.SelectionMulti
namespace Strax.Driver.C10
open Strax Strax.Selection Strax.Driver

/-- chunk of a stored layout: `start~stop~rows` (rows `t:e:id,…` or `-`) -/
def c10Chunk (name kind : String) (s : String) : Option RawChunk :=
  match s.splitOn "~" with
  | [a, b, rows] => do
    pure ⟨name, kind, some "0", ← a.toInt?, ← b.toInt?, ← parseRows rows, none, none, 1000⟩
  | _ => none

/-- one stored data type: `name;kind;chunk;chunk;…` (possibly no chunk at all) -/
def c10Layout (s : String) : Option (Align.Dep × List RawChunk) :=
  match s.splitOn ";" with
  | name :: kind :: cs => do
    let cs ← cs.mapM (c10Chunk name kind)
    pure (⟨name, kind⟩, cs)
  | _ => none

/-- the loader builds every chunk with `strax.Chunk(...)`: constructor errors are errors of the load -/
def c10Build (p : Align.Dep × List RawChunk) : Except Err (Align.Dep × List Chunk) :=
  match p.2.mapM (·.mk') with
  | .error e => .error e
  | .ok cs => .ok (p.1, cs)

def c10Sec (s : String) : Option Sec :=
  match s.splitOn "/" with
  | [a, b] => do
    let d ← b.toNat?
    if d = 0 then none else pure ⟨← a.toInt?, d⟩
  | _ => none

def c10Range (a b : String) : Option Range := do pure (← a.toInt?, ← b.toInt?)

/-- `-` or `+`-joined parts `tr:t0:t1`, `sr:n/d:n/d`, `tw:time:endtime`, `rs:<start of the run document, s>` -/
def c10TimeArgs (s : String) : Option TimeArgs :=
  (splitList s "+").foldlM (fun (acc : TimeArgs) tok =>
    match tok.splitOn ":" with
    | ["tr", a, b] => do pure { acc with timeRange := some (← c10Range a b) }
    | ["sr", a, b] => do pure { acc with secondsRange := some (← c10Sec a, ← c10Sec b) }
    | ["tw", a, b] => do pure { acc with timeWithin := some (← c10Range a b) }
    | ["rs", a] => do pure { acc with runDocStartS := some (← a.toInt?) }
    | _ => none) {}

def c10Mode (s : String) : Option Mode :=
  if s == "fc" then some .fullyContained
  else if s == "to" then some .touching
  else if s == "skip" then some .skip
  else if s == "bogus" then some .unknown
  else none

/-- atoms of the tiny selection language the harness turns into selection strings / callables -/
def c10Atom (s : String) : Option (Row → Bool) :=
  match s.splitOn ":" with
  | ["ige", k] => do let k ← k.toNat?; pure fun r => decide (r.id ≥ k)
  | ["ile", k] => do let k ← k.toNat?; pure fun r => decide (r.id ≤ k)
  | ["imod", m, x] => do
    let m ← m.toNat?; let x ← x.toNat?
    if m = 0 then none else pure fun r => decide (r.id % m = x)
  | ["tge", t] => do let t ← t.toInt?; pure fun r => decide (r.time ≥ t)
  | ["dge", n] => do let n ← n.toInt?; pure fun r => decide (r.endt - r.time ≥ n)
  | _ => none

/-- `-` = no selection, else `&`-joined atoms -/
def c10Pred (s : String) : Option (Option (Row → Bool)) :=
  if s == "-" then some none
  else do
    let atoms ← (s.splitOn "&").mapM c10Atom
    pure (some fun r => atoms.all fun p => p r)

def c10Names (s : String) : List String := splitList s ","

def showNames (l : List String) : String := if l.isEmpty then "-" else ",".intercalate l

def showSelected (p : List Row × List String) : String := s!"{showIds p.1} | {showNames p.2}"

def showLoaded (c : Chunk) : String := s!"{c.start}~{c.stop}~{showIds c.rows}"

def c10SaveWhen (s : String) : Option SaveWhen :=
  if s == "never" then some .never
  else if s == "explicit" then some .explicit
  else if s == "target" then some .target
  else if s == "always" then some .always
  else none

def showPlan : Plan → String
  | .load => "load"
  | .computeSave => "save"
  | .computeNoSave => "nosave"

def c10B (b : Bool) : String := if b then "1" else "0"

end Strax.Driver.C10

namespace Strax.Driver
open Strax Strax.Selection Strax.Driver.C10

/-- ops of theory T10 (time-range / row / column selection of stored data). -/
def handleC10 : List String → Option String
  | ["c10.load", layout, t0, t1] => do
    let l ← c10Layout layout
    let r : Option Range ← if t0 == "-" then pure none else do pure (some (← c10Range t0 t1))
    pure <| showExcept (fun cs => if cs.isEmpty then "-" else " ".intercalate (cs.map showLoaded))
      (c10Build l >>= fun (_, cs) => loader cs r)
  | ["c10.sel", mode, t0, t1, pred, fields, keep, drop, rows] => do
    let m ← c10Mode mode; let p ← c10Pred pred; let rows ← parseRows rows
    let r : Option Range ← if t0 == "-" then pure none else do pure (some (← c10Range t0 t1))
    pure <| showExcept showSelected
      (applySelection (c10Names fields) ⟨m, p, c10Names keep, c10Names drop⟩ r rows)
  | ["c10.abs", layout, targs] => do
    let l ← c10Layout layout; let a ← c10TimeArgs targs
    pure <| showExcept (fun r => match r with
        | none => "none"
        | some (a, b) => s!"{a} {b}")
      (c10Build l >>= fun (_, cs) => toAbsolute cs a)
  | ["c10.get", fields, targs, mode, pred, keep, drop, layout] => do
    let a ← c10TimeArgs targs; let m ← c10Mode mode; let p ← c10Pred pred; let l ← c10Layout layout
    pure <| showExcept showSelected
      (c10Build l >>= fun (_, cs) => getArray (c10Names fields) cs a ⟨m, p, c10Names keep, c10Names drop⟩)
  | "c10.multi" :: fields :: targs :: mode :: pred :: keep :: drop :: layouts => do
    let a ← c10TimeArgs targs; let m ← c10Mode mode; let p ← c10Pred pred
    let ls ← layouts.mapM c10Layout
    pure <| showExcept showSelected
      (ls.mapM c10Build >>= fun ts => getArrayMulti (c10Names fields) ts a ⟨m, p, c10Names keep, c10Names drop⟩)
  | ["c10.epi", seen, hasRange] => do
    let s ← parseBool seen; let h ← parseBool hasRange
    pure <| showExcept (fun _ => "-") (epilogue s (if h then some (0, 0) else none))
  | ["c10.plan", stored, sw, isTarget, inSave, hasRange, hasSel, hasCols] => do
    let st ← parseBool stored; let sw ← c10SaveWhen sw; let it ← parseBool isTarget
    let is ← parseBool inSave; let hr ← parseBool hasRange; let hs ← parseBool hasSel
    let hc ← parseBool hasCols
    pure <| showExcept showPlan (savePlan st sw it is hr hs hc)
  | ["c10.hyp", layout] => do
    let l ← c10Layout layout
    pure <| showExcept (fun (_, cs) => s!"law={c10B (lawAbidingB cs)}") (c10Build l)
  | _ => none

end Strax.Driver
