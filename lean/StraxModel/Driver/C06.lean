import StraxModel.Driver.Parse
namespace Strax.Driver
open Strax

/-- ops of property C06 (stub: no ops yet) -/
def handleC06 : List String → Option String
  | _ => none

end Strax.Driver
