import StraxModel.Driver.Parse
import StraxModel.Model.Net
import StraxModel.Model.PostOffice
import StraxModel.Lemmas.NetOutcome
import StraxModel.Model.KillExc
/-
  Driver ops of property C06.

  `c06.wire <allowLazy> <maxWorkers|-> <maxMessages> <targets> <loaders> <defs> <plugins> <savers>`
      targets   data types joined by `,`
      loaders   `-` | `name:chunks` joined by `,`
      defs      plugin instances joined by `;` : `cls|provides(.)|depends_on(.)|max_messages or -|chunks`
      plugins   `components.plugins` in dict order: `datatype=defIndex` joined by `,`
      savers    `components.savers` in dict order: `datatype=numberOfSavers` joined by `,`   (`-` = empty dict)
    answer: `ok <mailbox>;<mailbox>;… # <thread>;<thread>;…`
      mailbox = `key|lazy|max_messages|can_drive bits|thread names joined by ,`   (creation order of the dict)
      thread  = `name<sub+sub…>{flow_freely}[outputs]` with sub = `mailboxkey@subscriberIndex`; `outputs` = what a
                `divide_outputs` reader sends into (threads in join order, `main` last)

  `c06.run <allowLazy> <maxWorkers|-> <maxMessages> <targets> <loaders> <defs> <plugins> <savers> <fault> <consumer> <prio>`
      the same description, run: every stage program is `genericProg` (read every dependency, emit; once more at the end),
      fault     `-` | `plugin:<defIndex>:<i>` (raise in the i-th compute) | `load:<d>:<i>` | `save:<d>:<i>` | `close:<d>:0`
      consumer  `d` (drain) | `f<k>` (give up after k chunks)
      prio      thread names, highest priority first; the enabled thread that comes first always runs (fixed priorities)
    answer: `ok <mailbox>;… # <thread>;… # out=<none|returned|raised[…]> end=<final|deadlock> tree=<0|1> steps=<n>`
      mailbox = `key|closed killed|n_sent|have_read joined by .` ; thread = `name=ok|own[Injected[id]]|run`
      tree = `TreeNet ∧ SinksListed` holds for `certOf (wire …)` (the hypothesis of the net-level theorems)

  `c06.kill <killed 0/1> <force_killed 0/1> <has reason 0/1> <call>`   (round 5: kill bookkeeping of ONE mailbox)
      call = `k:<upstream 0|1|->:<reason given 0/1>` (`Mailbox.kill`; `-` = keyword default) |
             `x:<m|o>:<reraise 0|1|->` (`kill_from_exception` of `MailboxKilled(arg0)` / of another exception)
      answer `ok killed= force= reason=<none|old|new|arg0|triple> notified=<r.w.f|-> raised=<e|->`: flags and wake-ups by
      `MB.kill` (a mailbox with one blocked waiter on each condition), reason by `Net.killReason` / `AMB.kill`,
      re-raise by `Net.killFromException`
  `c06.po <op>;<op>;…`   (a script against one PostOffice; one answer token per op, then the final state)
      `P:<topics .>:<registered . or ->:<script>`  register_producer; script = `-` | instrs joined by `,`:
                                                  `g<k>` = next() on the k-th `_read` generator, `y` = yield, `x<e>` = raise e
      `S:<topic>:<failSave|->:<failClose 0/1>:<exc>`  register_spy(SaverSpy(saver))
      `I:<topic>:<reader>`                           get_iter (the generators are numbered in creation order)
      `N:<g>`                                        next() on generator g
      `K`                                            kill_spies()
      `R:<topic>:<consumer>`                         SingleThreadProcessor.iter() with `topic` as target (its reader is
                                                     "FINAL" = reader 99, its generator gets the next index); consumer =
                                                     `d` (drain) | `t<k>.<e>` (throw e after k messages) | `c<k>` (close after k)
-/
namespace Strax.Driver.C06
open Strax

/-! ### c06.wire -/
open Strax.Net in
def parseLoader (s : String) : Option (String × List SInstr) :=
  match s.splitOn ":" with
  | [n, k] => do pure (n, List.replicate (← k.toNat?) SInstr.emit)
  | _ => none

open Strax.Net in
/-- a generic stage program: read every dependency, emit; at the end read every dependency once more -/
def genericProg (ndeps chunks : Nat) : List SInstr :=
  let reads := (List.range ndeps).map SInstr.read
  (List.replicate chunks (reads ++ [SInstr.emit])).flatten ++ reads

open Strax.Net in
def parseDef (s : String) : Option PluginD :=
  match s.splitOn "|" with
  | [cls, prov, deps, mm, chunks] => do
    let mm ← if mm == "-" then some none else mm.toNat?.map some
    let deps := splitList deps "."
    pure { cls := cls, provides := splitList prov ".", dependsOn := deps, maxMessages := mm,
           prog := genericProg deps.length (← chunks.toNat?) }
  | _ => none

def parseKV (s : String) : Option (String × Nat) :=
  match s.splitOn "=" with
  | [k, v] => do pure (k, ← v.toNat?)
  | _ => none

open Strax.Net in
def showWire (net : Net) : String :=
  let mbName (i : Nat) : String := (net.mbs[i]?.map (·.name)).getD "?"
  let mbs := net.mbs.map fun m =>
    s!"{m.name}|{if m.lazy then "1" else "0"}|{m.cap}|{String.ofList (m.drive.map fun b => if b then '1' else '0')}|{",".intercalate m.threads}"
  let ths := net.threads.map fun t =>
    let subs := "+".intercalate (t.subs.map fun (i, s) => s!"{mbName i}@{s}")
    t.name ++ "<" ++ subs ++ ">{" ++ "+".intercalate t.free ++ "}[" ++ "+".intercalate t.outs ++ "]"
  s!"ok {";".intercalate mbs} # {";".intercalate ths}"

open Strax.Net in
def wireOp (lazy mw mm targets loaders defs plugins savers : String) : Option String := do
  let allowLazy ← parseBool lazy
  let mw ← if mw == "-" then some none else mw.toNat?.map some
  let mm ← mm.toNat?
  let loaders ← (splitList loaders ",").mapM parseLoader
  let defs ← (splitList defs ";").mapM parseDef
  let plugins ← (splitList plugins ",").mapM parseKV
  let savers ← (splitList savers ",").mapM parseKV
  let c : Components := { plugins := plugins, defs := defs, loaders := loaders,
                          savers := savers.map (fun (d, n) => (d, List.replicate n {})), targets := splitList targets "," }
  pure (showWire (wire c { allowLazy := allowLazy, maxWorkers := mw, maxMessages := mm } .drain))

/-! ### c06.run: the net semantics under a fixed-priority schedule -/
open Strax.Net in
/-- insert `fail e` in front of the i-th `emit` -/
def failBeforeEmit (e : Nat) : Nat → List SInstr → List SInstr
  | _, [] => []
  | 0, .emit :: r => .fail e :: .emit :: r
  | i + 1, .emit :: r => .emit :: failBeforeEmit e i r
  | i, x :: r => x :: failBeforeEmit e i r

open Strax.Net in
/-- always run the enabled thread that comes first in `prio` -/
def runPrio (net : Net) (prio : List Nat) : Nat → NState → Nat → NState × Nat
  | 0, s, n => (s, n)
  | f + 1, s, n =>
    match prio.find? (fun t => (step net s t).isSome) with
    | none => (s, n)
    | some t =>
      match step net s t with
      | some s' => runPrio net prio f s' (n + 1)
      | none => (s, n)

open Strax.Net in
def showExcN : Exc → String
  | .inj i => s!"Injected[{i}]"
  | .alreadyClosed => "MailBoxAlreadyClosed"

open Strax.Net in
def showRun (net : Net) (s : NState) (steps : Nat) : String :=
  let mbs := (net.mbs.zip s.mbs).map fun (sp, a) =>
    let hr := a.subs.map fun sb => toString (Int.ofNat sb.next - 1)
    s!"{sp.name}|{if a.closed then "1" else "0"}{if a.killed then "1" else "0"}|{a.nSent}|{".".intercalate hr}"
  let ths := (net.threads.zip s.thr).map fun (th, ts) =>
    let st := if !ts.prog.isEmpty then "run" else
      match ts.exc with
      | some (true, e) => s!"own[{showExcN e}]"
      | _ => "ok"
    s!"{th.name}={st}"
  let out := match s.outcome with
    | none => "none"
    | some .returned => "returned"
    | some (.raised e) => s!"raised[{showExcN e}]"
  let c := certOf net
  let tree := if decide (TreeNet net c ∧ SinksListed net c) then "1" else "0"
  s!"ok {";".intercalate mbs} # {";".intercalate ths} # out={out} end={if s.allEnded then "final" else "deadlock"} tree={tree} steps={steps}"

open Strax.Net in
def runOp (lazy mw mm targets loaders defs plugins savers fault consumer prio : String) : Option String := do
  let allowLazy ← parseBool lazy
  let mw ← if mw == "-" then some none else mw.toNat?.map some
  let mm ← mm.toNat?
  let loaders ← (splitList loaders ",").mapM parseLoader
  let defs ← (splitList defs ";").mapM parseDef
  let plugins ← (splitList plugins ",").mapM parseKV
  let savers ← (splitList savers ",").mapM parseKV
  let f := fault.splitOn ":"
  let (defs, loaders, saverFault) ← match f with
    | ["-"] => some (defs, loaders, (none : Option (String × Option Nat)))
    | ["plugin", k, i] => do
      let k ← k.toNat?
      let i ← i.toNat?
      pure ((List.range defs.length).zip defs |>.map (fun (j, d) => if j == k then { d with prog := failBeforeEmit 7 i d.prog } else d),
            loaders, none)
    | ["load", d, i] => do
      let i ← i.toNat?
      pure (defs, loaders.map (fun (n, p) => if n == d then (n, failBeforeEmit 7 i p) else (n, p)), none)
    | ["save", d, i] => do pure (defs, loaders, some (d, some (← i.toNat?)))
    | ["close", d, _] => some (defs, loaders, some (d, none))
    | _ => none
  let saverDs := savers.map fun (d, n) =>
    (d, (List.range n).map fun k =>
      match saverFault with
      | some (d', some i) => if d' == d && k == 0 then ({ failAt := some i, exc := 7 } : SaverD) else {}
      | some (d', none) => if d' == d && k == 0 then ({ failClose := true, exc := 7 } : SaverD) else {}
      | none => {})
  let cons ← if consumer == "d" then some Consumer.drain
    else if consumer.startsWith "f" then (consumer.drop 1).toString.toNat?.map (Consumer.failAt · 7) else none
  let c : Components := { plugins := plugins, defs := defs, loaders := loaders, savers := saverDs, targets := splitList targets "," }
  let net := wire c { allowLazy := allowLazy, maxWorkers := mw, maxMessages := mm } cons
  let names := splitList prio ","
  let listed := names.filterMap fun n => net.threads.findIdx? (fun t => t.name == n)
  let rest := (List.range net.threads.length).filter fun t => !listed.contains t
  let (s, steps) := runPrio net (listed ++ rest) 100000 (init net) 0
  pure (showRun net s steps)

/-! ### c06.kill (round 5) -/
open Strax.Mailbox Strax.Net in
def killOp (killed force has call : String) : Option String := do
  let bit (s : String) : Option Bool := if s == "1" then some true else if s == "0" then some false else none
  let k ← bit killed
  let f ← bit force
  let h ← bit has
  -- one blocked waiter on each of the three conditions: a wake-up shows as `some true`
  let mb : MB := { cap := some 1, lazy := true, gateRule := .hasMsg, heap := [],
                   subs := [{ next := 0, waitingFor := none, canDrive := true, flag := some false }], nSent := 0, closed := false,
                   killed := k, forceKilled := f, writeFlag := some false, fetchFlag := some false }
  let old : Option Exc := if h then some (.inj 0) else none
  let showSt (mb' : MB) (reason : Option Exc) (newName : String) (raised : Bool) : String :=
    let woke := (if mb'.subs.all (fun s => s.flag == some true) then ["r"] else []) ++
      (if mb'.writeFlag == some true then ["w"] else []) ++ (if mb'.fetchFlag == some true then ["f"] else [])
    let rs := match reason with
      | none => "none"
      | some (.inj 0) => "old"
      | some _ => newName
    s!"ok killed={if mb'.killed then 1 else 0} force={if mb'.forceKilled then 1 else 0} reason={rs} " ++
      s!"notified={if woke.isEmpty then "-" else ".".intercalate woke} raised={if raised then "e" else "-"}"
  match call.splitOn ":" with
  | ["k", up, rs] =>
    let u ← if up == "-" then some killUpstreamDefault else bit up
    let r ← bit rs
    some (showSt (mb.kill u) (killReason k old (if r then some (.inj 1) else none)) "new" false)
  | ["x", kind, rr] =>
    let own ← if kind == "o" then some true else if kind == "m" then some false else none
    let re ← if rr == "-" then some killReraiseDefault else bit rr
    let (a', raised) := killFromException { killed := k, reason := old } own (.inj 1) re
    some (showSt (mb.kill true) a'.reason (if own then "triple" else "arg0") raised)
  | _ => none

/-! ### c06.po -/
open Strax.PostOffice

def parsePInstr (s : String) : Option PInstr :=
  if s == "y" then some .yield
  else if s.startsWith "g" then (s.drop 1).toString.toNat?.map .pull
  else if s.startsWith "x" then (s.drop 1).toString.toNat?.map .raise
  else none

def showExc : Exc → String
  | .inj i => s!"Injected[{i}]"
  | .alreadyClosed => "AlreadyClosed"
  | .saveToClosed => "SaveToClosed"
  | e => e.kind

def showRes : Res → String
  | .msg v => s!"m{v}"
  | .stop => "stop"
  | .raised e => s!"err({showExc e})"
  | .fuel => "fuel"

def dots (l : List Nat) : String := if l.isEmpty then "_" else ".".intercalate (l.map toString)

def showOutcome : Outcome → String
  | .finished got => s!"fin({dots got})"
  | .raised e none => s!"raised({showExc e})"
  | .raised e (some c) => s!"raised({showExc e}<{showExc c})"
  | .closed got => s!"closed({dots got})"
  | .fuel => "fuel"

def showTopic (t : Topic) : String :=
  let readers := if t.readers.isEmpty then "_" else "+".intercalate (t.readers.map fun (r, c) => s!"{r}={c}")
  let spies := if t.spies.isEmpty then "_" else "+".intercalate (t.spies.map fun s => s!"{if s.closed then "c" else "o"}{s.saved}")
  s!"{t.id}:saved={dots t.saved}:prod={t.produced}:readers={readers}:done={dots t.done}:exh={if t.exhausted then "1" else "0"}:spies={spies}"

def parseConsumer (s : String) : Option Consumer :=
  if s == "d" then some .drain
  else if s.startsWith "c" then (s.drop 1).toString.toNat?.map .closeAt
  else if s.startsWith "t" then
    match (s.drop 1).toString.splitOn "." with
    | [k, e] => do pure (.throwAt (← k.toNat?) (← e.toNat?))
    | _ => none
  else none

def poFuel : Nat := 100000

/-- run one op; `none` = malformed -/
def poOp (po : PO) (op : String) : Option (PO × String) :=
  match op.splitOn ":" with
  | ["P", topics, registered, script] => do
    let ts ← (splitList topics ".").mapM (·.toNat?)
    let reg ← (splitList registered ".").mapM (·.toNat?)
    let sc ← (splitList script ",").mapM parsePInstr
    match po.registerProducer sc ts reg with
    | .ok po' => pure (po', "ok")
    | .error e =>
      -- the generator object exists even though the registration failed (keeps the numbering aligned)
      pure ({ po with producers := po.producers ++ [{ script := sc }] }, s!"err({showExc e})")
  | ["S", topic, fs, fc, exc] => do
    let fs ← if fs == "-" then some none else fs.toNat?.map some
    pure (po.registerSpy (← topic.toNat?) { failSave := fs, failClose := ← parseBool fc, exc := ← exc.toNat? }, "ok")
  | ["I", topic, reader] => do
    pure (po.getIter (← topic.toNat?) (← reader.toNat?), "ok")
  | ["N", g] => do
    let (po', r) := readNext poFuel po (← g.toNat?)
    pure (po', showRes r)
  | ["K"] =>
    match po.killSpies with
    | (po', some e) => some (po', s!"err({showExc e})")
    | (po', none) => some (po', "ok")
  | ["R", topic, c] => do
    -- `iter()` creates its own reader: `self.post_office.get_iter(topic=target, reader="FINAL")` (reader 99 here)
    let po1 := po.getIter (← topic.toNat?) 99
    let (po', out) := procIter poFuel po1 (po1.gens.length - 1) (← parseConsumer c) poFuel []
    pure (po', showOutcome out)
  | _ => none

def poRun (ops : List String) : Option String := do
  let (po, toks) ← ops.foldlM (fun (acc : PO × List String) op => do
    let (po', tok) ← poOp acc.1 op
    pure (po', acc.2 ++ [tok])) (({} : PO), [])
  pure s!"ok {",".intercalate toks} | {" ".intercalate (po.topics.map showTopic)}"

end Strax.Driver.C06

namespace Strax.Driver
open Strax

/-- ops of property C06 -/
def handleC06 : List String → Option String
  | ["c06.wire", lazy, mw, mm, targets, loaders, defs, plugins, savers] =>
    C06.wireOp lazy mw mm targets loaders defs plugins savers
  | ["c06.run", lazy, mw, mm, targets, loaders, defs, plugins, savers, fault, consumer, prio] =>
    C06.runOp lazy mw mm targets loaders defs plugins savers fault consumer prio
  | ["c06.kill", killed, force, has, call] => C06.killOp killed force has call
  | ["c06.po", ops] => C06.poRun (ops.splitOn ";")
  | _ => none

end Strax.Driver
