import StraxModel.Driver.Parse
import StraxModel.Model.Net
import StraxModel.Model.PostOffice
/-
  Driver ops of property C06.

  `c06.wire <allowLazy> <maxWorkers|-> <maxMessages> <targets> <loaders> <defs> <plugins> <savers>`
      targets   data types joined by `,`
      loaders   `-` | `name:chunks` joined by `,`
      defs      plugin instances joined by `;` : `cls|provides(.)|depends_on(.)|max_messages or -|chunks`
      plugins   `components.plugins` in dict order: `datatype=defIndex` joined by `,`
      savers    `components.savers` in dict order: `datatype=numberOfSavers` joined by `,`   (`-` = empty dict)
    answer: `ok <mailbox>;<mailbox>;… # <thread>;<thread>;…`
      mailbox = `key|lazy|max_messages|can_drive bits|thread names joined by ,`   (creation order of the dict)
      thread  = `name<sub+sub…>{flow_freely}[outputs]` with sub = `mailboxkey@subscriberIndex`; `outputs` = what a
                `divide_outputs` reader sends into (threads in join order, `main` last)

  `c06.po <op>;<op>;…`   (a script against one PostOffice; one answer token per op, then the final state)
      `P:<topics .>:<registered . or ->:<script>`  register_producer; script = `-` | instrs joined by `,`:
                                                  `g<k>` = next() on the k-th `_read` generator, `y` = yield, `x<e>` = raise e
      `S:<topic>:<failSave|->:<failClose 0/1>:<exc>`  register_spy(SaverSpy(saver))
      `I:<topic>:<reader>`                           get_iter (the generators are numbered in creation order)
      `N:<g>`                                        next() on generator g
      `K`                                            kill_spies()
      `R:<topic>:<consumer>`                         SingleThreadProcessor.iter() with `topic` as target (its reader is
                                                     "FINAL" = reader 99, its generator gets the next index); consumer =
                                                     `d` (drain) | `t<k>.<e>` (throw e after k messages) | `c<k>` (close after k)
-/
namespace Strax.Driver.C06
open Strax

/-! ### c06.wire -/
open Strax.Net in
def parseLoader (s : String) : Option (String × List SInstr) :=
  match s.splitOn ":" with
  | [n, k] => do pure (n, List.replicate (← k.toNat?) SInstr.emit)
  | _ => none

open Strax.Net in
/-- a generic stage program: read every dependency, emit; at the end read every dependency once more -/
def genericProg (ndeps chunks : Nat) : List SInstr :=
  let reads := (List.range ndeps).map SInstr.read
  (List.replicate chunks (reads ++ [SInstr.emit])).flatten ++ reads

open Strax.Net in
def parseDef (s : String) : Option PluginD :=
  match s.splitOn "|" with
  | [cls, prov, deps, mm, chunks] => do
    let mm ← if mm == "-" then some none else mm.toNat?.map some
    let deps := splitList deps "."
    pure { cls := cls, provides := splitList prov ".", dependsOn := deps, maxMessages := mm,
           prog := genericProg deps.length (← chunks.toNat?) }
  | _ => none

def parseKV (s : String) : Option (String × Nat) :=
  match s.splitOn "=" with
  | [k, v] => do pure (k, ← v.toNat?)
  | _ => none

open Strax.Net in
def showWire (net : Net) : String :=
  let mbName (i : Nat) : String := (net.mbs[i]?.map (·.name)).getD "?"
  let mbs := net.mbs.map fun m =>
    s!"{m.name}|{if m.lazy then "1" else "0"}|{m.cap}|{String.ofList (m.drive.map fun b => if b then '1' else '0')}|{",".intercalate m.threads}"
  let ths := net.threads.map fun t =>
    let subs := "+".intercalate (t.subs.map fun (i, s) => s!"{mbName i}@{s}")
    t.name ++ "<" ++ subs ++ ">{" ++ "+".intercalate t.free ++ "}[" ++ "+".intercalate t.outs ++ "]"
  s!"ok {";".intercalate mbs} # {";".intercalate ths}"

open Strax.Net in
def wireOp (lazy mw mm targets loaders defs plugins savers : String) : Option String := do
  let allowLazy ← parseBool lazy
  let mw ← if mw == "-" then some none else mw.toNat?.map some
  let mm ← mm.toNat?
  let loaders ← (splitList loaders ",").mapM parseLoader
  let defs ← (splitList defs ";").mapM parseDef
  let plugins ← (splitList plugins ",").mapM parseKV
  let savers ← (splitList savers ",").mapM parseKV
  let c : Components := { plugins := plugins, defs := defs, loaders := loaders,
                          savers := savers.map (fun (d, n) => (d, List.replicate n {})), targets := splitList targets "," }
  pure (showWire (wire c { allowLazy := allowLazy, maxWorkers := mw, maxMessages := mm } .drain))

/-! ### c06.po -/
open Strax.PostOffice

def parsePInstr (s : String) : Option PInstr :=
  if s == "y" then some .yield
  else if s.startsWith "g" then (s.drop 1).toString.toNat?.map .pull
  else if s.startsWith "x" then (s.drop 1).toString.toNat?.map .raise
  else none

def showExc : Exc → String
  | .inj i => s!"Injected[{i}]"
  | e => e.kind

def showRes : Res → String
  | .msg v => s!"m{v}"
  | .stop => "stop"
  | .raised e => s!"err({showExc e})"
  | .fuel => "fuel"

def dots (l : List Nat) : String := if l.isEmpty then "_" else ".".intercalate (l.map toString)

def showOutcome : Outcome → String
  | .finished got => s!"fin({dots got})"
  | .raised e none => s!"raised({showExc e})"
  | .raised e (some c) => s!"raised({showExc e}<{showExc c})"
  | .closed got => s!"closed({dots got})"
  | .fuel => "fuel"

def showTopic (t : Topic) : String :=
  let readers := if t.readers.isEmpty then "_" else "+".intercalate (t.readers.map fun (r, c) => s!"{r}={c}")
  let spies := if t.spies.isEmpty then "_" else "+".intercalate (t.spies.map fun s => s!"{if s.closed then "c" else "o"}{s.saved}")
  s!"{t.id}:saved={dots t.saved}:prod={t.produced}:readers={readers}:done={dots t.done}:exh={if t.exhausted then "1" else "0"}:spies={spies}"

def parseConsumer (s : String) : Option Consumer :=
  if s == "d" then some .drain
  else if s.startsWith "c" then (s.drop 1).toString.toNat?.map .closeAt
  else if s.startsWith "t" then
    match (s.drop 1).toString.splitOn "." with
    | [k, e] => do pure (.throwAt (← k.toNat?) (← e.toNat?))
    | _ => none
  else none

def poFuel : Nat := 100000

/-- run one op; `none` = malformed -/
def poOp (po : PO) (op : String) : Option (PO × String) :=
  match op.splitOn ":" with
  | ["P", topics, registered, script] => do
    let ts ← (splitList topics ".").mapM (·.toNat?)
    let reg ← (splitList registered ".").mapM (·.toNat?)
    let sc ← (splitList script ",").mapM parsePInstr
    match po.registerProducer sc ts reg with
    | .ok po' => pure (po', "ok")
    | .error e =>
      -- the generator object exists even though the registration failed (keeps the numbering aligned)
      pure ({ po with producers := po.producers ++ [{ script := sc }] }, s!"err({showExc e})")
  | ["S", topic, fs, fc, exc] => do
    let fs ← if fs == "-" then some none else fs.toNat?.map some
    pure (po.registerSpy (← topic.toNat?) { failSave := fs, failClose := ← parseBool fc, exc := ← exc.toNat? }, "ok")
  | ["I", topic, reader] => do
    pure (po.getIter (← topic.toNat?) (← reader.toNat?), "ok")
  | ["N", g] => do
    let (po', r) := readNext poFuel po (← g.toNat?)
    pure (po', showRes r)
  | ["K"] =>
    match po.killSpies with
    | (po', some e) => some (po', s!"err({showExc e})")
    | (po', none) => some (po', "ok")
  | ["R", topic, c] => do
    -- `iter()` creates its own reader: `self.post_office.get_iter(topic=target, reader="FINAL")` (reader 99 here)
    let po1 := po.getIter (← topic.toNat?) 99
    let (po', out) := procIter poFuel po1 (po1.gens.length - 1) (← parseConsumer c) poFuel []
    pure (po', showOutcome out)
  | _ => none

def poRun (ops : List String) : Option String := do
  let (po, toks) ← ops.foldlM (fun (acc : PO × List String) op => do
    let (po', tok) ← poOp acc.1 op
    pure (po', acc.2 ++ [tok])) (({} : PO), [])
  pure s!"ok {",".intercalate toks} | {" ".intercalate (po.topics.map showTopic)}"

end Strax.Driver.C06

namespace Strax.Driver
open Strax

/-- ops of property C06 -/
def handleC06 : List String → Option String
  | ["c06.wire", lazy, mw, mm, targets, loaders, defs, plugins, savers] =>
    C06.wireOp lazy mw mm targets loaders defs plugins savers
  | ["c06.po", ops] => C06.poRun (ops.splitOn ";")
  | _ => none

end Strax.Driver
