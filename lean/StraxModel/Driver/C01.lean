import StraxModel.Driver.Parse
import StraxModel.Model.Pipeline
import StraxModel.Lemmas.PipelineVocab
import StraxModel.Lemmas.PipelineIter
namespace Strax.Driver
open Strax Strax.Pipeline Strax.Pipeline.Vocab

/-- `kind:params:deps:outs`, params / deps / outs comma separated, `-` = none -/
def c01ParseKind (k : String) (ps : List Nat) : Option VKind :=
  match k, ps with
  | "map", [c] => some (.map c)
  | "filter", [m, r] => some (.filter m r)
  | "merge", [] => some .merge
  | "multi", [c, m, r] => some (.multi c m r)
  | "pairfirst", [c] => some (.pairfirst c)
  | "loop", [] => some .loop
  | "overlap", [w] => some (.overlap w)
  | "overlap2", [wl, wr] => some (.overlap2 wl wr)
  | "downchunk", [c] => some (.downchunk c)
  | "exhaust", [c] => some (.exhaust c)
  | _, _ => none

def c01ParseNode (s : String) : Option VNode :=
  match s.splitOn ":" with
  | [k, ps, deps, outs] => do
    let ps ← parseNats ps
    let kind ← c01ParseKind k ps
    pure ⟨kind, splitList deps ",", splitList outs ","⟩
  | _ => none

/-- `name=rows` with rows `t/e/id,…` (`/` because `:` separates fields of a row elsewhere too) -/
def c01ParseSrc (s : String) : Option (String × List Row) :=
  match s.splitOn "=" with
  | [name, rows] => do pure (name, ← parseRows rows)
  | _ => none

/-- a yielded chunk `start~stop~rows` -/
def c01ParseChunk (s : String) : Option Chunk :=
  match s.splitOn "~" with
  | [a, b, rows] => do
    pure { dataType := "d", kind := "k", runId := some "0", start := ← a.toInt?, stop := ← b.toInt?,
           rows := ← parseRows rows, subruns := none, superrun := [], target := 0 }
  | _ => none

/-- `name=chunk;chunk;…` with chunks `start~stop~rows`: a plain stream of run "0" -/
def c01ParseStream (kindOf : List (String × String)) (tok : String) : Option (String × List Chunk) :=
  match tok.splitOn "=" with
  | [name, cs] => do
    let chunks ← (cs.splitOn ";").mapM (fun c => match c.splitOn "~" with
      | [a, b, rows] => do
        let a ← a.toInt?; let b ← b.toInt?
        pure ({ dataType := name, kind := (lookup name kindOf).getD name, runId := some "0", start := a, stop := b,
                rows := ← parseRows rows, subruns := none, superrun := [⟨"0", a, b⟩], target := 1 } : Chunk)
      | _ => none)
    pure (name, chunks)
  | _ => none

def c01B (b : Bool) : String := if b then "1" else "0"

/-- ids of one column; `-` when empty (also inside a multi-target line) -/
def c01Ids (rs : List Row) : String := if rs.isEmpty then "-" else ",".intercalate (rs.map (toString ·.id))

/-- ops of property C01 -/
def handleC01 : List String → Option String
  | "c01.whole" :: graph :: target :: srcs => do
    -- whole-run semantics of a harness graph: the rows of `target` (several same-kind targets `a,b`
    -- of one request: their id columns, separated by ` | `)
    let nodes ← (splitList graph ";").mapM c01ParseNode
    let w ← srcs.mapM c01ParseSrc
    pure <| showExcept (fun cols => " | ".intercalate (cols.map c01Ids))
      (wholeV nodes w >>= fun w' => mapE (lookupW w') (target.splitOn ","))
  | "c01.law" :: t0 :: t1 :: chunks => do
    -- the property's second sentence evaluated on a yielded chunk sequence
    let t0 ← t0.toInt?; let t1 ← t1.toInt?
    let cs ← chunks.mapM c01ParseChunk
    pure s!"ok law={c01B (lawAbidingB cs)} span={c01B (span cs == some (t0, t1))} global={c01B (lawAbidingGlobalB cs)}"
  | "c01.exec" :: graph :: strict :: kinds :: shown :: t0 :: t1 :: rest => do
    -- the CHUNKED semantics: `Pipeline.exec` (the function `pipeline_content` is about) on the very chunking the real
    -- single-thread run used, identity transports (PostOffice), `Plugin.iter` for nodes with two dependencies, what
    -- the loaders delivered as stored streams; answer: per computed data type the chunk boundaries and row ids
    let nodes ← (splitList graph ";").mapM c01ParseNode
    let bits ← (splitList strict ",").mapM parseBool
    let kindOf ← (splitList kinds ",").mapM (fun tok => match tok.splitOn ":" with
      | [a, b] => some (a, b)
      | _ => none)
    let T0 ← t0.toInt?; let T1 ← t1.toInt?
    let (envToks, storedToks) := (rest.takeWhile (· != "|"), (rest.dropWhile (· != "|")).drop 1)
    let env ← envToks.mapM (c01ParseStream kindOf)
    let stored ← storedToks.mapM (c01ParseStream kindOf)
    let strictOf : List (String × Bool) := (nodes.map (fun n => Vocab.out0 n.outs)).zip bits
    let a2 : VNode → Aligner := fun n =>
      Aligner.iter "0" T0 T1 (n.deps.map fun d => ⟨d, (lookup d kindOf).getD d⟩)
        ((lookup (Vocab.out0 n.outs) strictOf).getD true)
    let plan : Plan := ⟨fun _ _ => Transport.ident, stored⟩
    pure <| match exec plan (nodes.map (Vocab.toNode a2)) env with
      | .error .other => "skip"          -- outside the guard of `Aligner.iter` (C08's domain) or an arity error
      | .error e => showErr e
      | .ok env' =>
        let outs := (nodes.flatMap (·.outs)).filter (fun d => (splitList shown ",").contains d)
        "ok " ++ " ".intercalate (outs.map fun d =>
          d ++ "=" ++ (match lookup d env' with
            | some s => if s.isEmpty then "-" else ";".intercalate (s.map fun c => s!"{c.start}~{c.stop}~{c01Ids c.rows}")
            | none => "?"))
  | _ => none

end Strax.Driver
