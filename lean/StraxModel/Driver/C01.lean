import StraxModel.Driver.Parse
namespace Strax.Driver
open Strax

/-- ops of property C01 (stub: no ops yet) -/
def handleC01 : List String → Option String
  | _ => none

end Strax.Driver
