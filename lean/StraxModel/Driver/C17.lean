import StraxModel.Driver.Parse
namespace Strax.Driver
open Strax

/-- ops of property C17 (stub: no ops yet) -/
def handleC17 : List String → Option String
  | _ => none

end Strax.Driver
