import StraxModel.Driver.Parse
import StraxModel.Model.IntervalAlgos
namespace Strax.Driver
open Strax Strax.IntervalAlgos

namespace C17
def showPairsNat (l : List (Nat × Nat)) : String :=
  if l.isEmpty then "-" else ",".intercalate (l.map fun p => s!"{p.1}:{p.2}")
def showPairsInt (l : List (Int × Int)) : String :=
  if l.isEmpty then "-" else ",".intercalate (l.map fun p => s!"{p.1}:{p.2}")
-- output `3:0,1|-|2` = three groups (ids; `-` = empty group); `0:` = no groups
def showGroups (g : List (List Row)) : String :=
  s!"{g.length}:" ++ "|".intercalate (g.map showIds)
def parseCRow (tok : String) : Option CRow :=
  match tok.splitOn ":" with
  | [a, b, c] => do pure ⟨← a.toInt?, ← b.toInt?, ← c.toNat?⟩
  | _ => none
def parseCRows (s : String) : Option (List CRow) := (splitList s ",").mapM parseCRow
def showBools (l : List Bool) : String := "".intercalate (l.map fun b => if b then "1" else "0")
end C17
open C17

/-- ops of theory T13 (interval kernels), all prefixed `c17.` -/
def handleC17Single : List String → Option String
  | ["c17.fcin", things, containers] => do
    let t ← parseRows things; let c ← parseRows containers
    pure <| showExcept showInts (fullyContainedIn t c)
  | ["c17.fcincore", things, containers] => do
    let t ← parseRows things; let c ← parseRows containers
    pure s!"ok {showInts (fcInCore t c)}"
  | ["c17.split", things, containers] => do
    let t ← parseRows things; let c ← parseRows containers
    pure <| showExcept showGroups (splitByContainment t c)
  | ["c17.splitraw", things, idx] => do
    let t ← parseRows things; let i ← parseNats idx
    pure s!"ok {showGroups (split t i)}"
  | ["c17.emptyids", n, full] => do
    let n ← n.toNat?; let f ← parseNats full
    pure s!"ok {showNats (getEmptyContainerIds n f)}"
  | ["c17.overlap", a1, na, b1, nb] => do
    let a1 ← a1.toInt?; let na ← na.toInt?; let b1 ← b1.toInt?; let nb ← nb.toInt?
    pure <| showExcept (fun ((a, b), (c, d)) => s!"{a},{b},{c},{d}") (overlapIndices a1 na b1 nb)
  | ["c17.touch", things, containers, w] => do
    let t ← parseRows things; let c ← parseRows containers; let w ← w.toInt?
    pure <| showExcept showPairsNat (touchingWindows t c w)
  | ["c17.touchcore", things, containers, w] => do
    let t ← parseRows things; let c ← parseRows containers; let w ← w.toInt?
    pure s!"ok {showPairsNat (touchingWindowsCore t c w)}"
  | ["c17.splittouch", things, containers, w] => do
    let t ← parseRows things; let c ← parseRows containers; let w ← w.toInt?
    pure <| showExcept showGroups (splitTouchingWindows t c w)
  | ["c17.diff", rows] => do
    let r ← parseRows rows
    pure s!"ok {showInts (diffGaps r)}"
  | ["c17.findbreak", rows, safe, notBefore] => do
    let r ← parseRows rows; let s ← safe.toInt?; let nb ← notBefore.toInt?
    pure <| showExcept toString (findBreakI r s nb)
  | ["c17.frombreak", rows, safe, notBefore, left, tolerant] => do
    let r ← parseRows rows; let s ← safe.toInt?; let nb ← notBefore.toInt?
    let l ← parseBool left; let tol ← parseBool tolerant
    pure <| showExcept (fun (x, t) => s!"{showIds x} {t}") (fromBreak r s nb l tol)
  | ["c17.prevnext", things, intervals] => do
    let t ← parseRows things; let iv ← parseRows intervals
    pure <| showExcept showPairsInt (absTimeToPrevNext t iv)
  | ["c17.sort", hasChannel, rows] => do
    let h ← parseBool hasChannel; let r ← parseCRows rows
    let out := sortByTime h r
    pure s!"ok {showNats (out.map (·.id))}"
  | ["c17.sortreg", hasChannel, rows] => do
    let h ← parseBool hasChannel; let r ← parseCRows rows
    pure s!"ok {showBools [sortRegular h r, sortSpanTooLarge h r, sortTooLargeFloat h r]}"
  | ["c17.stablesort", kind, arr] => do
    let a ← parseInts arr
    pure <| match stableSort kind a with | some o => s!"ok {showInts o}" | none => "err SortingError"
  | ["c17.stableargsort", kind, arr] => do
    let a ← parseInts arr
    pure <| match stableArgsort kind a with | some o => s!"ok {showNats o}" | none => "err SortingError"
  | ["c17.sortkind", kind, hasChannel, rows] => do
    let h ← parseBool hasChannel; let r ← parseCRows rows
    pure <| match sortByTimeAndChannelKind kind h r with
      | some o => s!"ok {showNats (o.map (·.id))}" | none => "err SortingError"
  | ["c17.touchkind", kind, things, containers, w] => do
    let t ← parseRows things; let c ← parseRows containers; let w ← w.toInt?
    pure <| match touchingWindowsCoreKind kind t c w with
      | some o => s!"ok {showPairsNat o}" | none => "err SortingError"
  -- decidable hypotheses of the theorems, evaluated by the model's own deciders:
  -- things: sorted by time, sorted by end, non-negative, positive, non-overlapping; same for the second array
  | ["c17.hyp", things, containers] => do
    let t ← parseRows things; let c ← parseRows containers
    let f := fun (l : List Row) =>
      [sortedByTimeB l, sortedByEndB l, nonNegB l, positiveRowsB l, nonOverlapB l]
    pure s!"ok {showBools (f t)} {showBools (f c)}"
  | _ => none

/-- `c17.sweep <op> <things> <cfg;cfg;…> [extra…]`: apply `<op> <things> <cfg> [extra…]` to every listed second
array and join the answers with `;` (keeps the exhaustive sweeps of the harness to one line per things array). -/
def handleC17 : List String → Option String
  | "c17.sweep" :: op :: things :: cfgs :: extra => do
    let outs ← (cfgs.splitOn ";").mapM fun cfg => handleC17Single (op :: things :: cfg :: extra)
    pure (";".intercalate outs)
  | toks => handleC17Single toks

end Strax.Driver
