import StraxModel.Driver.C07
import StraxModel.Model.Storage
import StraxModel.Generated.GetSplits
namespace Strax.Driver.C03
open Strax Strax.Storage Strax.Driver

/-! canonical text of metadata / files (same format as `checks/props/c03.py`) -/

def showB (b : Bool) : String := if b then "1" else "0"

def showIntOpt : Option Int → String
  | none => "-"
  | some v => toString v

/-- the `subruns` dict is printed in the order it has in the json file (`sort_keys=True`) -/
def showInfo (c : ChunkInfo) : String :=
  "/".intercalate [toString c.i, toString c.n, toString c.start, toString c.stop, showStrOpt c.runId,
    showRunsOpt (c.subruns.map jsonRuns), showIntOpt c.firstTime, showIntOpt c.firstEnd, showIntOpt c.lastTime,
    showIntOpt c.lastEnd, showStrOpt c.filename, toString c.nbytes, showB c.filesize.isSome]

def showMeta (m : Meta) : String :=
  s!"start={showIntOpt m.start} end={showIntOpt m.stop} we={showB m.writingEnded} exc={showB m.exception} chunks=" ++
  (if m.chunks.isEmpty then "-" else ";".intercalate (m.chunks.map showInfo))

/-- the directory listing, sorted by name (a directory has no order) -/
def showFiles (fs : Files) : String :=
  let fs := fs.mergeSort (fun a b => decide (a.1 ≤ b.1))
  if fs.isEmpty then "-" else ";".intercalate (fs.map fun p => s!"{p.1}={showRows p.2}")

/-- a completion order for `n` pending writes from a list of sort keys (used cyclically): the stable
sort of `0 … n-1` by key — always a permutation -/
def orderFromKeys (keys : List Nat) (n : Nat) : List Nat :=
  let key (i : Nat) : Nat := if keys.isEmpty then i else keys.getD (i % keys.length) 0
  (List.range n).mergeSort (fun a b => decide (key a ≤ key b))

def modifyAt (l : List α) (k : Nat) (f : α → α) : List α :=
  l.zipIdx.map fun p => if p.2 = k then f p.1 else p.1

/-- tampering with what the saver left behind, to reach the rejecting branches of the loader;
`k` is taken modulo the number of chunk infos. -/
def tamper (spec : String) (m : Meta) (fs : Files) : Option (Meta × Files) :=
  let len := m.chunks.length
  let idx (k : Nat) : Nat := if len = 0 then 0 else k % len
  match spec.splitOn ":" with
  | ["none"] => some (m, fs)
  | ["nochunks"] => some ({ m with chunks := [] }, fs)
  | ["n", k, d] => do
    let k ← k.toNat?; let d ← d.toInt?
    pure ({ m with chunks := modifyAt m.chunks (idx k) fun c => { c with n := ((c.n : Int) + d).toNat } }, fs)
  | ["rm", k] => do
    let k ← k.toNat?
    match (m.chunks[idx k]?).bind (·.filename) with
    | none => pure (m, fs)
    | some fn => pure (m, fs.filter (fun p => p.1 != fn))
  | ["nofn", k] => do
    let k ← k.toNat?
    pure ({ m with chunks := modifyAt m.chunks (idx k) fun c => { c with filename := none } }, fs)
  | ["rid", k, r] => do
    let k ← k.toNat?
    pure ({ m with chunks := modifyAt m.chunks (idx k) fun c => { c with runId := parseStrOpt r } }, fs)
  | ["swap", j, k] => do
    let j ← j.toNat?; let k ← k.toNat?
    let fj := (m.chunks[idx j]?).bind (·.filename)
    let fk := (m.chunks[idx k]?).bind (·.filename)
    let cs := modifyAt m.chunks (idx j) fun c => { c with filename := fk }
    let cs := if idx j = idx k then m.chunks else modifyAt cs (idx k) fun c => { c with filename := fj }
    pure ({ m with chunks := cs }, fs)
  | ["range", k, ds, de] => do
    let k ← k.toNat?; let ds ← ds.toInt?; let de ← de.toInt?
    pure ({ m with chunks := modifyAt m.chunks (idx k) fun c => { c with start := c.start + ds, stop := c.stop + de } }, fs)
  | _ => none

end Strax.Driver.C03

namespace Strax.Driver
open Strax Strax.Storage Strax.Driver.C03

/-- ops of property C03.
`c03.rt <rechunk> <saveExec> <loadExec> <orderKeys> <tamper> <runId> <dataType> <kind> <target> <itemsize> <pfx> <rawchunk>*` :
save the chunks through `save_from` (serially, or through an executor whose writes complete in the
order given by the keys), tamper, load everything back (serially, or with futures in chunk order).
 ok  → `ok <meta> ## <files> ## <ok chunks… | err Kind> ## law=<0|1> stor=<0|1>`
 err → `err <Kind> <meta> ## <files>` (what the failed saver left behind) -/
def handleC03 : List String → Option String
  | "c03.rt" :: rechunk :: sexec :: lexec :: okeys :: tmp :: rid :: dt :: kind :: target :: isz :: pfx :: cs => do
    let re ← parseBool rechunk
    let sx ← parseBool sexec
    let lx ← parseBool lexec
    let keys ← parseNats okeys
    let tg ← target.toNat?
    let isz ← isz.toNat?
    let cs ← cs.mapM parseRawChunk
    let hdr : Header := { runId := rid, dataType := dt, kind := kind, target := tg, pfx := pfx, itemsize := isz }
    match rawChunksToChunks cs with
    | .error e => pure s!"err-construct {e.name}"
    | .ok cs =>
      let (sv, e) :=
        if sx then
          -- number of pending writes = number of files the serial saver leaves
          let n := (saveFrom Generated.getSplitsArgmin0 re hdr cs).1.files.length
          saveFromExec Generated.getSplitsArgmin0 re hdr cs (orderFromKeys keys n)
        else saveFrom Generated.getSplitsArgmin0 re hdr cs
      match e with
      | some e => pure s!"err {e.name} {showMeta sv.md} ## {showFiles sv.files}"
      | none =>
        let (m, fs) ← tamper tmp sv.md sv.files
        let loaded := showExcept showChunks (if lx then loadAllExec m fs else loadAll m fs)
        let law := lawAbidingB cs
        let stor := cs.all (storableB rid)
        pure s!"ok {showMeta sv.md} ## {showFiles sv.files} ## {loaded} ## law={showB law} stor={showB stor}"
  | _ => none

end Strax.Driver
