import StraxModel.Driver.Parse
namespace Strax.Driver
open Strax

/-- ops of property C03 (stub: no ops yet) -/
def handleC03 : List String → Option String
  | _ => none

end Strax.Driver
