import StraxModel.Driver.Parse
import StraxModel.Model.Pulse
/-
  Ops of property C18 (theory T14, `Strax.Pulse`).  Tokens:
    record   time:length:dt:channel:record_i:pulse_length:area:reduction_level:bl:rms:shift:d0,d1,…
             (bl, rms = `p/q`), records joined by `;`, `-` = no records
    thr      `s=p/q` (one number) | `c=p/q,p/q,…` (per channel)
    hitrefs  record_i:left:right joined by `;`, `-` = none
  Outputs print rationals in lowest terms.
-/
namespace Strax.Driver.C18
open Strax Strax.Pulse Strax.Driver

def parseQ (s : String) : Option Q :=
  match s.splitOn "/" with
  | [a, b] => do
    let d ← b.toNat?
    if d = 0 then none else pure ⟨← a.toInt?, d⟩
  | _ => none

def showQ (q : Q) : String := let n := q.norm; s!"{n.num}/{n.den}"

def parseRecord (tok : String) : Option Record :=
  match tok.splitOn ":" with
  | [t, l, dt, ch, ri, pl, ar, rl, bl, rms, sh, data] => do
    pure { time := ← t.toInt?, length := ← l.toNat?, dt := ← dt.toInt?, channel := ← ch.toInt?,
           recordI := ← ri.toInt?, pulseLength := ← pl.toInt?, area := ← ar.toInt?, reductionLevel := ← rl.toNat?,
           baseline := ← parseQ bl, baselineRms := ← parseQ rms, ampBitShift := ← sh.toNat?,
           data := ← parseInts data }
  | _ => none

def parseRecords (s : String) : Option (List Record) := (splitList s ";").mapM parseRecord

def parseThr (s : String) : Option ThrArg :=
  match s.splitOn "=" with
  | ["s", q] => do pure (.scalar (← parseQ q))
  | ["c", qs] => do pure (.perCh (← (splitList qs ",").mapM parseQ))
  | _ => none

def parseHitRef (tok : String) : Option HitRef :=
  match tok.splitOn ":" with
  | [a, b, c] => do pure ⟨← a.toNat?, ← b.toNat?, ← c.toNat?⟩
  | _ => none

def parseHitRefs (s : String) : Option (List HitRef) := (splitList s ";").mapM parseHitRef

def showList (f : α → String) (l : List α) (sep : String) : String :=
  if l.isEmpty then "-" else sep.intercalate (l.map f)

def showHit (h : Hit) : String :=
  s!"{h.time}:{h.length}:{h.dt}:{h.channel}:{h.left}:{h.right}:{h.recordI}:{showQ h.area}:{showQ h.height}:{showQ h.threshold}:{h.maxTime}"

def showRecord (r : Record) : String :=
  s!"{r.time}:{r.length}:{r.dt}:{r.channel}:{r.recordI}:{r.pulseLength}:{r.area}:{r.reductionLevel}:{showQ r.baseline}:{showQ r.baselineRms}:{r.ampBitShift}:{showInts r.data}"

def showRecords (rs : List Record) : String := showList showRecord rs ";"

def showRms : Rms → String
  | .sqrtOf v => s!"sqrt{showQ v}"
  | .nan => "nan"

end Strax.Driver.C18

namespace Strax.Driver
open Strax Strax.Pulse Strax.Driver.C18

def handleC18 : List String → Option String
  | ["c18.hits", amp, hon, recs] => do
    let a ← parseThr amp; let h ← parseThr hon; let rs ← parseRecords recs
    pure <| showExcept (fun hs => showList showHit hs ";") (findHits rs a h)
  | ["c18.links", recs] => do
    let rs ← parseRecords recs
    pure <| showExcept (fun (p, n) => s!"{showInts p}|{showInts n}") (recordLinks rs)
  | ["c18.cut", le, re, hits, recs] => do
    let le ← le.toInt?; let re ← re.toInt?; let hs ← parseHitRefs hits; let rs ← parseRecords recs
    pure <| showExcept showRecords (cutOutsideHits rs hs le re)
  | ["c18.reduce", amp, hon, le, re, recs] => do
    let a ← parseThr amp; let h ← parseThr hon
    let le ← le.toInt?; let re ← re.toInt?; let rs ← parseRecords recs
    pure <| showExcept (fun (hs, out) => s!"{showList showHit hs ";"} {showRecords out}")
      (findHits rs a h >>= fun hs => (cutOutsideHits rs (hs.map Hit.ref) le re).map fun out => (hs, out))
  | ["c18.integrate", recs] => do
    let rs ← parseRecords recs
    pure s!"ok {showInts ((integrate rs).map (·.area))}"
  | ["c18.zoob", recs] => do
    let rs ← parseRecords recs
    pure s!"ok {showRecords (zeroOutOfBounds rs)}"
  | ["c18.baseline", k, flip, sloppy, fallback, recs] => do
    let k ← k.toNat?; let f ← parseBool flip; let s ← parseBool sloppy; let fb ← fallback.toInt?
    let rs ← parseRecords recs
    pure <| showExcept (fun out => showList (fun (r, rms) => s!"{showRecord r}~{showRms rms}") out ";")
      (baseline rs k f s fb)
  | _ => none

end Strax.Driver
