import StraxModel.Driver.Parse
namespace Strax.Driver
open Strax

/-- ops of property C18 (stub: no ops yet) -/
def handleC18 : List String → Option String
  | _ => none

end Strax.Driver
