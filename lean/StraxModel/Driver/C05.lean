import StraxModel.Driver.Parse
namespace Strax.Driver
open Strax

/-- ops of property C05 (stub: no ops yet) -/
def handleC05 : List String → Option String
  | _ => none

end Strax.Driver
