import StraxModel.Driver.Parse
import StraxModel.Model.Mailbox
import StraxModel.Model.Divider
/-
  Driver ops of the mailbox transition system (shared by C05 / C06 / C13).

  `c05.run <rule> <cap> <lazy> <drive> <prog> <workers> <kills> <schedule>`
     rule     `L` (stale-waiter test of `_can_fetch` compares with the lowest number: the code before fb45a02, D6) |
              `H` (uses `_has_msg`: the code today); the harness reads it off the source of `_can_fetch`
     cap      `inf` | n
     lazy     0 | 1
     drive    one 0/1 character per subscriber, e.g. `10`
     prog     `-` | items joined by `,` ; item = `x` (source raises) | [`<n>@`]`p<v>` | [`<n>@`]`f<id>:<v>`
     workers  `-` | lists joined by `;` ; list = `_` (empty) | future ids joined by `.`
     kills    `-` | one `u` (upstream) / `d` character per killer thread
     schedule `-` | thread tokens joined by `,` ; `S`, `R<i>`, `W<j>`, `K<k>`
  answer: `ok <snap_0>;<snap_1>;…;<snap_k> end=<final|deadlock|running|stuck@i> got=<g_0>/<g_1>… pcs=<…>`
  with one snapshot per state visited (`heap|have_read|waiting_for|closed killed force|n_sent|enabled`).
-/
namespace Strax.Driver
open Strax Strax.Mailbox

def parseMsgBody (s : String) : Option Msg :=
  if s.startsWith "p" then do pure (.plain (← (s.drop 1).toString.toNat?))
  else if s.startsWith "f" then
    match (s.drop 1).toString.splitOn ":" with
    | [a, b] => do pure (.fut (← a.toNat?) (← b.toNat?))
    | _ => none
  else none

def parseSrcItem (s : String) : Option SrcItem :=
  if s == "x" then some .raise
  else match s.splitOn "@" with
    | [b] => do pure (.item none (← parseMsgBody b))
    | [n, b] => do pure (.item (some (← n.toNat?)) (← parseMsgBody b))
    | _ => none

def parseBits (s : String) (one zero : Char) : Option (List Bool) :=
  if s == "-" then some [] else
  s.toList.mapM fun c => if c == one then some true else if c == zero then some false else none

def parseWorkers (s : String) : Option (List (List Nat)) :=
  if s == "-" then some [] else
  (s.splitOn ";").mapM fun w => if w == "_" then some [] else (w.splitOn ".").mapM (·.toNat?)

def parseThread (s : String) : Option ThreadId :=
  if s == "S" then some .sender
  else if s.startsWith "R" then (s.drop 1).toString.toNat?.map .reader
  else if s.startsWith "W" then (s.drop 1).toString.toNat?.map .worker
  else if s.startsWith "K" then (s.drop 1).toString.toNat?.map .killer
  else none

def parseMbConfig (rule cap lazy drive prog workers kills : String) : Option Config := do
  let rule ← if rule == "L" then some GateRule.lowest else if rule == "H" then some GateRule.hasMsg else none
  let cap ← if cap == "inf" then some none else cap.toNat?.map some
  let lazy ← parseBool lazy
  let drive ← parseBits drive '1' '0'
  let prog ← (splitList prog ",").mapM parseSrcItem
  let workers ← parseWorkers workers
  let kills ← parseBits kills 'u' 'd'
  pure ⟨cap, lazy, rule, drive, prog, workers, kills⟩

def showThread : ThreadId → String
  | .sender => "S"
  | .reader i => s!"R{i}"
  | .worker j => s!"W{j}"
  | .killer k => s!"K{k}"

def dotted (l : List String) : String := if l.isEmpty then "_" else ".".intercalate l

def b01 (b : Bool) : String := if b then "1" else "0"

def showSnap (s : Sys) : String :=
  let heap := (s.mb.heap.map (·.1)).mergeSort (· ≤ ·)
  let hr := s.mb.subs.map fun sub => toString (Int.ofNat sub.next - 1)
  let wf := s.mb.subs.map fun sub => match sub.waitingFor with
    | none => "n"
    | some x => toString x
  s!"{dotted (heap.map toString)}|{dotted hr}|{dotted wf}|{b01 s.mb.closed}{b01 s.mb.killed}{b01 s.mb.forceKilled}|{s.mb.nSent}|{dotted (s.enabled.map showThread)}"

def showSPc : SPc → String
  | .done => "done"
  | .dead e => s!"dead({e.name})"
  | _ => "run"

def showRPc : RPc → String
  | .done _ => "done"
  | .dead e => s!"dead({e.name})"
  | _ => "run"

def showPcs (s : Sys) : String :=
  let rs := (List.range s.readers.length).zip s.readers |>.map fun (i, r) => s!"R{i}:{showRPc r.pc}"
  let ws := (List.range s.workers.length).zip s.workers |>.map fun (j, w) => s!"W{j}:{if w.isEmpty then "done" else "run"}"
  let ks := (List.range s.killers.length).zip s.killers |>.map fun (k, w) => s!"K{k}:{if w.isNone then "done" else "run"}"
  ",".intercalate ([s!"S:{showSPc s.spc}"] ++ rs ++ ws ++ ks)

/-- the value the consumer sees (a future is replaced by its result; the end marker is never delivered) -/
def msgValue : Msg → String
  | .plain v => toString v
  | .fut _ v => toString v
  | .stop => "STOP"

def showGot (s : Sys) : String :=
  if s.readers.isEmpty then "-" else "/".intercalate (s.readers.map fun r => dotted (r.got.map msgValue))

/-- run the schedule, collecting one snapshot per visited state -/
def runTrace (s : Sys) (acc : List String) (k : Nat) : List ThreadId → Sys × List String × Option Nat
  | [] => (s, acc, none)
  | t :: ts =>
    match step s t with
    | some s' => runTrace s' (showSnap s' :: acc) (k + 1) ts
    | none => (s, acc, some k)

def mbRun (c : Config) (sched : List ThreadId) : String :=
  let s0 := init c
  let (s, snaps, stuck) := runTrace s0 [showSnap s0] 0 sched
  let status := match stuck with
    | some k => s!"stuck@{k}"
    | none => if s.final then "final" else if s.enabled.isEmpty then "deadlock" else "running"
  s!"ok {";".intercalate snaps.reverse} end={status} got={showGot s} pcs={showPcs s}"

/-! ### `divide_outputs`

  `c05.div <rule> <cap> <lazy> <outs> <prog> <workers> <kills> <schedule>`
     outs     per output, joined by `;`: driver mask of its subscribers, `f` appended if in `flow_freely` (`10;1f`)
     prog     `-` | dicts joined by `,` ; dict = `x` (source raises) | components joined by `+` (`p10+f0:7`)
     kills    `-` | `<k>u` / `<k>d` joined by `,` (kill(upstream / not) on output k)
     schedule thread tokens `D`, `R<k>.<i>`, `W<j>`, `K<q>`
  answer: like `c05.run`; a snapshot lists the outputs separated by `/`, then `|enabled`. -/

def parseOut (s : String) : Option (List Bool × Bool) :=
  if s.endsWith "f" then do pure (← parseBits (s.dropEnd 1).toString '1' '0', true)
  else do pure (← parseBits s '1' '0', false)

def parseDItem (s : String) : Option DItem :=
  if s == "x" then some .raise else do pure (.item (← (s.splitOn "+").mapM parseMsgBody))

def parseKill (s : String) : Option (Nat × Bool) :=
  if s.endsWith "u" then do pure (← (s.dropEnd 1).toString.toNat?, true)
  else if s.endsWith "d" then do pure (← (s.dropEnd 1).toString.toNat?, false)
  else none

def parseDThread (s : String) : Option DThread :=
  if s == "D" then some .divider
  else if s.startsWith "R" then
    match (s.drop 1).toString.splitOn "." with
    | [a, b] => do pure (.reader (← a.toNat?) (← b.toNat?))
    | _ => none
  else if s.startsWith "W" then (s.drop 1).toString.toNat?.map .worker
  else if s.startsWith "K" then (s.drop 1).toString.toNat?.map .killer
  else none

def showDThread : DThread → String
  | .divider => "D"
  | .reader k i => s!"R{k}.{i}"
  | .worker j => s!"W{j}"
  | .killer q => s!"K{q}"

def showMB (mb : MB) : String :=
  let heap := (mb.heap.map (·.1)).mergeSort (· ≤ ·)
  let hr := mb.subs.map fun sub => toString (Int.ofNat sub.next - 1)
  let wf := mb.subs.map fun sub => match sub.waitingFor with
    | none => "n"
    | some x => toString x
  s!"{dotted (heap.map toString)}|{dotted hr}|{dotted wf}|{b01 mb.closed}{b01 mb.killed}{b01 mb.forceKilled}|{mb.nSent}"

def showDSnap (s : DSys) : String :=
  let en := s.enabled.map showDThread
  s!"{"/".intercalate (s.outs.map fun o => showMB o.mb)}|{if en.isEmpty then "_" else ",".intercalate en}"

def showDPc : DPc → String
  | .done => "done"
  | .dead e => s!"dead({e.name})"
  | _ => "run"

def showDPcs (s : DSys) : String :=
  let rs := ((List.range s.outs.length).zip s.outs).flatMap fun (k, o) =>
    ((List.range o.readers.length).zip o.readers).map fun (i, r) => s!"R{k}.{i}:{showRPc r.pc}"
  let ws := (List.range s.workers.length).zip s.workers |>.map fun (j, w) => s!"W{j}:{if w.isEmpty then "done" else "run"}"
  let ks := (List.range s.killers.length).zip s.killers |>.map fun (k, w) => s!"K{k}:{if w.isNone then "done" else "run"}"
  ",".intercalate ([s!"D:{showDPc s.dpc}"] ++ rs ++ ws ++ ks)

def showDGot (s : DSys) : String :=
  let gs := s.outs.flatMap fun o => o.readers.map fun r => dotted (r.got.map msgValue)
  if gs.isEmpty then "-" else "/".intercalate gs

def drunTrace (s : DSys) (acc : List String) (k : Nat) : List DThread → DSys × List String × Option Nat
  | [] => (s, acc, none)
  | t :: ts =>
    match dstep s t with
    | some s' => drunTrace s' (showDSnap s' :: acc) (k + 1) ts
    | none => (s, acc, some k)

def divRun (c : DConfig) (sched : List DThread) : String :=
  let s0 := dinit c
  let (s, snaps, stuck) := drunTrace s0 [showDSnap s0] 0 sched
  let status := match stuck with
    | some k => s!"stuck@{k}"
    | none => if s.final then "final" else if s.enabled.isEmpty then "deadlock" else "running"
  s!"ok {";".intercalate snaps.reverse} end={status} got={showDGot s} pcs={showDPcs s}"

/-- ops of property C05 (and the shared mailbox model) -/
def handleC05 : List String → Option String
  | ["c05.run", rule, cap, lazy, drive, prog, workers, kills, sched] => do
    let c ← parseMbConfig rule cap lazy drive prog workers kills
    let sched ← (splitList sched ",").mapM parseThread
    pure (mbRun c sched)
  | ["c05.div", rule, cap, lazy, outs, prog, workers, kills, sched] => do
    let rule ← if rule == "L" then some GateRule.lowest else if rule == "H" then some GateRule.hasMsg else none
    let cap ← if cap == "inf" then some none else cap.toNat?.map some
    let lazy ← parseBool lazy
    let outs ← (outs.splitOn ";").mapM parseOut
    let prog ← (splitList prog ",").mapM parseDItem
    let workers ← parseWorkers workers
    let kills ← (splitList kills ",").mapM parseKill
    let sched ← (splitList sched ",").mapM parseDThread
    pure (divRun ⟨cap, lazy, rule, outs, prog, workers, kills⟩ sched)
  | _ => none

end Strax.Driver
