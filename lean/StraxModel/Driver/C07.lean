import StraxModel.Driver.Parse
import StraxModel.Generated.GetSplits
import StraxModel.Generated.SplitArray
namespace Strax.Driver
open Strax

def rawChunksToChunks (rs : List RawChunk) : Except Err (List Chunk) := rs.mapM (·.mk')

/-- `continuity_check` consumed to exhaustion: number of chunks yielded, and the error that stopped
the generator (if any).  Same `contStep` as `continuityCheck`, which only keeps the error. -/
def contRun : ContState → List Chunk → Nat → Nat × Option Err
  | _, [], n => (n, none)
  | s, c :: cs, n =>
    match contStep s c with
    | .error e => (n, some e)
    | .ok s' => contRun s' cs (n + 1)

def parseCols (s : String) : Option Cols :=
  (splitList s ";").mapM fun tok =>
    match tok.splitOn ":" with
    | [k, v] => do let vs ← parseInts v; pure (k, vs)
    | _ => none

def showCols (c : Cols) : String :=
  if c.isEmpty then "-" else ";".intercalate (c.map fun (k, v) => s!"{k}:{showInts v}")

/-- ops of theories T1/T2 (chunk algebra). -/
def handleC07 : List String → Option String
  | ["split", rows, t, early] => do
    let rows ← parseRows rows; let t ← t.toInt?; let e ← parseBool early
    pure <| showExcept (fun (l, r, t') => s!"{showRows l} {showRows r} {t'}") (splitArray rows t e)
  | ["gsplit", rows, t, early] => do
    -- the TRANSLATED source of split_array (Generated/SplitArray.lean), not the hand-written model
    let rows ← parseRows rows; let t ← t.toInt?; let e ← parseBool early
    pure <| showExcept (fun (l, r, t') => s!"{showRows l} {showRows r} {t'}") (Generated.SplitArray.splitArray rows t e)
  | ["mkchunk", c] => do
    let c ← parseRawChunk c
    pure <| showExcept showChunk c.mk'
  | ["csplit", c, t, early] => do
    let c ← parseRawChunk c; let t ← t.toInt?; let e ← parseBool early
    pure <| showExcept (fun (a, b) => s!"{showChunk a} {showChunk b}") (c.mk' >>= fun c => c.split t e)
  | "concat" :: allow :: cs => do
    let a ← parseBool allow; let cs ← cs.mapM parseRawChunk
    pure <| showExcept showChunk (rawChunksToChunks cs >>= fun cs => concatenate cs a)
  | "merge" :: dt :: cs => do
    let cs ← cs.mapM parseRawChunk
    pure <| showExcept showChunk (rawChunksToChunks cs >>= fun cs => mergeChunks cs dt)
  | ["splitruns", runs, t] => do
    let r ← parseRunsOpt runs; let t ← t.toInt?
    let (a, b) := splitRuns r t
    pure s!"ok {showRunsOpt a} {showRunsOpt b}"
  | ["diff", rows] => do
    let rows ← parseRows rows
    pure s!"ok {showInts (diffGaps rows)}"
  | ["getsplits", rows, assumed, minGap] => do
    let rows ← parseRows rows; let a ← assumed.toNat?; let g ← minGap.toInt?
    pure <| showExcept showNats (getSplits Generated.getSplitsArgmin0 rows a g)
  | "rechunk" :: sup :: cs => do
    let s ← parseBool sup; let cs ← cs.mapM parseRawChunk
    pure <| showExcept showChunks
      (rawChunksToChunks cs >>= fun cs => rechunkAll Generated.getSplitsArgmin0 ⟨true, s, none⟩ cs)
  | "mergearrs" :: arrs => do
    let arrs ← arrs.mapM parseCols
    pure s!"ok {showCols (mergeArrs arrs)}"
  | "continuity" :: cs => do
    let cs ← cs.mapM parseRawChunk
    pure <| match rawChunksToChunks cs with
      | .error e => s!"err {e.name} -"
      | .ok cs =>
        match contRun {} cs 0 with
        | (n, none) => s!"ok {n}"
        | (n, some e) => s!"err {e.name} {n}"
  | _ => none

end Strax.Driver
