import StraxModel.Driver.Parse
import StraxModel.Model.Components
import StraxModel.Generated.ShouldSave
/-
  Ops of property C11 (all start with `c11.`):
    c11.comp <graph> <frontends> <targets> <save> <mods> <opts> <forbid>
        graph     = plugins joined by `;`, plugin = `out:P,out:P/dep,dep` (P ∈ N E T A, `-` = no deps)
        frontends = joined by `;`, frontend = `ro|storageType|takeOnly|exclude|complete|incomplete|stale`
        mods      = 3 bits time_range, selection, columns ; opts = 2 bits fuzzy, allow_incomplete
        (the two `_temp_` rules of check_cache are the GENERATED `Generated.rules`)
        answer    = `ok L=t@i,.. P=t,.. S=t@i+j,.. T=t|t` (all sorted) or `err <Kind>`
    c11.run  <same arguments>   answer = `ok ran=<indices of the plugins that compute> new=<savers>`
    c11.should <P> <inTargets> <inSave>      (the GENERATED `_target_should_be_saved`)
    c11.swval <P>                            (the GENERATED SaveWhen value)
    c11.wetake <exclude> <takeOnly> <t>
    c11.topo <graph>    answer `ok <topoOrdered><unique providers>` (hypotheses of `getComponents_ok_iff`)
-/
namespace Strax.Driver
open Strax Strax.Components

namespace C11

def parsePol (s : String) : Option SaveWhen :=
  if s == "N" then some .never else if s == "E" then some .explicit
  else if s == "T" then some .target else if s == "A" then some .always else none

def parseOutput (s : String) : Option (String × SaveWhen) :=
  match s.splitOn ":" with
  | [n, p] => do pure (n, ← parsePol p)
  | _ => none

def parsePlugin (s : String) : Option Plugin :=
  match s.splitOn "/" with
  | [outs, deps] => do pure ⟨← (splitList outs ",").mapM parseOutput, splitList deps ","⟩
  | _ => none

def parseGraph (s : String) : Option Graph := (splitList s ";").mapM parsePlugin

def parseFrontend (s : String) : Option Frontend :=
  match s.splitOn "|" with
  | [ro, st, tk, ex, c, i, stl] => do
    pure ⟨← parseBool ro, splitList tk ",", splitList ex ",", ← st.toNat?, splitList c ",", splitList i ",",
          splitList stl ","⟩
  | _ => none

def parseBits (s : String) (n : Nat) : Option (List Bool) :=
  let cs := s.toList
  if cs.length == n then cs.mapM (fun c => if c == '1' then some true else if c == '0' then some false else none)
  else none

def insertStr (x : String) : List String → List String
  | [] => [x]
  | y :: ys => if x < y then x :: y :: ys else y :: insertStr x ys
def sortStrs (l : List String) : List String := l.foldl (fun acc x => insertStr x acc) []

def joinOr (sep : String) (l : List String) : String := if l.isEmpty then "-" else sep.intercalate l

def showComponents (c : Components) : String :=
  let ls := sortStrs (c.loaders.map fun (t, i) => s!"{t}@{i}")
  let ps := sortStrs c.plugins
  let ss := sortStrs (c.savers.map fun (t, is) => s!"{t}@{"+".intercalate (is.map toString)}")
  let ts := sortStrs c.targets
  s!"L={joinOr "," ls} P={joinOr "," ps} S={joinOr "," ss} T={joinOr "|" ts}"

/-- indices of the (non-temporary) plugins that have to run: some output is to be computed -/
def ranPlugins (g : Graph) (compute : List String) : List Nat :=
  (g.zipIdx.filter fun (p, _) => !p.provides.any isTemp && p.provides.any compute.contains).map (·.2)

def showRun (g : Graph) (c : Components) : String :=
  let ss := sortStrs (c.savers.map fun (t, is) => s!"{t}@{"+".intercalate (is.map toString)}")
  s!"ran={joinOr "," ((ranPlugins g c.plugins).map toString)} new={joinOr "," ss}"

def parseEnv (g fs targets save mods opts forbid : String) : Option Env := do
  let g ← parseGraph g
  let fs ← (splitList fs ";").mapM parseFrontend
  let m ← parseBits mods 3
  let o ← parseBits opts 2
  match m, o with
  | [tr, sel, col], [fz, inc] =>
    pure ⟨g, fs, splitList targets ",", splitList save ",", ⟨tr, sel, col⟩, ⟨fz, inc, splitList forbid ","⟩,
          Generated.rules⟩
  | _, _ => none

end C11

open C11 in
def handleC11 : List String → Option String
  | ["c11.comp", g, fs, targets, save, mods, opts, forbid] => do
    let env ← parseEnv g fs targets save mods opts forbid
    pure <| showExcept showComponents (getComponents env)
  | ["c11.run", g, fs, targets, save, mods, opts, forbid] => do
    let env ← parseEnv g fs targets save mods opts forbid
    pure <| showExcept (showRun env.g) (getComponents env)
  | ["c11.should", p, t, s] => do
    let p ← parsePol p; let t ← parseBool t; let s ← parseBool s
    pure <| showExcept (fun b => if b then "1" else "0") (Generated.shouldSave p t s)
  | ["c11.swval", p] => do
    let p ← parsePol p
    pure s!"ok {Generated.saveWhenValue p}"
  | ["c11.wetake", ex, tk, t] =>
    let f : Frontend := { exclude := splitList ex ",", takeOnly := splitList tk "," }
    pure (if f.weTake t then "ok 1" else "ok 0")
  | ["c11.topo", g] => do
    let g ← parseGraph g
    let b (x : Bool) := if x then "1" else "0"
    pure s!"ok {b (topoOrdered g)}{b (decide (allTypes g).Nodup)}"
  | _ => none

end Strax.Driver
