import StraxModel.Driver.Parse
namespace Strax.Driver
open Strax

/-- ops of property C11 (stub: no ops yet) -/
def handleC11 : List String → Option String
  | _ => none

end Strax.Driver
