import StraxModel.Driver.Parse
namespace Strax.Driver
open Strax

/-- ops of property C16 (stub: no ops yet) -/
def handleC16 : List String → Option String
  | _ => none

end Strax.Driver
