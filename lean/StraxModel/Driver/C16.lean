import StraxModel.Driver.C03
import StraxModel.Model.Copy
namespace Strax.Driver.C16
open Strax Strax.Storage Strax.Copy Strax.Driver Strax.Driver.C03

def a0 : Int := Generated.getSplitsArgmin0

/-- chunk info as `checks/props/c16.py` prints it: the C03 format without the `filesize` flag (it depends
on serial / executor saving, which the C16 model does not distinguish; the oracle checks it) -/
def showInfo16 (c : ChunkInfo) : String :=
  "/".intercalate [toString c.i, toString c.n, toString c.start, toString c.stop, showStrOpt c.runId,
    showRunsOpt (c.subruns.map jsonRuns), showIntOpt c.firstTime, showIntOpt c.firstEnd, showIntOpt c.lastTime,
    showIntOpt c.lastEnd, showStrOpt c.filename, toString c.nbytes]

def showMeta16 (m : Meta) : String :=
  s!"start={showIntOpt m.start} end={showIntOpt m.stop} we={showB m.writingEnded} exc={showB m.exception} chunks=" ++
  (if m.chunks.isEmpty then "-" else ";".intercalate (m.chunks.map showInfo16))

def showDir : Option Dir → String
  | none => "absent"
  | some (m, fs) => s!"{showMeta16 m} ## {showFiles fs}"

def showLoaded (r : Except Err (List Chunk)) : String := showExcept showChunks r

def showErrOpt : Option Err → String
  | none => "-"
  | some e => e.name

/-- `-` = None -/
def parseNatOpt (s : String) : Option (Option Nat) :=
  if s == "-" then some none else s.toNat?.map some

/-- `a+b+c` -/
def parsePlusNats (s : String) : Option (List Nat) :=
  if s == "-" || s.isEmpty then some [] else (s.splitOn "+").mapM (·.toNat?)

/-- the harness plugin `Tgt`: keeps the rows whose id is not a multiple of `m`, relabels the chunk -/
def tgtCompute (dataType : String) (target : Nat) (m : Nat) (c : Chunk) : Except Err Chunk :=
  pure (filterChunk dataType target (fun r => r.id % m != 0) c)

def getAll {α : Type} (l : List α) : List Nat → Option (List α)
  | [] => some []
  | i :: is => do
    let a ← l[i]?
    let b ← getAll l is
    pure (a :: b)

/-- the chunk numbers of each group, given the group sizes -/
def groupNumbers : Nat → List Nat → List (List Nat)
  | _, [] => []
  | k, n :: ns => (List.range n).map (· + k) :: groupNumbers (k + n) ns

/-- `provide:dep+dep` -/
def parseEntry (s : String) : Option Entry :=
  match s.splitOn ":" with
  | [p, ds] => some { provide := p, deps := if ds == "-" then [] else ds.splitOn "+", cfg := [], chunkNumber := [] }
  | _ => none

/-- `d=0+1&e=2`, `-` = no chunk_number at all -/
def parseRequest (s : String) : Option (Option (List (String × List Nat))) :=
  if s == "-" then some none
  else do
    let items ← (s.splitOn "&").mapM fun it =>
      match it.splitOn "=" with
      | [d, g] => do pure (d, ← parsePlusNats g)
      | _ => none
    pure (some items)

/-- index of the first equal element -/
def classIndex (seen : List Lineage) (l : Lineage) : Nat × List Lineage :=
  match seen.findIdx? (· == l) with
  | some i => (i, seen)
  | none => (seen.length, seen ++ [l])

def showClasses : List (Except Err Lineage) → List Lineage → List String
  | [], _ => []
  | .error e :: rest, seen => e.name :: showClasses rest seen
  | .ok l :: rest, seen =>
    let (i, seen') := classIndex seen l
    toString i :: showClasses rest seen'

end Strax.Driver.C16

namespace Strax.Driver
open Strax Strax.Storage Strax.Copy Strax.Driver.C03 Strax.Driver.C16

/-- ops of property C16.  The stored layout is given as raw chunks; the source directory is what
the plain saver makes of them (`saveAll … false`).

`c16.copy <nTargets> <rechunk> <rechunkTo> <runId> <dataType> <kind> <target> <itemsize> <pfx> <rawchunk>*`
  → `ok <meta> ## <files> ## <loaded>` of every destination, joined by ` @@ `
`c16.rechunk <replace> <rechunk> <target|-> <aliased> <runId> <dataType> <kind> <hdrTarget> <itemsize> <pfx> <rawchunk>*`
  → `<op kinds> ## e=<Err|-> ## src=<dir|absent> ## dst=<dir|absent> ## tmp=<…> ## <loaded from where the result lives>`
`c16.rol <sourceSize> <runId> <dataType> <kind> <target> <itemsize> <pfx> <rawchunk>*` → `ok <chunks>`
`c16.merge <rechunkOnSave> <rechunk> <rechunkTo> <mod> <itemsize> <runId> <tgtType> <tgtTarget> <tgtPfx> <sizes a+b> <jobPfx,…> <selection i+j> <srcTarget> <srcPfx> <rawchunk>*`
  → `ok key=<plain|a+b|Err> ## <meta> ## <files> ## <loaded>`
`c16.keys <entry,entry> <request>*` → `ok <class|Err> …` -/
def handleC16 : List String → Option String
  | "c16.copy" :: nTargets :: rechunk :: rechunkTo :: rid :: dt :: kind :: target :: isz :: pfx :: cs => do
    let isz ← isz.toNat?
    let nt ← nTargets.toNat?
    let re ← parseBool rechunk
    let rt ← rechunkTo.toNat?
    let tg ← target.toNat?
    let cs ← cs.mapM parseRawChunk
    let hdr : Header := { runId := rid, dataType := dt, kind := kind, target := tg, pfx := pfx, itemsize := isz }
    match rawChunksToChunks cs >>= saveAll a0 false hdr with
    | .error e => pure s!"err-source {e.name}"
    | .ok src =>
      let one (r : Except Err Dir) : String := match r with
        | .error e => s!"err {e.name}"
        | .ok d => s!"ok {showDir (some d)} ## {showLoaded (loadDir d)}"
      pure (" @@ ".intercalate ((copyToAll a0 loaderPerTarget src re rt nt).map one))
  | "c16.rechunk" :: replace :: rechunk :: target :: aliased :: rid :: dt :: kind :: hdrTarget :: isz :: pfx :: cs => do
    let isz ← isz.toNat?
    let rp ← parseBool replace
    let re ← parseBool rechunk
    let tg ← parseNatOpt target
    let al ← parseBool aliased
    let ht ← hdrTarget.toNat?
    let cs ← cs.mapM parseRawChunk
    let hdr : Header := { runId := rid, dataType := dt, kind := kind, target := ht, pfx := pfx, itemsize := isz }
    match rawChunksToChunks cs >>= saveAll a0 false hdr with
    | .error e => pure s!"err-source {e.name}"
    | .ok src =>
      let st : Store := { src := some src, tmp := none, dst := none, aliased := al }
      let (ops, e) := rechunkPlan a0 destGuard st rp re tg
      let fin := runOps st ops
      let result := if rp || al then fin.src else fin.dst
      let loaded := match result with
        | some d => showLoaded (loadDir d)
        | none => "absent"
      pure s!"{" ".intercalate (ops.map FsOp.kind)} ## e={showErrOpt e} ## src={showDir fin.src} ## dst={showDir fin.dst} ## tmp={if fin.tmp.isSome then "present" else "absent"} ## {loaded}"
  | "c16.rol" :: size :: rid :: dt :: kind :: target :: isz :: pfx :: cs => do
    let isz ← isz.toNat?
    let sz ← size.toNat?
    let tg ← target.toNat?
    let cs ← cs.mapM parseRawChunk
    let hdr : Header := { runId := rid, dataType := dt, kind := kind, target := tg, pfx := pfx, itemsize := isz }
    match rawChunksToChunks cs >>= saveAll a0 false hdr with
    | .error e => pure s!"err-source {e.name}"
    | .ok src => pure (showLoaded (rechunkOnLoadExec true true a0 sz src))
  | "c16.merge" :: ros :: rechunk :: rechunkTo :: m :: isz :: rid :: tdt :: ttarget :: tpfx :: sizes :: jobPfx :: sel ::
      starget :: spfx :: cs => do
    let isz ← isz.toNat?
    let ros ← parseBool ros
    let re ← parseBool rechunk
    let rt ← rechunkTo.toNat?
    let m ← m.toNat?
    let tt ← ttarget.toNat?
    let sizes ← parsePlusNats sizes
    let sel ← parsePlusNats sel
    let stg ← starget.toNat?
    let jp := splitList jobPfx ","
    let cs ← cs.mapM parseRawChunk
    match rawChunksToChunks cs with
    | .error e => pure s!"err-source {e.name}"
    | .ok cs =>
      let kind := (cs.head?.map (·.kind)).getD "k"
      let shdr : Header := { runId := rid, dataType := (cs.head?.map (·.dataType)).getD "src", kind := kind, target := stg, pfx := spfx, itemsize := isz }
      -- the dependency as stored and loaded back (what the per-chunk loader yields)
      match saveAll a0 false shdr cs >>= loadDir with
      | .error e => pure s!"err-source {e.name}"
      | .ok dep =>
        let groups := splitGroups sizes dep
        let hdrs := jp.map fun p => ({ runId := rid, dataType := tdt, kind := kind, target := tt, pfx := p, itemsize := isz } : Header)
        let thdr : Header := { runId := rid, dataType := tdt, kind := kind, target := tt, pfx := tpfx, itemsize := isz }
        match runJobs a0 (tgtCompute tdt tt m) ros hdrs groups with
        | .error e => pure s!"err-job {e.name}"
        | .ok jobs =>
          let jobs' ← getAll jobs sel
          let nums ← getAll (groupNumbers 0 sizes) sel
          -- `key_for(run, target, chunk_number=_chunk_number)` checks that the combined numbers are consecutive
          let key : Except Err String := match mergeChunkNumber dep.length nums with
            | .error e => .error e
            | .ok none => .ok "plain"
            | .ok (some l) =>
              if !consecutive l then .error Err.valueError
              -- the merged key equals the key of a per-chunk job that already exists: DataExistsError
              else if (groupNumbers 0 sizes).contains l then .error Err.other
              else .ok ("+".intercalate (l.map toString))
          match key with
          | .error e => pure s!"err {e.name}"
          | .ok key =>
            match perChunkMerge a0 jobs' re rt thdr with
            | .error e => pure s!"err {e.name}"
            | .ok d => pure s!"ok key={key} ## {showDir (some d)} ## {showLoaded (loadDir d)}"
  | "c16.mergekey" :: n :: groups => do
    let n ← n.toNat?
    let gs ← groups.mapM parsePlusNats
    pure <| match mergeChunkNumber n gs with
      | .error e => s!"err {e.name}"
      | .ok none => "ok plain"
      | .ok (some l) => "ok " ++ "+".intercalate (l.map toString)
  | "c16.keys" :: entries :: reqs => do
    let lin ← (entries.splitOn ",").mapM parseEntry
    let reqs ← reqs.mapM parseRequest
    let res := reqs.map fun r => match r with
      | none => (.ok lin : Except Err Lineage)
      | some cn => tagLineage cn lin
    pure ("ok " ++ " ".intercalate (showClasses res []))
  | _ => none

end Strax.Driver
