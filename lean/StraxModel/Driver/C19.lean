import StraxModel.Driver.Parse
import StraxModel.Model.Peaks
namespace Strax.Driver
open Strax Strax.Peaks

namespace C19

/-- `p/q` or `p` -/
def parseRat (s : String) : Option Rat :=
  match s.splitOn "/" with
  | [a] => do pure ((← a.toInt?) : Rat)
  | [a, b] => do
    let n ← a.toInt?; let d ← b.toNat?
    if d = 0 then none else pure ((n : Rat) / (d : Rat))
  | _ => none

def showRat (r : Rat) : String := if r.den = 1 then toString r.num else s!"{r.num}/{r.den}"

def parseRats (s : String) (sep : String := ",") : Option (List Rat) := (splitList s sep).mapM parseRat
def showRats (l : List Rat) (sep : String := ",") : String := if l.isEmpty then "-" else sep.intercalate (l.map showRat)

/-- `time:length:dt:channel:area[:w1;w2;…]` -/
def parseHit (tok : String) : Option Hit :=
  match tok.splitOn ":" with
  | [t, l, d, c, a] => do pure { time := ← t.toInt?, length := ← l.toInt?, dt := ← d.toInt?, channel := ← c.toNat?, area := ← parseRat a }
  | [t, l, d, c, a, w] => do
    pure { time := ← t.toInt?, length := ← l.toInt?, dt := ← d.toInt?, channel := ← c.toNat?, area := ← parseRat a,
           wave := ← parseRats w ";" }
  | _ => none

def parseHits (s : String) : Option (List Hit) := (splitList s ",").mapM parseHit

/-- `time:length:dt:area:nhits:apc;…:data;…` -/
def parsePeak (tok : String) : Option Peak :=
  match tok.splitOn ":" with
  | [t, l, d, a, n, apc, data] => do
    pure { time := ← t.toInt?, length := ← l.toInt?, dt := ← d.toInt?, area := ← parseRat a, nHits := ← n.toInt?,
           apc := ← parseRats apc ";", maxGap := 0, data := ← parseRats data ";" }
  | _ => none

def parsePeaks (s : String) : Option (List Peak) := (splitList s ",").mapM parsePeak

def showPeak (p : Peak) : String :=
  s!"{p.time}:{p.length}:{p.dt}:{showRat p.area}:{p.nHits}:{p.maxGap}:{showRats p.apc ";"}:{showRats p.data ";"}"

def showPeaks (ps : List Peak) : String := if ps.isEmpty then "-" else ",".intercalate (ps.map showPeak)

def parsePair (tok : String) : Option (Nat × Nat) :=
  match tok.splitOn ":" with
  | [a, b] => do pure (← a.toNat?, ← b.toNat?)
  | _ => none

def parseMask (s : String) : Option (Option (List Bool)) :=
  if s == "-" then some none
  else do
    let bs ← s.toList.mapM fun c => if c == '1' then some true else if c == '0' then some false else none
    pure (some bs)

def showMask (m : List Bool) : String := if m.isEmpty then "-" else String.ofList (m.map fun b => if b then '1' else '0')

/-- `time:length:dt:area:s1;s2;…` -/
def parseSplitPeak (tok : String) : Option (Peak × List Int) :=
  match tok.splitOn ":" with
  | [t, l, d, a, sp] => do
    pure ({ time := ← t.toInt?, length := ← l.toInt?, dt := ← d.toInt?, area := ← parseRat a, nHits := 0,
            apc := [], maxGap := 0, data := [] }, ← (splitList sp ";").mapM (·.toInt?))
  | _ => none

def showFrag (r : Frag) : String := s!"{r.time}:{r.length}:{r.dt}"
def showFrags (l : List Frag) : String := if l.isEmpty then "-" else ",".intercalate (l.map showFrag)

def showIntervals (l : List (Int × Int)) : String := ";".intercalate (l.map fun q => s!"{q.1}:{q.2}")

end C19

open C19 in
/-- ops of property C19 (theory T15 Peaks); every op name starts with `c19.` -/
def handleC19 : List String → Option String
  | ["c19.findpeaks", hits, toPe, gap, left, right, minArea, minCh, maxDur, nCh, nS] => do
    let hits ← parseHits hits; let toPe ← parseRats toPe
    let P : FPParams := { gap := ← gap.toInt?, left := ← left.toInt?, right := ← right.toInt?, minArea := ← parseRat minArea,
                          minChannels := ← minCh.toInt?, maxDuration := ← maxDur.toInt? }
    pure <| showExcept showPeaks (findPeaks P toPe (← nCh.toNat?) (← nS.toNat?) hits)
  | ["c19.clusters", hits, toPe, gap, left, right, maxDur, nCh] => do
    -- ghost view: the hit groups behind the closed candidates (start times of the members)
    let hits ← parseHits hits; let toPe ← parseRats toPe
    let P : FPParams := { gap := ← gap.toInt?, left := ← left.toInt?, right := ← right.toInt?, minArea := 0,
                          minChannels := 1, maxDuration := ← maxDur.toInt? }
    let cs := scanHits P toPe (← nCh.toNat?) none hits
    pure <| "ok " ++ " ".intercalate (cs.map fun c => showInts (c.members.map (·.time)))
  | ["c19.store", nS, length, dt, buf] => do
    let buf ← parseRats buf
    let p : Peak := { time := 0, length := ← length.toInt?, dt := ← dt.toInt?, area := 0, apc := [], nHits := 0, maxGap := 0,
                      data := zeros (← nS.toNat?) }
    let q := storeDownsampled p buf
    pure s!"ok {q.length} {q.dt} {showRats q.data}"
  | ["c19.sumwf", dt, toPe, nCh, peaks, hits] => do
    let peaks ← parsePeaks peaks; let hits ← parseHits hits; let toPe ← parseRats toPe
    pure <| showExcept showPeaks (sumWaveform (← dt.toInt?) toPe (← nCh.toNat?) peaks hits)
  | ["c19.merge", nCh, nS, peaks, mask, ranges] => do
    let peaks ← parsePeaks peaks; let mask ← parseMask mask; let ranges ← (splitList ranges ",").mapM parsePair
    pure <| showExcept (fun l => if l.isEmpty then "-" else ",".intercalate (l.map fun q => s!"{showPeak q.1}:{q.2}"))
      (mergePeaks (← nCh.toNat?) (← nS.toNat?) peaks mask ranges)
  | ["c19.replace", orig, merge] => do
    let orig ← parseRows orig; let merge ← parseRows merge
    pure <| showExcept showRows (replaceMerged orig merge)
  | ["c19.windows", things, containers] => do
    let t ← parseRows things; let c ← parseRows containers
    pure <| showExcept (fun l => if l.isEmpty then "-" else ",".intercalate (l.map fun q => s!"{q.1}:{q.2}")) (touchingWindows t c)
  | ["c19.lone", toPe, peaks, lone] => do
    let peaks ← parsePeaks peaks; let lone ← parseHits lone; let toPe ← parseRats toPe
    pure <| showExcept showPeaks (addLoneHits toPe peaks lone)
  | ["c19.split", origDt, minArea, peaks] => do
    let ps ← (splitList peaks ",").mapM parseSplitPeak
    pure <| showExcept (fun q => s!"{showFrags q.1} {showMask q.2}") (splitPeaksCore (← origDt.toInt?) (← parseRat minArea) ps)
  | ["c19.lmsplit", w, mh, mr] => do
    pure s!"ok {showInts (localMinimumYields (← parseRats w) (← parseRat mh) (← parseRat mr))}"
  | ["c19.sma", a, w] => do
    pure s!"ok {showRats (symmetricMovingAverage (← parseRats a) (← w.toNat?))}"
  | ["c19.smaold", dropZero, clamp, a, w] => do
    pure s!"ok {showRats (smaGen (← parseBool dropZero) (← parseBool clamp) (← parseRats a) (← w.toNat?))}"
  | ["c19.iof", wave, length, area, fractions] => do
    let wave ← parseRats wave
    let p : Peak := { time := 0, length := ← length.toInt?, dt := 1, area := ← parseRat area, apc := [], nHits := 0, maxGap := 0, data := wave }
    pure s!"ok {showRats (indexOfFraction p (← parseRats fractions))}"
  | ["c19.widths", wave, length, dt, area, nW] => do
    let wave ← parseRats wave
    let p : Peak := { time := 0, length := ← length.toInt?, dt := ← dt.toInt?, area := ← parseRat area, apc := [], nHits := 0, maxGap := 0, data := wave }
    let (m, w, d) := computeWidths p (← nW.toNat?)
    pure s!"ok {showRat m} {showRats w} {showRats d}"
  | ["c19.hdr", data, fractions, upper, bufSize] => do
    let r := highestDensityRegion (← parseRats data) (← parseRats fractions) (← parseBool upper) (← bufSize.toNat?)
    pure <| showExcept (fun rows => if rows.isEmpty then "-" else " ".intercalate (rows.map fun q => showIntervals q.1)) r
  | ["c19.hdramp", data, fractions, upper, bufSize] => do
    let r := highestDensityRegion (← parseRats data) (← parseRats fractions) (← parseBool upper) (← bufSize.toNat?)
    pure <| showExcept (fun rows => showRats (rows.map (·.2))) r
  | _ => none

end Strax.Driver
