import StraxModel.Driver.Parse
namespace Strax.Driver
open Strax

/-- ops of property C19 (stub: no ops yet) -/
def handleC19 : List String → Option String
  | _ => none

end Strax.Driver
