import StraxModel.Lemmas.ChunkAlg
/-
  Property C07 — splitting, concatenating, merging and rechunking obey the laws of chunking.
  Only property theorems and non-vacuity examples live here; the work is in Lemmas/ChunkAlg.lean.
-/
namespace Strax.C07
open Strax

/-! ## 1. `split_array`: conservation, strictness, totality of the early mode -/

theorem splitArray_conserves (data : List Row) (t : Int) (early : Bool) (l r : List Row) (t' : Int)
    (h : splitArray data t early = .ok (l, r, t')) : l ++ r = data :=
  splitArray_append h

example : splitArray [⟨0,3,0⟩, ⟨2,5,1⟩, ⟨7,9,2⟩] 6 false = .ok ([⟨0,3,0⟩, ⟨2,5,1⟩], [⟨7,9,2⟩], 6) := by decide

theorem splitArray_strict_time (data : List Row) (t : Int) (l r : List Row) (t' : Int)
    (h : splitArray data t false = .ok (l, r, t')) : t' = t :=
  splitArray_strict h

/-- with `allow_early_split=True` the call never fails: the `none => .error .other` branch of the
model (an `IndexError` in the code) is unreachable, and so is `CannotSplit`. -/
theorem splitArray_early_total (data : List Row) (t : Int) :
    ∃ l r t', splitArray data t true = .ok (l, r, t') := by
  obtain ⟨⟨l, r, t'⟩, h⟩ := splitArray_early_ok data t
  exact ⟨l, r, t', h⟩

example : splitArray [⟨0,3,0⟩, ⟨3,6,1⟩, ⟨5,8,2⟩] 7 true = .ok ([⟨0,3,0⟩], [⟨3,6,1⟩, ⟨5,8,2⟩], 3) := by decide

/-- without early splitting the only failure is `CannotSplit` -/
theorem splitArray_strict_error (data : List Row) (t : Int) (e : Err)
    (h : splitArray data t false = .error e) : e = .cannotSplit :=
  Strax.splitArray_strict_error h

example : splitArray [⟨0,3,0⟩, ⟨2,5,1⟩, ⟨7,9,2⟩] 4 false = .error .cannotSplit := by decide

/-! ## 2. every row is entirely on one side -/

theorem splitArray_separates (data : List Row) (t : Int) (early : Bool) (l r : List Row) (t' : Int)
    (hs : SortedByTime data) (h : splitArray data t early = .ok (l, r, t')) :
    (∀ x ∈ l, x.endt ≤ t') ∧ (∀ x ∈ r, t' ≤ x.time) :=
  splitArray_sep hs h

example : SortedByTime [⟨0,3,0⟩, ⟨2,5,1⟩, ⟨5,9,2⟩] ∧
    splitArray [⟨0,3,0⟩, ⟨2,5,1⟩, ⟨5,9,2⟩] 5 false = .ok ([⟨0,3,0⟩, ⟨2,5,1⟩], [⟨5,9,2⟩], 5) := by decide

/-! ## 3. refusal happens exactly when a row straddles `t`

`PositiveRows data` is not needed for this law (it is needed for §4), so the theorem is stated
without it; `splitArray_refuses_iff'` is the version with the full hypothesis list of DESIGN §6. -/

theorem splitArray_refuses_iff (data : List Row) (t : Int)
    (hs : SortedByTime data) (hnn : ∀ r ∈ data, 0 ≤ r.time) :
    splitArray data t false = .error .cannotSplit ↔ ∃ r ∈ data, r.straddles t :=
  ⟨straddler_of_splitArray_refuses hnn, splitArray_refuses_of_straddler hs⟩

theorem splitArray_refuses_iff' (data : List Row) (t : Int)
    (hs : SortedByTime data) (_hpos : PositiveRows data) (hnn : ∀ r ∈ data, 0 ≤ r.time) :
    splitArray data t false = .error .cannotSplit ↔ ∃ r ∈ data, r.straddles t :=
  splitArray_refuses_iff data t hs hnn

/-- equivalently: without a straddler the strict split succeeds at exactly `t` -/
theorem splitArray_ok_iff (data : List Row) (t : Int)
    (hs : SortedByTime data) (hnn : ∀ r ∈ data, 0 ≤ r.time) :
    (∃ l r, splitArray data t false = .ok (l, r, t)) ↔ ¬ ∃ r ∈ data, r.straddles t := by
  rw [← splitArray_refuses_iff data t hs hnn]
  constructor
  · rintro ⟨l, r, h⟩ h'
    rw [h] at h'
    cases h'
  · intro hne
    cases hres : splitArray data t false with
    | error e =>
      have := Strax.splitArray_strict_error hres
      subst this
      exact absurd hres hne
    | ok v =>
      obtain ⟨l, r, t'⟩ := v
      have := splitArray_strict hres
      subst this
      exact ⟨l, r, rfl⟩

example : SortedByTime [⟨0,3,0⟩, ⟨2,5,1⟩, ⟨7,9,2⟩] ∧ PositiveRows [⟨0,3,0⟩, ⟨2,5,1⟩, ⟨7,9,2⟩] ∧
    (∀ r ∈ [(⟨0,3,0⟩ : Row), ⟨2,5,1⟩, ⟨7,9,2⟩], 0 ≤ r.time) ∧
    (∃ r ∈ [(⟨0,3,0⟩ : Row), ⟨2,5,1⟩, ⟨7,9,2⟩], r.straddles 4) := by decide

/-- The non-negativity hypothesis is necessary: `latest_end_seen` starts at `-1`, so on negative
times the code refuses although no row straddles `t`. -/
theorem splitArray_refuses_iff_needs_nonneg :
    SortedByTime [⟨-10,-8,0⟩, ⟨-5,-4,1⟩] ∧ PositiveRows [⟨-10,-8,0⟩, ⟨-5,-4,1⟩] ∧
    splitArray [⟨-10,-8,0⟩, ⟨-5,-4,1⟩] (-6) false = .error .cannotSplit ∧
    ¬ ∃ r ∈ [(⟨-10,-8,0⟩ : Row), ⟨-5,-4,1⟩], r.straddles (-6) := by decide

/-! ## 4. the early split time is the latest admissible one -/

theorem splitArray_early_latest (data : List Row) (t : Int) (l r : List Row) (t' : Int)
    (hs : SortedByTime data) (hpos : PositiveRows data) (hnn : ∀ r ∈ data, 0 ≤ r.time)
    (h : splitArray data t true = .ok (l, r, t')) :
    t' ≤ t ∧ (∀ τ, t' < τ → τ ≤ t → ∃ r ∈ data, r.straddles τ) ∧ (¬ ∃ r ∈ data, r.straddles t') := by
  refine ⟨splitArray_time_le h, splitArray_early_chain hpos hnn h, ?_⟩
  have hsep := splitArray_sep hs h
  have := no_straddler_of_sep hsep.1 hsep.2
  rwa [splitArray_append h] at this

example : SortedByTime [⟨0,3,0⟩, ⟨3,5,1⟩, ⟨4,8,2⟩, ⟨9,10,3⟩] ∧
    PositiveRows [⟨0,3,0⟩, ⟨3,5,1⟩, ⟨4,8,2⟩, ⟨9,10,3⟩] ∧
    (∀ r ∈ [(⟨0,3,0⟩ : Row), ⟨3,5,1⟩, ⟨4,8,2⟩, ⟨9,10,3⟩], 0 ≤ r.time) ∧
    splitArray [⟨0,3,0⟩, ⟨3,5,1⟩, ⟨4,8,2⟩, ⟨9,10,3⟩] 7 true
      = .ok ([⟨0,3,0⟩], [⟨3,5,1⟩, ⟨4,8,2⟩, ⟨9,10,3⟩], 3) := by decide

end Strax.C07
