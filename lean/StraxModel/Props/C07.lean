import StraxModel.Lemmas.ChunkAlg
import StraxModel.Lemmas.ChunkAlgGen
import StraxModel.Lemmas.ChunkAlgSingle
/-
  Property C07 — splitting, concatenating, merging and rechunking obey the laws of chunking.
  Only property theorems and non-vacuity examples live here; the work is in Lemmas/ChunkAlg*.lean, RunOrder.lean,
  SuperrunBad.lean (umbrella Lemmas/ChunkAlg.lean).

  51 theorems.  Naming: `…_partial` = covers only part of the property's quantifier "all sub-run / super-run
  annotations" (the docstring says which part and what is MISSING); `…_counterexample` / `…_needs_nonneg` = witnesses.
  * full (38): split_array (§1–4), Chunk.split on any chunk (conservation, separation, refusal, early-latest),
    run dictionaries (`split_merge_runs`), rejections of concatenate / merge, `merge_spec`, `merge_total`,
    `mergeArrs_col`, diff / gap indices / `getSplits_total`, `generated_argmin0`; round 5: the translated source
    (§8: `generated_loop_eq_scan`, `generated_splitArray_eq_model`, `generated_splitArray_laws`,
    `generated_splitArray_refuses_iff`, `generated_split_eq_model`, `generated_split_edge_tests`) and Chunk.split on
    EVERY single-run chunk (§9: `split_total`, `split_early_total`, `split_single_spec` — full siblings of
    `split_total_partial`, `split_total_annotated_partial`, `split_annotated_spec_partial`).
  * partial (9): plain chunks / streams — `split_total_partial`, `concat_inverse_partial`, `splitOff_any_gaps_partial`,
    `rechunk_stream_partial`, `rechunk_stream_gaps_partial`; tiled sub-run annotations (`Chunk.annotated`) —
    `split_total_annotated_partial`, `split_annotated_spec_partial`, `concat_inverse_annotated_partial`; any stream —
    `rechunk_stream_annotated_partial`.  Still NOT covered by a positive theorem: multi-entry `superrun`
    (`run_id = None`; three open findings live there), and for concatenate-is-inverse / the rechunker also
    `subruns = {}`, non-tiled spans, `promisedContinuity = false`.
  * witnesses (4): `splitArray_refuses_iff_needs_nonneg`, `getSplits_counterexample` (fixed D1),
    `split_concat_product_counterexample`, `split_total_counterexample` (open finding).
-/
namespace Strax.C07
open Strax

/-! ## 1. `split_array`: conservation, strictness, totality of the early mode -/

theorem splitArray_conserves (data : List Row) (t : Int) (early : Bool) (l r : List Row) (t' : Int)
    (h : splitArray data t early = .ok (l, r, t')) : l ++ r = data :=
  splitArray_append h

example : splitArray [⟨0,3,0⟩, ⟨2,5,1⟩, ⟨7,9,2⟩] 6 false = .ok ([⟨0,3,0⟩, ⟨2,5,1⟩], [⟨7,9,2⟩], 6) := by decide

theorem splitArray_strict_time (data : List Row) (t : Int) (l r : List Row) (t' : Int)
    (h : splitArray data t false = .ok (l, r, t')) : t' = t :=
  splitArray_strict h

/-- with `allow_early_split=True` the call never fails: the `none => .error .other` branch of the
model (an `IndexError` in the code) is unreachable, and so is `CannotSplit`. -/
theorem splitArray_early_total (data : List Row) (t : Int) :
    ∃ l r t', splitArray data t true = .ok (l, r, t') := by
  obtain ⟨⟨l, r, t'⟩, h⟩ := splitArray_early_ok data t
  exact ⟨l, r, t', h⟩

example : splitArray [⟨0,3,0⟩, ⟨3,6,1⟩, ⟨5,8,2⟩] 7 true = .ok ([⟨0,3,0⟩], [⟨3,6,1⟩, ⟨5,8,2⟩], 3) := by decide

/-- without early splitting the only failure is `CannotSplit` -/
theorem splitArray_strict_error (data : List Row) (t : Int) (e : Err)
    (h : splitArray data t false = .error e) : e = .cannotSplit :=
  Strax.splitArray_strict_error h

example : splitArray [⟨0,3,0⟩, ⟨2,5,1⟩, ⟨7,9,2⟩] 4 false = .error .cannotSplit := by decide

/-! ## 2. every row is entirely on one side -/

theorem splitArray_separates (data : List Row) (t : Int) (early : Bool) (l r : List Row) (t' : Int)
    (hs : SortedByTime data) (h : splitArray data t early = .ok (l, r, t')) :
    (∀ x ∈ l, x.endt ≤ t') ∧ (∀ x ∈ r, t' ≤ x.time) :=
  splitArray_sep hs h

example : SortedByTime [⟨0,3,0⟩, ⟨2,5,1⟩, ⟨5,9,2⟩] ∧
    splitArray [⟨0,3,0⟩, ⟨2,5,1⟩, ⟨5,9,2⟩] 5 false = .ok ([⟨0,3,0⟩, ⟨2,5,1⟩], [⟨5,9,2⟩], 5) := by decide

/-! ## 3. refusal happens exactly when a row straddles `t`

`PositiveRows data` is not needed for this law (it is needed for §4), so the theorem is stated
without it; `splitArray_refuses_iff_pos` is the version with the full hypothesis list of DESIGN §6. -/

theorem splitArray_refuses_iff (data : List Row) (t : Int)
    (hs : SortedByTime data) (hnn : ∀ r ∈ data, 0 ≤ r.time) :
    splitArray data t false = .error .cannotSplit ↔ ∃ r ∈ data, r.straddles t :=
  ⟨straddler_of_splitArray_refuses hnn, splitArray_refuses_of_straddler hs⟩

theorem splitArray_refuses_iff_pos (data : List Row) (t : Int)
    (hs : SortedByTime data) (_hpos : PositiveRows data) (hnn : ∀ r ∈ data, 0 ≤ r.time) :
    splitArray data t false = .error .cannotSplit ↔ ∃ r ∈ data, r.straddles t :=
  splitArray_refuses_iff data t hs hnn

/-- equivalently: without a straddler the strict split succeeds at exactly `t` -/
theorem splitArray_ok_iff (data : List Row) (t : Int)
    (hs : SortedByTime data) (hnn : ∀ r ∈ data, 0 ≤ r.time) :
    (∃ l r, splitArray data t false = .ok (l, r, t)) ↔ ¬ ∃ r ∈ data, r.straddles t := by
  rw [← splitArray_refuses_iff data t hs hnn]
  constructor
  · rintro ⟨l, r, h⟩ h'
    rw [h] at h'
    cases h'
  · intro hne
    cases hres : splitArray data t false with
    | error e =>
      have := Strax.splitArray_strict_error hres
      subst this
      exact absurd hres hne
    | ok v =>
      obtain ⟨l, r, t'⟩ := v
      have := splitArray_strict hres
      subst this
      exact ⟨l, r, rfl⟩

example : SortedByTime [⟨0,3,0⟩, ⟨2,5,1⟩, ⟨7,9,2⟩] ∧ PositiveRows [⟨0,3,0⟩, ⟨2,5,1⟩, ⟨7,9,2⟩] ∧
    (∀ r ∈ [(⟨0,3,0⟩ : Row), ⟨2,5,1⟩, ⟨7,9,2⟩], 0 ≤ r.time) ∧
    (∃ r ∈ [(⟨0,3,0⟩ : Row), ⟨2,5,1⟩, ⟨7,9,2⟩], r.straddles 4) := by decide

/-- The non-negativity hypothesis is necessary: `latest_end_seen` starts at `-1`, so on negative
times the code refuses although no row straddles `t`. -/
theorem splitArray_refuses_iff_needs_nonneg :
    SortedByTime [⟨-10,-8,0⟩, ⟨-5,-4,1⟩] ∧ PositiveRows [⟨-10,-8,0⟩, ⟨-5,-4,1⟩] ∧
    splitArray [⟨-10,-8,0⟩, ⟨-5,-4,1⟩] (-6) false = .error .cannotSplit ∧
    ¬ ∃ r ∈ [(⟨-10,-8,0⟩ : Row), ⟨-5,-4,1⟩], r.straddles (-6) := by decide

/-- Translation invariance: on non-negative data (`0 ≤ time ≤ endt`) shifting every time and the
split time by `k ≥ 0` shifts the result of `split_array` by `k` and changes nothing else (the
only absolute constant of the loop, `latest_end_seen = -1`, stays below all times).  This is why
small-grid exhaustive sweeps plus a sample of epoch-scale (shifted) harness runs cover the time
axis. -/
theorem splitArray_shift (data : List Row) (t k : Int) (early : Bool) (hk : 0 ≤ k)
    (hnn : ∀ r ∈ data, 0 ≤ r.time ∧ r.time ≤ r.endt) :
    splitArray (data.map (Row.shift k)) (t + k) early =
      match splitArray data t early with
      | .ok (l, r, t') => .ok (l.map (Row.shift k), r.map (Row.shift k), t' + k)
      | .error e => .error e :=
  splitArray_shift' data t k early hk hnn

example : (∀ r ∈ [(⟨0,3,0⟩ : Row), ⟨3,6,1⟩, ⟨5,8,2⟩], 0 ≤ r.time ∧ r.time ≤ r.endt) ∧
    splitArray ([⟨0,3,0⟩, ⟨3,6,1⟩, ⟨5,8,2⟩].map (Row.shift 1700000000000000137)) (7 + 1700000000000000137) true
      = .ok ([⟨1700000000000000137, 1700000000000000140, 0⟩],
             [⟨1700000000000000140, 1700000000000000143, 1⟩, ⟨1700000000000000142, 1700000000000000145, 2⟩],
             1700000000000000140) := by decide

/-! ## 4. the early split time is the latest admissible one -/

theorem splitArray_early_latest (data : List Row) (t : Int) (l r : List Row) (t' : Int)
    (hs : SortedByTime data) (hpos : PositiveRows data) (hnn : ∀ r ∈ data, 0 ≤ r.time)
    (h : splitArray data t true = .ok (l, r, t')) :
    t' ≤ t ∧ (∀ τ, t' < τ → τ ≤ t → ∃ r ∈ data, r.straddles τ) ∧ (¬ ∃ r ∈ data, r.straddles t') := by
  refine ⟨splitArray_time_le h, splitArray_early_chain hpos hnn h, ?_⟩
  have hsep := splitArray_sep hs h
  have := no_straddler_of_sep hsep.1 hsep.2
  rwa [splitArray_append h] at this

example : SortedByTime [⟨0,3,0⟩, ⟨3,5,1⟩, ⟨4,8,2⟩, ⟨9,10,3⟩] ∧
    PositiveRows [⟨0,3,0⟩, ⟨3,5,1⟩, ⟨4,8,2⟩, ⟨9,10,3⟩] ∧
    (∀ r ∈ [(⟨0,3,0⟩ : Row), ⟨3,5,1⟩, ⟨4,8,2⟩, ⟨9,10,3⟩], 0 ≤ r.time) ∧
    splitArray [⟨0,3,0⟩, ⟨3,5,1⟩, ⟨4,8,2⟩, ⟨9,10,3⟩] 7 true
      = .ok ([⟨0,3,0⟩], [⟨3,5,1⟩, ⟨4,8,2⟩, ⟨9,10,3⟩], 3) := by decide

/-! ## 5. `Chunk.split` -/

/-- a small well-formed chunk used in the non-vacuity examples -/
def exChunk : Chunk :=
  ⟨"peaks", "peaks", some "r0", 0, 20, [⟨1,4,0⟩, ⟨3,8,1⟩, ⟨10,12,2⟩], none, [⟨"r0", 0, 20⟩], 2⟩

theorem split_conserves (c : Chunk) (t : Int) (early : Bool) (c1 c2 : Chunk)
    (hse : c.start ≤ c.stop) (h : c.split t early = .ok (c1, c2)) :
    c1.rows ++ c2.rows = c.rows ∧ c1.start = c.start ∧ c1.stop = c2.start ∧ c2.stop = c.stop :=
  split_conserves' hse h

example : exChunk.start ≤ exChunk.stop ∧ exChunk.split 9 false = .ok
    ({ exChunk with stop := 9, rows := [⟨1,4,0⟩, ⟨3,8,1⟩], superrun := [⟨"r0", 0, 9⟩] },
     { exChunk with start := 9, rows := [⟨10,12,2⟩], superrun := [⟨"r0", 9, 20⟩] }) := by decide +kernel

theorem split_separates (c : Chunk) (t : Int) (early : Bool) (c1 c2 : Chunk)
    (hse : c.start ≤ c.stop) (hs : SortedByTime c.rows) (hin : ∀ x ∈ c.rows, x.endt ≤ c.stop)
    (h : c.split t early = .ok (c1, c2)) :
    (∀ x ∈ c1.rows, x.endt ≤ c1.stop) ∧ (∀ x ∈ c2.rows, c2.start ≤ x.time) :=
  split_separates' hse hs hin h

example : exChunk.start ≤ exChunk.stop ∧ SortedByTime exChunk.rows ∧
    (∀ x ∈ exChunk.rows, x.endt ≤ exChunk.stop) := by decide

/-- a well-formed chunk (`Chunk.wf`: `0 ≤ start ≤ stop`, rows sorted, positive and inside the
range) refuses a strict split exactly when a row straddles `t` — for every `t`, including the
edges and beyond, where `t` is clamped and nothing can straddle. -/
theorem split_refuses_iff (c : Chunk) (t : Int) (hwf : c.wf = true) :
    c.split t false = .error .cannotSplit ↔ ∃ r ∈ c.rows, r.straddles t :=
  split_refuses_iff' hwf

example : exChunk.wf = true ∧ (∃ r ∈ exChunk.rows, r.straddles 5) ∧
    exChunk.split 5 false = .error .cannotSplit := by decide

/-- chunk-level early split (any annotations, rows well-formed): the time actually used — the stop of the left half —
is the latest admissible time not after the clamped `t`: not later, nothing admissible in between, itself admissible -/
theorem split_early_latest (c : Chunk) (t : Int) (c1 c2 : Chunk) (hwf : c.wf = true)
    (h : c.split t true = .ok (c1, c2)) :
    c1.stop ≤ max (min t c.stop) c.start ∧
    (∀ τ, c1.stop < τ → τ ≤ max (min t c.stop) c.start → ∃ r ∈ c.rows, r.straddles τ) ∧
    ¬ ∃ r ∈ c.rows, r.straddles c1.stop :=
  split_early_latest' hwf h

example : exChunk.wf = true ∧ exChunk.split 7 true = .ok
    ({ exChunk with stop := 1, rows := [], superrun := [⟨"r0", 0, 1⟩] },
     { exChunk with start := 1, superrun := [⟨"r0", 1, 20⟩] }) := by decide +kernel

/-- PLAIN CHUNKS ONLY (`Chunk.good` = well-formed ∧ `subruns = none` ∧ `superrun = [(run_id,start,stop)]`;
for chunks with sub-run annotations see `split_total_annotated_partial`; multi-entry `superrun` is not covered).
MISSING: the same for annotated chunks beyond `Chunk.annotated`; it is FALSE for `run_id = None` with sub-runs
(`split_concat_product_counterexample`).
The strict split of a good chunk succeeds whenever no row straddles `t`, and both halves are good again -/
theorem split_total_partial (c : Chunk) (t : Int) (hg : c.good = true) (hno : ¬ ∃ r ∈ c.rows, r.straddles t) :
    ∃ c1 c2, c.split t false = .ok (c1, c2) ∧ c1.good = true ∧ c2.good = true := by
  obtain ⟨c1, c2, h⟩ := split_good_ok hg hno
  obtain ⟨_, _, _, _, _, _, _, _, _, _, _, h1, h2⟩ := split_good hg h
  exact ⟨c1, c2, h, h1, h2⟩

example : exChunk.good = true ∧ ¬ ∃ r ∈ exChunk.rows, r.straddles 9 := by decide

/-- run annotations: splitting sorted, distinct, non-empty spans at `t` (`_split_runs_in_chunk`)
and merging both sides back (`_merge_runs_in_chunk`, `_mergable_check(merge=False)`) is the identity -/
theorem split_merge_runs (t : Int) (rs : Runs) (hs : rs.Pairwise (fun a b => a.start ≤ b.start))
    (hnd : (rs.map (·.id)).Nodup) (hpos : ∀ r ∈ rs, r.start < r.stop) :
    mergableCheck false (collectRuns [(splitRuns (some rs) t).1, (splitRuns (some rs) t).2]) = .ok rs :=
  split_merge_runs' t rs hs hnd hpos

example : ([⟨"a", 0, 10⟩, ⟨"b", 10, 30⟩, ⟨"c", 30, 40⟩] : Runs).Pairwise (fun a b => a.start ≤ b.start) ∧
    (([⟨"a", 0, 10⟩, ⟨"b", 10, 30⟩, ⟨"c", 30, 40⟩] : Runs).map (·.id)).Nodup ∧
    (∀ r ∈ ([⟨"a", 0, 10⟩, ⟨"b", 10, 30⟩, ⟨"c", 30, 40⟩] : Runs), r.start < r.stop) ∧
    splitRuns (some [⟨"a", 0, 10⟩, ⟨"b", 10, 30⟩, ⟨"c", 30, 40⟩]) 20
      = (some [⟨"a", 0, 10⟩, ⟨"b", 10, 20⟩], some [⟨"b", 20, 30⟩, ⟨"c", 30, 40⟩]) := by decide

/-! ## 6. `concatenate`, `merge` -/

/-- PLAIN CHUNKS ONLY (`Chunk.good`: no sub-run annotation, default super-run entry; for chunks with sub-run
annotations see `concat_inverse_annotated_partial`; for multi-entry `superrun` / `run_id = None` nothing is proved: there
`concatenate(…, allow_superrun=False)` of the halves is rejected and `split` itself raises when sub-runs are present).
Concatenating the two halves of a split gives back the chunk itself (all fields) -/
theorem concat_inverse_partial (c : Chunk) (t : Int) (early : Bool) (c1 c2 : Chunk) (hg : c.good = true)
    (h : c.split t early = .ok (c1, c2)) : concatenate [c1, c2] false = .ok c := by
  obtain ⟨rid, t', hrid, hst, hts, -, hc1, hc2, hcat, -, -, hg1, hg2⟩ := split_good hg h
  have e1 : c1.stop = c2.start := by rw [hc1, hc2]
  have e2 : c1.dataType = c2.dataType := by rw [hc1, hc2]
  have e3 : c1.runId = c2.runId := by rw [hc1, hc2]
  obtain ⟨rid', hrid', hcc, -⟩ := concat_good2 hg1 hg2 e1 e2 e3
  rw [hcc]
  have hrr : rid' = rid := by
    rw [hc1] at hrid'
    simpa using hrid'.symm
  subst hrr
  simp only [Chunk.good, Bool.and_eq_true] at hg
  obtain ⟨hsub, rid'', hrid'', hsup⟩ := (Chunk.simple_iff c).1 hg.2
  have hrr : rid'' = rid' := by rw [hrid] at hrid''; simpa using hrid''.symm
  subst hrr
  have f1 : c1.dataType = c.dataType := by rw [hc1]
  have f2 : c1.kind = c.kind := by rw [hc1]
  have f3 : c1.start = c.start := by rw [hc1]
  have f4 : c2.stop = c.stop := by rw [hc2]
  have f5 : c1.target = c.target := by rw [hc1]
  have f6 : c2.target = c.target := by rw [hc2]
  rw [f1, f2, f3, f4, f5, f6, hcat, Nat.max_self, chunk_eta_simple c rid'' hsub hrid'' hsup]

example : exChunk.good = true ∧ exChunk.split 11 true = .ok
    ({ exChunk with stop := 10, rows := [⟨1,4,0⟩, ⟨3,8,1⟩], superrun := [⟨"r0", 0, 10⟩] },
     { exChunk with start := 10, rows := [⟨10,12,2⟩], superrun := [⟨"r0", 10, 20⟩] }) := by decide +kernel

/-- chunks that go back in time or overlap are rejected -/
theorem concat_rejects_out_of_order (cs : List Chunk) (a : Bool) (hlen : 2 ≤ cs.length)
    (h : outOfOrder 0 cs = true) : concatenate cs a = .error .valueError := by
  obtain ⟨e, he⟩ := concat_rejects_order' hlen h
  rw [he, concatenate_error he]

example : outOfOrder 0 [{ exChunk with start := 10, stop := 20 }, { exChunk with start := 5, stop := 10 }] = true ∧
    concatenate [{ exChunk with start := 10, stop := 20, rows := [] }, { exChunk with start := 5, stop := 10, rows := [] }] false
      = .error .valueError := by decide

theorem concat_rejects_types (cs : List Chunk) (a : Bool) (hlen : 2 ≤ cs.length)
    (h : allEq (cs.map (·.dataType)) = false) : concatenate cs a = .error .valueError :=
  concat_rejects_types' hlen h

example : allEq ([exChunk, { exChunk with dataType := "hits" }].map (·.dataType)) = false := by decide

theorem concat_rejects_runs (cs : List Chunk) (hlen : 2 ≤ cs.length)
    (h : allEq (cs.map (·.runId)) = false) : concatenate cs false = .error .valueError :=
  concat_rejects_runs' hlen h

example : allEq ([exChunk, { exChunk with runId := some "r1" }].map (·.runId)) = false := by decide

theorem merge_rejects_kind (cs : List Chunk) (dt : String) (hlen : 2 ≤ cs.length)
    (h : allEq (cs.map (·.kind)) = false) : mergeChunks cs dt = .error .valueError :=
  merge_rejects' hlen (Or.inl h)

theorem merge_rejects_run (cs : List Chunk) (dt : String) (hlen : 2 ≤ cs.length)
    (h : allEq (cs.map (·.runId)) = false) : mergeChunks cs dt = .error .valueError :=
  merge_rejects' hlen (Or.inr (Or.inl h))

theorem merge_rejects_length (cs : List Chunk) (dt : String) (hlen : 2 ≤ cs.length)
    (h : allEq (cs.map (·.rows.length)) = false) : mergeChunks cs dt = .error .valueError :=
  merge_rejects' hlen (Or.inr (Or.inr (Or.inl h)))

theorem merge_rejects_range (cs : List Chunk) (dt : String) (hlen : 2 ≤ cs.length)
    (h : allEq (cs.map (fun c => (c.start, c.stop))) = false) : mergeChunks cs dt = .error .valueError :=
  merge_rejects' hlen (Or.inr (Or.inr (Or.inr h)))

example : allEq ([exChunk, { exChunk with kind := "hits" }].map (·.kind)) = false ∧
    allEq ([exChunk, { exChunk with runId := none }].map (·.runId)) = false ∧
    allEq ([exChunk, { exChunk with rows := [] }].map (·.rows.length)) = false ∧
    allEq ([exChunk, { exChunk with stop := 21 }].map (fun c => (c.start, c.stop))) = false := by decide

/-- a successful merge: all inputs agree on kind, run, length and range; the result keeps them,
carries the requested data type, the identities (all other columns) of the first chunk and the
interval columns of the last one -/
theorem merge_spec (cs : List Chunk) (dt : String) (c : Chunk) (hlen : 2 ≤ cs.length)
    (h : mergeChunks cs dt = .ok c) :
    ∃ c0 cl, cs.head? = some c0 ∧ cs.getLast? = some cl ∧
      (∀ x ∈ cs, x.kind = c0.kind ∧ x.runId = c0.runId ∧ x.rows.length = c0.rows.length ∧
        x.start = c0.start ∧ x.stop = c0.stop) ∧
      c.dataType = dt ∧ c.kind = c0.kind ∧ c.runId = c0.runId ∧ c.start = c0.start ∧ c.stop = c0.stop ∧
      c.rows.length = c0.rows.length ∧ c.rows.map (·.id) = c0.rows.map (·.id) ∧
      c.rows.map (·.time) = cl.rows.map (·.time) ∧ c.rows.map (·.endt) = cl.rows.map (·.endt) :=
  merge_spec' hlen h

example : mergeChunks [exChunk, { exChunk with dataType := "peak_basics" }] "merged"
    = .ok { exChunk with dataType := "merged" } := by
  have hsort : [((0:Int), (20:Int)), (0, 20)].mergeSort (fun a b => decide (a.1 ≤ b.1)) = [(0, 20), (0, 20)] :=
    List.mergeSort_of_pairwise (by decide)
  rw [mergeChunks_eq]
  simp [allEq, exChunk, mergeSubruns, mergeSuperrun, collectRuns, addRun, mergableCheck, bind, Except.bind,
    pure, Except.pure, hsort, zipRows]
  rw [mkChunk_plain (by decide) (by decide) (by decide) (Or.inr rfl)]

/-- `merge_arrs`: the column `f` of the result is the last entry for `f` in arrival order, i.e.
it comes from the last array that has `f` -/
theorem mergeArrs_col (arrs : List Cols) (f : String) :
    getCol (mergeArrs arrs) f = lastEntry arrs.flatten f :=
  mergeArrs_col' arrs f

example : getCol (mergeArrs [[("time", [1,2]), ("area", [5,6])], [("time", [3,4]), ("width", [7,8])]]) "time"
    = some [3,4] := by decide

/-! ## 6b. chunks WITH sub-run annotations (superrun chunks), totality of `merge`

Shape covered (`Chunk.annotated`, decidable): rows well-formed (`Chunk.wf`), `run_id = some rid`,
`superrun = [(rid, start, stop)]` (the default entry), `subruns = some subs` with `subs` non-empty and
tiled (`Tiled`: in list order `a.stop ≤ b.start`, distinct ids, non-empty spans) and
`promisedContinuity = true` (for `rid` starting with "_": first sub-run starts at `start`, last one
stops at `stop`; automatically true for other run ids).  NOT covered: chunks whose `superrun` has
several entries (`run_id = None`, made by `concatenate(allow_superrun=True)` of different runs),
`subruns = {}`, overlapping/unsorted spans, `promisedContinuity = false`. -/

/-- an annotated (superrun) chunk used in the examples -/
def exAnn : Chunk :=
  ⟨"peaks", "peaks", some "_sr", 0, 20, [⟨1,4,0⟩, ⟨3,8,1⟩, ⟨10,12,2⟩],
    some [⟨"a", 0, 9⟩, ⟨"b", 9, 20⟩], [⟨"_sr", 0, 20⟩], 2⟩

/-- TILED SUB-RUN ANNOTATIONS ONLY (`Chunk.annotated`, see the header of this section).  MISSING: multi-entry
`superrun` / `run_id = None` (where the law fails: open findings `C07-multirun-*`, `C07-split-run-id-from-whole-superrun`),
`subruns = {}`, non-tiled spans, `promisedContinuity = false`.
Split (either mode) then concatenate restores an annotated chunk — rows, range, `subruns` and `superrun` included -/
theorem concat_inverse_annotated_partial (c : Chunk) (t : Int) (early : Bool) (c1 c2 : Chunk)
    (ha : c.annotated = true) (h : c.split t early = .ok (c1, c2)) :
    concatenate [c1, c2] false = .ok c :=
  concat_inverse_ann ha h

/-- TILED SUB-RUN ANNOTATIONS ONLY (`Chunk.annotated`; MISSING as in `concat_inverse_annotated_partial`).
The halves carry exactly the two sides of `_split_runs_in_chunk` and are well-formed -/
theorem split_annotated_spec_partial (c : Chunk) (t : Int) (early : Bool) (c1 c2 : Chunk)
    (ha : c.annotated = true) (h : c.split t early = .ok (c1, c2)) :
    ∃ subs t', c.subruns = some subs ∧ c.start ≤ t' ∧ t' ≤ c.stop ∧
      c1.subruns = (splitRuns (some subs) t').1 ∧ c2.subruns = (splitRuns (some subs) t').2 ∧
      c1.stop = t' ∧ c2.start = t' ∧ c1.rows ++ c2.rows = c.rows ∧ c1.wf = true ∧ c2.wf = true := by
  obtain ⟨rid, subs, t', -, hsub, h1, h2, hc1, hc2, hcat, hw1, hw2⟩ := split_annotated ha h
  exact ⟨subs, t', hsub, h1, h2, by rw [hc1], by rw [hc2], by rw [hc1], by rw [hc2], hcat, hw1, hw2⟩

/-- TILED SUB-RUN ANNOTATIONS ONLY (`Chunk.annotated`; MISSING as in `concat_inverse_annotated_partial`; false for
`run_id = None` with sub-runs: `split_concat_product_counterexample`).  No straddler ⇒ the strict split succeeds -/
theorem split_total_annotated_partial (c : Chunk) (t : Int) (ha : c.annotated = true)
    (hno : ¬ ∃ r ∈ c.rows, r.straddles t) : ∃ c1 c2, c.split t false = .ok (c1, c2) :=
  split_ann_total ha hno

example : exAnn.annotated = true ∧ (¬ ∃ r ∈ exAnn.rows, r.straddles 9) ∧ exAnn.split 9 false = .ok
    ({ exAnn with stop := 9, rows := [⟨1,4,0⟩, ⟨3,8,1⟩], subruns := some [⟨"a", 0, 9⟩], superrun := [⟨"_sr", 0, 9⟩] },
     { exAnn with start := 9, rows := [⟨10,12,2⟩], subruns := some [⟨"b", 9, 20⟩], superrun := [⟨"_sr", 9, 20⟩] }) := by
  decide +kernel

/-- `Chunk.merge` is total on ≥ 1 well-formed chunks that agree on kind, run id, number of rows,
range and run annotations; explicit side conditions on the annotations: the default super-run
entry `[(run_id, start, stop)]` and no or tiled sub-runs -/
theorem merge_total (c0 : Chunk) (rest : List Chunk) (dt rid : String)
    (hwf : ∀ c ∈ c0 :: rest, c.wf = true)
    (hagree : ∀ c ∈ rest, c.kind = c0.kind ∧ c.runId = c0.runId ∧ c.rows.length = c0.rows.length ∧
      c.start = c0.start ∧ c.stop = c0.stop ∧ c.subruns = c0.subruns ∧ c.superrun = c0.superrun)
    (hrid : c0.runId = some rid) (hsup : c0.superrun = [⟨rid, c0.start, c0.stop⟩])
    (hsub : ∀ x, c0.subruns = some x → Tiled x) :
    ∃ c, mergeChunks (c0 :: rest) dt = .ok c :=
  merge_total' hwf hagree hrid hsup hsub

example : (∀ c ∈ [exAnn, { exAnn with dataType := "peak_basics" }], c.wf = true) ∧
    exAnn.runId = some "_sr" ∧ exAnn.superrun = [⟨"_sr", exAnn.start, exAnn.stop⟩] ∧
    (∀ x, exAnn.subruns = some x → Tiled x) := by
  refine ⟨by decide, rfl, rfl, ?_⟩
  intro x hx
  have : x = [⟨"a", 0, 9⟩, ⟨"b", 9, 20⟩] := by simpa [exAnn] using hx.symm
  subst this
  decide

/-- OPEN FINDING `C07-multirun-annotated-chunk-unsplittable` (the model mirrors the code): `exP` is what
`concatenate(allow_superrun=True)` makes of the two annotated superrun chunks `exA` (run `_s`) and `exB` (run `_t`):
`run_id = None` with non-empty sub-runs.  Although no row straddles 5, it cannot be split there — `is_superrun`
evaluates `None.startswith("_")` (`AttributeError`, `Err.other`) — and `continuity_check` fails on it the same way.
So "splitting a chunk at any time" fails for a chunk strax itself produced. -/
theorem split_concat_product_counterexample :
    concatenate [exA, exB] true = .ok exP ∧ exP.runId = none ∧ (¬ ∃ r ∈ exP.rows, r.straddles 5) ∧
    exP.split 5 false = .error .other ∧ continuityCheck [exP] = .error .other :=
  ⟨exP_is_product, rfl, by decide, by decide +kernel, by decide +kernel⟩

/-! ## 7. `diff`, `Rechunker.get_splits`, the rechunker -/

/-- `strax.diff`: one entry per adjacent pair; entry `i` is the start of row `i+1` minus the
largest end among rows `0..i` -/
theorem diffGaps_spec (rows : List Row) :
    (diffGaps rows).length = rows.length - 1 ∧
    ∀ (i : Nat) (r0 r : Row), rows[0]? = some r0 → rows[i+1]? = some r →
      (diffGaps rows)[i]? = some (r.time - maxEnd r0.endt (rows.take (i+1))) :=
  ⟨diffGaps_length rows, fun i r0 r h0 h => diffGaps_spec' rows i r0 r h0 h⟩

example : diffGaps [⟨0,10,0⟩, ⟨2,4,1⟩, ⟨12,13,2⟩] = [-8, 2] := by decide

/-- the initial `argmin` the theorems below are about is the one in the source today
(regenerated by the translator on every run; a source change breaks the build here) -/
theorem generated_argmin0 : Generated.getSplitsArgmin0 = -1 := rfl

/-- `get_splits` is total for a target of at least one row: the empty-`argmin` branch and the
"infinite loop" guard are unreachable; the result starts at 0, is strictly increasing, and every
later element is an index where the gap exceeds `min_gap` -/
theorem getSplits_total (rows : List Row) (assumed : Nat) (g : Int) (ha : 1 ≤ assumed) :
    ∃ s, getSplits Generated.getSplitsArgmin0 rows assumed g = .ok s ∧ s.head? = some 0 ∧
      s.Pairwise (· < ·) ∧ ∀ x ∈ s, x = 0 ∨ x ∈ gapIndices rows g :=
  getSplits_ok rows assumed g ha

/-- every gap index is a place where the row starts more than `g` after all earlier ends -/
theorem gapIndex_is_gap (rows : List Row) (g : Int) (x : Nat) (h : x ∈ gapIndices rows g) :
    1 ≤ x ∧ ∃ r, rows[x]? = some r ∧ ∀ y ∈ rows.take x, y.endt + g < r.time :=
  isGapAbs_of_mem h

example : getSplits (-1) [⟨0,1,0⟩, ⟨1,2,1⟩, ⟨2,3,2⟩, ⟨5000,5001,3⟩, ⟨5001,5002,4⟩, ⟨5002,5003,5⟩] 1 1000
    = .ok [0, 3] := by decide

example : 3 ∈ gapIndices [⟨0,1,0⟩, ⟨1,2,1⟩, ⟨2,3,2⟩, ⟨5000,5001,3⟩, ⟨5001,5002,4⟩] 1000 := by decide

/-- defect D1 (fixed in /repo): with the former initial value `argmin = 0` the first gap is
skipped and data with exactly one eligible gap beyond the target raises `ValueError` -/
theorem getSplits_counterexample :
    getSplits 0 [⟨0,1,0⟩, ⟨1,2,1⟩, ⟨2,3,2⟩, ⟨5000,5001,3⟩, ⟨5001,5002,4⟩, ⟨5002,5003,5⟩] 1 1000
      = .error .valueError := by decide

/-- a stream with a gap > 1000 ns inside its first chunk -/
def exStream : List Chunk :=
  [⟨"peaks", "peaks", some "r0", 0, 6000, [⟨1,4,0⟩, ⟨3,8,1⟩, ⟨5000,5012,2⟩], none, [⟨"r0", 0, 6000⟩], 1⟩,
   ⟨"peaks", "peaks", some "r0", 6000, 9000, [⟨6001,6002,3⟩, ⟨8000,8001,4⟩], none, [⟨"r0", 6000, 9000⟩], 1⟩]

/-- PLAIN CHUNKS ONLY (`Chunk.good`).  MISSING: annotated chunks.
Robust to a change of heuristic: cutting a good chunk at ANY strictly increasing list of gap
indices (the `for index in np.diff(split_indices)` loop of `receive`) succeeds and yields a
law-abiding sequence with the same rows and range. -/
theorem splitOff_any_gaps_partial (c : Chunk) (tl : List Nat) (hg : c.good = true)
    (hp : (0 :: tl).Pairwise (· < ·)) (hgap : ∀ x ∈ tl, x ∈ gapIndices c.rows DEFAULT_CHUNK_SPLIT_NS) :
    ∃ out rest, splitOff c (adjDiff (0 :: tl)) = .ok (out, rest) ∧ LawAbiding (out ++ [rest]) = true ∧
      (out ++ [rest]).flatMap (·.rows) = c.rows ∧
      (out ++ [rest]).head?.map (·.start) = some c.start ∧ rest.stop = c.stop := by
  have hrel := gapsRel_of_abs DEFAULT_CHUNK_SPLIT_NS c.rows tl 0 hp (fun x hx => isGapAbs_of_mem (hgap x hx))
  simp only [List.drop_zero] at hrel
  obtain ⟨out, rest, h1, h2, h3, ⟨h, hh, hs⟩, h5, -⟩ := splitOff_good _ c hg hrel
  exact ⟨out, rest, h1, h2, h3, by rw [hh]; simp [hs], h5⟩

example : (exStream.head?.map (·.good)) = some true ∧ ((0 :: [2]).Pairwise (· < ·)) ∧
    (∀ x ∈ [2], x ∈ gapIndices [⟨1,4,0⟩, ⟨3,8,1⟩, ⟨5000,5012,2⟩] DEFAULT_CHUNK_SPLIT_NS) := by decide

/-- PLAIN STREAMS ONLY: `LawAbiding` demands every chunk `Chunk.good` (well-formed, `subruns = none`,
`superrun = [(run_id,start,stop)]`) and the rechunker is in non-superrun mode (`isSuperrun = false`); for
annotated streams only `rechunk_stream_annotated_partial` is proved.  MISSING: totality and output shape for annotated
/ superrun-mode streams.
Passing a law-abiding contiguous stream (`LawAbiding`: every chunk well-formed and without run
annotations, adjacent ranges, one data type and run) with targets of at least one row through
the rechunker never fails and yields a law-abiding stream with identical rows, overall range, run
and data type; every boundary of the output is a boundary of the input or touches no row at all
(it lies strictly inside a row-free gap: the cuts are made 500 ns before a row that starts more
than 1000 ns after every earlier end). -/
theorem rechunk_stream_partial (cs : List Chunk) (hlaw : LawAbiding cs = true) (htg : ∀ c ∈ cs, 1 ≤ c.target) :
    ∃ out, rechunkAll Generated.getSplitsArgmin0 ⟨true, false, none⟩ cs = .ok out ∧
      out.flatMap (·.rows) = cs.flatMap (·.rows) ∧
      out.head?.map (·.start) = cs.head?.map (·.start) ∧
      out.getLast?.map (·.stop) = cs.getLast?.map (·.stop) ∧
      LawAbiding out = true ∧
      out.head?.map (·.runId) = cs.head?.map (·.runId) ∧
      out.head?.map (·.dataType) = cs.head?.map (·.dataType) ∧
      ∀ t ∈ out.map (·.start) ++ (out.getLast?.map (·.stop)).toList,
        t ∈ cs.map (·.start) ++ (cs.getLast?.map (·.stop)).toList ∨
        ∀ r ∈ cs.flatMap (·.rows), ¬ (r.time ≤ t ∧ t ≤ r.endt) := by
  obtain ⟨out, h1, h2, h3, h4, h5, h6⟩ :=
    rechunk_aux_strong cs none (by simpa using hlaw) (by simpa using htg)
  simp only [Option.toList_none, List.nil_append] at h3 h4 h5 h6
  have k1 := congrArg (Option.map (fun k : Int × String × Option String => k.1)) h4
  have k2 := congrArg (Option.map (fun k : Int × String × Option String => k.2.2)) h4
  have k3 := congrArg (Option.map (fun k : Int × String × Option String => k.2.1)) h4
  simp only [Option.map_map, Function.comp_def, chunkKey] at k1 k2 k3
  refine ⟨out, h1, h3, k1, h5, h2, k2, k3, ?_⟩
  intro t ht
  simp only [List.mem_append] at ht
  rcases ht with ht | ht
  · cases out with
    | nil => simp at ht
    | cons o os =>
      simp only [List.map_cons, List.mem_cons] at ht
      rcases ht with rfl | ht
      · left
        cases cs with
        | nil => simp at k1
        | cons c0 cs' =>
          simp only [List.head?_cons, Option.map_some, Option.some.injEq] at k1
          simp [k1]
      · right
        exact (h6 t (by simpa using ht)).2.1
  · left
    rw [h5] at ht
    simp only [List.mem_append]
    exact Or.inr ht

/-- PLAIN STREAMS ONLY (see `rechunk_stream_partial`; MISSING: the same for annotated / superrun-mode streams).
The gap fact threaded through the stream (same hypotheses and the same first eight conjuncts as
`rechunk_stream_partial`, which is kept unchanged because C03/C16 destructure it by position): every start
of an output chunk other than the first lies 500 ns (`DEFAULT_CHUNK_SPLIT_NS / 2`) before an input
row `r` that is preceded by some row and starts more than 1000 ns (`DEFAULT_CHUNK_SPLIT_NS`) after
the end of every input row starting before it — i.e. in a row-free gap of the input wider than
1000 ns.  (In particular the alternative "or it is a start of an input chunk" is never needed:
input boundaries survive only by coinciding with such a cut.) -/
theorem rechunk_stream_gaps_partial (cs : List Chunk) (hlaw : LawAbiding cs = true) (htg : ∀ c ∈ cs, 1 ≤ c.target) :
    ∃ out, rechunkAll Generated.getSplitsArgmin0 ⟨true, false, none⟩ cs = .ok out ∧
      out.flatMap (·.rows) = cs.flatMap (·.rows) ∧
      out.head?.map (·.start) = cs.head?.map (·.start) ∧
      out.getLast?.map (·.stop) = cs.getLast?.map (·.stop) ∧
      LawAbiding out = true ∧
      out.head?.map (·.runId) = cs.head?.map (·.runId) ∧
      out.head?.map (·.dataType) = cs.head?.map (·.dataType) ∧
      (∀ t ∈ out.map (·.start) ++ (out.getLast?.map (·.stop)).toList,
        t ∈ cs.map (·.start) ++ (cs.getLast?.map (·.stop)).toList ∨
        ∀ r ∈ cs.flatMap (·.rows), ¬ (r.time ≤ t ∧ t ≤ r.endt)) ∧
      ∀ t ∈ (out.map (·.start)).tail,
        ∃ r ∈ cs.flatMap (·.rows), t = r.time - DEFAULT_CHUNK_SPLIT_NS / 2 ∧
          (∃ y ∈ cs.flatMap (·.rows), y.endt + DEFAULT_CHUNK_SPLIT_NS < r.time) ∧
          ∀ x ∈ cs.flatMap (·.rows), x.endt + DEFAULT_CHUNK_SPLIT_NS < r.time ∨ r.time ≤ x.time := by
  obtain ⟨out, h1, h2, h3, h4, h5, h6, h7, h8⟩ := rechunk_stream_partial cs hlaw htg
  refine ⟨out, h1, h2, h3, h4, h5, h6, h7, h8, ?_⟩
  obtain ⟨out', g1, -, -, -, -, g6⟩ := rechunk_aux_strong cs none (by simpa using hlaw) (by simpa using htg)
  have e : out' = out := by
    have : (Except.ok out' : Except Err (List Chunk)) = .ok out := by rw [← g1, ← h1]; rfl
    simpa using this
  subst e
  intro t ht
  have := (g6 t ht).2.2
  simpa [GapCut] using this

example : (rechunkAll (-1) ⟨true, false, none⟩ exStream).toOption.map (fun out => (out.map (·.start)).tail)
    = some [4500, 7500] ∧ (4500 : Int) = 5000 - DEFAULT_CHUNK_SPLIT_NS / 2 ∧
    (7500 : Int) = 8000 - DEFAULT_CHUNK_SPLIT_NS / 2 := by decide +kernel

/-- ANNOTATED STREAMS — PARTIAL.  Full statement wanted (property C07, second sentence, for chunks with
sub-run / super-run annotations): for a contiguous stream of annotated chunks that are the pieces of one tiled
sub-run dictionary (superrun mode, run id starting with "_"), `rechunkAll … ⟨true, true, none⟩ cs = .ok out`
with identical rows and range, adjacent well-formed output chunks whose sub-run dictionaries again tile them,
cut only where no row is straddled.
What IS proved, for every stream whatever its annotations and for both modes (`sup`):
(a) partial correctness of the content: if the rechunker does not fail, the rows come out unchanged and in order;
(b) chunk level, for `Chunk.annotated` chunks (see §6b): a strict split at a time no row straddles succeeds,
and split-then-concatenate restores the chunk including `subruns` and `superrun`.
MISSING: totality (never fails) and the shape of the output (adjacency, ranges, annotations tile the pieces) for
annotated streams.  It needs a stream invariant saying that all chunks are restrictions of one tiled sub-run
dictionary, closure of that shape under the interior cuts of `receive` (only contiguous tilings are closed:
a cut inside a hole between sub-runs loses `promisedContinuity`), and the lemma that `_mergable_check(merge=False)`
accepts cache ++ chunk when the junction sub-run continues.  The correspondence (component `rechunker`, superrun
streams) covers these on generated inputs. -/
theorem rechunk_stream_annotated_partial (sup : Bool) (cs : List Chunk) (hse : ∀ c ∈ cs, c.start ≤ c.stop) :
    (∀ out, rechunkAll Generated.getSplitsArgmin0 ⟨true, sup, none⟩ cs = .ok out →
      out.flatMap (·.rows) = cs.flatMap (·.rows)) ∧
    (∀ c ∈ cs, c.annotated = true → ∀ t,
      ((¬ ∃ r ∈ c.rows, r.straddles t) → ∃ c1 c2, c.split t false = .ok (c1, c2)) ∧
      (∀ early c1 c2, c.split t early = .ok (c1, c2) → concatenate [c1, c2] false = .ok c)) := by
  refine ⟨?_, ?_⟩
  · intro out h
    have := rechunk_rows_of_ok Generated.getSplitsArgmin0 sup cs none out (by simpa using hse) h
    simpa using this
  · intro c _ ha t
    exact ⟨fun hno => split_ann_total ha hno, fun early c1 c2 h => concat_inverse_ann ha h⟩

/-- an annotated (superrun) chunk with a gap > 1000 ns -/
def exAnnBig : Chunk :=
  ⟨"peaks", "peaks", some "_sr", 0, 6000, [⟨1,4,0⟩, ⟨3,8,1⟩, ⟨5000,5012,2⟩],
    some [⟨"a", 0, 4500⟩, ⟨"b", 4500, 6000⟩], [⟨"_sr", 0, 6000⟩], 1⟩

example : (∀ c ∈ [exAnnBig], c.start ≤ c.stop) ∧ exAnnBig.annotated = true ∧
    (rechunkAll (-1) ⟨true, true, none⟩ [exAnnBig]).toOption.map
      (fun out => out.map (fun c => (c.start, c.stop, ids c.rows, c.annotated)))
      = some [(0, 4500, [0, 1], true), (4500, 6000, [2], true)] := by
  decide +kernel

example : LawAbiding exStream = true ∧ (∀ c ∈ exStream, 1 ≤ c.target) ∧
    (rechunkAll (-1) ⟨true, false, none⟩ exStream).toOption.map (fun out => out.map (fun c => (c.start, c.stop, ids c.rows)))
      = some [(0, 4500, [0, 1]), (4500, 7500, [2, 3]), (7500, 9000, [4])] := by decide +kernel

/-! ## 8. the translated source (Generated/SplitArray.lean, regenerated from the Python AST of /repo on every run)

`Generated.SplitArray.step` is the body of the numba loop of `split_array` (every comparison, `max`, constant and
assignment comes from the source text), `loop` folds it with early exit, `splitArray` is the code around the loop;
`splitClamp`, `splitAtStop/Start`, `leftStart … rightStop` are the scalar time arithmetic of `Chunk.split`.
A change of the source (a `>=` into `>`, another initial value, a swapped `min`/`max`) changes these definitions and
breaks the proofs below — not only the sampled correspondence. -/

/-- the translated loop, started like the source starts it (`latest_end_seen = -1`, `splittable_i = 0`,
`i_first_beyond = -1`), is the model's `scan` -/
theorem generated_loop_eq_scan (t : Int) (rows : List Row) :
    Generated.SplitArray.loop t rows 0 ⟨-1, 0, -1⟩ = encScan (scan t rows 0 (-1) 0) := by
  simpa using genLoop_eq_scan t rows 0 (-1) 0

/-- the translated `split_array` IS the model all theorems of §1–§4 are about (all inputs) -/
theorem generated_splitArray_eq_model : Generated.SplitArray.splitArray = splitArray :=
  funext fun d => funext fun t => funext fun e => genSplitArray_eq d t e

/-- so the laws hold of the translated source directly: conservation, separation (sorted data), exact time in strict mode -/
theorem generated_splitArray_laws (data : List Row) (t : Int) (early : Bool) (l r : List Row) (t' : Int)
    (hs : SortedByTime data) (h : Generated.SplitArray.splitArray data t early = .ok (l, r, t')) :
    l ++ r = data ∧ (∀ x ∈ l, x.endt ≤ t') ∧ (∀ x ∈ r, t' ≤ x.time) ∧ (early = false → t' = t) := by
  rw [generated_splitArray_eq_model] at h
  refine ⟨splitArray_append h, (splitArray_sep hs h).1, (splitArray_sep hs h).2, ?_⟩
  intro he
  subst he
  exact splitArray_strict h

/-- … and refusal ⇔ a straddling row (sorted, times ≥ 0), never any other failure in strict mode, none at all in early mode -/
theorem generated_splitArray_refuses_iff (data : List Row) (t : Int)
    (hs : SortedByTime data) (hnn : ∀ r ∈ data, 0 ≤ r.time) :
    (Generated.SplitArray.splitArray data t false = .error .cannotSplit ↔ ∃ r ∈ data, r.straddles t) ∧
    (∀ e, Generated.SplitArray.splitArray data t false = .error e → e = .cannotSplit) ∧
    (∃ l r t', Generated.SplitArray.splitArray data t true = .ok (l, r, t')) := by
  rw [generated_splitArray_eq_model]
  exact ⟨splitArray_refuses_iff data t hs hnn, fun e h => Strax.splitArray_strict_error h, splitArray_early_total data t⟩

example : Generated.SplitArray.splitArray [⟨0,3,0⟩, ⟨3,6,1⟩, ⟨5,8,2⟩] 7 true = .ok ([⟨0,3,0⟩], [⟨3,6,1⟩, ⟨5,8,2⟩], 3) ∧
    Generated.SplitArray.splitArray [⟨0,3,0⟩, ⟨2,5,1⟩, ⟨7,9,2⟩] 4 false = .error .cannotSplit ∧
    Generated.SplitArray.step 7 1 ⟨3,6,1⟩ ⟨3, 0, -1⟩ = (⟨6, 1, -1⟩, false) := by decide

/-- `Chunk.split` (on a chunk whose `is_superrun` does not raise) is the model's `splitCore` when written with the
translated clamp `t = max(min(t, end), start)`, the translated `split_array` and the translated boundaries of the two
halves (`start`, `max(start, t)`, `max(start, t)`, `max(t, end)`) -/
theorem generated_split_eq_model (c : Chunk) (t : Int) (early : Bool) :
    c.splitCore t early = (do
      let t := Generated.SplitArray.splitClamp t c.start c.stop
      let (d1, d2, t) ←
        if t = c.stop then pure (c.rows, [], t)
        else if t = c.start then pure ([], c.rows, t)
        else Generated.SplitArray.splitArray c.rows t early
      let (sub1, sub2) := if c.promisedContinuity then splitRuns c.subruns t else (c.subruns, c.subruns)
      let (sup1, sup2) := splitRuns (some c.superrun) t
      let single (s : Option Runs) : Bool := match s with
        | none => true
        | some l => l.length == 1
      let run1 := if single sup1 then c.superrun.head?.map (·.id) else c.runId
      let run2 := if single sup2 then c.superrun.getLast?.map (·.id) else c.runId
      let c1 ← mkChunk c.dataType c.kind run1 (Generated.SplitArray.leftStart t c.start c.stop)
        (Generated.SplitArray.leftStop t c.start c.stop) d1 sub1 sup1 c.target
      let c2 ← mkChunk c.dataType c.kind run2 (Generated.SplitArray.rightStart t c.start c.stop)
        (Generated.SplitArray.rightStop t c.start c.stop) d2 sub2 sup2 c.target
      pure (c1, c2)) :=
  splitCore_eq_generated c t early

/-- the two tests of `Chunk.split` that bypass `split_array` are `t == self.end`, then `t == self.start` -/
theorem generated_split_edge_tests (t start stop : Int) :
    Generated.SplitArray.splitAtStop t start stop = decide (t = stop) ∧
    Generated.SplitArray.splitAtStart t start stop = decide (t = start) :=
  genSplit_edge_tests t start stop

example : Generated.SplitArray.splitClamp 25 0 20 = 20 ∧ Generated.SplitArray.splitClamp (-3) 0 20 = 0 ∧
    Generated.SplitArray.leftStop 9 0 20 = 9 ∧ Generated.SplitArray.rightStop 9 0 20 = 20 := by decide

/-! ## 9. `Chunk.split` on EVERY single-run chunk (full siblings of `split_total_partial` / `split_total_annotated_partial`)

`Chunk.singleRun` (decidable): rows well-formed (`Chunk.wf`), `run_id = some rid`, the default super-run entry
`superrun = [(rid, start, end)]`, and ANY sub-run annotation that the constructor leaves as it is (`sortRuns x = x`,
`_sorted_subruns_check` passes) with no span of negative length: `None`, `{}`, tiled, with holes, zero-length entries,
spans not reaching the chunk edges (`promised_continuity` false), run id starting with "_" or not.  It contains
`Chunk.good` and `Chunk.annotated`.  The ONLY annotation shape left out is the multi-entry `superrun` (`run_id = None`),
where the law is false in strax (`split_concat_product_counterexample`, open finding
`C07-multirun-annotated-chunk-unsplittable`) — the hypothesis is minimal in that respect. -/

/-- a single-run chunk whose sub-runs leave a hole, contain a zero-length entry and do not reach the chunk's end
(so `promised_continuity` is false): outside `Chunk.good` and `Chunk.annotated` -/
def exHoles : Chunk :=
  ⟨"peaks", "peaks", some "_sr", 0, 20, [⟨1,4,0⟩, ⟨3,8,1⟩, ⟨10,12,2⟩],
    some [⟨"a", 0, 5⟩, ⟨"z", 9, 9⟩, ⟨"b", 9, 15⟩], [⟨"_sr", 0, 20⟩], 2⟩

/-- the same with the sub-runs reaching both edges (`promised_continuity` true, a hole in the middle) -/
def exHoles2 : Chunk := { exHoles with subruns := some [⟨"a", 0, 5⟩, ⟨"z", 9, 9⟩, ⟨"b", 9, 20⟩] }

/-- FULL (every annotation of a single-run chunk; multi-run chunks excluded because the law fails there, see above):
a strict split at a time no row straddles succeeds, and both halves are single-run chunks again -/
theorem split_total (c : Chunk) (t : Int) (hc : c.singleRun = true) (hno : ¬ ∃ r ∈ c.rows, r.straddles t) :
    ∃ c1 c2, c.split t false = .ok (c1, c2) ∧ c1.singleRun = true ∧ c2.singleRun = true :=
  split_single_total hc hno

/-- FULL: with `allow_early_split=True` the split of a single-run chunk never fails, for any `t` -/
theorem split_early_total (c : Chunk) (t : Int) (hc : c.singleRun = true) :
    ∃ c1 c2, c.split t true = .ok (c1, c2) ∧ c1.singleRun = true ∧ c2.singleRun = true :=
  split_single_early_total t hc

/-- FULL: what the halves are — rows divided in order, adjacent at the time used, run id kept, sub-runs = the two
sides of `_split_runs_in_chunk` (or the untouched dict when continuity is not promised) -/
theorem split_single_spec (c : Chunk) (t : Int) (early : Bool) (c1 c2 : Chunk) (hc : c.singleRun = true)
    (h : c.split t early = .ok (c1, c2)) :
    c1.rows ++ c2.rows = c.rows ∧ c1.start = c.start ∧ c1.stop = c2.start ∧ c2.stop = c.stop ∧
    c1.runId = c.runId ∧ c2.runId = c.runId ∧ c1.singleRun = true ∧ c2.singleRun = true ∧
    c1.subruns = (splitSub c c1.stop).1 ∧ c2.subruns = (splitSub c c1.stop).2 := by
  obtain ⟨d1, d2, t', hv, -, -⟩ := Chunk.split_ok_inv h
  obtain ⟨hwf, hsub, rid, hrid, hsup⟩ := (Chunk.singleRun_iff c).1 hc
  obtain ⟨hcat, hst, hts, hl, hr⟩ := splitData_wf hwf hv
  obtain ⟨h0, hse, hs, hpos, hin⟩ := (Chunk.wf_iff c).1 hwf
  have hin1 : ∀ x ∈ d1, c.start ≤ x.time ∧ x.endt ≤ t' :=
    fun x hx => ⟨(hin x (by rw [← hcat]; simp [hx])).1, hl x hx⟩
  have hin2 : ∀ x ∈ d2, t' ≤ x.time ∧ x.endt ≤ c.stop :=
    fun x hx => ⟨hr x hx, (hin x (by rw [← hcat]; simp [hx])).2⟩
  have hex := split_single_ok hrid hsup hsub h0 hst hts hin1 hin2 hv
  obtain ⟨c1', c2', h', s1, s2, -⟩ := split_single hc hv
  rw [h] at h' hex
  simp only [Except.ok.injEq, Prod.mk.injEq] at h' hex
  obtain ⟨rfl, rfl⟩ := h'
  obtain ⟨e1, e2⟩ := hex
  rw [e1, e2]
  exact ⟨hcat, rfl, rfl, rfl, hrid.symm, hrid.symm, by rw [← e1]; exact s1, by rw [← e2]; exact s2, rfl, rfl⟩

example : exChunk.singleRun = true ∧ exAnn.singleRun = true ∧ exHoles.singleRun = true ∧ exHoles2.singleRun = true ∧
    ({ exChunk with subruns := some [] } : Chunk).singleRun = true := by
  have ok : ∀ x : Runs, x.Pairwise (fun a b => runLe a b = true) → runsOverlap x = false →
      (∀ r ∈ x, r.start ≤ r.stop) → SubrunsOK (some x) := by
    intro x h1 h2 h3 y hy
    cases hy
    exact ⟨sortRuns_of_pairwise h1, h2, h3⟩
  exact ⟨(Chunk.singleRun_iff _).2 ⟨by decide, (fun x hx => by cases hx), "r0", rfl, rfl⟩,
    (Chunk.singleRun_iff _).2 ⟨by decide, ok _ (by decide) (by decide) (by decide), "_sr", rfl, rfl⟩,
    (Chunk.singleRun_iff _).2 ⟨by decide, ok _ (by decide) (by decide) (by decide), "_sr", rfl, rfl⟩,
    (Chunk.singleRun_iff _).2 ⟨by decide, ok _ (by decide) (by decide) (by decide), "_sr", rfl, rfl⟩,
    (Chunk.singleRun_iff _).2 ⟨by decide, ok _ (by decide) (by decide) (by decide), "r0", rfl, rfl⟩⟩

example : exHoles.good = false ∧ exHoles.annotated = false ∧ exHoles.promisedContinuity = false ∧
    exHoles2.annotated = false ∧ exHoles2.promisedContinuity = true ∧
    (¬ ∃ r ∈ exHoles.rows, r.straddles 9) := by decide +kernel

example : exHoles2.split 9 false = .ok
    ({ exHoles2 with stop := 9, rows := [⟨1,4,0⟩, ⟨3,8,1⟩], subruns := some [⟨"a", 0, 5⟩], superrun := [⟨"_sr", 0, 9⟩] },
     { exHoles2 with start := 9, rows := [⟨10,12,2⟩], subruns := some [⟨"b", 9, 20⟩], superrun := [⟨"_sr", 9, 20⟩] }) := by
  decide +kernel

/-- the hypothesis of `split_total` cannot be weakened to multi-run chunks: `exP` (made by strax's own
`concatenate(allow_superrun=True)`) is not `singleRun` and its strict split at the unstraddled time 5 fails -/
theorem split_total_counterexample :
    exP.singleRun = false ∧ exP.wf = true ∧ (¬ ∃ r ∈ exP.rows, r.straddles 5) ∧ exP.split 5 false = .error .other :=
  ⟨by simp [Chunk.singleRun, exP], by decide, by decide, by decide +kernel⟩

end Strax.C07
