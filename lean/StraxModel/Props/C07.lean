import StraxModel.Model.Rechunk
namespace Strax.C07
open Strax

theorem splitArray_conserves (data : List Row) (t : Int) (early : Bool) (l r : List Row) (t' : Int)
    (h : splitArray data t early = .ok (l, r, t')) : l ++ r = data := by
  unfold splitArray at h
  grind [List.take_append_drop]

end Strax.C07
