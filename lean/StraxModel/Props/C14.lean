import StraxModel.Model.Basic
namespace Strax.C14
open Strax

end Strax.C14
