import StraxModel.Lemmas.SuperrunDeep
import StraxModel.Generated.RunDoc
import StraxModel.Lemmas.SuperrunGen
import StraxModel.Lemmas.SuperrunWitness
/-
  Property C14 — a superrun is exactly the ordered concatenation of its subruns.
  Only property theorems and non-vacuity examples; the work is in Lemmas/Superrun{,Rows,Level,Cont,Pipe,Deep}.lean, the
  model in Model/Superrun.lean (+ Model/Chunk.lean, Model/Rechunk.lean), one translated constant in Generated/RunDoc.lean.
  40 theorems: 28 full (8 of them `generated_*` translator ties to Generated/SplitRuns.lean), 8 `_partial` (docstrings name
  the missing part), 4 witnesses (`_counterexample`; the C14c / C14e ones by `decide +kernel` on the whole pipeline).
  Partial-correctness statements ("if `get_iter` returns …") are `_partial`; their total siblings are
  `basic_pipeline_rows_total` and `superrun_rows_total_adjacent`.
-/
namespace Strax.C14
open Strax Strax.Superrun

/-! ## 1. run spans under `split` / `concatenate`  (`_split_runs_in_chunk`, `_merge_runs_in_chunk`, `_mergable_check`) -/

/-- **split_merge_runs.**  For sorted non-overlapping spans with distinct run ids and ANY `t`: splitting at `t`
and merging the two halves back (`merge=False`, as `concatenate` does) returns the original spans, in the original
order, minus the empty ones. -/
theorem split_merge_runs (rs : Runs) (t : Int) (hs : RunsSorted rs) (hn : (rs.map (·.id)).Nodup) :
    mergableCheck false (collectRuns [(splitRuns (some rs) t).1, (splitRuns (some rs) t).2])
      = .ok (nonEmptyRuns rs) :=
  split_merge_runs_list rs t hs hn

/-- … the spans of the halves tile the halves: if the spans tile `[A, B)` and `A ≤ t ≤ B`, the left half tiles
`[A, t)` and the right half `[t, B)` (`None` standing for "nothing left", i.e. an empty range) … -/
theorem split_runs_tile (rs : Runs) (A B t : Int) (h : Tiles A B rs) (h1 : A ≤ t) (h2 : t ≤ B) :
    TilesOpt A t (splitRuns (some rs) t).1 ∧ TilesOpt t B (splitRuns (some rs) t).2 := by
  have := split_tiles_list t rs A B h h1 h2
  exact ⟨tilesOpt_popEmpty this.1, tilesOpt_popEmpty this.2⟩

/-- … and empty spans are dropped from both halves (for every input, sorted or not). -/
theorem split_runs_drops_empty (rs : Option Runs) (t : Int) :
    (∀ l, (splitRuns rs t).1 = some l → l ≠ [] ∧ ∀ r ∈ l, r.start ≠ r.stop) ∧
    (∀ l, (splitRuns rs t).2 = some l → l ≠ [] ∧ ∀ r ∈ l, r.start ≠ r.stop) := by
  have key : ∀ (X l : Runs), popEmpty X = some l → l ≠ [] ∧ ∀ r ∈ l, r.start ≠ r.stop := by
    intro X l h
    unfold popEmpty at h
    cases hf : List.filter (fun r => r.start != r.stop) X with
    | nil => rw [hf] at h; cases h
    | cons a l' =>
      rw [hf] at h
      cases h
      refine ⟨by simp, ?_⟩
      intro r hr
      rw [← hf] at hr
      simpa using (List.mem_filter.mp hr).2
  cases rs with
  | none => simp [splitRuns]
  | some rs => exact ⟨fun l h => key _ l h, fun l h => key _ l h⟩

example : RunsSorted [⟨"a", 0, 5⟩, ⟨"b", 5, 5⟩, ⟨"c", 7, 9⟩] ∧ ([⟨"a", 0, 5⟩, ⟨"b", 5, 5⟩, ⟨"c", 7, 9⟩] : Runs).map (·.id) = ["a", "b", "c"] := by
  decide
example : Tiles 0 9 [⟨"a", 0, 5⟩, ⟨"b", 5, 5⟩, ⟨"c", 5, 9⟩] := by simp [Tiles]
example : splitRuns (some [⟨"a", 0, 5⟩, ⟨"b", 5, 5⟩, ⟨"c", 5, 9⟩]) 3 = (some [⟨"a", 0, 3⟩], some [⟨"a", 3, 5⟩, ⟨"c", 5, 9⟩]) := by
  decide

/-! ## 2. `define_run` -/

/-- `define_run` hands the frontend the listed runs, each once, in order of run start, ties in the order of
listing. -/
theorem defineRun_order (docs : List (String × Int)) (data spec : List String) (h : defineRun docs data = .ok spec) :
    spec.Perm (dedup data) ∧ spec.Nodup ∧
    spec.Pairwise (fun a b => ∃ sa sb, docs.lookup a = some sa ∧ docs.lookup b = some sb ∧ sa ≤ sb) ∧
    (∀ a b sa sb, docs.lookup a = some sa → docs.lookup b = some sb → sa ≤ sb →
      List.Sublist [a, b] (dedup data) → List.Sublist [a, b] spec) :=
  ⟨defineRun_perm h, defineRun_nodup h, defineRun_sorted h, fun _ _ _ _ ha hb hle hsub => defineRun_stable h ha hb hle hsub⟩

/-- the run document keeps that order: `DataDirectory.write_run_metadata` no longer passes `sort_keys=True`
(fix D27; the constant is regenerated from the source on every run, so this breaks if the call changes back) -/
theorem run_document_keeps_order : Generated.runDocSortKeys = false := rfl

theorem definedSpec_eq_defineRun (docs : List (String × Int)) (data : List String) :
    definedSpec Generated.runDocSortKeys docs data = defineRun docs data := by
  unfold definedSpec
  rw [run_document_keeps_order]
  cases defineRun docs data <;> rfl

/-- the behaviour BEFORE the fix (`sort_keys=True`), kept as a witness: run `r9` starts before run `r10`, yet the
spec read back from the run document — what superrun processing iterates over — is `[r10, r9]` -/
theorem start_order_old_counterexample :
    defineRun [("r9", 0), ("r10", 100)] ["r9", "r10"] = .ok ["r9", "r10"] ∧
    definedSpec true [("r9", 0), ("r10", 100)] ["r9", "r10"] = .ok ["r10", "r9"] := by
  constructor <;>
    simp [definedSpec, defineRun, dedup, runDocSpec, sortIds, List.lookup, List.mergeSort,
      List.MergeSort.Internal.splitInTwo, bind, Except.bind, pure, Except.pure] <;> decide

/-! ## 3. data keys -/

/-- **redefine_changes_key.**  Under an injective hash, a superrun redefined with another set of subruns, or with
another time selection for one of its subruns, or combined instead of processed, has another key — its previously
stored data cannot be found under the new definition. -/
theorem redefine_changes_key {κ : Type} (H : List (String × Option (Int × Int)) → Bool → κ)
    (hH : ∀ a b c d, H a b = H c d → a = c ∧ b = d)
    (name : String) (s1 s2 : List String) (l1 l2 : Sel) (c1 c2 : Bool)
    (h : ¬ s1.Perm s2 ∨ (∃ r ∈ s1, l1.lookup r ≠ l2.lookup r) ∨ c1 ≠ c2) :
    superrunKey H name s1 l1 c1 ≠ superrunKey H name s2 l2 c2 := by
  intro he
  obtain ⟨h1, h2⟩ := superrunKey_inj hH he
  obtain ⟨h3, h4⟩ := tagged_eq h1
  rcases h with h | ⟨r, hr, h⟩ | h
  · exact h (perm_of_sortIds_eq h3)
  · exact h (h4 r hr)
  · exact h h2

/-- … and the same set of subruns with the same selections always gives the same key (so restoring a definition
finds its data again). -/
theorem same_subruns_same_key {κ : Type} (H : List (String × Option (Int × Int)) → Bool → κ) (name : String)
    (s1 s2 : List String) (sel : Sel) (c : Bool)
    (h : s1.Perm s2) : superrunKey H name s1 sel c = superrunKey H name s2 sel c := by
  unfold superrunKey tagged; rw [sortIds_eq_of_perm h]

/-- the injectivity hypothesis is satisfiable (non-vacuity): pairing is an injective `H` -/
example : ∀ (a : List (String × Option (Int × Int))) (b : Bool) (c : List (String × Option (Int × Int))) (d : Bool),
    (fun (l : List (String × Option (Int × Int))) (x : Bool) => (l, x)) a b = (fun l x => (l, x)) c d → a = c ∧ b = d := by
  intro a b c d h; exact Prod.mk.inj h

/-! ## 4. rows -/

/-- **superrun_rows — partial correctness** (every input, every level, on the fly or stored).  PARTIAL: it says
what `get_iter` yields IF it returns; totality ("`get_array` returns …") is proved separately for the basic pipeline
(`basic_pipeline_rows_total`, any gaps) and for adjacent subruns at any depth (`superrun_rows_total_adjacent`), and is
FALSE of the code for subruns separated by a gap at depth ≥ 2 (open finding C14a).  For ANY world (chunk layouts of the
subruns, plugin chain with arbitrary `allow_superrun` / `rechunk_on_save` / target sizes), any `sub_run_spec`, any
storage content satisfying the invariant (in particular the empty one), any target level, combining or not,
`write_superruns` on or off: if `get_iter` does not raise, the rows it yields are `rows r₁ ++ … ++ rows rₙ` in
`sub_run_spec` order, and the storage invariant still holds.  `Canon` is any class of orderings in which the set of
subruns determines the order (the data key only knows the set). -/
theorem superrun_rows_partial {κ : Type} [DecidableEq κ] (Canon : List String → Prop) (H : List (String × Option (Int × Int)) → Bool → κ)
    (hH : ∀ a b c d, H a b = H c d → a = c ∧ b = d) (hcanon : ∀ a b, Canon a → Canon b → a.Perm b → a = b)
    (w : World) (spec : List String) (sel : Sel) (store store' : Store κ) (n : Nat) (combining write : Bool) (y : List Chunk)
    (hs : Canon spec) (hi : StoreInv Canon H w store)
    (h : superGet H w spec sel store n combining write = .ok (y, store')) :
    StoreInv Canon H w store' ∧ (AllSel sel spec → rowsOf y = spec.flatMap (srcRows w)) :=
  superGet_rows hH hcanon hs hi h

/-- **No stale data — partial correctness.**  PARTIAL in two ways: it speaks about the calls that return, and the
history `runOps` ENDS at the first call that raises (what a failed `get_iter` leaves behind in storage is outside the
model), so "any history" means "any error-free prefix".  Over any history of `get_iter` calls on one context — the superrun redefined at will
between calls, levels / combining / `write_superruns` varying — every call that returns yields exactly the rows of
the definition in force at that call: stored superrun data of another definition is never served.  Hypothesis: the
specs of the history come from a class in which the subrun set determines the order … -/
theorem redefinition_never_serves_stale_data_partial {κ : Type} [DecidableEq κ] (Canon : List String → Prop)
    (H : List (String × Option (Int × Int)) → Bool → κ) (hH : ∀ a b c d, H a b = H c d → a = c ∧ b = d)
    (hcanon : ∀ a b, Canon a → Canon b → a.Perm b → a = b) (w : World) (ops : List GetOp)
    (hs : ∀ op ∈ ops, Canon op.spec) :
    ∀ p ∈ runOps H w [] ops, AllSel p.1.sel p.1.spec → rowsOf p.2 = p.1.spec.flatMap (srcRows w) :=
  runOps_rows hH hcanon w ops [] (storeInv_nil Canon H w) hs

/-- … which holds for everything `define_run` produces from run documents with pairwise distinct starts -/
theorem redefinition_never_serves_stale_data_start_order_partial {κ : Type} [DecidableEq κ] (H : List (String × Option (Int × Int)) → Bool → κ)
    (hH : ∀ a b c d, H a b = H c d → a = c ∧ b = d) (w : World) (docs : List (String × Int)) (ops : List GetOp)
    (hs : ∀ op ∈ ops, StartSorted docs op.spec) :
    ∀ p ∈ runOps H w [] ops, AllSel p.1.sel p.1.spec → rowsOf p.2 = p.1.spec.flatMap (srcRows w) :=
  runOps_rows hH (canon_startSorted docs) w ops [] (storeInv_nil _ H w) hs

theorem defineRun_gives_start_sorted (docs : List (String × Int)) (data spec : List String)
    (h : defineRun docs data = .ok spec)
    (hd : ∀ a b sa sb, a ∈ data → b ∈ data → a ≠ b → docs.lookup a = some sa → docs.lookup b = some sb → sa ≠ sb) :
    StartSorted docs spec :=
  defineRun_startSorted h hd

/-- without distinct starts the hypothesis is needed: with a tie, listing order decides (`defineRun_order`), two
definitions of the same set then share the key but not the order — the id-sorted class of the old code is canonical
too (non-vacuity of `hcanon` for both classes) -/
example : ∀ a b : List String, sortIds a = a → sortIds b = b → a.Perm b → a = b := canon_sortIds

/-- **superrun_rows in order of run start — partial correctness** (for the code after fix D27; PARTIAL: "if it
returns", totality see `superrun_rows_total_adjacent`; the order claim is `≤` on run starts, ties in listing order,
see `defineRun_order`).  `define_run` followed by
`get_iter`: the rows are the listed subruns' rows, each subrun once, concatenated in order of run start. -/
theorem superrun_rows_in_start_order_partial {κ : Type} [DecidableEq κ] (H : List (String × Option (Int × Int)) → Bool → κ)
    (hH : ∀ a b c d, H a b = H c d → a = c ∧ b = d) (w : World) (docs : List (String × Int)) (data startSpec : List String)
    (hdef : defineRun docs data = .ok startSpec)
    (store' : Store κ) (n : Nat) (combining write : Bool) (y : List Chunk)
    (h : (definedSpec Generated.runDocSortKeys docs data >>= fun spec => superGet H w spec [] [] n combining write) = .ok (y, store')) :
    rowsOf y = startSpec.flatMap (srcRows w) ∧ startSpec.Perm (dedup data) ∧
    startSpec.Pairwise (fun a b => ∃ sa sb, docs.lookup a = some sa ∧ docs.lookup b = some sb ∧ sa ≤ sb) := by
  rw [definedSpec_eq_defineRun, hdef] at h
  have h' : superGet H w startSpec [] [] n combining write = .ok (y, store') := h
  have := superGet_rows (Canon := fun s => s = startSpec) hH (by intro a b ha hb _; rw [ha, hb]) rfl
    (storeInv_nil _ H w) h'
  exact ⟨this.2 (fun _ _ => rfl), defineRun_perm hdef, defineRun_sorted hdef⟩

example : sortIds ["a", "b"] = ["a", "b"] := by
  simp [sortIds, List.mergeSort, List.MergeSort.Internal.splitInTwo]

/-- a subrun loaded through a time window (`sub_run_spec` value `[start, end]`) contributes a sublist of its rows:
in order, nothing duplicated, nothing from elsewhere -/
theorem windowed_subrun_rows_sublist (tr : Int × Int) (cs out : List Chunk) (h : applyTimeRange tr cs = .ok out) :
    List.Sublist (rowsOf out) (rowsOf cs) :=
  applyTimeRange_sublist tr cs out h

/-- a row-wise plugin level with one dependency keeps the rows of ANY input stream (superrun or not, valid or
not) whenever it does not raise (partial correctness; totality on loader streams: `first_level_explicit`) -/
theorem plugin_level_rows_partial (lv : Level) (runId : String) (cs outs : List Chunk) (h : pluginRun lv runId cs = .ok outs) :
    rowsOf outs = rowsOf cs :=
  pluginRun_rows h

/-- saving with rechunking across subrun borders (`Rechunker` with `is_superrun`) and re-reading keeps the rows —
if both return (partial correctness; totality without rechunking: `written_and_reread_identical`) -/
theorem stored_and_reread_rows_partial (a : Int) (lv : Level) (runId : String) (cs saved loaded : List Chunk)
    (h1 : save a lv runId cs = .ok saved) (h2 : saved.mapM reload = .ok loaded) : rowsOf loaded = rowsOf cs := by
  rw [mapM_reload_rows h2, save_rows h1]

/-! ## 5. the first superrun level, explicitly: subruns recorded, continuity across borders -/

/-- **The first superrun level is total and explicit.**  For every stream as the concat loader yields it
(`LoaderStream`: loader chunks of positive duration, each run's chunks adjacent, runs on increasing disjoint
ranges — any gaps between runs), `Plugin.iter` of a superrun-capable plugin does not raise and yields exactly
`expected`: chunk `c` of subrun `rid` becomes a superrun chunk that starts where the previous output ended, ends
where `c` ends and holds `c`'s rows. -/
theorem first_level_explicit (lv : Level) (sup dt : String) (cs : List Chunk) (hallow : lv.allow = true)
    (hsupid : isSuperId sup = true) (hne : cs ≠ []) (hs : LoaderStream dt sup none cs) :
    pluginRun lv sup cs = .ok (expected lv sup none cs) :=
  pluginRun_loader hallow hsupid hne hs

/-- **chunk_records_its_subruns — partial (first superrun level, yielded chunks).**  Every chunk yielded by the
first superrun level records exactly the subrun, with the time span, of the loader chunk it was built from
(and holds that chunk's rows; the outputs are contiguous and end where the inputs end).

Full statement: the same for every yielded or stored chunk of every level (`subruns` = the subruns overlapping
the chunk, clipped to it).  Missing part: chunks above the first superrun level and chunks stored through a
rechunking saver.  There the full statement is FALSE of the code whenever two consecutive subruns are separated by
a time gap (`chunk_records_its_subruns_counterexample`, open finding C14a); for adjacent subruns it is validated
by the correspondence check only. -/
theorem chunk_records_its_subruns_partial (lv : Level) (sup dt : String) (cs : List Chunk) (hallow : lv.allow = true)
    (hsupid : isSuperId sup = true) (hne : cs ≠ []) (hs : LoaderStream dt sup none cs) :
    ∃ outs, pluginRun lv sup cs = .ok outs ∧
      outs.map (·.subruns) = cs.map (fun c => some [⟨ridOf c, c.start, c.stop⟩]) ∧
      outs.map (·.rows) = cs.map (·.rows) ∧ outs.map (·.stop) = cs.map (·.stop) ∧ Contig outs :=
  ⟨_, pluginRun_loader hallow hsupid hne hs, expected_subruns lv sup cs none, expected_rows lv sup cs none,
    expected_stops lv sup cs none, expected_contig lv sup cs none⟩

/-- the chunk made at a border with a gap does not promise continuity, and `split` (as the input buffer of the
next plugin level and the rechunker use it) then copies its `subruns` to BOTH halves: the left half `[20, 35)`
records `b: [30, 40)`, a span reaching beyond the chunk; the right half records it too. -/
theorem chunk_records_its_subruns_counterexample :
    gapChunk = outChunk ⟨"d", true, false, 1⟩ "_s" "b" 20 ⟨"s", "k", some "b", 30, 40, [], none, [⟨"b", 30, 40⟩], 1⟩ ∧
    gapChunk.split 35 true = .ok
      (⟨"d", "k", some "_s", 20, 35, [], some [⟨"b", 30, 40⟩], [⟨"_s", 20, 35⟩], 1⟩,
       ⟨"d", "k", some "_s", 35, 40, [], some [⟨"b", 30, 40⟩], [⟨"_s", 35, 40⟩], 1⟩) :=
  ⟨gapChunk_eq, gapChunk_split⟩

/-- **continuity_across_borders** (first superrun level).  `continuity_check` accepts the combined stream of the
first superrun level: inside a subrun every chunk starts where the previous one ended, at a border the check is
reset — whatever the chunk layouts of the subruns and the gaps between them. -/
theorem continuity_across_borders (lv : Level) (sup dt : String) (cs : List Chunk) (hallow : lv.allow = true)
    (hsupid : isSuperId sup = true) (hne : cs ≠ []) (hs : LoaderStream dt sup none cs) :
    ∃ outs, pluginRun lv sup cs = .ok outs ∧ Superrun.continuityCheck outs = .ok () :=
  ⟨_, pluginRun_loader hallow hsupid hne hs, continuity_expected lv sup hsupid cs⟩

/-- non-vacuity: two subruns `a = [0,10) ++ [10,20)` and `b = [30,40)` (gap of 10) form a `LoaderStream` -/
example : LoaderStream "s" "_s" none
    [⟨"s", "k", some "a", 0, 10, [⟨1, 2, 0⟩], none, [⟨"a", 0, 10⟩], 5⟩,
     ⟨"s", "k", some "a", 10, 20, [], none, [⟨"a", 10, 20⟩], 5⟩,
     ⟨"s", "k", some "b", 30, 40, [⟨31, 32, 1⟩], none, [⟨"b", 30, 40⟩], 5⟩] := by
  refine ⟨"a", ⟨rfl, rfl, rfl, rfl, by decide, by decide, ?_⟩, by decide, trivial,
          "a", ⟨rfl, rfl, rfl, rfl, by decide, by decide, ?_⟩, by decide, ⟨by decide, fun _ => rfl⟩,
          "b", ⟨rfl, rfl, rfl, rfl, by decide, by decide, ?_⟩, by decide, ⟨by decide, fun h => absurd h (by decide)⟩, trivial⟩
  all_goals (intro x hx; simp at hx; try (subst hx; decide))

/-- **chunk_records_its_subruns for adjacent subruns, any depth — partial.**  When consecutive subruns are adjacent
in time (`AdjStream`: every loader chunk starts where the previous one ended, also across borders), ANY number of
superrun-capable levels stacked on the concat loader do not raise, and every level yields the chunks of the first
one re-tagged with its own data type: same boundaries, same rows, and `subruns` = exactly the subrun span the chunk
was built from.  So the depth of the plugin graph at which superrun processing starts does not change what a chunk
records.  Still missing for the full statement: chunks stored through a rechunking saver (correspondence only), and
subruns separated by a gap (false: C14a). -/
theorem chunk_records_its_subruns_adjacent_partial (lv1 : Level) (ls : List Level) (sup dt : String) (cs : List Chunk)
    (hallow : lv1.allow = true) (hsupid : isSuperId sup = true) (hne : cs ≠ []) (hs : AdjStream dt sup none cs) :
    runLevels sup (lv1 :: ls) cs = .ok ((lv1 :: ls).map fun lv => (lv, (expected lv1 sup none cs).map (retag lv))) ∧
    (∀ lv, ((expected lv1 sup none cs).map (retag lv)).map (·.subruns) = cs.map (fun c => some [⟨ridOf c, c.start, c.stop⟩])) ∧
    (∀ lv, ((expected lv1 sup none cs).map (retag lv)).map (·.rows) = cs.map (·.rows)) ∧
    (∀ lv, ((expected lv1 sup none cs).map (retag lv)).map (fun c => (c.start, c.stop)) = cs.map (fun c => (c.start, c.stop))) := by
  refine ⟨runLevels_adjacent ls hallow hsupid hne hs, ?_, ?_, ?_⟩
  · intro lv
    rw [List.map_map]
    have : ((·.subruns) ∘ retag lv) = (·.subruns) := rfl
    rw [this, expected_subruns]
  · intro lv
    rw [List.map_map]
    have : ((·.rows) ∘ retag lv) = (·.rows) := rfl
    rw [this, expected_rows]
  · intro lv
    rw [List.map_map]
    have : ((fun c : Chunk => (c.start, c.stop)) ∘ retag lv) = (fun c => (c.start, c.stop)) := rfl
    rw [this]
    have key : ∀ (cs : List Chunk) (prev : Option (String × Int)), AdjStream dt sup prev cs →
        (expected lv1 sup (prev.map (·.2)) cs).map (fun c => (c.start, c.stop)) = cs.map (fun c => (c.start, c.stop)) := by
      intro cs
      induction cs with
      | nil => intro prev _; rfl
      | cons c cs ih =>
        intro prev h
        obtain ⟨rid, hc, _, hp, hrest⟩ := h
        have hstart : (prev.map (·.2)).getD c.start = c.start := by
          cases prev with
          | none => rfl
          | some rp => obtain ⟨r', p⟩ := rp; exact hp r' p rfl
        have := ih (some (rid, c.stop)) hrest
        simp only [Option.map_some] at this
        simp only [expected, List.map_cons, this, outChunk, hstart]
    exact key cs none hs

/-- non-vacuity: `a = [0,10) ++ [10,20)` directly followed by `b = [20,30)` -/
example : AdjStream "s" "_s" none
    [⟨"s", "k", some "a", 0, 10, [⟨1, 2, 0⟩], none, [⟨"a", 0, 10⟩], 5⟩,
     ⟨"s", "k", some "a", 10, 20, [], none, [⟨"a", 10, 20⟩], 5⟩,
     ⟨"s", "k", some "b", 20, 30, [⟨21, 22, 1⟩], none, [⟨"b", 20, 30⟩], 5⟩] := by
  refine ⟨"a", ⟨rfl, rfl, rfl, rfl, by decide, by decide, ?_⟩, by decide, (fun _ _ h => by cases h),
          "a", ⟨rfl, rfl, rfl, rfl, by decide, by decide, ?_⟩, by decide, (fun _ _ h => by cases h; rfl),
          "b", ⟨rfl, rfl, rfl, rfl, by decide, by decide, ?_⟩, by decide, (fun _ _ h => by cases h; rfl), trivial⟩
  all_goals (intro x hx; simp at hx; try (subst hx; decide))

/-- written and re-read (saver without rechunking): the stored superrun chunks are the yielded ones and the loader
gives back exactly those chunks, `subruns` included -/
theorem written_and_reread_identical (a : Int) (lv : Level) (dt sup : String) (cs : List Chunk) (hre : lv.rechunk = false)
    (hs : SuperStream dt sup none cs) : save a lv sup cs = .ok cs ∧ cs.mapM reload = .ok cs :=
  save_reload_super hre cs none hs

/-! ## 6. the basic pipeline end to end -/

/-- **The basic superrun pipeline is total and explicit.**  World: source plugin `l0` (saved without rechunking) and
one superrun-capable plugin `l1` above it; every listed subrun has ≥ 1 accepted source chunk; the concat loader's
stream is a `LoaderStream` (subruns contiguous inside, on increasing ranges, gaps allowed).  Then `get_iter` of the
superrun — nothing stored, `write_superruns` off — does not raise, passes `continuity_check`, and yields exactly
`expected`: rows in `sub_run_spec` order, every chunk recording the subrun span it was built from. -/
theorem basic_pipeline_total {κ : Type} [DecidableEq κ] (H : List (String × Option (Int × Int)) → Bool → κ) (w : World) (l0 l1 : Level)
    (spec : List String) (h : WorldOK w l0 l1 spec) :
    superGet H w spec [] [] 1 false false = .ok (expected l1 w.superName none (loaderStream w l0 spec), []) :=
  superGet_basic H h

/-- **superrun_rows, total, basic pipeline (any gaps).**  `get_iter` returns, and the rows are the subruns' rows in
`sub_run_spec` order. -/
theorem basic_pipeline_rows_total {κ : Type} [DecidableEq κ] (H : List (String × Option (Int × Int)) → Bool → κ)
    (hH : ∀ a b c d, H a b = H c d → a = c ∧ b = d) (w : World) (l0 l1 : Level) (spec : List String)
    (h : WorldOK w l0 l1 spec) :
    ∃ y, superGet H w spec [] [] 1 false false = .ok (y, []) ∧ rowsOf y = spec.flatMap (srcRows w) := by
  refine ⟨_, superGet_basic H h, ?_⟩
  exact (superGet_rows (Canon := fun s => s = spec) hH (by intro a b ha hb _; rw [ha, hb]) rfl
    (storeInv_nil _ H w) (superGet_basic H h)).2 (fun _ _ => rfl)

/-- **superrun_rows, total, adjacent subruns, any depth.**  Source plugin + any number `≥ 1` of superrun-capable
levels, subruns adjacent in time (`WorldAdj`): `get_iter` at the topmost level returns, passes `continuity_check`,
yields the first level's chunks re-tagged, and the rows are the subruns' rows in `sub_run_spec` order. -/
theorem superrun_rows_total_adjacent {κ : Type} [DecidableEq κ] (H : List (String × Option (Int × Int)) → Bool → κ)
    (hH : ∀ a b c d, H a b = H c d → a = c ∧ b = d) (w : World) (l0 l1 top : Level) (ls : List Level)
    (spec : List String) (h : WorldAdj w l0 l1 ls spec) (htop : (l1 :: ls).getLast? = some top) :
    superGet H w spec [] [] (ls.length + 1) false false
      = .ok ((expected l1 w.superName none (loaderStream w l0 spec)).map (retag top), []) ∧
    rowsOf ((expected l1 w.superName none (loaderStream w l0 spec)).map (retag top)) = spec.flatMap (srcRows w) := by
  have hg := superGet_adjacent H h htop
  exact ⟨hg, (superGet_rows (Canon := fun s => s = spec) hH (by intro a b ha hb _; rw [ha, hb]) rfl
    (storeInv_nil _ H w) hg).2 (fun _ _ => rfl)⟩

/-- non-vacuity of the history theorems: on a `WorldOK` world the one-call history returns (so `runOps` is not
empty and the statement of `redefinition_never_serves_stale_data_partial` speaks about an actual call) -/
example {κ : Type} [DecidableEq κ] (H : List (String × Option (Int × Int)) → Bool → κ) (w : World) (l0 l1 : Level)
    (spec : List String) (h : WorldOK w l0 l1 spec) :
    runOps H w [] [⟨spec, [], 1, false, false⟩]
      = [(⟨spec, [], 1, false, false⟩, expected l1 w.superName none (loaderStream w l0 spec))] := by
  simp [runOps, superGet_basic H h]

/-- non-vacuity: subruns `a = [0,10) ++ [10,20)`, `b = [30,40)` (a gap of 10 between them) -/
example : WorldOK ⟨-1, "_s", [⟨"l0", false, false, 5⟩, ⟨"l1", true, false, 5⟩],
      [("a", [⟨0, 10, [⟨1, 2, 0⟩]⟩, ⟨10, 20, []⟩]), ("b", [⟨30, 40, [⟨31, 32, 1⟩]⟩])]⟩
    ⟨"l0", false, false, 5⟩ ⟨"l1", true, false, 5⟩ ["a", "b"] := by
  refine ⟨rfl, rfl, rfl, rfl, by simp [isSuperId], ?_, by simp, ?_⟩
  · intro rid hr
    simp at hr
    rcases hr with rfl | rfl
    · refine ⟨_, rfl, by simp, by simp [isSuperId], ?_⟩
      intro c hc; simp at hc
      rcases hc with rfl | rfl
      · exact ⟨by decide, by decide, by intro x hx; simp at hx; subst hx; decide⟩
      · exact ⟨by decide, by decide, by intro x hx; simp at hx⟩
    · refine ⟨_, rfl, by simp, by simp [isSuperId], ?_⟩
      intro c hc; simp at hc; subst hc
      exact ⟨by decide, by decide, by intro x hx; simp at hx; subst hx; decide⟩
  · show LoaderStream "l0" "_s" none
      [loaderOf ⟨"l0", false, false, 5⟩ "a" ⟨0, 10, [⟨1, 2, 0⟩]⟩, loaderOf ⟨"l0", false, false, 5⟩ "a" ⟨10, 20, []⟩,
       loaderOf ⟨"l0", false, false, 5⟩ "b" ⟨30, 40, [⟨31, 32, 1⟩]⟩]
    refine ⟨"a", ⟨rfl, rfl, rfl, rfl, by decide, by decide, ?_⟩, by decide, trivial,
            "a", ⟨rfl, rfl, rfl, rfl, by decide, by decide, ?_⟩, by decide, ⟨by decide, fun _ => rfl⟩,
            "b", ⟨rfl, rfl, rfl, rfl, by decide, by decide, ?_⟩, by decide, ⟨by decide, fun h => absurd h (by decide)⟩, trivial⟩
    all_goals (intro x hx; simp [loaderOf] at hx; try (subst hx; decide))

/-- non-vacuity of `WorldAdj`: `a = [0,10) ++ [10,20)` directly followed by `b = [20,30)`, two superrun levels -/
example : WorldAdj ⟨-1, "_s", [⟨"l0", false, false, 5⟩, ⟨"l1", true, false, 5⟩, ⟨"l2", true, true, 5⟩],
      [("a", [⟨0, 10, [⟨1, 2, 0⟩]⟩, ⟨10, 20, []⟩]), ("b", [⟨20, 30, [⟨21, 22, 1⟩]⟩])]⟩
    ⟨"l0", false, false, 5⟩ ⟨"l1", true, false, 5⟩ [⟨"l2", true, true, 5⟩] ["a", "b"] := by
  refine ⟨rfl, rfl, rfl, ?_, by simp [isSuperId], ?_, by simp, ?_⟩
  · intro lv hlv; simp at hlv; rcases hlv with rfl | rfl <;> rfl
  · intro rid hr
    simp at hr
    rcases hr with rfl | rfl
    · refine ⟨_, rfl, by simp, by simp [isSuperId], ?_⟩
      intro c hc; simp at hc
      rcases hc with rfl | rfl
      · exact ⟨by decide, by decide, by intro x hx; simp at hx; subst hx; decide⟩
      · exact ⟨by decide, by decide, by intro x hx; simp at hx⟩
    · refine ⟨_, rfl, by simp, by simp [isSuperId], ?_⟩
      intro c hc; simp at hc; subst hc
      exact ⟨by decide, by decide, by intro x hx; simp at hx; subst hx; decide⟩
  · show AdjStream "l0" "_s" none
      [loaderOf ⟨"l0", false, false, 5⟩ "a" ⟨0, 10, [⟨1, 2, 0⟩]⟩, loaderOf ⟨"l0", false, false, 5⟩ "a" ⟨10, 20, []⟩,
       loaderOf ⟨"l0", false, false, 5⟩ "b" ⟨20, 30, [⟨21, 22, 1⟩]⟩]
    refine ⟨"a", ⟨rfl, rfl, rfl, rfl, by decide, by decide, ?_⟩, by decide, (fun _ _ h => by cases h),
            "a", ⟨rfl, rfl, rfl, rfl, by decide, by decide, ?_⟩, by decide, (fun _ _ h => by cases h; rfl),
            "b", ⟨rfl, rfl, rfl, rfl, by decide, by decide, ?_⟩, by decide, (fun _ _ h => by cases h; rfl), trivial⟩
    all_goals (intro x hx; simp [loaderOf] at hx; try (subst hx; decide))

/-! ## 7. Round 5 — total siblings of the `_partial` statements on the domains where the code does not fail

Excluded by the hypotheses, and why: a time gap between consecutive subruns at depth ≥ 2 (C14a,
`chunk_records_its_subruns_counterexample`), zero-duration chunks (C14c / C14e, `zero_duration_chunk_counterexample`,
`zero_duration_last_chunk_counterexample`).  `WorldOK` / `WorldAdj` additionally ask for an empty store,
`write_superruns` off and all levels above the source superrun-capable — wider than the defects; the partial
statements above stay the only ones for that remainder. -/

/-- **superrun_rows in order of run start — TOTAL, adjacent subruns, any depth** (sibling of
`superrun_rows_in_start_order_partial`).  `define_run` (succeeding: every listed run has a document) followed by
`get_iter` at the topmost of any number `≥ 1` of superrun-capable levels RETURNS, and the rows are the listed
subruns' rows, each subrun once, in order of run start.  `WorldAdj` excludes gaps between subruns (C14a) and
zero-duration chunks (C14c/e). -/
theorem superrun_rows_in_start_order_total_adjacent {κ : Type} [DecidableEq κ] (H : List (String × Option (Int × Int)) → Bool → κ)
    (hH : ∀ a b c d, H a b = H c d → a = c ∧ b = d) (w : World) (docs : List (String × Int)) (data startSpec : List String)
    (l0 l1 top : Level) (ls : List Level)
    (hdef : defineRun docs data = .ok startSpec) (h : WorldAdj w l0 l1 ls startSpec) (htop : (l1 :: ls).getLast? = some top) :
    ∃ y, (definedSpec Generated.runDocSortKeys docs data >>= fun spec => superGet H w spec [] [] (ls.length + 1) false false) = .ok (y, []) ∧
      rowsOf y = startSpec.flatMap (srcRows w) ∧ startSpec.Perm (dedup data) ∧
      startSpec.Pairwise (fun a b => ∃ sa sb, docs.lookup a = some sa ∧ docs.lookup b = some sb ∧ sa ≤ sb) := by
  obtain ⟨hg, hr⟩ := superrun_rows_total_adjacent H hH w l0 l1 top ls startSpec h htop
  refine ⟨_, ?_, hr, defineRun_perm hdef, defineRun_sorted hdef⟩
  rw [definedSpec_eq_defineRun, hdef]
  exact hg

/-- **… TOTAL, basic pipeline, ANY gaps** (source + one superrun level; this is the part of the gap domain on which
the code is correct — C14a needs depth ≥ 2). -/
theorem superrun_rows_in_start_order_total_basic {κ : Type} [DecidableEq κ] (H : List (String × Option (Int × Int)) → Bool → κ)
    (hH : ∀ a b c d, H a b = H c d → a = c ∧ b = d) (w : World) (docs : List (String × Int)) (data startSpec : List String)
    (l0 l1 : Level) (hdef : defineRun docs data = .ok startSpec) (h : WorldOK w l0 l1 startSpec) :
    ∃ y, (definedSpec Generated.runDocSortKeys docs data >>= fun spec => superGet H w spec [] [] 1 false false) = .ok (y, []) ∧
      rowsOf y = startSpec.flatMap (srcRows w) ∧ startSpec.Perm (dedup data) ∧
      startSpec.Pairwise (fun a b => ∃ sa sb, docs.lookup a = some sa ∧ docs.lookup b = some sb ∧ sa ≤ sb) := by
  obtain ⟨y, hg, hr⟩ := basic_pipeline_rows_total H hH w l0 l1 startSpec h
  refine ⟨y, ?_, hr, defineRun_perm hdef, defineRun_sorted hdef⟩
  rw [definedSpec_eq_defineRun, hdef]
  exact hg

/-- **plugin_level_rows — TOTAL on loader streams** (sibling of `plugin_level_rows_partial`): on every stream the concat
loader yields (`LoaderStream`, any gaps) a superrun-capable level returns and keeps the rows. -/
theorem plugin_level_rows_total_loader (lv : Level) (sup dt : String) (cs : List Chunk) (hallow : lv.allow = true)
    (hsupid : isSuperId sup = true) (hne : cs ≠ []) (hs : LoaderStream dt sup none cs) :
    ∃ outs, pluginRun lv sup cs = .ok outs ∧ rowsOf outs = rowsOf cs :=
  ⟨_, pluginRun_loader hallow hsupid hne hs, pluginRun_rows (pluginRun_loader hallow hsupid hne hs)⟩

/-- **stored_and_reread_rows — TOTAL for a saver without rechunking** (sibling of `stored_and_reread_rows_partial`):
save and re-read of any superrun stream return and keep the rows.  Still partial-only: the rechunking saver. -/
theorem stored_and_reread_rows_total_no_rechunk (a : Int) (lv : Level) (dt sup : String) (cs : List Chunk)
    (hre : lv.rechunk = false) (hs : SuperStream dt sup none cs) :
    ∃ saved loaded, save a lv sup cs = .ok saved ∧ saved.mapM reload = .ok loaded ∧ rowsOf loaded = rowsOf cs :=
  ⟨cs, cs, (save_reload_super (a := a) hre cs none hs).1, (save_reload_super (a := a) hre cs none hs).2, rfl⟩

/-! ## 8. Round 5 — the open findings pinned on the whole model pipeline by kernel evaluation

Each witness also evaluates the NEIGHBOURING inputs that work, so the excluded region is seen to be as small as the
defect: the same world at depth 1 / without the zero-duration chunk / without `write_superruns`.  (C14a keeps its
rewriting witness `chunk_records_its_subruns_counterexample`: the kernel cannot unfold `List.mergeSort` on the
two-entry annotation of a border chunk, single-subrun worlds are fine.) -/
open Strax.Superrun.Witness in
/-- **C14c.**  One subrun with chunks `[0,10), [10,10), [10,20)` through two superrun levels: `TypeError`
(`continuity_check` with `last_subrun = None`).  At depth 1, or without the zero-duration chunk, `get_iter` returns
(so the positive-duration hypothesis of `LoaderStream` is WIDER than the defect at depth 1: not proved there, only
evaluated here and by the correspondence `superrun/zerodur`). -/
theorem zero_duration_chunk_counterexample :
    twice zeroWorld ["a"] 2 false = (some Err.typeError, none) ∧
    twice zeroWorld ["a"] 1 false = (none, none) ∧
    twice noZeroWorld ["a"] 2 false = (none, none) := by
  decide +kernel

open Strax.Superrun.Witness in
/-- **C14e.**  One subrun `[2,3) ++ [3,3)` (zero-duration chunk last), levels `l1` (no superrun) → `l2`, `l3`
(superrun-capable), `write_superruns`: the first `get_iter` returns, the second raises `ValueError` (a chunk was
stored with `subruns: None`).  Without `write_superruns` both calls return. -/
theorem zero_duration_last_chunk_counterexample :
    twice zeroLastWorld ["a"] 3 true = (none, some Err.valueError) ∧
    twice zeroLastWorld ["a"] 3 false = (none, none) := by
  decide +kernel

/-! ## 9. Round 5 — translator ties: scalar decisions regenerated from /repo/strax/chunk.py (Generated/SplitRuns.lean) -/

/-- `_split_runs_in_chunk` with the GENERATED if/elif chain (`t <= start` / `start < t < end` / `end <= t`) is the
model's `splitRuns` — for every input.  A change of a comparison or of what a branch assigns breaks this proof. -/
theorem generated_split_case_eq_model (runs : Option Runs) (t : Int) : splitRunsGen runs t = splitRuns runs t :=
  splitRunsGen_eq runs t

/-- the chain of the source has no fall-through: every run gets an entry in at least one half -/
theorem generated_split_case_total (t s e : Int) :
    (Generated.splitRunCase t s e).1 ≠ none ∨ (Generated.splitRunCase t s e).2 ≠ none :=
  splitRunCase_total t s e

/-- `split_merge_runs` stated of the generated chain directly -/
theorem generated_split_merge_runs (rs : Runs) (t : Int) (hs : RunsSorted rs) (hn : (rs.map (·.id)).Nodup) :
    mergableCheck false (collectRuns [(splitRunsGen (some rs) t).1, (splitRunsGen (some rs) t).2])
      = .ok (nonEmptyRuns rs) := by
  rw [splitRunsGen_eq]; exact split_merge_runs rs t hs hn

/-- the sort key of the `subruns` setter (after fix D31: `(start, end)`) is the model's `runLe` -/
theorem generated_subruns_order_eq_model (a b : Run) :
    Generated.subrunsKeyLe a.start a.stop b.start b.stop = runLe a b :=
  subrunsKeyLe_eq a b

/-- the `subruns` setter built from the generated key and the generated `_sorted_subruns_check` test is what
`Chunk.__init__` of the model does with `subruns`: it raises `ValueError` exactly when the generated setter gives
`none`, and otherwise the chunk records the generated setter's result. -/
theorem generated_subruns_setter_eq_model (dt k : String) (rid : Option String) (a b : Int) (rows : List Row) (s : Runs)
    (sup : Option Runs) (tg : Nat) :
    (setSubrunsGen s = none → mkChunk dt k rid a b rows (some s) sup tg = .error Err.valueError) ∧
    (∀ c, mkChunk dt k rid a b rows (some s) sup tg = .ok c → c.subruns = setSubrunsGen s) := by
  rw [setSubrunsGen_eq]
  unfold setSubruns
  constructor
  · intro h
    by_cases ho : runsOverlap (sortRuns s) = true
    · unfold mkChunk
      simp only [ho, if_true, bind, Except.bind, throw, throwThe, MonadExceptOf.throw]
    · simp [ho] at h
  · intro c hc
    obtain ⟨hc1, _, _, _, hov⟩ := Strax.Superrun.mkChunk_fields hc
    subst hc1
    simp [hov s rfl]

/-- `_pop_out_empty_run_id` with the generated removal test (`start == end`) is the model's `popEmpty` -/
theorem generated_pop_empty_eq_model (rs : Runs) : popEmptyGen rs = popEmpty rs := popEmptyGen_eq rs

/-- `_mergable_check` with both generated raise conditions (concatenate: `span[i].start != span[i-1].end`; merge:
`span[i] != span[0]` in start or end) is the model's `mergableCheck`, for every input and both modes — so
`split_merge_runs` and the C14a witness speak about the conditions of the current source. -/
theorem generated_mergable_check_eq_model (merge : Bool) (m : List (String × List (Int × Int))) :
    mergableCheckGen merge m = mergableCheck merge m := mergableCheckGen_eq merge m

/-- `split_merge_runs` with EVERY scalar decision taken from the generated definitions: generated chain, generated
pop-empty test (inside `splitRunsGen` via `popEmpty = popEmptyGen`), generated merge condition. -/
theorem generated_split_merge_runs_all (rs : Runs) (t : Int) (hs : RunsSorted rs) (hn : (rs.map (·.id)).Nodup) :
    mergableCheckGen false (collectRuns [popEmptyGen (splitRunsListGen t rs).1, popEmptyGen (splitRunsListGen t rs).2])
      = .ok (nonEmptyRuns rs) := by
  rw [mergableCheckGen_eq, popEmptyGen_eq, popEmptyGen_eq, splitRunsListGen_eq]
  exact split_merge_runs rs t hs hn

/-- non-vacuity: the generated setter sorts by (start, end) and refuses overlaps -/
example : setSubrunsGen [⟨"b", 5, 9⟩, ⟨"a", 0, 5⟩] = some [⟨"a", 0, 5⟩, ⟨"b", 5, 9⟩] ∧
    setSubrunsGen [⟨"b", 4, 9⟩, ⟨"a", 0, 5⟩] = none := by
  constructor <;>
    simp [setSubrunsGen, List.mergeSort, List.MergeSort.Internal.splitInTwo, Generated.subrunsKeyLe,
      runsOverlapGen, Generated.subrunsOverlap]
example : splitRunsGen (some [⟨"a", 0, 5⟩, ⟨"b", 5, 5⟩, ⟨"c", 5, 9⟩]) 3 = (some [⟨"a", 0, 3⟩], some [⟨"a", 3, 5⟩, ⟨"c", 5, 9⟩]) := by
  decide

end Strax.C14
