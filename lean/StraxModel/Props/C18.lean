import StraxModel.Lemmas.Pulse
/-
  C18 — hit finding and data reduction keep exactly the samples they should.
  Model: `Model/Pulse.lean` (namespace `Strax.Pulse`); lemmas: `Lemmas/Pulse{Hits,Cut,Links,Baseline,Shift}.lean`, umbrella
  `Lemmas/Pulse.lean`.  Every theorem is over arbitrary record arrays, thresholds, hit lists and extensions (no size bound).
  Naming: plain names hold for all inputs or on the property's domain `wellFormedPulses` (stated in the docstring);
  `…_partial` needs a side condition and says what is missing; `…_counterexample` are `decide`d witnesses that the full
  statement fails for the code as it is; `…_as_coded` states what the code computes where that differs from the property's
  reading; definitions ending in `_witness` / `_example` are the concrete inputs used by those and by the non-vacuity examples.
-/
namespace Strax.C18
open Strax Strax.Pulse

/-! ## find_hits -/

/-- **The returned intervals are exactly the maximal runs of in-record samples at/above threshold, in order.**
For every input on which `find_hits` returns: `(k, l, r)` is (record index, left, right) of a returned hit iff
`[l, r)` is a maximal run of samples `>= threshold` among the first `length` samples of record `k`; and the hits
come ordered by record and, inside a record, strictly from left to right (so no interval is reported twice). -/
theorem hits_are_maximal_runs (records : List Record) (amp hon : ThrArg) (hits : List Hit)
    (e : findHits records amp hon = .ok hits) :
    (∀ k l r, (∃ x ∈ hits, x.recordI = k ∧ x.left = l ∧ x.right = r) ↔
        ∃ rec thr, records[k]? = some rec ∧ thresholdOf records amp hon rec = .ok thr ∧
          IsMaxRun (satFlags thr rec) l r) ∧
    hits.Pairwise (fun x y => x.recordI < y.recordI ∨ (x.recordI = y.recordI ∧ x.right < y.left)) :=
  findHits_intervals e

/-- **`find_hits` returns on every valid input**: channels non-negative and covered by the threshold arrays, no record
longer than its buffer.  (So the `= .ok hits` premise of the other theorems is met exactly on the valid inputs; the two
error branches are `ValueError` for a channel without threshold and `AssertionError` for an over-long record.) -/
theorem find_hits_total (records : List Record) (amp hon : ThrArg) (a h : List Q)
    (hres : resolveThr records amp hon = .ok (a, h))
    (hall : ∀ r ∈ records, 0 ≤ r.channel ∧ r.channel < a.length ∧ r.channel < h.length ∧ r.length ≤ r.data.length) :
    ∃ hits, findHits records amp hon = .ok hits :=
  findHits_total hres hall

/-- with two numbers as thresholds the channel count is inferred, so non-negative channels and sane lengths suffice -/
theorem find_hits_total_scalar (records : List Record) (qa qh : Q)
    (hall : ∀ r ∈ records, 0 ≤ r.channel ∧ r.length ≤ r.data.length) :
    ∃ hits, findHits records (.scalar qa) (.scalar qh) = .ok hits :=
  findHits_total_scalar records qa qh hall

/-- **Hit fields, all hits, all inputs.**  Every returned hit lies inside its record (`left < right ≤ length`) and carries
`time = record.time + left·dt`, `length = right − left`, the record's `dt` and `channel`, the applied threshold and
`area = Σ samples[left:right] + (right − left)·(baseline mod 1)`.  (Height and peak time: `hit_height_maxtime_partial`
with `hit_height_maxtime_counterexample` for the property's reading, `hit_height_as_coded` for what the code computes.) -/
theorem hit_fields (records : List Record) (amp hon : ThrArg) (hits : List Hit)
    (e : findHits records amp hon = .ok hits) (x : Hit) (hx : x ∈ hits) :
    ∃ rec thr, records[x.recordI]? = some rec ∧ thresholdOf records amp hon rec = .ok thr ∧
      x.left < x.right ∧ x.right ≤ rec.length ∧
      x.time = rec.time + (x.left : Int) * rec.dt ∧ x.length = x.right - x.left ∧
      x.dt = rec.dt ∧ x.channel = rec.channel ∧ x.threshold = thr ∧
      x.area = ⟨(slice rec.samples x.left x.right).sum * rec.baseline.den
                + ((x.right - x.left : Nat) : Int) * rec.baseline.fracNum, rec.baseline.den⟩ := by
  obtain ⟨rec, thr, m0, hrec, hthr, hlen, hlt, hmk⟩ := findHits_fields e x hx
  obtain ⟨rec', thr', hrec', hthr', hrun⟩ := ((findHits_intervals e).1 x.recordI x.left x.right).1 ⟨x, hx, rfl, rfl, rfl⟩
  rw [hrec] at hrec'; simp only [Option.some.injEq] at hrec'; subst hrec'
  rw [hthr] at hthr'; simp only [Except.ok.injEq] at hthr'; subst hthr'
  have hr : x.right ≤ rec.length := by
    have := hrun.2.1
    rwa [satFlags_length thr rec hlen] at this
  refine ⟨rec, thr, hrec, hthr, hlt, hr, ?_, ?_, ?_, ?_, ?_, ?_⟩
  all_goals (rw [hmk]; simp [mkHit])

/-- **Height as the code computes it (all inputs) — NOT the property's reading of "correct height".**  The accumulator
starts at 0, so `height = max(0, largest sample of the hit) + (baseline mod 1)`; this equals the property's
`largest sample + (baseline mod 1)` exactly when the hit has a positive sample (`hit_height_maxtime_partial`), and differs
for hits whose largest sample is negative (open finding `C18-nonpositive-hit-height-maxtime`). -/
theorem hit_height_as_coded (records : List Record) (amp hon : ThrArg) (hits : List Hit)
    (e : findHits records amp hon = .ok hits) (x : Hit) (hx : x ∈ hits) :
    ∃ rec, records[x.recordI]? = some rec ∧
      x.height = ⟨maxFrom 0 (slice rec.samples x.left x.right) * rec.baseline.den + rec.baseline.fracNum,
                  rec.baseline.den⟩ := by
  obtain ⟨rec, thr, m0, hrec, -, -, -, hmk⟩ := findHits_fields e x hx
  refine ⟨rec, hrec, ?_⟩
  rw [hmk]; simp [mkHit, trackMT_spec]

/-- **Height and peak time (partial: positive threshold).**  When the applied threshold is positive, the integer part
of `height` is the largest sample of the hit and `max_time` is the time of its first occurrence.
Missing for the full statement: hits whose largest sample is ≤ 0 (possible only with a threshold ≤ 0); there the code
reports `height = 0 + frac` and leaves `max_time` at its previous value — see `hit_height_maxtime_counterexample`. -/
theorem hit_height_maxtime_partial (records : List Record) (amp hon : ThrArg) (hits : List Hit)
    (e : findHits records amp hon = .ok hits) (x : Hit) (hx : x ∈ hits) :
    ∃ rec thr, records[x.recordI]? = some rec ∧ thresholdOf records amp hon rec = .ok thr ∧
      (0 < thr.num →
        let s := slice rec.samples x.left x.right
        let H := maxFrom 0 s
        H ∈ s ∧ (∀ v ∈ s, v ≤ H) ∧
        x.height = ⟨H * rec.baseline.den + rec.baseline.fracNum, rec.baseline.den⟩ ∧
        x.maxTime = rec.time + ((x.left + s.idxOf H : Nat) : Int) * rec.dt) := by
  obtain ⟨rec, thr, m0, hrec, hthr, hlen, hlt, hmk⟩ := findHits_fields e x hx
  obtain ⟨rec', thr', hrec', hthr', hrun⟩ := ((findHits_intervals e).1 x.recordI x.left x.right).1 ⟨x, hx, rfl, rfl, rfl⟩
  rw [hrec] at hrec'; simp only [Option.some.injEq] at hrec'; subst hrec'
  rw [hthr] at hthr'; simp only [Except.ok.injEq] at hthr'; subst hthr'
  refine ⟨rec, thr, hrec, hthr, ?_⟩
  intro hpos s H
  -- every sample of the hit is positive
  have hsat : ∀ v ∈ s, 0 < v := by
    intro v hv
    obtain ⟨j, h1, h2, h3⟩ := mem_slice hv
    have hf := hrun.2.2.1 j h1 h2
    simp only [satFlags, List.getElem?_map, h3, Option.map_some, Option.some.injEq, Q.leInt, decide_eq_true_eq] at hf
    by_cases h : 0 < v
    · exact h
    · have : v * (thr.den : Int) ≤ 0 := Int.mul_nonpos_of_nonpos_of_nonneg (by omega) (by omega)
      omega
  -- the hit is not empty
  have hne : s ≠ [] := by
    have hr : x.right ≤ rec.length := by
      have := hrun.2.1
      rwa [satFlags_length thr rec hlen] at this
    intro h0
    have : s.length = x.right - x.left := by
      simp only [s, slice, List.length_drop, List.length_take, Record.samples]; omega
    rw [h0] at this; simp at this; omega
  have hH : 0 < H := by
    cases hs : s with
    | nil => exact absurd hs hne
    | cons v t =>
      have h1 : v ≤ H := (maxFrom_ge s 0).2 v (by rw [hs]; simp)
      have h2 : 0 < v := hsat v (by rw [hs]; simp)
      omega
  refine ⟨?_, (maxFrom_ge s 0).2, ?_, ?_⟩
  · rcases maxFrom_mem s 0 with h | h
    · omega
    · exact h
  · rw [hmk]; simp [mkHit, trackMT_spec, s, H]
  · rw [hmk]
    simp only [mkHit, trackMT_spec]
    have : maxFrom 0 s > 0 := hH
    simp only [s] at this
    simp only [this, ↓reduceIte, s, H]

/-- the witness of the open finding: threshold 0, a hit `[0, 4)` with peak in sample 1, then an all-zero record -/
def stale_maxtime_witness : List Record :=
  [{ time := 10, length := 4, dt := 2, channel := 0, recordI := 0, pulseLength := 4, area := 0, reductionLevel := 0,
     baseline := ⟨0, 1⟩, baselineRms := ⟨0, 1⟩, ampBitShift := 0, data := [0, 3, 0, 0] },
   { time := 30, length := 4, dt := 2, channel := 0, recordI := 0, pulseLength := 4, area := 0, reductionLevel := 0,
     baseline := ⟨0, 1⟩, baselineRms := ⟨0, 1⟩, ampBitShift := 0, data := [0, 0, 0, 0] }]

/-- **The full peak-time statement is false for the code as it is**: with threshold 0 the second hit (all samples 0,
record starting at t = 30) is reported with `max_time = 12`, the peak time of the *previous* hit. -/
theorem hit_height_maxtime_counterexample :
    (match findHits stale_maxtime_witness (.scalar ⟨0, 1⟩) (.scalar ⟨0, 1⟩) with
     | .ok hs => hs.map (fun h => (h.recordI, h.left, h.right, h.time, h.maxTime))
     | .error _ => []) = [(0, 0, 4, 10, 12), (1, 0, 4, 30, 12)] := by
  decide

/-! ## record_links -/

/-- **`previous_record`, all inputs.**  `previous_record[i] = j ≥ 0` iff `j` is the last record before `i` in `i`'s channel,
`i` is a continuing fragment (`record_i ≠ 0`) and `i` starts exactly where `j`'s buffer ends
(`time_i = time_j + samples_per_record · dt_j`); in every other case the entry is −1. -/
theorem links_prev_spec (rs : List Record) (prev next : List Int) (e : recordLinks rs = .ok (prev, next)) :
    prev.length = rs.length ∧
    ∀ i, i < rs.length →
      (∀ j : Nat, prev[i]? = some (j : Int) ↔ IsPrevFragment rs (samplesPerRecord rs) j i) ∧
      (prev[i]? = some (-1) ∨ ∃ j : Nat, prev[i]? = some (j : Int)) :=
  recordLinks_prev e

/-- **Links connect exactly the time-adjacent fragments (partial: no continuing fragment at time 0 opens a channel).**
Under `noOrphanAtZero`, `next_record[j] = i ⟺ previous_record[i] = j ⟺` `j`, `i` are consecutive records of one channel,
`i` continues a pulse and is time-adjacent to `j`; all other entries are −1.
Missing for the full statement: a record with `record_i ≠ 0` at `time = 0` that is the first of its channel — it
matches the initial `expected_next_start = 0` with `last_record_seen = −1` and the code writes
`next_record[−1] = i` (see `links_next_counterexample`). -/
theorem links_spec_partial (rs : List Record) (prev next : List Int) (e : recordLinks rs = .ok (prev, next))
    (hz : noOrphanAtZero rs = true) :
    prev.length = rs.length ∧ next.length = rs.length ∧
    (∀ i j : Nat, i < rs.length → j < rs.length →
      ((prev[i]? = some (j : Int) ↔ IsPrevFragment rs (samplesPerRecord rs) j i) ∧
       (next[j]? = some (i : Int) ↔ IsPrevFragment rs (samplesPerRecord rs) j i))) ∧
    (∀ i, i < rs.length → (prev[i]? = some (-1) ∨ ∃ j : Nat, prev[i]? = some (j : Int)) ∧
                          (next[i]? = some (-1) ∨ ∃ j : Nat, next[i]? = some (j : Int))) := by
  obtain ⟨p1, p2⟩ := recordLinks_prev e
  obtain ⟨n1, n2⟩ := recordLinks_next e hz
  refine ⟨p1, n1, ?_, ?_⟩
  · intro i j hi hj
    exact ⟨(p2 i hi).1 j, (n2 j hj).1 i⟩
  · intro i hi
    exact ⟨(p2 i hi).2, (n2 i hi).2⟩

/-- **Linked records are consecutive fragments of one pulse (partial: the two records are sane).**
Let `a = rs[j]`, `b = rs[i]` have non-negative fragment numbers, positive `dt` and `samples_per_record`, and come from
the same pulse or from pulses that do not overlap (the pulse of `b`, counted from its possibly cut-away 0th fragment,
starts after the buffer of `a` ends).  Then `previous_record[i] = j` iff `j` is the last record of `b`'s channel before
`i` and `b` is the next fragment of `a`'s pulse (same pulse start, same `dt`, `record_i` one higher).
Missing for the full statement: arrays with overlapping pulses / inconsistent `record_i` in one channel, where the
code links any time-adjacent continuing record. -/
theorem links_same_pulse_partial (rs : List Record) (prev next : List Int) (e : recordLinks rs = .ok (prev, next))
    (i j : Nat) (a b : Record) (ha : rs[j]? = some a) (hb : rs[i]? = some b)
    (hspr : 0 < samplesPerRecord rs) (hdt : 0 < b.dt) (hra : 0 ≤ a.recordI) (hrb : 0 ≤ b.recordI)
    (hd : SameOrDisjoint (samplesPerRecord rs) a b) :
    prev[i]? = some (j : Int) ↔ (LastIn rs b.channel i j ∧ NextInPulse (samplesPerRecord rs) a b) := by
  have hi : i < rs.length := by
    rcases Nat.lt_or_ge i rs.length with h | h
    · exact h
    · simp [List.getElem?_eq_none h] at hb
  rw [((recordLinks_prev e).2 i hi).1 j]
  have key := adjacent_iff_next_in_pulse (samplesPerRecord rs) a b hspr hdt hra hrb hd
  constructor
  · rintro ⟨a', b', ha', hb', hl, h1, h2⟩
    rw [ha] at ha'; rw [hb] at hb'
    simp only [Option.some.injEq] at ha' hb'
    subst ha' hb'
    exact ⟨hl, key.1 ⟨h1, h2⟩⟩
  · rintro ⟨hl, hn⟩
    obtain ⟨h1, h2⟩ := key.2 hn
    exact ⟨a, b, ha, hb, hl, h1, h2⟩

/-- **Record linking connects exactly the time-adjacent fragments of one pulse in one channel** (full, on the property's
domain: `wellFormedPulses rs`, i.e. every channel holds, in order, the fragments `0, 1, 2, …` of pulses that follow each
other without overlap).  `record_links` returns, and
`previous_record[i] = j ⟺ next_record[j] = i ⟺` records `j < i` are in one channel and `i` holds the fragment that follows
the one at `j` in the same pulse (`NextInPulse`: same pulse start `time − record_i·samples_per_record·dt`, same `dt`,
`record_i` one higher); every other entry is −1.  What happens outside this domain (a continuing fragment whose
predecessor was cut away) is described by `links_prev_spec` / `links_spec_partial` and `links_next_counterexample`. -/
theorem links_spec (rs : List Record) (hwf : wellFormedPulses rs = true) :
    ∃ prev next, recordLinks rs = .ok (prev, next) ∧ prev.length = rs.length ∧ next.length = rs.length ∧
    (∀ i j : Nat, i < rs.length → j < rs.length →
      ((prev[i]? = some (j : Int) ↔ IsNextFragment rs (samplesPerRecord rs) j i) ∧
       (next[j]? = some (i : Int) ↔ IsNextFragment rs (samplesPerRecord rs) j i))) ∧
    (∀ i, i < rs.length → (prev[i]? = some (-1) ∨ ∃ j : Nat, prev[i]? = some (j : Int)) ∧
                          (next[i]? = some (-1) ∨ ∃ j : Nat, next[i]? = some (j : Int))) := by
  obtain ⟨prev, next, e⟩ := wf_recordLinks_ok hwf
  obtain ⟨p1, p2⟩ := recordLinks_prev e
  obtain ⟨n1, n2⟩ := recordLinks_next' e (wf_noOrphan hwf)
  refine ⟨prev, next, e, p1, n1, ?_, ?_⟩
  · intro i j hi hj
    rw [← wf_isPrevFragment_iff hwf j i]
    exact ⟨(p2 i hi).1 j, (n2 j hj).1 i⟩
  · intro i hi
    exact ⟨(p2 i hi).2, (n2 i hi).2⟩

/-- a lone continuing fragment at time 0 -/
def orphan_at_zero_witness : List Record :=
  [{ time := 0, length := 4, dt := 1, channel := 0, recordI := 1, pulseLength := 8, area := 0, reductionLevel := 0,
     baseline := ⟨0, 1⟩, baselineRms := ⟨0, 1⟩, ampBitShift := 0, data := [0, 3, 0, 0] }]

/-! ## cut_outside_hits -/

/-- **A sample survives iff a hit covers it; everything else is zeroed; metadata untouched** (all inputs).
For every input on which `cut_outside_hits` returns (record array `records`, any hit list, any extensions), with
`(prev, next)` the arrays `record_links` computes: the result has one record per input record, equal to the input
record except for `data` and `reduction_level = HITS_ONLY`; and sample `j` of record `m` equals the input sample if
some hit `h` *covers* it — `m` is `h`'s record, `j < length` and `left − le ≤ j < right + re`; or `m = prev[h.record_i]`
and `left − le ≤ j − samples_per_record`; or `m = next[h.record_i]` and `j + samples_per_record < right + re` — and is 0
otherwise. -/
theorem reduction_keeps_iff (records : List Record) (hits : List HitRef) (le re : Int) (out : List Record)
    (e : cutOutsideHits records hits le re = .ok out) :
    ∃ prev next, recordLinks records = .ok (prev, next) ∧ out.length = records.length ∧
      ∀ m r, records[m]? = some r →
        ∃ d, out[m]? = some { r with data := d, reductionLevel := hitsOnly } ∧ d.length = r.data.length ∧
          ∀ j, j < r.data.length →
            ((∃ h ∈ hits, Covers records (samplesPerRecord records) prev next le re h m j) → d[j]? = r.data[j]?) ∧
            ((¬ ∃ h ∈ hits, Covers records (samplesPerRecord records) prev next le re h m j) → d[j]? = some 0) := by
  cases records with
  | nil =>
    simp only [cutOutsideHits, List.isEmpty_nil, ↓reduceIte, Except.ok.injEq] at e
    subst e
    exact ⟨[], [], rfl, rfl, fun m r hr => by simp at hr⟩
  | cons r0 rs => exact cutOutsideHits_spec (by simp) e

/-- **`cut_outside_hits` returns on every valid input**: non-negative channels and extensions, hits that point into the
array with `left ≤ right`. -/
theorem reduction_total (records : List Record) (hits : List HitRef) (le re : Int) (hle : 0 ≤ le) (hre : 0 ≤ re)
    (hch : ∀ r ∈ records, 0 ≤ r.channel)
    (hh : ∀ h ∈ hits, h.recordI < records.length ∧ h.left ≤ h.right) :
    ∃ out, cutOutsideHits records hits le re = .ok out :=
  cutOutsideHits_total records hits le re hle hre hch hh

/-- **Single record, fully explicit.**  For an array of one record that is not a continuing fragment at time 0:
sample `j` survives iff `j < length` and `left − le ≤ j < right + re` for some hit of that record; every other sample
is 0; all other fields are untouched. -/
theorem reduction_keeps_iff_single (r : Record) (hits : List HitRef) (le re : Int) (out : List Record)
    (hz : r.recordI = 0 ∨ r.time ≠ 0) (e : cutOutsideHits [r] hits le re = .ok out) :
    ∃ d, out = [{ r with data := d, reductionLevel := hitsOnly }] ∧ d.length = r.data.length ∧
      ∀ j, j < r.data.length →
        ((∃ h ∈ hits, h.recordI = 0 ∧ j < r.length ∧ (h.left : Int) - le ≤ j ∧ (j : Int) < h.right + re) → d[j]? = r.data[j]?) ∧
        ((¬ ∃ h ∈ hits, h.recordI = 0 ∧ j < r.length ∧ (h.left : Int) - le ≤ j ∧ (j : Int) < h.right + re) → d[j]? = some 0) := by
  obtain ⟨prev, next, hl, hlen, hspec⟩ := cutOutsideHits_spec (by simp) e
  have hc : 0 ≤ r.channel := by
    by_cases h : r.channel < 0
    · simp [recordLinks, h] at hl
    · omega
  rw [recordLinks_single r hc hz] at hl
  simp only [Except.ok.injEq, Prod.mk.injEq] at hl
  obtain ⟨rfl, rfl⟩ := hl
  obtain ⟨d, hd, hdl, hj⟩ := hspec 0 r (by simp)
  refine ⟨d, ?_, hdl, ?_⟩
  · cases out with
    | nil => simp at hlen
    | cons o os =>
      cases os with
      | nil => simp only [List.getElem?_cons_zero, Option.some.injEq] at hd; rw [hd]; rfl
      | cons _ _ => simp at hlen
  · intro j hjl
    have := hj j hjl
    simp only [covers_single] at this
    exact this

/-- a lone continuing fragment at time 0 with a hit in its last sample -/
def orphan_cut_witness : List Record :=
  [{ time := 0, length := 4, dt := 1, channel := 0, recordI := 1, pulseLength := 8, area := 0, reductionLevel := 0,
     baseline := ⟨0, 1⟩, baselineRms := ⟨0, 1⟩, ampBitShift := 0, data := [5, 6, 0, 7] }]

/-- **Without the side condition the single-record statement is false**: the hit `[3, 4)` with `re = 2` also keeps
samples 0 and 1 of the *same* record, through the self-link of `links_next_counterexample`. -/
theorem reduction_single_counterexample :
    (match cutOutsideHits orphan_cut_witness [⟨0, 3, 4⟩] 0 2 with
     | .ok out => out.map (·.data)
     | .error _ => []) = [[5, 6, 0, 7]] := by decide

/-- **Through the links = in the previous / next fragment (partial: `noOrphanAtZero`).**
Sample `j` of record `m` survives iff there is a hit `h` (in record `k = h.record_i`) with
`m = k`, `j < length`, `left − le ≤ j < right + re`; or `m` is the previous fragment of `k` and
`left − le ≤ j − samples_per_record`; or `m` is the next fragment of `k` and `j + samples_per_record < right + re`.
Missing for the full statement: arrays with a continuing fragment at time 0 that opens its channel. -/
theorem reduction_keeps_iff_fragments_partial (records : List Record) (hits : List HitRef) (le re : Int) (out : List Record)
    (hz : noOrphanAtZero records = true) (e : cutOutsideHits records hits le re = .ok out) :
    ∀ m r, records[m]? = some r →
      ∃ d, out[m]? = some { r with data := d, reductionLevel := hitsOnly } ∧
        ∀ j : Nat, j < r.data.length →
          let spr := samplesPerRecord records
          let keep := ∃ h ∈ hits,
            (m = h.recordI ∧ j < r.length ∧ (h.left : Int) - le ≤ j ∧ (j : Int) < h.right + re)
            ∨ (IsPrevFragment records spr m h.recordI ∧ (h.left : Int) - le ≤ (j : Int) - spr ∧ j < spr)
            ∨ (IsPrevFragment records spr h.recordI m ∧ (j : Int) + spr < h.right + re ∧ j < spr)
          (keep → d[j]? = r.data[j]?) ∧ (¬ keep → d[j]? = some 0) := by
  cases records with
  | nil => intro m r hr; simp at hr
  | cons r0 rs =>
    exact cut_fragments_spec _ (fun _ _ => Iff.rfl) (by simp) (fun i b hb hri ht => noOrphanAtZero_spec hz i b hb hri ht) e

/-- **Reduction on well-formed pulses (full on the property's domain).**  For `wellFormedPulses records` and any hit
list / extensions on which `cut_outside_hits` returns: sample `j` of record `m` survives iff some hit `h` (of record `k`)
has `m = k`, `j < length`, `left − le ≤ j < right + re`; or `m` holds the fragment before `k` in `k`'s pulse and
`left − le ≤ j − samples_per_record`; or `m` holds the fragment after `k` and `j + samples_per_record < right + re`.
Every other sample is 0; the other fields are untouched (`reduction_keeps_iff`). -/
theorem reduction_keeps_iff_pulses (records : List Record) (hits : List HitRef) (le re : Int) (out : List Record)
    (hwf : wellFormedPulses records = true) (e : cutOutsideHits records hits le re = .ok out) :
    ∀ m r, records[m]? = some r →
      ∃ d, out[m]? = some { r with data := d, reductionLevel := hitsOnly } ∧
        ∀ j : Nat, j < r.data.length →
          let spr := samplesPerRecord records
          let keep := ∃ h ∈ hits,
            (m = h.recordI ∧ j < r.length ∧ (h.left : Int) - le ≤ j ∧ (j : Int) < h.right + re)
            ∨ (IsNextFragment records spr m h.recordI ∧ (h.left : Int) - le ≤ (j : Int) - spr ∧ j < spr)
            ∨ (IsNextFragment records spr h.recordI m ∧ (j : Int) + spr < h.right + re ∧ j < spr)
          (keep → d[j]? = r.data[j]?) ∧ (¬ keep → d[j]? = some 0) := by
  cases records with
  | nil => intro m r hr; simp at hr
  | cons r0 rs => exact cut_fragments_spec _ (fun j i => wf_isPrevFragment_iff hwf j i) (by simp) (wf_noOrphan hwf) e

/-- **The composite clause: reducing to the neighbourhood of the hits that `find_hits` finds.**  For well-formed pulse
arrays, `hits = find_hits(records, …)` and `out = cut_outside_hits(records, hits, le, re)`: sample `j` of record `m` survives
iff some record `k` has a maximal run `[l, r)` of samples at/above its threshold such that `m = k`, `j < length`,
`l − le ≤ j < r + re`; or `m` holds the fragment before `k` in `k`'s pulse and `l − le ≤ j − samples_per_record`; or `m`
holds the fragment after `k` and `j + samples_per_record < r + re`.  Every other sample is 0. -/
theorem reduction_of_found_hits (records : List Record) (amp hon : ThrArg) (hits : List Hit) (le re : Int) (out : List Record)
    (hwf : wellFormedPulses records = true)
    (eh : findHits records amp hon = .ok hits) (e : cutOutsideHits records (hits.map Hit.ref) le re = .ok out) :
    ∀ m r, records[m]? = some r →
      ∃ d, out[m]? = some { r with data := d, reductionLevel := hitsOnly } ∧
        ∀ j : Nat, j < r.data.length →
          let spr := samplesPerRecord records
          let keep := ∃ k l rr : Nat,
            (∃ rec thr, records[k]? = some rec ∧ thresholdOf records amp hon rec = .ok thr ∧ IsMaxRun (satFlags thr rec) l rr) ∧
            ((m = k ∧ j < r.length ∧ (l : Int) - le ≤ j ∧ (j : Int) < rr + re)
             ∨ (IsNextFragment records spr m k ∧ (l : Int) - le ≤ (j : Int) - spr ∧ j < spr)
             ∨ (IsNextFragment records spr k m ∧ (j : Int) + spr < rr + re ∧ j < spr))
          (keep → d[j]? = r.data[j]?) ∧ (¬ keep → d[j]? = some 0) := by
  intro m r hr
  obtain ⟨d, hd, hj⟩ := reduction_keeps_iff_pulses records (hits.map Hit.ref) le re out hwf e m r hr
  refine ⟨d, hd, ?_⟩
  intro j hjl spr keep
  have hruns := (hits_are_maximal_runs records amp hon hits eh).1
  have := hj j hjl
  simp only at this
  have hiff : keep ↔ ∃ h ∈ hits.map Hit.ref,
      (m = h.recordI ∧ j < r.length ∧ (h.left : Int) - le ≤ j ∧ (j : Int) < h.right + re)
      ∨ (IsNextFragment records spr m h.recordI ∧ (h.left : Int) - le ≤ (j : Int) - spr ∧ j < spr)
      ∨ (IsNextFragment records spr h.recordI m ∧ (j : Int) + spr < h.right + re ∧ j < spr) := by
    constructor
    · rintro ⟨k, l, rr, hrun, hc⟩
      obtain ⟨x, hx, rfl, rfl, rfl⟩ := (hruns k l rr).2 hrun
      exact ⟨x.ref, List.mem_map.2 ⟨x, hx, rfl⟩, hc⟩
    · rintro ⟨h, hh, hc⟩
      obtain ⟨x, hx, rfl⟩ := List.mem_map.1 hh
      exact ⟨x.recordI, x.left, x.right, (hruns _ _ _).1 ⟨x, hx, rfl, rfl, rfl⟩, hc⟩
  rw [hiff]
  exact this

/-! ## integrate, zero_out_of_bounds -/

/-- **`integrate` is consistent with the stored baseline.**  The new `area` is an integer nearest to
`Σ data · 2^shift + (baseline mod 1) · length` (distance ≤ 1/2, written over the baseline's denominator `d`), the even
one on a tie; nothing else changes. -/
theorem integrate_consistent (r : Record) (hd : 0 < r.baseline.den) :
    let d : Int := r.baseline.den
    let exact := r.data.sum * (2 : Int) ^ r.ampBitShift * d + r.baseline.fracNum * r.length
    let a := (integrateOne r).area
    integrateOne r = { r with area := a } ∧
    2 * (a * d - exact) ≤ d ∧ 2 * (exact - a * d) ≤ d ∧
    ((2 * (a * d - exact) = d ∨ 2 * (exact - a * d) = d) → (a - r.data.sum * (2 : Int) ^ r.ampBitShift) % 2 = 0) := by
  intro d exact a
  obtain ⟨h1, h2, h3⟩ := roundHalfEven_spec (r.baseline.fracNum * (r.length : Int)) r.baseline.den hd
  refine ⟨rfl, ?_, ?_, ?_⟩
  all_goals
    simp only [a, exact, d, integrateOne, Int.add_mul]
    generalize roundHalfEven (r.baseline.fracNum * (r.length : Int)) r.baseline.den = rh at h1 h2 h3 ⊢
    generalize r.data.sum * (2 : Int) ^ r.ampBitShift * (r.baseline.den : Int) = sd at *
  · omega
  · omega
  · intro h
    have : rh % 2 = 0 := h3 (by omega)
    omega

/-- **`baseline`, all inputs on which it returns.**  One output per record, `subtractBaseline r bl flip` with stored noise
level `rms`, where
* for a 0th fragment (`record_i = 0`): `bl` = mean of `w = data[:baseline_samples]` (`Σw / |w|`, exact) and
  `rms = sqrt((|w|·Σw² − (Σw)²)/|w|²)` (the defining formulas; `|w| > 0`);
* for a continuing fragment: `bl`, `rms` are those of the **last 0th fragment of its channel** before it (`LastFirstIn`) —
  in well-formed input the 0th fragment of its own pulse, so all fragments of a pulse get the same integer part;
* if there is none, `allow_sloppy_chunking` was set, `bl = fallback_baseline` and `rms = NaN` (otherwise `RuntimeError`).
What `subtractBaseline` does is `baseline_subtraction_spec`. -/
theorem baseline_spec (records : List Record) (k : Nat) (flip sloppy : Bool) (fb : Int) (out : List (Record × Rms))
    (e : baseline records k flip sloppy fb = .ok out) :
    out.length = records.length ∧
    ∀ m r, records[m]? = some r →
      ∃ bl rms, out[m]? = some (subtractBaseline r bl flip, rms) ∧
        (r.recordI = 0 →
          let w := r.data.take k
          0 < w.length ∧ bl = ⟨w.sum, w.length⟩ ∧
          rms = .sqrtOf ⟨(w.length : Int) * (w.map fun x => x * x).sum - w.sum * w.sum, w.length * w.length⟩) ∧
        (r.recordI ≠ 0 →
          (∃ j a, LastFirstIn records r.channel m j ∧ records[j]? = some a ∧
              bl = (meanVar a.data k).1 ∧ rms = .sqrtOf (meanVar a.data k).2)
          ∨ ((∀ j b, j < m → records[j]? = some b → b.channel = r.channel → b.recordI ≠ 0) ∧
              sloppy = true ∧ bl = Q.ofInt fb ∧ rms = .nan)) := by
  unfold baseline at e
  split at e
  · simp at e
  · have hloop : baselineLoop k flip sloppy fb records (blStateAt k ([] ++ records) ([] : List Record).length) = .ok out := by
      simpa [blStateAt, blInit] using e
    obtain ⟨hlen, hget⟩ := baselineLoop_get k flip sloppy fb records [] out hloop
    refine ⟨hlen, ?_⟩
    intro m r hr
    obtain ⟨ho, hsl, hden⟩ := hget m r hr
    simp only [List.nil_append, List.length_nil, Nat.zero_add] at ho hsl hden
    have hm : m ≤ records.length := by
      rcases Nat.lt_or_ge m records.length with h | h
      · omega
      · simp [List.getElem?_eq_none h] at hr
    by_cases hri : r.recordI = 0
    · refine ⟨(meanVar r.data k).1, .sqrtOf (meanVar r.data k).2, by simpa [blDecide, hri] using ho, ?_, fun h => absurd hri h⟩
      intro _ w
      have hne : (r.data.take k).length ≠ 0 := hden hri
      exact ⟨Nat.pos_of_ne_zero hne, rfl, rfl⟩
    · rcases blStateAt_inv k records m hm r.channel with ⟨hs, hno⟩ | ⟨hs, j, a, hl, ha, hbl⟩
      · refine ⟨Q.ofInt fb, .nan, by simpa [blDecide, hri, hs] using ho, fun h => absurd h hri, fun _ => ?_⟩
        exact Or.inr ⟨hno, hsl hri hs, rfl, rfl⟩
      · refine ⟨(meanVar a.data k).1, .sqrtOf (meanVar a.data k).2, by simpa [blDecide, hri, hs, hbl] using ho,
          fun h => absurd h hri, fun _ => ?_⟩
        exact Or.inl ⟨j, a, hl, ha, rfl, rfl⟩

/-- **What the subtraction does**: the stored `baseline` is `bl`; sample `j < length` becomes `±(data[j] − int(bl))`
(`−` when `flip`), where `int(bl)` truncates toward zero — for `bl ≥ 0` the floor, and then
`int(bl) + (bl mod 1) = bl`; samples beyond `length` and all other fields are left as they are. -/
theorem baseline_subtraction_spec (r : Record) (bl : Q) (flip : Bool) (hl : r.length ≤ r.data.length) :
    subtractBaseline r bl flip = { r with data := (subtractBaseline r bl flip).data, baseline := bl } ∧
    (∀ j, (subtractBaseline r bl flip).data[j]? =
      if j < r.length then (r.data[j]?).map (fun x => (if flip then -1 else 1) * (x - bl.trunc)) else r.data[j]?) ∧
    (0 ≤ bl.num → bl.trunc = bl.num / (bl.den : Int) ∧ bl.trunc * (bl.den : Int) + bl.fracNum = bl.num) :=
  ⟨rfl, fun j => subtractBaseline_get r bl flip j hl,
   fun h => ⟨by unfold Q.trunc; exact Int.tdiv_eq_ediv_of_nonneg h, trunc_add_frac bl h⟩⟩

/-- **`integrate` after `baseline`: area = Σ data + length·frac = Σ (baseline − raw).**  For a record baselined with
`flip` by a non-negative baseline `bl = n/d`, zero beyond `length`, no bit shift: the exact quantity `integrate` rounds,
`Σ data' + (bl mod 1)·length`, equals `Σ_{j<length} (bl − raw_j)`, so the stored `area` is an integer nearest to the true
integral above baseline (distance ≤ 1/2). -/
theorem integrate_after_baseline (r : Record) (bl : Q) (hnum : 0 ≤ bl.num) (hd : 0 < bl.den)
    (hl : r.length ≤ r.data.length) (hpad : ∀ x ∈ r.data.drop r.length, x = 0) (hs : r.ampBitShift = 0) :
    let r' := subtractBaseline r bl true
    let d : Int := bl.den
    let integral := (r.length : Int) * bl.num - (r.data.take r.length).sum * d   -- d · Σ_{j<length} (bl − raw_j)
    r'.data.sum * d + bl.fracNum * (r.length : Int) = integral ∧
    2 * ((integrateOne r').area * d - integral) ≤ d ∧ 2 * (integral - (integrateOne r').area * d) ≤ d := by
  intro r' d integral
  have hsum := baselined_sum r bl hnum hl hpad
  have hic := integrate_consistent r' (by simpa [r', subtractBaseline] using hd)
  simp only at hic
  obtain ⟨-, h1, h2, -⟩ := hic
  have e1 : r'.baseline = bl := rfl
  have e2 : r'.length = r.length := rfl
  have e3 : r'.ampBitShift = 0 := hs
  rw [e1, e2, e3] at h1 h2
  simp only [Int.pow_zero, Int.mul_one] at h1 h2
  refine ⟨hsum, ?_, ?_⟩ <;> (simp only [integral, d]; rw [← hsum]; omega)

/-- **`zero_out_of_bounds`** keeps the first `length` samples, zeroes the rest, and changes nothing else. -/
theorem zero_out_of_bounds_spec (r : Record) :
    zeroOne r = { r with data := (zeroOne r).data } ∧ (zeroOne r).data.length = r.data.length ∧
    ∀ j, j < r.data.length → (zeroOne r).data[j]? = if j < r.length then r.data[j]? else some 0 := by
  unfold zeroOne
  split
  · refine ⟨rfl, by simp; omega, ?_⟩
    intro j hj
    simp only [List.getElem?_append, List.length_take, List.getElem?_take, List.getElem?_replicate]
    split <;> split <;> (try split) <;> first | rfl | omega | (simp; omega)
  · refine ⟨rfl, rfl, ?_⟩
    intro j hj
    have : j < r.length := by omega
    simp [this]

/-! ## translation invariance in record time (why the tie may run at nanosecond-epoch times) -/

/-- **The hit finder commutes with a shift of all record times**: the record loop on the shifted records, started with
the carried `max_time` shifted as well, fails the same way or returns the same hits with `time` and `max_time` shifted by
`T` and every other field identical.  (`find_hits` itself starts `max_time` at 0 in both cases; that only shows in the
stale `max_time` of hits whose largest sample is ≤ 0 — the open finding.) -/
theorem find_hits_time_shift (T : Int) (a h : List Q) (rs : List Record) (ri : Nat) (mt : Int) :
    findHitsLoop a h (rs.map (Record.shift T)) ri (mt + T) =
      match findHitsLoop a h rs ri mt with
      | .ok hs => .ok (hs.map (Hit.shift T))
      | .error e => .error e :=
  findHitsLoop_shift T a h rs ri mt

/-- **`record_links` does not depend on the origin of the time axis** on well-formed pulse arrays (more generally:
whenever every continuing fragment is preceded by a record of its channel, `recordLinks_shift`).  Outside that domain
the initial `expected_next_start = 0` is the one absolute time the code compares with. -/
theorem record_links_time_shift (T : Int) (rs : List Record) (hwf : wellFormedPulses rs = true) :
    recordLinks (rs.map (Record.shift T)) = recordLinks rs :=
  recordLinks_shift T rs (wf_noOrphans hwf)

/-! ## non-vacuity: the hypotheses hold on concrete, non-trivial inputs -/

/-- two fragments of one pulse in channel 0 (hit straddling the boundary) and a pulse in channel 1 -/
def demo_example : List Record :=
  [{ time := 10, length := 4, dt := 2, channel := 0, recordI := 0, pulseLength := 7, area := 0, reductionLevel := 0,
     baseline := ⟨1, 4⟩, baselineRms := ⟨1, 2⟩, ampBitShift := 0, data := [0, 3, 0, 2] },
   { time := 11, length := 3, dt := 1, channel := 1, recordI := 0, pulseLength := 3, area := 0, reductionLevel := 0,
     baseline := ⟨0, 1⟩, baselineRms := ⟨2, 1⟩, ampBitShift := 0, data := [1, 4, 4, 0] },
   { time := 18, length := 3, dt := 2, channel := 0, recordI := 1, pulseLength := 7, area := 0, reductionLevel := 0,
     baseline := ⟨1, 4⟩, baselineRms := ⟨1, 2⟩, ampBitShift := 0, data := [2, 0, 0, 0] }]

/-- `find_hits` returns on `demo_example` with a per-channel amplitude and a noise-scaled threshold: four hits -/
example : (match findHits demo_example (.perCh [⟨2, 1⟩, ⟨1, 1⟩]) (.scalar ⟨3, 2⟩) with
           | .ok hs => hs.map (fun h => (h.recordI, h.left, h.right))
           | .error _ => []) = [(0, 1, 2), (0, 3, 4), (1, 1, 3), (2, 0, 1)] := by decide

/-- the links of `demo_example`: record 2 continues record 0 -/
example : (match recordLinks demo_example with
           | .ok (prev, next) => (prev, next)
           | .error _ => ([], [])) = ([-1, -1, 0], [2, -1, -1]) := by decide
example : noOrphanAtZero demo_example = true := by decide

/-- the pair hypothesis of `links_same_pulse_partial` holds for records 0 and 2 of `demo_example` (same pulse) and for a
record of another pulse that starts later -/
example : SameOrDisjoint 4 demo_example[0] demo_example[2] ∧ NextInPulse 4 demo_example[0] demo_example[2] ∧
    SameOrDisjoint 4 demo_example[0] { demo_example[0] with time := 40, recordI := 2 } := by
  refine ⟨by decide, ⟨by decide, by decide, by decide⟩, by decide⟩

/-- the hypotheses of the totality theorems hold on `demo_example` -/
example : (demo_example.all fun r => decide (0 ≤ r.channel ∧ r.length ≤ r.data.length)) = true ∧
    ([(⟨0, 3, 4⟩ : HitRef), ⟨2, 0, 1⟩].all fun h => decide (h.recordI < demo_example.length ∧ h.left ≤ h.right)) = true := by decide

/-- `demo_example` is a well-formed pulse array (domain of `links_spec`, `reduction_keeps_iff_pulses`); the orphan witness is not -/
example : wellFormedPulses demo_example = true ∧ wellFormedPulses orphan_at_zero_witness = false := by decide

/-- `baseline` returns on raw versions of `demo_example` (2 baseline samples, flipped), and the hypotheses of
`integrate_after_baseline` hold for a zero-padded record with baseline 5/2 -/
example : (match baseline demo_example 2 true false 0 with
           | .ok out => out.map (fun o => (o.1.baseline, o.1.data))
           | .error _ => []) = [(⟨3, 2⟩, [1, -2, 1, -1]), (⟨5, 2⟩, [1, -2, -2, 0]), (⟨3, 2⟩, [-1, 1, 1, 0])] := by decide

/-- the shift used by the harness, on `demo_example`: same intervals, hit times moved by `T0` -/
example : (match findHits (demo_example.map (Record.shift 1700000000000000137)) (.perCh [⟨2, 1⟩, ⟨1, 1⟩]) (.scalar ⟨3, 2⟩) with
           | .ok hs => hs.map (fun h => (h.recordI, h.left, h.right, h.time - 1700000000000000137))
           | .error _ => []) = [(0, 1, 2, 12), (0, 3, 4, 16), (1, 1, 3, 12), (2, 0, 1, 18)] := by decide

/-- the reduction of `demo_example` returns, and keeps the sample before the straddling hit and the one after it -/
example : (match cutOutsideHits demo_example [⟨0, 3, 4⟩, ⟨2, 0, 1⟩] 1 1 with
           | .ok out => out.map (·.data)
           | .error _ => []) = [[0, 0, 0, 2], [0, 0, 0, 0], [2, 0, 0, 0]] := by decide

/-- the side condition of the single-record theorem holds for a 0th fragment at time 0 and for any record at time > 0 -/
example : (demo_example.map fun r => decide (r.recordI = 0 ∨ r.time ≠ 0)) = [true, true, true] := by decide

/-- a positive threshold (hypothesis of `hit_height_maxtime_partial`): record 1 of `demo_example` gets max(1, 2·3/2) = 3 -/
example : (demo_example.map fun r => match thresholdOf demo_example (.perCh [⟨2, 1⟩, ⟨1, 1⟩]) (.scalar ⟨3, 2⟩) r with
           | .ok t => decide (0 < t.num)
           | .error _ => false) = [true, true, true] := by decide

/-- a record with baseline fraction 1/2 and 5 samples in range: the half-way case 2.5 -/
def half_way_example : Record :=
  { time := 0, length := 5, dt := 1, channel := 0, recordI := 0, pulseLength := 5, area := 0, reductionLevel := 0,
    baseline := ⟨1, 2⟩, baselineRms := ⟨0, 1⟩, ampBitShift := 0, data := [1, 1, 0, 0, 0, 0] }

/-- a positive baseline denominator (hypothesis of `integrate_consistent`); 2 + 2.5 is rounded to the even 4 -/
example : decide (0 < half_way_example.baseline.den) = true ∧ (integrateOne half_way_example).area = 4 := by decide

/-! (kept last: it needs no axiom at all) -/

/-- **The full link statement is false for the code as it is**: the lone fragment is linked to itself. -/
theorem links_next_counterexample :
    (match recordLinks orphan_at_zero_witness with
     | .ok (prev, next) => (prev, next)
     | .error _ => ([], [])) = ([-1], [0]) := by decide

end Strax.C18
