import StraxModel.Model.Basic
namespace Strax.C18
open Strax

end Strax.C18
