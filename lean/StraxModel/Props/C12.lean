import StraxModel.Lemmas.Contract
import StraxModel.Generated.ChunkInitRange
/-
  C12 — outputs that violate a plugin's declared contract are rejected, not stored.

  29 theorems: 21 full-strength (incl. the two translator ties `generated_chunk_init_*`) (one or more per violation kind, each for ALL inputs of its class),
  3 `_partial` (the storage half, single-thread processor only), 5 concrete witnesses (`*_accepted_old`,
  `row_outside_chunk_counterexample_501`, `gap_in_target_stored_eager_counterexample`), over the model of the code as it
  is now (`Model/Contract.lean`): D2 fixed (the constructor compares the declared dtype with the
  dtype of the data), chunk results dtype-checked in `_fix_output`, label and dtype checked per
  yielded chunk by the down-chunking plugin.  The `_old` theorems are `decide`-witnesses of what the
  code did before each of these fixes.  Storage: `rejected_not_stored_partial` & co. are stated against the saver
  protocol of the SINGLE-THREAD processor (`Contract.process`, tied by the check component
  `saver_protocol`; the crash-level statement is C04's); what is NOT guaranteed — the threaded
  processor in eager mode, open finding F3 / D21 — is `gap_in_target_stored_eager_counterexample`.
-/
namespace Strax.C12
open Strax Strax.Contract

/-! ### concrete witnesses used by the non-vacuity examples and the `_old` theorems -/

def dtDeclared : RDtype := [⟨some "Start time", "time", "<i8"⟩, ⟨some "End time", "endtime", "<i8"⟩, ⟨some "Identity", "id", "<i8"⟩]
/-- same names, `id` is int32 -/
def dtWrong : RDtype := [⟨none, "time", "<i8"⟩, ⟨none, "endtime", "<i8"⟩, ⟨none, "id", "<i4"⟩]
/-- the declared dtype without titles -/
def dtNoTitles : RDtype := [⟨none, "time", "<i8"⟩, ⟨none, "endtime", "<i8"⟩, ⟨none, "id", "<i8"⟩]

def pSingle : Plugin := { provides := ["pp"], dtype := dtDeclared, dtypes := [], kind := "things", kinds := [], runId := "r0", target := 1000 }
def pMulti : Plugin :=
  { provides := ["pp", "qq"], dtype := [], dtypes := [("pp", dtDeclared), ("qq", dtNoTitles)], kind := "",
    kinds := [("pp", "things"), ("qq", "things")], runId := "r0", target := 1000 }

def rowsIn : List Row := [⟨1, 3, 0⟩, ⟨6, 8, 1⟩]

/-! ### 1. data of a different dtype, returned as a bare array -/

/-- A bare array whose dtype differs (titles aside) from the declared one is refused with
`PluginGaveWrongOutput`, whatever its rows, the time range and the run annotations. -/
theorem wrong_dtype_bare_rejected (p : Plugin) (d : String) (dt decl : RDtype) (rows : List Row)
    (se : Int × Int) (superrun subruns : Option Runs)
    (hd : p.dtypeFor d = .ok decl) (hne : stripTitles dt ≠ stripTitles decl) :
    fixOne p d (.leaf (.array dt rows)) (some se) superrun subruns = .error .pluginGaveWrongOutput := by
  obtain ⟨a, b⟩ := se
  simp [fixOne, fixOneG, hd, dictToRec, checkDtype_array_wrong p d dt decl rows hd hne,
        bind, Except.bind, pure, Except.pure]

/-- the same through `_fix_output` of a single-output plugin -/
theorem wrong_dtype_bare_rejected_single (p : Plugin) (d : String) (rest : List String) (dt : RDtype) (rows : List Row)
    (se : Int × Int) (superrun subruns : Option Runs)
    (hp : p.provides = d :: rest) (hm : p.multi = false) (hne : stripTitles dt ≠ stripTitles p.dtype) :
    fixOutput p (.leaf (.array dt rows)) (some se) superrun subruns = .error .pluginGaveWrongOutput := by
  have hd : p.dtypeFor d = .ok p.dtype := by simp [Plugin.dtypeFor, hm]
  have := wrong_dtype_bare_rejected p d dt p.dtype rows se superrun subruns hd hne
  simp only [fixOne] at this
  simp [fixOutput, fixOutputG, hm, hp, this, Except.map]

/-- … and of a multi-output plugin: if the value filed under some provided data type has the
wrong dtype, the whole result is refused (with the error of the first offending output) -/
theorem wrong_dtype_bare_rejected_multi (p : Plugin) (d : String) (entries : List (String × Leaf))
    (dt decl : RDtype) (rows : List Row) (se : Int × Int) (superrun subruns : Option Runs)
    (hm : p.multi = true) (hin : d ∈ p.provides) (hl : entries.lookup d = some (.array dt rows))
    (hd : p.dtypeFor d = .ok decl) (hne : stripTitles dt ≠ stripTitles decl) :
    ∃ e, fixOutput p (.outputs entries) (some se) superrun subruns = .error e := by
  simp only [fixOutput, fixOutputG, hm, Result.isDict]
  simp only [Bool.not_true, Bool.false_eq_true, if_false, ite_true]
  have hf : ∃ e, (fun d => do
        let rd ← lookupOutput (.outputs entries) d
        let c ← fixOneG true p d rd (some se) superrun subruns
        pure (d, c)) d = .error e := by
    refine ⟨.pluginGaveWrongOutput, ?_⟩
    have := wrong_dtype_bare_rejected p d dt decl rows se superrun subruns hd hne
    simp only [fixOne] at this
    simp [lookupOutput, hl, this, bind, Except.bind]
  obtain ⟨e, he⟩ := mapM_error_of_mem (fun d => do
        let rd ← lookupOutput (.outputs entries) d
        let c ← fixOneG true p d rd (some se) superrun subruns
        pure (d, c)) p.provides d hin hf
  exact ⟨e, by rw [he]; rfl⟩

example : stripTitles dtWrong ≠ stripTitles dtDeclared := by decide
example : pSingle.dtypeFor "pp" = .ok dtDeclared := by decide
example : stripTitles dtNoTitles = stripTitles dtDeclared := by decide   -- titles do not matter

/-! ### 2. data of a different dtype, wrapped in a chunk -/

/-- The constructor itself: data whose dtype differs from the declared `dtype` argument is refused,
whatever the other arguments (this is the D2 fix). -/
theorem wrong_dtype_chunk_rejected (dataType kind : String) (runId : Option String) (declared dt : RDtype)
    (start stop : Int) (rows : List Row) (subruns superrun : Option Runs) (target : Nat)
    (hne : stripTitles declared ≠ stripTitles dt) :
    chunkInit dataType kind runId declared start stop (.array dt rows) subruns superrun target
      = .error .valueError :=
  chunkInit_wrong_dtype dataType kind runId declared dt start stop rows subruns superrun target hne

/-- `self.chunk(...)` always passes the declared dtype, so wrapping wrong data with the plugin's
own helper fails inside `compute`. -/
theorem wrong_dtype_chunk_rejected_helper (p : Plugin) (d k : String) (decl dt : RDtype) (start stop : Int) (rows : List Row)
    (hk : p.kindFor d = .ok k) (hd : p.dtypeFor d = .ok decl) (hne : stripTitles decl ≠ stripTitles dt) :
    p.chunk start stop (.array dt rows) (some d) = .error .valueError := by
  simp [Plugin.chunk, hk, hd, chunkInit_wrong_dtype _ _ _ decl dt _ _ _ _ _ _ hne, bind, Except.bind, pure, Except.pure]

/-- A chunk — however it was built, e.g. self-consistently with its own dtype — whose data has
another dtype than the plugin declares is refused by `_fix_output`. -/
theorem wrong_dtype_chunk_rejected_fix_output (p : Plugin) (d : String) (cc : CChunk) (decl : RDtype)
    (range : Option (Int × Int)) (superrun subruns : Option Runs)
    (hd : p.dtypeFor d = .ok decl) (hne : stripTitles cc.dataDtype ≠ stripTitles decl) :
    fixOne p d (.leaf (.chunk cc)) range superrun subruns = .error .pluginGaveWrongOutput := by
  simp [fixOne, fixOneG, checkDtype_array_wrong p d cc.dataDtype decl cc.c.rows hd hne, bind, Except.bind]

/-- … and by the down-chunking plugin, for a chunk yielded on its own … -/
theorem wrong_dtype_chunk_rejected_down (p : Plugin) (d : String) (rest : List String) (cc : CChunk)
    (superrun subruns : Option Runs)
    (hp : p.provides = d :: rest) (hm : p.multi = false) (hlabel : cc.c.dataType = d)
    (hne : stripTitles cc.dataDtype ≠ stripTitles p.dtype) :
    fixDownItem p (.leaf (.chunk cc)) superrun subruns = .error .pluginGaveWrongOutput := by
  have hd : p.dtypeFor d = .ok p.dtype := by simp [Plugin.dtypeFor, hm]
  simp [fixDownItem, fixDownItemG, hm, hp, downChecks, hlabel,
        checkDtype_array_wrong p d cc.dataDtype p.dtype cc.c.rows hd hne, bind, Except.bind]

/-- the constructor before the D2 fix accepted the very same call -/
theorem wrong_dtype_chunk_accepted_old :
    (chunkInitOld "pp" "things" (some "r0") dtDeclared 0 10 (.array dtWrong rowsIn) none none 1000).toBool = true
    ∧ chunkInit "pp" "things" (some "r0") dtDeclared 0 10 (.array dtWrong rowsIn) none none 1000 = .error .valueError := by
  decide +kernel

/-- a self-consistent chunk of the wrong dtype (built with `dtype=data.dtype`) -/
def selfBuilt : CChunk :=
  ⟨dtWrong, dtWrong, ⟨"pp", "things", some "r0", 0, 10, rowsIn, none, [⟨"r0", 0, 10⟩], 1000⟩⟩

example : chunkInit "pp" "things" (some "r0") dtWrong 0 10 (.array dtWrong rowsIn) none none 1000 = .ok selfBuilt := by decide +kernel

/-- `_fix_output` before the chunk-dtype fix accepted it, the code as it is now refuses it -/
theorem wrong_dtype_selfbuilt_chunk_accepted_old :
    (fixOneG false pSingle "pp" (.leaf (.chunk selfBuilt)) (some (0, 10)) none none).toBool = true
    ∧ fixOne pSingle "pp" (.leaf (.chunk selfBuilt)) (some (0, 10)) none none = .error .pluginGaveWrongOutput := by
  decide +kernel

/-! ### 3. rows outside the time range of the chunk that carries them -/

/-- Within the property's scope — at most 500 rows, sorted by time — a chunk holding a row that
starts before `start` or ends after `stop` cannot be constructed. -/
theorem row_outside_chunk_rejected (dataType kind : String) (runId : Option String) (declared dt : RDtype)
    (start stop : Int) (rows : List Row) (subruns superrun : Option Runs) (target : Nat)
    (hlen : rows.length ≤ 500) (hsort : SortedByTime rows)
    (hout : ∃ r ∈ rows, r.time < start ∨ r.endt > stop) :
    chunkInit dataType kind runId declared start stop (.array dt rows) subruns superrun target
      = .error .valueError := by
  unfold chunkInit
  simp only
  split
  · rfl
  · rw [mkChunk_row_outside hlen hsort hout]; rfl

/-- … hence a bare array with such a row is refused by `_fix_output` (here for an array of the
right dtype: the error is the constructor's `ValueError`) -/
theorem row_outside_bare_rejected (p : Plugin) (d k : String) (dt decl : RDtype) (rows : List Row)
    (start stop : Int) (superrun subruns : Option Runs)
    (hk : p.kindFor d = .ok k) (hd : p.dtypeFor d = .ok decl) (heq : stripTitles dt = stripTitles decl)
    (hlen : rows.length ≤ 500) (hsort : SortedByTime rows)
    (hout : ∃ r ∈ rows, r.time < start ∨ r.endt > stop) :
    fixOne p d (.leaf (.array dt rows)) (some (start, stop)) superrun subruns = .error .valueError := by
  have hc : p.chunk start stop (.array dt rows) (some d) = .error .valueError := by
    simp [Plugin.chunk, hk, hd, bind, Except.bind, pure, Except.pure,
          row_outside_chunk_rejected d k (some p.runId) decl dt start stop rows none none p.target hlen hsort hout]
  simp [fixOne, fixOneG, hd, dictToRec, checkDtype_array_ok p d dt decl rows hd heq, hc, bind, Except.bind, pure, Except.pure]

/-- conversely, what the constructor accepts (in scope) has every row inside the chunk -/
theorem accepted_chunk_rows_inside (dataType kind : String) (runId : Option String) (declared : RDtype)
    (start stop : Int) (data : DataArg) (subruns superrun : Option Runs) (target : Nat) (cc : CChunk)
    (h : chunkInit dataType kind runId declared start stop data subruns superrun target = .ok cc)
    (hlen : cc.c.rows.length ≤ 500) (hsort : SortedByTime cc.c.rows) :
    ∀ r ∈ cc.c.rows, cc.c.start ≤ r.time ∧ r.endt ≤ cc.c.stop := by
  cases data with
  | notArray => simp [chunkInit] at h
  | none =>
    obtain ⟨c, hc, rfl⟩ := map_eq_ok.mp (by simpa [chunkInit] using h)
    obtain ⟨_, hs, he, hr⟩ := mkChunk_fields hc
    simp only at hlen hsort ⊢
    rw [hr]; intro r hr'; simp at hr'
  | array dt rows =>
    obtain ⟨_, _, _, hc⟩ := chunkInit_ok_array h
    obtain ⟨_, hs, he, hr⟩ := mkChunk_fields hc
    rw [hr] at hlen hsort ⊢
    rw [hs, he]
    exact mkChunk_ok_rows_inside hc hlen hsort

/-- 501 rows, sorted by time, the first one ending far beyond the chunk -/
def rows501 : List Row := ⟨0, 5000, 0⟩ :: (List.range 500).map fun (i : Nat) => ⟨(i : Int) + 1, (i : Int) + 2, i + 1⟩

/-- Why the bound of 500 rows is part of the property: the constructor inspects the ends of the
LAST 500 rows only, so with 501 rows a first row ending late goes unnoticed. -/
theorem row_outside_chunk_counterexample_501 :
    rows501.length = 501 ∧ SortedByTime rows501 ∧ (∃ r ∈ rows501, r.endt > 1000) ∧
    (chunkInit "pp" "things" (some "r0") dtDeclared 0 1000 (.array dtDeclared rows501) none none 1000).toBool = true := by
  refine ⟨by simp [rows501], by decide +kernel, ⟨⟨0, 5000, 0⟩, by simp [rows501], by decide⟩, by decide +kernel⟩

example : rowsIn.length ≤ 500 ∧ SortedByTime rowsIn ∧ ∃ r ∈ rowsIn, r.time < 2 ∨ r.endt > 10 := by
  refine ⟨by decide, by decide, ⟨1, 3, 0⟩, by simp [rowsIn], by decide⟩

/-! ### 4. a chunk labelled with another data type -/

/-- A chunk carrying another `data_type` than the one it is delivered for never gets through
`_fix_output` (the error is `ValueError` when the dtype was right, the dtype error otherwise). -/
theorem wrong_label_rejected (p : Plugin) (d : String) (cc : CChunk) (range : Option (Int × Int))
    (superrun subruns : Option Runs) (hl : cc.c.dataType ≠ d) :
    ∃ e, fixOne p d (.leaf (.chunk cc)) range superrun subruns = .error e := by
  simp only [fixOne, fixOneG]
  cases hc : checkDtype p (.array cc.dataDtype cc.c.rows) (some d) with
  | error e => exact ⟨e, by simp [bind, Except.bind]⟩
  | ok _ => exact ⟨.valueError, by simp [hl, bind, Except.bind, pure, Except.pure, throw, throwThe, MonadExceptOf.throw]⟩

theorem wrong_label_rejected_valueError (p : Plugin) (d : String) (cc : CChunk) (decl : RDtype) (range : Option (Int × Int))
    (superrun subruns : Option Runs) (hl : cc.c.dataType ≠ d)
    (hd : p.dtypeFor d = .ok decl) (heq : stripTitles cc.dataDtype = stripTitles decl) :
    fixOne p d (.leaf (.chunk cc)) range superrun subruns = .error .valueError := by
  simp [fixOne, fixOneG, checkDtype_array_ok p d cc.dataDtype decl cc.c.rows hd heq, hl, bind, Except.bind,
        pure, Except.pure, throw, throwThe, MonadExceptOf.throw]

/-- the down-chunking plugin refuses a yielded chunk with another label, too -/
theorem wrong_label_rejected_down (p : Plugin) (d : String) (rest : List String) (cc : CChunk)
    (superrun subruns : Option Runs)
    (hp : p.provides = d :: rest) (hm : p.multi = false) (hl : cc.c.dataType ≠ d) :
    fixDownItem p (.leaf (.chunk cc)) superrun subruns = .error .valueError := by
  simp [fixDownItem, fixDownItemG, hm, hp, downChecks, hl, bind, Except.bind,
        throw, throwThe, MonadExceptOf.throw]

def mislabelled : CChunk :=
  ⟨dtDeclared, dtDeclared, ⟨"zzz", "things", some "r0", 0, 10, rowsIn, none, [⟨"r0", 0, 10⟩], 1000⟩⟩

/-- before the fix the down-chunking plugin handed a mislabelled chunk on -/
theorem wrong_label_down_accepted_old :
    (fixDownItemG false pSingle (.leaf (.chunk mislabelled)) none none).toBool = true
    ∧ fixDownItem pSingle (.leaf (.chunk mislabelled)) none none = .error .valueError := by
  decide +kernel

/-! ### 5. a requested target whose chunks overlap or leave gaps -/

/-- For the stream of an ordinary run (one run id, no superrun annotations): if some boundary
between consecutive chunks is not a meeting point, the consumer gets a `ValueError`; the chunks
handed over before it are a prefix of the stream without any break — the offending chunk is
never delivered. -/
theorem gap_or_overlap_in_target_rejected (rid : String) (cs : List Chunk)
    (hp : plainStream rid cs = true) (hb : hasBreak cs = true) :
    (targetStream cs).2 = some .valueError ∧ hasBreak (targetStream cs).1 = false ∧
      (targetStream cs).1 <+: cs := by
  cases cs with
  | nil => simp [hasBreak] at hb
  | cons c rest =>
    simp only [plainStream, List.all_cons, Bool.and_eq_true, beq_iff_eq] at hp
    obtain ⟨⟨hr, hs⟩, hrest⟩ := hp
    have hs' : c.subruns = none := by simpa using hs
    have h1 := contStep_first c rid hr hs'
    have ih := targetStreamFrom_plain rid rest c.stop (by simpa [plainStream] using hrest)
    simp only at ih
    obtain ⟨i1, i2, i3, _⟩ := ih
    rw [hasBreak_cons] at hb
    simp only [targetStream, targetStreamFrom, h1]
    refine ⟨by simpa [hb] using i1, ?_, (List.prefix_cons_inj c).mpr i3⟩
    rw [hasBreak_cons]; exact i2

/-- … and a stream without a break passes untouched -/
theorem continuous_target_accepted (rid : String) (cs : List Chunk)
    (hp : plainStream rid cs = true) (hb : hasBreak cs = false) :
    targetStream cs = (cs, none) := by
  cases cs with
  | nil => simp [targetStream, targetStreamFrom]
  | cons c rest =>
    simp only [plainStream, List.all_cons, Bool.and_eq_true, beq_iff_eq] at hp
    obtain ⟨⟨hr, hs⟩, hrest⟩ := hp
    have hs' : c.subruns = none := by simpa using hs
    have h1 := contStep_first c rid hr hs'
    have ih := targetStreamFrom_plain rid rest c.stop (by simpa [plainStream] using hrest)
    simp only at ih
    obtain ⟨i1, _, _, i4⟩ := ih
    rw [hasBreak_cons] at hb
    simp only [targetStream, targetStreamFrom, h1]
    have e1 := i4 hb
    simp [hb] at i1
    rw [Prod.ext_iff]; simp [e1, i1]

def gapStream : List Chunk :=
  [⟨"pp", "k", some "r0", 0, 10, [], none, [⟨"r0", 0, 10⟩], 1⟩, ⟨"pp", "k", some "r0", 11, 20, [], none, [⟨"r0", 11, 20⟩], 1⟩]
example : plainStream "r0" gapStream = true ∧ hasBreak gapStream = true := by decide

/-! ### 6. a non-dict result from a multi-output plugin -/

theorem non_dict_multi_rejected (p : Plugin) (r : Result) (range : Option (Int × Int)) (superrun subruns : Option Runs)
    (hm : p.multi = true) (hr : r.isDict = false) :
    fixOutput p r range superrun subruns = .error .valueError := by
  simp [fixOutput, fixOutputG, hm, hr]

theorem non_dict_multi_rejected_down (p : Plugin) (l : Leaf) (superrun subruns : Option Runs)
    (hm : p.multi = true) (hl : ∀ e, l ≠ .cols e) :
    fixDownItem p (.leaf l) superrun subruns = .error .valueError := by
  cases l with
  | cols e => exact absurd rfl (hl e)
  | _ => simp [fixDownItem, fixDownItemG, hm]

/-- a missing output is refused as well (`KeyError`) -/
theorem missing_output_rejected (p : Plugin) (d : String) (entries : List (String × Leaf))
    (range : Option (Int × Int)) (superrun subruns : Option Runs)
    (hm : p.multi = true) (hin : d ∈ p.provides) (hl : entries.lookup d = none) :
    ∃ e, fixOutput p (.outputs entries) range superrun subruns = .error e := by
  simp only [fixOutput, fixOutputG, hm, Result.isDict]
  simp only [Bool.not_true, Bool.false_eq_true, if_false, ite_true]
  have hf : ∃ e, (fun d => do
        let rd ← lookupOutput (.outputs entries) d
        let c ← fixOneG true p d rd range superrun subruns
        pure (d, c)) d = .error e := ⟨.keyError, by simp [lookupOutput, hl, bind, Except.bind]⟩
  obtain ⟨e, he⟩ := mapM_error_of_mem (fun d => do
        let rd ← lookupOutput (.outputs entries) d
        let c ← fixOneG true p d rd range superrun subruns
        pure (d, c)) p.provides d hin hf
  exact ⟨e, by rw [he]; rfl⟩

example : pMulti.multi = true ∧ (Result.leaf (.array dtDeclared rowsIn)).isDict = false := by decide

/-! ### 7. declarations without time information are refused at registration -/

theorem missing_time_fields_rejected (d : String) (dt : RDtype) (kindIsDict : Bool) (h : hasTimeFields dt = false) :
    fixDtype ⟨[d], .single dt, kindIsDict⟩ = .error .valueError := by
  simp [fixDtype, h, List.forM, bind, Except.bind, throw, throwThe, MonadExceptOf.throw]

example : hasTimeFields [⟨none, "time", "<i8"⟩, ⟨none, "length", "<i4"⟩] = false := by decide
example : hasTimeFields dtDeclared = true := by decide

/-! ### 8. rejected ⇒ not stored (single-thread order of events; `_partial`: the property also
quantifies over the threaded processor, for which this half is covered by the pipeline oracle only
and is FALSE in eager mode — finding F3 / D21, counterexample below) -/

/-- PARTIAL (processor = single_thread).  The saver protocol of the single-thread processor
(`Contract.process`, tied to the real `SingleThreadProcessor` + `get_iter` by the check component
`saver_protocol`): every output is first handed to the saver, then to the consumer, whose own check
may raise; any exception closes the saver with the exception recorded.  Then: (i) if processing
ends with an exception the data is not visible as valid; (ii) a rejected output always ends
processing with an exception; (iii) everything delivered is a prefix of the accepted outputs.
Not covered: the threaded processor (savers in their own threads) — see
`gap_in_target_stored_eager_counterexample`.  That a saver closed with an exception stays
invisible to `is_stored`/loaders across crashes is C04. -/
theorem rejected_not_stored_partial {σ α} (check : σ → α → Except Err σ) (st : σ) (outs : List (Except Err α)) (sv : Saver α) :
    (∀ e, (process check st outs sv).2.2 = some e → (process check st outs sv).1.visible = false) ∧
    ((∃ e, Except.error e ∈ outs) → ∃ e, (process check st outs sv).2.2 = some e) ∧
    ((process check st outs sv).2.1.map Except.ok <+: outs) :=
  ⟨fun e h => process_error_not_visible check outs st sv e h,
   process_error_of_rejected check outs st sv,
   process_delivered_ok check outs st sv⟩

/-- PARTIAL (single_thread), composed with `_fix_output`: if any result of the plugin is refused,
nothing of that data type stays visible and the caller gets an exception -/
theorem rejected_output_not_stored_partial (p : Plugin) (d : String) (results : List (Result × Option (Int × Int)))
    (check : Unit → CChunk → Except Err Unit) (sv : Saver CChunk)
    (hbad : ∃ r ∈ results, ∃ e, fixOne p d r.1 r.2 none none = .error e) :
    let outs := results.map fun r => fixOne p d r.1 r.2 none none
    (process check () outs sv).1.visible = false ∧ ∃ e, (process check () outs sv).2.2 = some e := by
  intro outs
  obtain ⟨r, hr, e, he⟩ := hbad
  have hmem : Except.error e ∈ outs := by
    simp only [outs, List.mem_map]
    exact ⟨r, hr, he⟩
  obtain ⟨e', he'⟩ := process_error_of_rejected check outs () sv ⟨e, hmem⟩
  exact ⟨process_error_not_visible check outs () sv e' he', e', he'⟩

/-- PARTIAL (single_thread), the general statement for the gap kind: the stream of an ordinary run
with some boundary that is not a meeting point, processed in the single-thread order with
`continuity_check` as the consumer's check (as `get_iter` applies it to the target), ends with the
`ValueError`, the saver is closed with the exception recorded — the target is NOT visible as valid
— and what the caller got is the break-free prefix of `gap_or_overlap_in_target_rejected`. -/
theorem gap_in_target_not_stored_single_thread_partial (rid : String) (cs : List Chunk) (sv : Saver Chunk)
    (hp : plainStream rid cs = true) (hb : hasBreak cs = true) :
    (process contStep {} (cs.map Except.ok) sv).1.visible = false ∧
    (process contStep {} (cs.map Except.ok) sv).2.2 = some .valueError ∧
    (process contStep {} (cs.map Except.ok) sv).2.1 = (targetStream cs).1 := by
  have heq := process_contStep_eq_targetStream cs {} sv
  rw [Prod.ext_iff] at heq
  have herr : (process contStep {} (cs.map Except.ok) sv).2.2 = some .valueError := by
    rw [heq.2]; exact (gap_or_overlap_in_target_rejected rid cs hp hb).1
  exact ⟨process_error_not_visible contStep _ {} sv _ herr, herr, heq.1⟩

/-- one concrete stream with a gap under the single-thread order of events -/
example :
    (process contCheck none [.ok (0, 10), .ok (10, 20), .ok (21, 30), .ok (30, 40)] ({} : Saver (Int × Int))).1.visible = false := by
  decide +kernel

example : plainStream "r0" gapStream = true ∧ hasBreak gapStream = true := by decide

/-- OPEN FINDING F3 / D21 (why the three theorems above are `_partial`): with the saver ahead of
the consumer, a target with a gap is stored as valid although the caller gets the `ValueError`.
`Contract.processEager` (saver ahead of the consumer) is tied by the check component
`pipeline/eager-slow-consumer`: the real threaded_mailbox processor in eager mode
(`allow_lazy=False` or `max_workers > 1`) with a consumer that waits until the pipeline has drained
gives the same outcome (`err ValueError stored`). -/
theorem gap_in_target_stored_eager_counterexample :
    let r := processEager contCheck none [.ok (0, 10), .ok (10, 20), .ok (21, 30), .ok (30, 40)] ({} : Saver (Int × Int))
    r.1.visible = true ∧ r.2 = some .valueError := by
  decide +kernel

/-! ### 10. translator tie: the range checks of `Chunk.__init__`, regenerated from the current source -/

/-- TRANSLATOR TIE.  `Generated.chunkInitRange` is regenerated on every run from the AST of
`Chunk.__init__` in /repo/strax/chunk.py (the `if … : raise ValueError` statements over `self.start`,
`self.end`, `data_starts_at`, `data_ends_at`, in source order).  For every start, end and row list the
model's constructor (`mkChunk`, on which every row-range theorem above rests) accepts exactly when the
checks the SOURCE makes pass on the values the source reads off the data (`len(data) != 0`,
`data[0]['time']`, maximum end over the last-rows window).  A changed comparison (`<` ↔ `<=`), a dropped
or added check in the source breaks this obligation. (Run annotations absent, a run id given: the
annotation setters are C07's / C14's.) -/
theorem generated_chunk_init_range (dataType kind rid : String) (start stop : Int) (rows : List Row) (target : Nat) :
    (mkChunk dataType kind (some rid) start stop rows none none target).toBool
      = (Generated.chunkInitRange start stop (!rows.isEmpty) ((rows.head?.map (·.time)).getD 0)
          ((lastEndMax rows).getD 0)).toBool := by
  cases rows with
  | nil =>
    simp only [mkChunk, Generated.chunkInitRange, bind, Except.bind, pure, Except.pure, throw, throwThe, MonadExceptOf.throw]
    by_cases h1 : start < 0 <;> by_cases h2 : start > stop <;> simp [h1, h2, Except.toBool, sortRuns, runsOverlap]
  | cons r0 rs =>
    obtain ⟨e, he⟩ := lastEndMax_isSome_of_ne_nil (rows := r0 :: rs) (by simp)
    simp only [mkChunk, Generated.chunkInitRange, he, bind, Except.bind, pure, Except.pure, throw, throwThe, MonadExceptOf.throw]
    by_cases h1 : start < 0 <;> by_cases h2 : start > stop <;> by_cases h3 : r0.time < start <;> by_cases h4 : e > stop <;>
      simp [h1, h2, h3, h4, Except.toBool, sortRuns, runsOverlap]

/-- TRANSLATOR TIE.  The model looks at the ends of exactly the last `N` rows, `N` being the constant of
`strax.endtime(self.data[-N:]).max()` in the current source (`Generated.chunkInitWindow`): the bound
`rows.length ≤ 500` of `row_outside_chunk_rejected` is the source's window. -/
theorem generated_chunk_init_window (rows : List Row) :
    lastEndMax rows =
      ((rows.drop (rows.length - Generated.chunkInitWindow)).head?).map
        (fun r => maxEnd r.endt (rows.drop (rows.length - Generated.chunkInitWindow)).tail) := by
  have h : Generated.chunkInitWindow = 500 := rfl
  rw [h]; unfold lastEndMax
  generalize rows.drop (rows.length - 500) = l
  cases l <;> rfl

/-- non-vacuity: the generated checks accept the rows of `rowsIn` in [0, 10) and refuse them in [2, 10) -/
example : (Generated.chunkInitRange 0 10 true 1 8).toBool = true ∧ (Generated.chunkInitRange 2 10 true 1 8).toBool = false := by
  decide

end Strax.C12
