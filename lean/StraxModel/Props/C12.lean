import StraxModel.Model.Basic
namespace Strax.C12
open Strax

end Strax.C12
