import StraxModel.Lemmas.BackpressureLazy
import StraxModel.Lemmas.BackpressureDag
import StraxModel.Lemmas.BackpressurePool
/-
  C13 at the level of a pipeline (chain model of Model/Backpressure.lean; the mailbox-level theorems `capacity_inv`,
  `lazy_gate`, `lazy_gate_old_counterexample` are in Props/C13.lean).

  All theorems quantify over every reachable state of `wire w n` — every schedule, every run length `n`, every chain
  length, any number of savers per mailbox, lazy and eager, with and without worker pool.  They are about CHAINS (flag-level
  model); the other graphs of the property's quantifier (diamonds, multi-output) are covered by the siblings in
  Props/C13Dag.lean (guard-level nets), so no theorem here carries `_partial`.  Hypotheses: `WellFormed w` (at least one
  mailbox, every capacity ≥ 1) is the property's own domain (capacities 1..4); `w.lazy = true` / `w.pool = false` select the
  mode a clause of the property speaks about, the other mode has its own theorem (`…_pool`, eager = no `lazy` hypothesis).
  `chain_rest_bound_lazy*` (bound 1) say MORE than the property asks for (a constant of the wiring) and exist for chains
  only; for other graphs the lazy bound is `dag_rest_bound`'s.  "Emitted" counts the advances of the source (`n` chunks
  and the final advance that finds it exhausted), "pulled" the messages handed to the consumer (chunks and the end
  marker): both sides count the same things, so the statements hold up to and including the end of the run.
-/
namespace Strax.C13
open Strax Strax.Mailbox Strax.Backpressure

/-- CAPACITY, every mailbox of a pipeline, lazy or eager: the processor gives every mailbox the finite capacity of
the wiring (`max_messages`, or the plugin's own) and no mailbox ever buffers more -/
theorem net_capacity_inv {w : Wiring} {n : Nat} {s : Net} (hw : WellFormed w = true) (h : Reachable w n s) :
    ∀ (j : Nat) (mb : MB), s.mbs[j]? = some mb → ∃ c, w.caps[j]? = some c ∧ mb.cap = some c ∧ mb.heap.length ≤ c := by
  intro j mb hm
  obtain ⟨c, hc, hok⟩ := (Inv.reachable (wf_pos hw) h).capAt hm
  exact ⟨c, hc, hok.cap, hok.capOk⟩

/-- LOCAL BACK-PRESSURE at every mailbox: its sender is never more than the capacity ahead of ANY of its readers
(next stage, consumer or saver) -/
theorem net_local_backpressure {w : Wiring} {n : Nat} {s : Net} (hw : WellFormed w = true) (h : Reachable w n s) :
    ∀ (j : Nat) (mb : MB) (sub : Sub), s.mbs[j]? = some mb → sub ∈ mb.subs →
      ∃ c, w.caps[j]? = some c ∧ mb.nSent ≤ sub.next + c := by
  intro j mb sub hm hs
  obtain ⟨c, hc, hok⟩ := (Inv.reachable (wf_pos hw) h).capAt hm
  exact ⟨c, hc, hok.backlog_sub hs⟩

/-- without injected failures no thread of the chain ever ends in an exception (the error branches of `send` and
`_read` are unreachable) and no mailbox is ever killed -/
theorem net_no_error {w : Wiring} {n : Nat} {s : Net} (hw : WellFormed w = true) (h : Reachable w n s) :
    (∀ (j : Nat) (nd : Node) (e : Err), s.nodes[j]? = some nd → nd.pc ≠ .dead e) ∧
    (∀ (j : Nat) (mb : MB), s.mbs[j]? = some mb → mb.killed = false) := by
  have hi := Inv.reachable (wf_pos hw) h
  exact ⟨hi.notDead, fun j mb hm => (hi.capAt hm).elim fun _ hh => hh.2.alive⟩

/-- REST BOUND as an invariant, no worker pool (`w.pool = false` excludes worker-pool wirings: sibling
`chain_rest_bound_pool`): in every reachable state the source is at most `B w = 2·Σ cap`
messages ahead of the consumer; `B` is a function of the wiring only (not of the run length `n`, not of the schedule) -/
theorem chain_rest_bound {w : Wiring} {n : Nat} {s : Net} (hw : WellFormed w = true) (hp : w.pool = false)
    (h : Reachable w n s) : s.emitted ≤ s.pulled + B w := by
  have h1 := (Inv.reachable (wf_pos hw) h).bound (wf_caps hw)
  have h2 := mainPend_zero (wf_pos hw) hp h
  omega

/-- REST BOUND with a worker pool (stages send futures, readers wait for their results; any wiring): `B w` plus exactly
the future the consumer's reader has taken out of the last mailbox and not handed over yet (`Net.mainPend` ∈ {0, 1}) —
this is the `B + 1` the harness uses for pool runs -/
theorem chain_rest_bound_pool_exact {w : Wiring} {n : Nat} {s : Net} (hw : WellFormed w = true) (h : Reachable w n s) :
    s.emitted ≤ s.pulled + B w + s.mainPend :=
  (Inv.reachable (wf_pos hw) h).bound (wf_caps hw)

theorem chain_rest_bound_pool {w : Wiring} {n : Nat} {s : Net} (hw : WellFormed w = true) (h : Reachable w n s) :
    s.emitted ≤ s.pulled + Bpool w := by
  have h1 := chain_rest_bound_pool_exact hw h
  have h2 := mainPend_le_one s
  simp only [Bpool]; omega

/-- no futures without a pool: the consumer's reader never holds a message it has not handed over -/
theorem chain_no_future_without_pool {w : Wiring} {n : Nat} {s : Net} (hw : WellFormed w = true) (hp : w.pool = false)
    (h : Reachable w n s) : s.mainPend = 0 :=
  mainPend_zero (wf_pos hw) hp h

/-- nothing reaches the consumer that the source has not produced -/
theorem chain_pulled_le_emitted {w : Wiring} {n : Nat} {s : Net} (hw : WellFormed w = true) (h : Reachable w n s) :
    s.pulled ≤ s.emitted :=
  (Inv.reachable (wf_pos hw) h).pulled_le

/-- REST BOUND as stated in the property: from ANY reachable state, whatever the other threads do while the
consumer does not pull (any schedule `σ` without the consumer, of any length — in particular one that ends in a quiescent
state, `Net.quiescent`: no thread but the consumer enabled), the source advances at most `B w` more times.
Hypotheses: `WellFormed` excludes the empty chain and capacity 0; `pool = false` excludes worker-pool wirings (for those:
`chain_rest_bound_pool_paused`).  That a quiescent state IS reached is not proved in this (flag-level) model, see
`dag_rest_reached` for the guard-level nets. -/
theorem chain_rest_bound_paused {w : Wiring} {n : Nat} {s : Net} (hw : WellFormed w = true) (hp : w.pool = false)
    (h : Reachable w n s) (σ : List Tid) (hσ : ∀ t ∈ σ, t ≠ s.main) : (Backpressure.run s σ).emitted ≤ s.emitted + B w := by
  have h1 := chain_rest_bound hw hp (reachable_run h σ)
  have h2 := chain_pulled_le_emitted hw h
  rw [run_pulled σ hσ] at h1
  omega

/-- … and with a worker pool: at most `B w + 1` further advances of the source -/
theorem chain_rest_bound_pool_paused {w : Wiring} {n : Nat} {s : Net} (hw : WellFormed w = true)
    (h : Reachable w n s) (σ : List Tid) (hσ : ∀ t ∈ σ, t ≠ s.main) :
    (Backpressure.run s σ).emitted ≤ s.emitted + Bpool w := by
  have h1 := chain_rest_bound_pool hw (reachable_run h σ)
  have h2 := chain_pulled_le_emitted hw h
  rw [run_pulled σ hσ] at h1
  omega

/-- THE GATE at every mailbox of a lazy pipeline (fixed gate rule): whenever the sender of mailbox `j` is inside
`next(iterable)` — it has passed its gate and is advancing its source — a driving subscriber of that mailbox waits
for a number that is not in the heap -/
theorem net_lazy_gate {w : Wiring} {n : Nat} {s : Net} (hw : WellFormed w = true) (hlz : w.lazy = true)
    (h : Reachable w n s) :
    ∀ (j : Nat) (nd : Node) (out : MB), s.nodes[j]? = some nd → s.mbs[j]? = some out → nd.pc = .read →
      ∃ sub ∈ out.subs, sub.canDrive = true ∧ ∃ x, sub.waitingFor = some x ∧ hasNum out.heap x = false := by
  intro j nd out hn hm hr
  obtain ⟨hi, hl⟩ := LInv.reachable (wf_pos hw) h
  exact hl.gate hi hlz hn hm hr

/-- … in particular every transition that advances the SOURCE happens in such a state of the source's mailbox -/
theorem net_lazy_gate_source {w : Wiring} {n : Nat} {s s' : Net} {t : Tid} (hw : WellFormed w = true) (hlz : w.lazy = true)
    (h : Reachable w n s) (hs : Backpressure.step s t = some s') (he : s'.emitted ≠ s.emitted) :
    ∃ out, s.mbs[0]? = some out ∧
      ∃ sub ∈ out.subs, sub.canDrive = true ∧ ∃ x, sub.waitingFor = some x ∧ hasNum out.heap x = false := by
  obtain ⟨_, nd, hn, hr⟩ := step_emitted hs he
  obtain ⟨hi, hl⟩ := LInv.reachable (wf_pos hw) h
  have hlen := hi.lenM
  have hpos := hi.pos
  obtain ⟨out, hm⟩ : ∃ out, s.mbs[0]? = some out := ⟨s.mbs[0]'(by omega), List.getElem?_eq_getElem _⟩
  exact ⟨out, hm, hl.gate hi hlz hn hm hr⟩

/-- REST BOUND, lazy mode (savers do not drive): at most ONE message is under way between the source and the
consumer, whatever the length of the chain and the capacities -/
theorem chain_rest_bound_lazy {w : Wiring} {n : Nat} {s : Net} (hw : WellFormed w = true) (hlz : w.lazy = true)
    (h : Reachable w n s) : s.emitted ≤ s.pulled + Blazy :=
  (LInv.reachable (wf_pos hw) h).2.one hlz

theorem chain_rest_bound_lazy_paused {w : Wiring} {n : Nat} {s : Net} (hw : WellFormed w = true) (hlz : w.lazy = true)
    (h : Reachable w n s) (σ : List Tid) (hσ : ∀ t ∈ σ, t ≠ s.main) :
    (Backpressure.run s σ).emitted ≤ s.emitted + Blazy := by
  have h1 := chain_rest_bound_lazy hw hlz (reachable_run h σ)
  have h2 := chain_pulled_le_emitted hw h
  rw [run_pulled σ hσ] at h1
  omega

/-- ONE MAILBOX, ANY CALLERS (flag-level model of Model/Mailbox.lean): whatever threads call its critical sections in
whatever order (`MBReach`: any subscribers / drive flags / gate rule / mode), it never buffers more than its capacity
and its sender is never more than the capacity ahead of any of its readers.  The rest bound for general plugin graphs
(trees, diamonds, dividers) is in Props/C13Dag.lean, over the networks of Model/Net.lean. -/
theorem mailbox_local_backpressure {c : Nat} {lazy : Bool} {rule : GateRule} {drive : List Bool} {mb : MB}
    (hd : drive ≠ []) (h : MBReach c lazy rule drive mb) :
    mb.heap.length ≤ c ∧ ∀ sub ∈ mb.subs, mb.nSent ≤ sub.next + c :=
  ⟨(h.cnt hd).capOk, fun _ hs => (h.cnt hd).backlog_sub hs⟩

/-! non-vacuity (anonymous `example`s, not counted as theorems): concrete wirings satisfy the hypotheses, states with
work in progress are reachable, and the bounds are attained — witnesses `poolDemo`, `lazyDemo` -/

example : WellFormed { lazy := false, caps := [2, 1, 3], savers := [0, 1, 0] } = true := by decide
example : WellFormed { lazy := true, caps := [4], savers := [2] } = true := by decide
example : WellFormed { lazy := false, caps := [1, 2], savers := [0, 0], pool := true } = true := by decide
example : B { lazy := false, caps := [2, 1, 3], savers := [0, 1, 0] } = 12 := by decide

/-- the bound `2·cap` per mailbox is attained: one mailbox of capacity 1, eager — the source fills the mailbox, the
consumer takes the message, the source fills it again and holds a third message: emitted = pulled + 2 = pulled + B -/
example :
    (Backpressure.run (wire { lazy := false, caps := [1], savers := [0] } 5) [.node 0, .node 0, .node 1, .node 0, .node 0, .node 0]).emitted =
    (Backpressure.run (wire { lazy := false, caps := [1], savers := [0] } 5) [.node 0, .node 0, .node 1, .node 0, .node 0, .node 0]).pulled
      + B { lazy := false, caps := [1], savers := [0] } := by decide

/-- with a worker pool `B + 1` is attained: source → p1 → consumer, capacities 1 and 1 (B = 4).  The consumer's reader has
taken the first future and waits for its result, both mailboxes are full again, p1 and the source each hold one more:
five chunks computed, none handed to the consumer -/
def poolDemo : Net :=
  Backpressure.run (wire { lazy := false, caps := [1, 1], savers := [0, 0], pool := true } 9)
    [.node 0, .node 0, .node 1, .node 1, .node 2, .node 0, .node 0, .node 1, .node 1, .node 0, .node 0, .node 1, .node 1,
     .node 0, .node 0, .node 0, .node 0]

example : poolDemo.emitted = 5 ∧ poolDemo.pulled = 0 ∧ poolDemo.mainPend = 1 ∧
    B { lazy := false, caps := [1, 1], savers := [0, 0], pool := true } = 4 := by decide

/-- a lazy chain of three mailboxes with a saver: the consumer's demand travels up, one chunk comes down -/
def lazyDemo : Net :=
  Backpressure.run (wire { lazy := true, caps := [2, 2, 2], savers := [0, 1, 0] } 5)
    [.node 3, .node 2, .node 2, .node 1, .node 1, .node 0, .node 0, .node 0, .node 1, .node 1, .node 2, .node 2, .node 3]

example : lazyDemo.emitted = 1 ∧ lazyDemo.pulled = 1 := by decide

/-- `MBReach` is inhabited by states with traffic: a mailbox with two driving readers (a diamond's source mailbox) -/
example : ∃ mb, MBReach 1 false .hasMsg [true, true] mb ∧ mb.nSent = 1 ∧ mb.heap.length = 1 := by
  refine ⟨_, .send .init rfl (m := .plain 0) (out := .sent 0) (mb' := (freshMb 1 false .hasMsg [true, true]).push 0 (.plain 0)) rfl, rfl, rfl⟩

end Strax.C13
