import StraxModel.Lemmas.Selection
/-
  Property C10 — time-range, row and column selections commute with chunking and storage.
  Only property theorems and non-vacuity examples; the work is in Lemmas/Selection.lean.

  Vocabulary (Model/Selection.lean): `loadRange s r` = the chunks `StorageBackend.loader` yields for
  the stored layout `s` and the range `r` (pruning + `apply_time_range`); `select m r p` = the rows
  `apply_selection` keeps in mode `m`; `getArray fields s a sel` = `Context.get_array` of one stored
  target; `LawAbiding s` = decidable hypothesis "ordinary stored data obeying the laws of chunking".
  `RealMode m` = `fully_contained` or `touching`.

  What the hypothesis excludes: `LawAbiding` demands rows of POSITIVE duration (law 4 of chunking; a zero-length row
  sitting exactly on `t0` / `t1` is dropped by the loader's split but selected by `fully_contained`, so the commutation is
  false for such rows) and PLAIN chunks (no sub-runs, one super-run entry): super-run data is outside (time ranges on
  superruns raise `NotImplementedError` in `get_components`).  Every stored layout of the check is inside
  (component `hypothesis/law-abiding`).

  Clauses of the property without a theorem: "independent of the processor" (oracle + correspondence on both
  processors only); "nothing is saved" is a theorem only about `savePlan`, the single-output slice of `check_cache`
  (tied by `partial-requests/no-saving`); the statement over the full `get_components` model, including multi-output
  siblings, is `Strax.C11.partial_never_saves`.
-/
namespace Strax.C10
open Strax Strax.Selection

/-- the stored run used by the non-vacuity examples: five rows in three chunks -/
private def exLayout : List Chunk := [
  ⟨"src", "things", some "0", 8, 16, [⟨10, 14, 0⟩, ⟨12, 16, 1⟩], none, [⟨"0", 8, 16⟩], 1000⟩,
  ⟨"src", "things", some "0", 16, 20, [⟨16, 18, 2⟩], none, [⟨"0", 16, 20⟩], 1000⟩,
  ⟨"src", "things", some "0", 20, 26, [⟨20, 22, 3⟩, ⟨20, 24, 4⟩], none, [⟨"0", 20, 26⟩], 1000⟩]

/-- the same rows in one giant chunk -/
private def exGiant : List Chunk := [
  ⟨"src", "things", some "0", 8, 26, [⟨10, 14, 0⟩, ⟨12, 16, 1⟩, ⟨16, 18, 2⟩, ⟨20, 22, 3⟩, ⟨20, 24, 4⟩], none,
    [⟨"0", 8, 26⟩], 1000⟩]

example : LawAbiding exLayout ∧ LawAbiding exGiant ∧ allRows exLayout = allRows exGiant ∧
    span exLayout = some (8, 26) ∧ span exGiant = some (8, 26) := by decide

/-! ## 1. the loader is total on law-abiding data and the selection commutes with it -/

/-- `range_commutes`: for EVERY range (also empty and reversed ones), both modes and every
row predicate, concatenating `select` over the chunks the loader yields = `select` on all stored rows.
Includes totality: the left early split and the right strict split (`CannotSplit` swallowed) never
fail on law-abiding data. -/
theorem range_commutes (s : List Chunk) (r : Range) (m : Mode) (p : Row → Bool)
    (hs : LawAbiding s) (hm : RealMode m) :
    ∃ cs, loadRange s r = .ok cs ∧
      cs.flatMap (fun c => select m r p c.rows) = select m r p (allRows s) := by
  obtain ⟨cs, h1, h2, -⟩ := loadRange_spec s r (chunks_of_lawAbiding hs)
  exact ⟨cs, h1, h2 m p hm⟩

-- the right edge straddled by row 1 ([12,16) vs t1 = 14): `CannotSplit` is swallowed, the chunk stays whole;
-- the left edge is split early at 10
example : (loadRange exLayout (11, 14)).map (·.map fun c => (c.start, c.stop, ids c.rows)) = .ok [(10, 16, [0, 1])] := by
  decide +kernel
example : (loadRange exGiant (17, 21)).map (·.map fun c => (c.start, c.stop, ids c.rows)) = .ok [(16, 26, [2, 3, 4])] := by
  decide +kernel

/-- what the loader drops is invisible to both modes, chunk by chunk -/
theorem apply_time_range_invisible (c : Chunk) (r : Range) (m : Mode) (p : Row → Bool)
    (hc : LawAbiding [c]) (hm : RealMode m) :
    ∃ c', applyTimeRange c r = .ok c' ∧ select m r p c'.rows = select m r p c.rows := by
  obtain ⟨hok, hp⟩ := chunks_of_lawAbiding hc c (by simp)
  exact select_applyTimeRange hm hok hp

/-! ## 2. when no chunk is seen -/

/-- the loader yields no chunk exactly when every chunk is pruned (`end ≤ t0 ∨ t1 ≤ start`) -/
theorem no_chunk_iff_all_pruned (s : List Chunk) (r : Range) (hs : LawAbiding s) :
    loadRange s r = .ok [] ↔ ∀ c ∈ s, pruned c r = true := by
  obtain ⟨cs, h1, -, h3⟩ := loadRange_spec s r (chunks_of_lawAbiding hs)
  rw [h1]
  constructor
  · intro h
    injection h with h
    exact h3.1 h
  · intro h
    rw [h3.2 h]

/-- for a proper range that is: exactly when the range is disjoint from the span of the run -/
theorem all_pruned_iff_disjoint (s : List Chunk) (r : Range) (S E : Int) (hs : LawAbiding s)
    (hspan : span s = some (S, E)) (hr : r.1 < r.2) :
    (∀ c ∈ s, pruned c r = true) ↔ (r.2 ≤ S ∨ E ≤ r.1) :=
  all_pruned_iff hs hspan hr

/-- the epilogue of `get_iter`: the exact error kinds -/
theorem epilogue_error_kinds :
    epilogue false none = .error .dataCorrupted ∧ (∀ r, epilogue false (some r) = .error .valueError) ∧
    (∀ r, epilogue true r = .ok ()) := ⟨rfl, fun _ => rfl, fun _ => rfl⟩

/-- `no_chunk_error_iff`: with acceptable column arguments and a proper range, `get_array`
ends in the explicit `ValueError` exactly when the range overlaps no chunk, i.e. is disjoint from
`[S, E)`. -/
theorem no_chunk_error_iff (fields : List String) (s : List Chunk) (r : Range) (sel : Sel) (S E : Int)
    (hs : LawAbiding s) (hspan : span s = some (S, E)) (hr : r.1 < r.2) (hm : RealMode sel.mode)
    (hcols : colsValidB fields sel = true) :
    getArray fields s { timeRange := some r } sel = .error .valueError ↔ (r.2 ≤ S ∨ E ≤ r.1) := by
  rw [getArray_range hs (ne_nil_of_span hspan) hm (r := r) rfl, ← all_pruned_iff hs hspan hr]
  have hmode : sel.mode ≠ .unknown := by rcases hm with h | h <;> rw [h] <;> decide
  obtain ⟨cols, -, hok⟩ := applySelection_ok_of (some r) hcols hmode
  constructor
  · intro h
    split at h
    · rename_i hall
      simpa [List.all_eq_true] using hall
    · rw [hok] at h
      cases h
  · intro h
    have : s.all (fun c => pruned c r) = true := by simpa [List.all_eq_true] using h
    simp [this]

/-- and no other error is possible: a ranged request on law-abiding data either succeeds or raises
`ValueError` -/
theorem ranged_request_error_kind (fields : List String) (s : List Chunk) (a : TimeArgs) (r : Range) (sel : Sel)
    (e : Err) (hs : LawAbiding s) (hne : s ≠ []) (hm : RealMode sel.mode) (ha : toAbsolute s a = .ok (some r))
    (h : getArray fields s a sel = .error e) : e = .valueError := by
  rw [getArray_range hs hne hm ha] at h
  split at h
  · cases h; rfl
  · rcases applySelection_shape fields sel (some r) with herr | ⟨cols, hok⟩
    · rw [herr] at h; cases h; rfl
    · rw [hok] at h; cases h

example : getArray ["time", "endtime", "id"] exLayout { timeRange := some (0, 8) } {} = .error .valueError ∧
    getArray ["time", "endtime", "id"] exLayout { timeRange := some (26, 30) } {} = .error .valueError := by
  decide +kernel

/-! ## 3. a range containing no row gives an empty result, never an error or other rows -/

theorem empty_range_empty (fields : List String) (s : List Chunk) (r : Range) (sel : Sel)
    (hs : LawAbiding s) (hne : s ≠ []) (hm : RealMode sel.mode) (hcols : colsValidB fields sel = true)
    (hseen : ∃ c ∈ s, pruned c r = false)
    (hnone : ∀ x ∈ allRows s, inRange sel.mode r x = false) :
    ∃ cols, projectCols fields sel.keep sel.drop = .ok cols ∧
      getArray fields s { timeRange := some r } sel = .ok ([], cols) := by
  rw [getArray_range hs hne hm (r := r) rfl]
  have hmode : sel.mode ≠ .unknown := by rcases hm with h | h <;> rw [h] <;> decide
  obtain ⟨cols, hc, hok⟩ := applySelection_ok_of (some r) hcols hmode
  refine ⟨cols, hc, ?_⟩
  have hnot : ¬ (s.all (fun c => pruned c r) = true) := by
    intro hall
    obtain ⟨c, hc, hp⟩ := hseen
    rw [List.all_eq_true] at hall
    rw [hall c hc] at hp
    cases hp
  simp only [hnot, hok, Bool.false_eq_true, if_false]
  congr 2
  rw [List.filter_eq_nil_iff]
  intro x hx
  simp [keepFn, hnone x hx]

-- the gap [18, 20) of the example run: chunks are seen, no row is selected
example : getArray ["time", "endtime", "id"] exLayout { timeRange := some (18, 20) } { mode := .touching }
    = .ok ([], ["time", "endtime", "id"]) := by decide +kernel

/-! ## 4. row selection and column projection commute with chunking -/

/-- `project_commutes`: applying `apply_selection` (time mode, row predicate, keep / drop
columns) chunk by chunk and concatenating — what `get_iter` + `get_array` do — equals applying it once
to the concatenated rows: same rows, same column list, same error. -/
theorem project_commutes (fields : List String) (sel : Sel) (r : Option Range) (c : List Row)
    (chunks : List (List Row)) :
    collect fields sel r (c :: chunks) = applySelection fields sel r (c :: chunks).flatten :=
  collect_eq fields sel r c chunks

/-- the column list of the result is the projection of the fields and does not depend on the rows -/
theorem columns_independent_of_rows (fields : List String) (sel : Sel) (r : Option Range)
    (rows1 rows2 : List Row) (out1 out2 : List Row × List String)
    (h1 : applySelection fields sel r rows1 = .ok out1) (h2 : applySelection fields sel r rows2 = .ok out2) :
    out1.2 = out2.2 ∧ projectCols fields sel.keep sel.drop = .ok out1.2 := by
  rcases applySelection_shape fields sel r with herr | ⟨cols, hok⟩
  · rw [herr] at h1; cases h1
  · have e1 := hok rows1
    have e2 := hok rows2
    rw [h1] at e1; rw [h2] at e2
    injection e1 with e1; injection e2 with e2
    subst e1 e2
    refine ⟨rfl, ?_⟩
    have h0 := hok []
    unfold applySelection at h0
    split at h0
    · cases h0
    · simp only at h0
      split at h0
      · cases h0
      · split at h0
        · cases h0
        · injection h0 with h0
          injection h0 with _ h0
          subst h0
          assumption

example : getArray ["time", "endtime", "id"] exLayout { timeRange := some (11, 21) }
    { mode := .touching, pred := some fun x => decide (x.id ≥ 1), keep := ["id", "time"] }
    = .ok ([⟨12, 16, 1⟩, ⟨16, 18, 2⟩, ⟨20, 22, 3⟩, ⟨20, 24, 4⟩], ["time", "id"]) := by decide +kernel

/-! ## 5. the result does not depend on the on-disk chunking -/

/-- Full statement (all ranges): two law-abiding layouts of the same rows over the same span give the same `get_array`
result.  FALSE for empty / reversed ranges on the code as it is (`chunking_independent_counterexample`, open finding
`C10-empty-range-error-depends-on-chunking`), hence `_partial` with the hypothesis `hproper` = "the time arguments denote
no range or a range with `t0 < t1`".  Proved:
two law-abiding layouts of the same rows over the same span give the same `get_array` result — rows,
columns and error alike — for every combination of time arguments (`time_range`, `seconds_range`,
`time_within`) that denotes a proper range or no range, both modes, every predicate and column set.
-/
theorem chunking_independent_partial (fields : List String) (s1 s2 : List Chunk) (a : TimeArgs) (sel : Sel) (S E : Int)
    (h1 : LawAbiding s1) (h2 : LawAbiding s2) (hrows : allRows s1 = allRows s2)
    (hspan1 : span s1 = some (S, E)) (hspan2 : span s2 = some (S, E)) (hm : RealMode sel.mode)
    (hproper : ∀ r, toAbsolute s1 a = .ok (some r) → r.1 < r.2) :
    getArray fields s1 a sel = getArray fields s2 a sel := by
  have hcongr := toAbsolute_congr a hspan1 hspan2
  cases hres : toAbsolute s1 a with
  | error e =>
    rw [getArray_error_toAbsolute hres, getArray_error_toAbsolute (hcongr ▸ hres)]
  | ok ro =>
    cases ro with
    | none =>
      rw [getArray_norange (ne_nil_of_span hspan1) hres,
        getArray_norange (ne_nil_of_span hspan2) (hcongr ▸ hres), hrows]
    | some r =>
      have hr := hproper r hres
      rw [getArray_range h1 (ne_nil_of_span hspan1) hm hres,
        getArray_range h2 (ne_nil_of_span hspan2) hm (hcongr ▸ hres), hrows]
      have e1 := all_pruned_iff h1 hspan1 hr
      have e2 := all_pruned_iff h2 hspan2 hr
      have : s1.all (fun c => pruned c r) = s2.all (fun c => pruned c r) := by
        rw [Bool.eq_iff_iff, List.all_eq_true, List.all_eq_true, e1, e2]
      rw [this]

example : RealMode Mode.touching ∧ (∀ r, toAbsolute exLayout { timeRange := some (11, 21) } = .ok (some r) → r.1 < r.2) := by
  refine ⟨Or.inr rfl, ?_⟩
  intro r h
  injection h with h; injection h with h; subst h; decide

/-- Negation witness for the excluded region: for the EMPTY range `(16, 16)` the three-chunk layout
(16 is a chunk boundary, every chunk pruned) raises `ValueError`, the one-chunk layout of the same rows
returns an empty result.  Reproduced on the real code (known finding
`C10-empty-range-error-depends-on-chunking`). -/
theorem chunking_independent_counterexample :
    LawAbiding exLayout ∧ LawAbiding exGiant ∧ allRows exLayout = allRows exGiant ∧
    span exLayout = span exGiant ∧
    getArray ["time", "endtime", "id"] exLayout { timeRange := some (16, 16) } {} = .error .valueError ∧
    getArray ["time", "endtime", "id"] exGiant { timeRange := some (16, 16) } {}
      = .ok ([], ["time", "endtime", "id"]) := by decide +kernel

/-! ## 6. time arguments as integer arithmetic -/

theorem toAbsolute_time_range (s : List Chunk) (r : Range) :
    toAbsolute s { timeRange := some r } = .ok (some r) := rfl

/-- (`w` is the pair `(row["time"], strax.endtime(row))`; extracting it from a structured row is done by the
adapter, for both interval encodings) -/
theorem toAbsolute_time_within (s : List Chunk) (w : Range) :
    toAbsolute s { timeWithin := some w } = .ok (some w) := rfl

theorem toAbsolute_seconds (s : List Chunk) (a b : Sec) (t0 : Int) (h : runStart s = .ok t0) :
    toAbsolute s { secondsRange := some (a, b) } = .ok (some (t0 + a.toNs, t0 + b.toNs)) := by
  simp [toAbsolute, estimateRunStart, h]

/-- with a run document the run start is its `start` floored to a whole second, whatever is stored -/
theorem toAbsolute_seconds_run_document (s : List Chunk) (a b : Sec) (startS : Int) :
    toAbsolute s { secondsRange := some (a, b), runDocStartS := some startS }
      = .ok (some (startS * 1000000000 + a.toNs, startS * 1000000000 + b.toNs)) := rfl

theorem toAbsolute_all_three (s : List Chunk) (r w : Range) (a b : Sec) :
    toAbsolute s { timeRange := some r, secondsRange := some (a, b), timeWithin := some w } = .error .runtimeError :=
  rfl

/-- the run start used for `seconds_range` is the first chunk start floored to a whole second -/
theorem runStart_floor (c : Chunk) (rest : List Chunk) (t0 : Int) (h : runStart (c :: rest) = .ok t0) :
    t0 ≤ c.start ∧ c.start < t0 + 1000000000 ∧ t0 % 1000000000 = 0 := by
  simp only [runStart, nsPerS, Except.ok.injEq] at h
  omega

/-- whole nanoseconds are converted exactly -/
theorem sec_toNs_exact (n : Int) : (Sec.mk n 1000000000).toNs = n := by
  simp only [Sec.toNs, nsPerS]
  exact Int.mul_tdiv_cancel_left n (by decide)

example : toAbsolute exLayout { secondsRange := some (⟨11, 1000000000⟩, ⟨1, 2⟩) } = .ok (some (11, 500000000)) := by
  decide +kernel

/-! ## 7. a partial request never saves -/

/-- `check_cache`, single-output slice (`savePlan`): whenever a time range, a selection or a column projection is
present, nothing is saved: the plan is never `computeSave`; stored data is always just loaded.  The authoritative
statement over the whole `get_components` model (any graph, multi-output plugins) is `Strax.C11.partial_never_saves`;
this one only says that the slice the C10 harness observes end to end agrees with it. -/
theorem savePlan_never_saves_on_partial_request (stored : Bool) (sw : SaveWhen) (isTarget inSave hasRange hasSel hasCols : Bool)
    (h : savePlan stored sw isTarget inSave hasRange hasSel hasCols = .ok .computeSave) :
    hasRange = false ∧ hasSel = false ∧ hasCols = false ∧ stored = false := by
  cases stored <;> cases sw <;> cases isTarget <;> cases inSave <;> cases hasRange <;> cases hasSel <;>
    cases hasCols <;> simp [savePlan, targetShouldBeSaved, SaveWhen.toNat] at h ⊢

theorem savePlan_stored_is_loaded (sw : SaveWhen) (isTarget inSave hasRange hasSel hasCols : Bool) :
    savePlan true sw isTarget inSave hasRange hasSel hasCols = .ok .load := rfl

/-- a time range on data that is not stored and would be saved by default is refused -/
theorem savePlan_range_on_missing_data_refused (sw : SaveWhen) (isTarget inSave hasSel hasCols : Bool)
    (h : sw = .target ∨ sw = .always) :
    savePlan false sw isTarget inSave true hasSel hasCols = .error .dataNotAvailable := by
  rcases h with rfl | rfl <;> rfl

example : savePlan false .always true false false false false = .ok .computeSave := rfl

end Strax.C10
