import StraxModel.Model.Basic
namespace Strax.C10
open Strax

end Strax.C10
