import StraxModel.Lemmas.OverlapPC
import StraxModel.Lemmas.OverlapMulti
import StraxModel.Lemmas.OverlapGroups
import StraxModel.Lemmas.OverlapDecl
import StraxModel.Generated.OverlapWindow
/-
  Property C09 — overlap-window plugins give chunking-independent results at chunk boundaries.

  Model: `Strax.Overlap` (Model/Overlap.lean): `OverlapWindowPlugin.do_compute` / `cache_beyond` /
  `iter` and `Plugin.iter` for one dependency.  `runOverlap f (wl, wr) chunks` is the list of chunks a
  single-output plugin with computation `f` and window `(wl, wr)` yields (the last one is the final
  flush of the withheld results); `runOverlapMulti` is the multi-output counterpart.
  Only property theorems and non-vacuity examples live here; the work is in
  Lemmas/Overlap.lean (per-row step, contiguity, alignment), Lemmas/OverlapPC.lean (partial correctness
  for arbitrary annotations, for C01), Lemmas/OverlapMulti.lean (multi-output), Lemmas/OverlapGroups.lean
  (group-forming computations).

  Naming.  Full-strength statements: `overlap_whole` (single output, per-row or group-forming),
  `overlap_whole_groups`, `overlap_whole_gap`, `overlap_contiguous`, `multi_output_aligned`,
  `overlap_rows_shift`, `vocab_overlap_windowLocal`.  `…_partial`: cover one kind of computation only
  (per-row) and / or only one half (partial correctness without totality): the three per-row
  theorems of §1, `step_invariant_partial`, the multi-output theorems of §5, the two pipeline
  theorems of §8.  `…_witness` / `…_counterexample`: concrete instances.
-/
namespace Strax.C09
open Strax Strax.Overlap

/-! ## vocabulary -/

/-- `f` is a per-row, interval-preserving computation whose output for a row `r` depends only on `r`
and on the rows `n` with `n.endt > r.time − wl ∧ n.time < r.endt + wr` (in their order): there is a
kernel `g` such that `f rows = [g r (rows near r) | r ∈ rows]` for every list of rows of positive
duration (the laws of chunking exclude zero-duration rows, so nothing is asked of `f` on them). -/
def WindowLocal (f : List Row → List Row) (wl wr : Int) : Prop :=
  ∃ g : Row → List Row → Row, (∀ r ctx, (g r ctx).time = r.time ∧ (g r ctx).endt = r.endt) ∧
    ∀ rows, PositiveRows rows → f rows = rows.map (fun r => g r (rows.filter (near wl wr r)))

/-- counting the neighbours within the window is window-local … -/
theorem count_windowLocal_witness (wl wr : Int) : WindowLocal (fCount wl wr) wl wr :=
  ⟨gCount, fun _ _ => ⟨rfl, rfl⟩, fun _ _ => rfl⟩

/-- … and so are summing their ids and the identity -/
theorem sum_windowLocal_witness (wl wr : Int) : WindowLocal (fSum wl wr) wl wr :=
  ⟨gSum, fun _ _ => ⟨rfl, rfl⟩, fun _ _ => rfl⟩

theorem ident_windowLocal_witness (wl wr : Int) : WindowLocal fIdent wl wr :=
  ⟨fun r _ => r, fun _ _ => ⟨rfl, rfl⟩, fun rows _ => by simp [fIdent]⟩

/-- a run of five disjoint rows in four chunks, two of them shorter than the window, one empty -/
def exampleRun : List Chunk :=
  [ ⟨"d0", "k0", some "0", 0, 4, [⟨0, 2, 0⟩, ⟨3, 4, 1⟩], none, [⟨"0", 0, 4⟩], 1000⟩,
    ⟨"d0", "k0", some "0", 4, 6, [⟨4, 6, 2⟩], none, [⟨"0", 4, 6⟩], 1000⟩,
    ⟨"d0", "k0", some "0", 6, 6, [], none, [⟨"0", 6, 6⟩], 1000⟩,
    ⟨"d0", "k0", some "0", 6, 20, [⟨7, 15, 3⟩, ⟨18, 19, 4⟩], none, [⟨"0", 6, 20⟩], 1000⟩ ]

/-- the hypothesis `Stream` is satisfiable by a non-trivial chunking -/
example : Stream exampleRun := by decide

/-- what the model yields on it (`[start, end)` and output ids of every chunk; window (2, 1), neighbour
count): five chunks, the first and third empty, the last one the final flush — evaluated by the
kernel, and identical to what the real plugin yields (corpus of checks/props/c09.py) -/
def showRun (r : Except Err (List Chunk)) : Option (List (Int × Int × List Nat)) :=
  match r with
  | .ok outs => some (outs.map (fun c => (c.start, c.stop, ids c.rows)))
  | .error _ => none

example : (showRun (runOverlap (fCount 2 1) (2, 1) exampleRun) ==
    some [(0, 0, []), (0, 3, [1]), (3, 3, []), (3, 17, [1003, 2002, 3002]), (17, 20, [4001])]) = true := by
  decide +kernel

/-! ## 1. chunking independence

Full statement (DESIGN §6): for every computation that is local within the declared window,

    Stream cs → LocalWithin f wl wr → 0 ≤ wl → 0 ≤ wr →
      ∃ outs, runOverlap f (wl, wr) cs = .ok outs ∧ allRows outs = f (allRows cs)

It is proved below as `overlap_whole` for both kinds of computations the property quantifies over:
per-row ones (`WindowLocal`, theorems `overlap_*_partial` of this section — "partial" only in that
each covers one kind) and group-forming ones (`GroupLocal`, §1b: one output row per group of input
rows, e.g. gap grouping).  What is NOT covered: group-forming computations that are not `GroupLocal`
(the id-parity pairing `fPair` of the harness has not been shown to be one — its cuts depend on
the parity of ids, not only on the distance of neighbours), and multi-output plugins with
group-forming outputs (§6: totality is false there).  These stay with the correspondence and the
oracle of checks/props/c09.py.

`Stream cs` (decidable): at least one chunk; every chunk an ordinary chunk of the same data type,
kind and run with `0 ≤ start ≤ end` and every row of positive duration inside it; consecutive
chunks adjacent; the rows of the whole run pairwise disjoint in order.  The proofs use the
disjointness only through "sorted by time". -/

/-- totality: on a law-abiding chunking of disjoint rows a window-local per-row plugin never raises -/
theorem overlap_total_partial (f : List Row → List Row) (wl wr : Int) (cs : List Chunk)
    (hs : Stream cs) (hf : WindowLocal f wl wr) (hwl : 0 ≤ wl) (hwr : 0 ≤ wr) :
    ∃ outs, runOverlap f (wl, wr) cs = .ok outs := by
  obtain ⟨g, hg, hfg⟩ := hf
  obtain ⟨outs, h, -⟩ := runOverlap_whole (g := g) hg hfg hwl hwr hs
  exact ⟨outs, h⟩

/-- partial correctness: whatever chunking the input came in, the concatenated output (final flush
included) is the output of one computation over the whole run: nothing lost, duplicated, reordered
or computed from incomplete neighbours -/
theorem overlap_whole_partial (f : List Row → List Row) (wl wr : Int) (cs outs : List Chunk)
    (hs : Stream cs) (hf : WindowLocal f wl wr)
    (h : runOverlap f (wl, wr) cs = .ok outs) : allRows outs = f (allRows cs) := by
  obtain ⟨g, hg, hfg⟩ := hf
  -- a negative window is rejected by the model, so success implies `0 ≤ wl, wr`
  have hw : 0 ≤ wl ∧ 0 ≤ wr := runOverlap_ok_nonneg h
  obtain ⟨outs', h', hrows⟩ := runOverlap_whole (g := g) hg hfg hw.1 hw.2 hs
  rw [h] at h'
  simp only [Except.ok.injEq] at h'
  subst h'
  exact hrows

/-- the two halves together -/
theorem overlap_whole_total_partial (f : List Row → List Row) (wl wr : Int) (cs : List Chunk)
    (hs : Stream cs) (hf : WindowLocal f wl wr) (hwl : 0 ≤ wl) (hwr : 0 ≤ wr) :
    ∃ outs, runOverlap f (wl, wr) cs = .ok outs ∧ allRows outs = f (allRows cs) := by
  obtain ⟨outs, h⟩ := overlap_total_partial f wl wr cs hs hf hwl hwr
  exact ⟨outs, h, overlap_whole_partial f wl wr cs outs hs hf h⟩

example : Stream exampleRun ∧ WindowLocal (fCount 2 1) 2 1 ∧ (0:Int) ≤ 2 ∧ (0:Int) ≤ 1 :=
  ⟨by decide, count_windowLocal_witness 2 1, by decide, by decide⟩

/-- on the example run the plugin yields chunks whose rows carry the whole-run neighbour counts
(row 1 sees rows 0, 1, 2 within the window (2, 1): id 1·1000 + 3) — the same the real plugin yields,
see the corpus of checks/props/c09.py -/
example : ∃ outs, runOverlap (fCount 2 1) (2, 1) exampleRun = .ok outs ∧
    ids (allRows outs) = [1, 1003, 2002, 3002, 4001] := by
  obtain ⟨outs, h, hr⟩ := overlap_whole_total_partial (fCount 2 1) 2 1 exampleRun (by decide)
    (count_windowLocal_witness 2 1) (by decide) (by decide)
  exact ⟨outs, h, by rw [hr]; decide⟩


/-! ## 1b. group-forming computations

`GroupLocal f w` (Lemmas/OverlapGroups.lean): there is a notion of *cut* between a list of rows and
the rows after it, decided by the last row before and the first row after and granted whenever
these are more than `w` apart, such that `f` treats the two sides of a cut independently, every
place where `f`'s output can be cut comes from a cut of the input (no group straddles it), and the
output rows stay inside the time bounds of the input rows.  For such an `f` with `w ≤ 2·wr` — in
particular `w ≤` the look-ahead — and ANY look-back `wl ≥ 0` the plugin is total and chunking
independent: `sent_until` is always a cut of the run, so nothing left of it can matter. -/

theorem overlap_whole_groups (f : List Row → List Row) (w wl wr : Int) (GL : GroupLocal f w) (cs : List Chunk)
    (hs : Stream cs) (hwl : 0 ≤ wl) (hwr : 0 ≤ wr) (hw : w ≤ 2 * wr) :
    ∃ outs, runOverlap f (wl, wr) cs = .ok outs ∧ allRows outs = f (allRows cs) :=
  runOverlap_group_whole GL hwl hwr hw hs

/-- gap grouping — the group-forming computation of the harness — is local within its gap … -/
def gap_groupLocal (g : Int) : GroupLocal (fGap g) g := fGap_groupLocal g

/-- … hence chunking independent for every gap up to twice the look-ahead window -/
theorem overlap_whole_gap (g wl wr : Int) (cs : List Chunk) (hs : Stream cs)
    (hwl : 0 ≤ wl) (hwr : 0 ≤ wr) (hg : g ≤ 2 * wr) :
    ∃ outs, runOverlap (fGap g) (wl, wr) cs = .ok outs ∧ allRows outs = fGap g (allRows cs) :=
  runOverlap_gap_whole hwl hwr hg hs

/-- on the example run: rows 0–3 (gaps 1, 0, 1) form one group, row 4 (gap 3) its own -/
example : ∃ outs, runOverlap (fGap 1) (0, 1) exampleRun = .ok outs ∧ ids (allRows outs) = [4, 401] := by
  obtain ⟨outs, h, hr⟩ := overlap_whole_gap 1 0 1 exampleRun (by decide) (by decide) (by decide) (by decide)
  exact ⟨outs, h, by rw [hr]; decide⟩

/-- local within the declared window, one way or the other -/
def LocalWithin (f : List Row → List Row) (wl wr : Int) : Prop :=
  WindowLocal f wl wr ∨ ∃ w, w ≤ 2 * wr ∧ Nonempty (GroupLocal f w)

/-- **C09, the full statement for single-output plugins** -/
theorem overlap_whole (f : List Row → List Row) (wl wr : Int) (cs : List Chunk)
    (hs : Stream cs) (hf : LocalWithin f wl wr) (hwl : 0 ≤ wl) (hwr : 0 ≤ wr) :
    ∃ outs, runOverlap f (wl, wr) cs = .ok outs ∧ allRows outs = f (allRows cs) := by
  rcases hf with hf | ⟨w, hw, ⟨GL⟩⟩
  · exact overlap_whole_total_partial f wl wr cs hs hf hwl hwr
  · exact overlap_whole_groups f w wl wr GL cs hs hwl hwr hw

/-! ## 2. the key invariant of one call

`S2 ++ P` are the rows of the input cache (`S2`: results sent, ending by `sent_until = s`; `P`:
results pending, starting from `s` on), `X` the new chunk.  The call succeeds, sends the results
of `Qo` and withholds those of `Qc` (`P ++ X.rows = Qo ++ Qc`); every sent row starts at or after the
previous `sent_until` and ends by `invalid_beyond = X.stop − 2·wr − 1`, and is computed in a batch
that contains every row within its window: on the left the cache only ever dropped rows `D2`
ending by `sent_until − 2·wl − 1`, on the right unseen rows start at or after `X.stop`. -/
theorem step_invariant_partial (g : Row → List Row → Row) (hg : ∀ r ctx, (g r ctx).time = r.time ∧ (g r ctx).endt = r.endt)
    (wl wr : Int) (hwl : 0 ≤ wl) (hwr : 0 ≤ wr) (rid : String) (o X : Chunk) (s : Int) (S2 P : List Row)
    (hX : X.good = true) (hXr : X.runId = some rid) (ho : o.good = true) (hod : o.dataType = X.dataType)
    (hor : o.runId = some rid) (hadj : o.stop = X.start) (hrows : o.rows = S2 ++ P) (hs1 : o.start ≤ s) (hs2 : s ≤ o.stop)
    (hS2 : ∀ r ∈ S2, r.endt ≤ s) (hP : ∀ r ∈ P, s ≤ r.time) :
    ∃ out cr ci Qo Qc D2 S2',
      step1 (perRow wl wr g) (wl, wr) rid (some o) s X = .ok (out, cr, ci) ∧
      P ++ X.rows = Qo ++ Qc ∧
      out.rows = Qo.map (fun r => g r ((S2 ++ P ++ X.rows).filter (near wl wr r))) ∧
      cr.rows = Qc.map (fun r => g r ((S2 ++ P ++ X.rows).filter (near wl wr r))) ∧
      (∀ r ∈ Qo, s ≤ r.time ∧ r.endt ≤ X.stop - 2 * wr - 1) ∧
      S2 ++ Qo = D2 ++ S2' ∧ ci.rows = S2' ++ Qc ∧
      (∀ n ∈ D2, n.endt ≤ cr.start - 2 * wl - 1) ∧ (∀ r ∈ S2', r.endt ≤ cr.start) ∧ (∀ r ∈ Qc, cr.start ≤ r.time) ∧
      s ≤ cr.start := by
  obtain ⟨out, cr, ci, Qo, Qc, D2, S2', h1, h2, h3, h4, h5, h6, -, -, -, -, -, -, h7, h8, h9, h10, h11, h12⟩ :=
    step1_good (g := g) hg (f := perRow wl wr g) (fun _ _ => rfl) hwl hwr (old := some o) (s := s) (S2 := S2) (P := P) hX hXr
      (Or.inr ⟨o, rfl, ho, hod, hor, hadj, hrows, hs1, hs2⟩) hS2 hP
  exact ⟨out, cr, ci, Qo, Qc, D2, S2', h1, h2, h3, h4,
    fun r hr => ⟨h6 r (by simp [hr]), h5 r hr⟩, h8, h9, h10, h11, h12, h7⟩

/-! ## 3. contiguity, for ALL inputs

Whatever the input chunks and the computation are (no law, no locality needed): if the plugin
yields `outs`, these tile the run — the first starts where the first input chunk starts, each
starts where its predecessor ended, the last (the final flush) ends where the last input chunk
ends; and there is exactly one output chunk per input chunk plus the final flush.  The only
hypothesis is that every input chunk has `start ≤ end`, which `Chunk.__init__` guarantees. -/
theorem overlap_contiguous (f : List Row → List Row) (w : Int × Int) (cs outs : List Chunk)
    (hr : ∀ c ∈ cs, c.start ≤ c.stop) (h : runOverlap f w cs = .ok outs) :
    ∃ c0 cl, cs.head? = some c0 ∧ cs.getLast? = some cl ∧ Tiles c0.start cl.stop outs ∧
      outs.length = cs.length + 1 :=
  runOverlap_tiles hr h

example : (∀ c ∈ exampleRun, c.start ≤ c.stop) ∧
    ∃ outs, runOverlap (fCount 2 1) (2, 1) exampleRun = .ok outs ∧ Tiles 0 20 outs ∧ outs.length = 5 := by
  refine ⟨by decide, ?_⟩
  obtain ⟨outs, h⟩ := overlap_total_partial (fCount 2 1) 2 1 exampleRun (by decide) (count_windowLocal_witness 2 1)
    (by decide) (by decide)
  obtain ⟨c0, cl, h0, hl, ht, hlen⟩ := overlap_contiguous _ _ _ outs (by decide) h
  simp only [exampleRun, List.head?_cons, Option.some.injEq] at h0
  subst h0
  simp only [exampleRun, List.getLast?_cons_cons, List.getLast?_singleton, Option.some.injEq] at hl
  subst hl
  exact ⟨outs, h, ht, hlen⟩

/-! ## 4. multi-output plugins: mutually aligned outputs, for ALL inputs

Whatever the input chunks and the computations are: every result a multi-output plugin yields —
each regular one and the final flush — is a dict whose chunks share one `[start, end)`.  The
only hypothesis is that the provided data types are pairwise different (they are the keys of a
Python dict).  (The starts of the withheld chunks are equal because `do_compute` checks it after
`cache_beyond`; the theorem shows that this check, together with splitting every output at the
one agreed time, is enough for the sent chunks too, and that nothing stale survives in
`cached_results`.) -/
theorem multi_output_aligned (fs : List (String × String × (List Row → List Row))) (w : Int × Int)
    (cs : List Chunk) (ds : List (Dict Chunk)) (hnd : (fs.map (·.1)).Nodup)
    (h : runOverlapMulti fs w cs = .ok ds) :
    ∀ d ∈ ds, ∀ p ∈ d, ∀ q ∈ d, p.2.start = q.2.start ∧ p.2.stop = q.2.stop := by
  unfold runOverlapMulti at h
  split at h; · cases h
  split at h; · cases h
  rename_i rid _
  have hn : ((specN fs w rid).provides.map (·.1)) = fs.map (·.1) := by
    simp [specN, List.map_map, Function.comp_def]
  exact runDicts_multi (P := specN fs w rid) rfl (by rw [hn]; exact hnd) h

/-- two outputs (neighbour count per row, gap groups) are pairwise different data types -/
example : ((([("cnt", "k1", fCount 2 2), ("grp", "k2", fGap 2)] :
    List (String × String × (List Row → List Row))).map (·.1))).Nodup := by decide

/-! ## 5. multi-output plugins: chunking independence, totality and contiguity

The three theorems of this section are named `_partial` because they cover multi-output plugins
whose outputs are all per-row window-local; multi-output plugins with group-forming outputs are in
the property's quantifier too, and for them totality is false (§6).

All outputs per-row window-local.  Every output then carries the intervals of the input rows, so
all outputs admit exactly the same split times as the input itself (`split_map`): the first trial
of `cache_beyond` finds the common split time, the "start time inconsistency" check passes, and
each output is what a single-output plugin would yield.  This is the hypothesis that excludes
the ten-trial give-up: no output invents intervals of its own, so outputs cannot interlock. -/

/-- the chunks yielded under the output name `k`, in order, final flush included -/
abbrev outputOf := @Overlap.outputOf

theorem multi_overlap_whole_partial (fs : List (String × String × (List Row → List Row))) (wl wr : Int) (cs : List Chunk)
    (hs : Stream cs) (hne : fs ≠ []) (hnd : (fs.map (·.1)).Nodup)
    (hf : ∀ p ∈ fs, WindowLocal p.2.2 wl wr) (hwl : 0 ≤ wl) (hwr : 0 ≤ wr) :
    ∃ ds, runOverlapMulti fs (wl, wr) cs = .ok ds ∧ ds.length = cs.length + 1 ∧
      ∀ p ∈ fs, (outputOf p.1 ds).length = ds.length ∧ allRows (outputOf p.1 ds) = p.2.2 (allRows cs) := by
  obtain ⟨G, hG⟩ := kernels_by_name (wl := wl) (wr := wr) hnd (fun p hp => hf p hp)
  obtain ⟨ds, h1, h2, h3⟩ := runOverlapMulti_whole hne hnd hG hwl hwr hs
  exact ⟨ds, h1, h2, fun p hp => ⟨(h3 p hp).1, (h3 p hp).2.1⟩⟩

/-- totality alone ("partial": per-row outputs only; for group-forming outputs it is false, §6) -/
theorem multi_overlap_total_partial (fs : List (String × String × (List Row → List Row))) (wl wr : Int) (cs : List Chunk)
    (hs : Stream cs) (hne : fs ≠ []) (hnd : (fs.map (·.1)).Nodup)
    (hf : ∀ p ∈ fs, WindowLocal p.2.2 wl wr) (hwl : 0 ≤ wl) (hwr : 0 ≤ wr) :
    ∃ ds, runOverlapMulti fs (wl, wr) cs = .ok ds := by
  obtain ⟨ds, h, -⟩ := multi_overlap_whole_partial fs wl wr cs hs hne hnd hf hwl hwr
  exact ⟨ds, h⟩

/-- contiguity of a multi-output plugin ("partial": per-row outputs): the chunks yielded under
every output name tile the run — the first starts where the first input chunk starts, each starts
where its predecessor ended, the final flush ends where the last input chunk ends — one chunk per
yielded dict; together with `multi_output_aligned` (all chunks of one dict share one range, for all
inputs) this is "contiguous and mutually aligned at every step" -/
theorem multi_output_contiguous_partial (fs : List (String × String × (List Row → List Row))) (wl wr : Int)
    (cs : List Chunk) (hs : Stream cs) (hne : fs ≠ []) (hnd : (fs.map (·.1)).Nodup)
    (hf : ∀ p ∈ fs, WindowLocal p.2.2 wl wr) (hwl : 0 ≤ wl) (hwr : 0 ≤ wr) :
    ∃ ds c0 cl, runOverlapMulti fs (wl, wr) cs = .ok ds ∧ cs.head? = some c0 ∧ cs.getLast? = some cl ∧
      ∀ p ∈ fs, (outputOf p.1 ds).length = ds.length ∧ Tiles c0.start cl.stop (outputOf p.1 ds) := by
  obtain ⟨G, hG⟩ := kernels_by_name (wl := wl) (wr := wr) hnd (fun p hp => hf p hp)
  obtain ⟨ds, h1, h2, h3⟩ := runOverlapMulti_whole hne hnd hG hwl hwr hs
  obtain ⟨p0, hp0⟩ := List.exists_mem_of_ne_nil fs hne
  obtain ⟨-, -, c0, cl, hc0, hcl, -⟩ := h3 p0 hp0
  refine ⟨ds, c0, cl, h1, hc0, hcl, ?_⟩
  intro p hp
  obtain ⟨hl, -, c0', cl', hc0', hcl', ht⟩ := h3 p hp
  rw [hc0] at hc0'; rw [hcl] at hcl'
  simp only [Option.some.injEq] at hc0' hcl'
  subst hc0' hcl'
  exact ⟨hl, ht⟩

example : ([("cnt", "k1", fCount 2 1), ("sum", "k2", fSum 2 1)] : List (String × String × (List Row → List Row))) ≠ [] ∧
    (∀ p ∈ ([("cnt", "k1", fCount 2 1), ("sum", "k2", fSum 2 1)] : List (String × String × (List Row → List Row))),
      WindowLocal p.2.2 2 1) := by
  refine ⟨by simp, ?_⟩
  intro p hp
  simp only [List.mem_cons, List.not_mem_nil, or_false] at hp
  rcases hp with rfl | rfl
  · exact count_windowLocal_witness 2 1
  · exact sum_windowLocal_witness 2 1

/-! ## 6. where totality ends: the ten trials of `cache_beyond`

Without the hypothesis of §5 the plugin-does-not-fail half is false.  Two group-forming outputs
that interlock like bricks — pairs (0,1),(2,3),… against (1,2),(3,4),… — over 24 touching rows in
ONE chunk: the run is a `Stream`, the window (0, 0) is legal, the output names differ, both
computations are local (each group is two adjacent rows), yet the model answers `ValueError`
("Buffer start time inconsistency cannot be resolved after 10 tries"); with 20 rows it succeeds.
Checked by the kernel; the real plugin does the same (component `iter/ten-trials` of
checks/props/c09.py; open finding `C09-ten-trials`, same family as D9). -/

def brickRun (n : Nat) : List Chunk :=
  [⟨"d0", "k0", some "0", 0, n, (List.range n).map (fun (i : Nat) => (⟨(i : Int), (i : Int) + 1, i⟩ : Row)), none,
    [⟨"0", 0, n⟩], 1000⟩]

def failsWith (r : Except Err (List (Dict Chunk))) (e : Err) : Bool :=
  match r with
  | .error e' => e' == e
  | .ok _ => false

theorem ten_trials_counterexample :
    Stream (brickRun 24) ∧
    failsWith (runOverlapMulti [("even", "ke", fPair 0 0), ("odd", "ko", fPair 1 0)] (0, 0) (brickRun 24)) .valueError = true ∧
    (runOverlapMulti [("even", "ke", fPair 0 0), ("odd", "ko", fPair 1 0)] (0, 0) (brickRun 20)).isOk = true := by
  refine ⟨by decide +kernel, by decide +kernel, by decide +kernel⟩

/-! ## 7. absolute time does not matter

All theorems above quantify over unbounded `Int` times: they hold verbatim at ns-since-epoch scale
(1.7·10¹⁸) — what has to be tied there is the implementation's arithmetic (component `iter/epoch`).
The model itself is not literally translation invariant (`split_array` starts its scan with
`latest_end_seen = -1`, `Chunk.__init__` demands `start ≥ 0`, `sent_until` starts at 0 — all absolute),
but on law-abiding runs moved to a LATER time its output rows move along: -/
theorem overlap_rows_shift (f : List Row → List Row) (wl wr : Int) (cs outs outs' : List Chunk) (d : Int)
    (hs : Stream cs) (hf : LocalWithin f wl wr) (hwl : 0 ≤ wl) (hwr : 0 ≤ wr) (hd : 0 ≤ d)
    (hequi : ∀ rows, f (rows.map (shiftRow d)) = (f rows).map (shiftRow d))
    (h : runOverlap f (wl, wr) cs = .ok outs) (h' : runOverlap f (wl, wr) (cs.map (shiftChunk d)) = .ok outs') :
    allRows outs' = (allRows outs).map (shiftRow d) := by
  obtain ⟨o1, h1, r1⟩ := overlap_whole f wl wr cs hs hf hwl hwr
  obtain ⟨o2, h2, r2⟩ := overlap_whole f wl wr _ (stream_shift hd hs) hf hwl hwr
  rw [h] at h1; rw [h'] at h2
  simp only [Except.ok.injEq] at h1 h2
  subst h1 h2
  rw [r2, r1, allRows_shift, hequi]

/-! ## 8. the form the pipeline layer consumes (property C01)

`Strax.Pipeline.StreamSpec ov w` (Model/Pipeline.lean) is the layer theorem C01's `overlap_hom_partial`
takes as a hypothesis: for every stream `s` over `R` obeying the laws of chunking *in the pipeline's
sense* — `start ≤ stop`, rows of positive duration inside their chunk and sorted, consecutive chunks
adjacent; nothing is assumed about data types, run ids, subrun and superrun annotations, targets or the
sign of `start` — `ov s = ok out` implies that `out` obeys the laws, covers the same `R` and has
rows `w (rows s)`.  Proved here for every window-local per-row computation (partial correctness
for arbitrary annotations: Lemmas/OverlapPC.lean), and instantiated for the overlap-window kind of
C01's harness vocabulary.  `_partial`: `StreamSpec` is a partial-correctness statement (totality is
`overlap_total_partial`) and only per-row computations are covered. -/
theorem overlap_whole_for_pipeline_partial (f : List Row → List Row) (wl wr : Int) (hf : WindowLocal f wl wr) :
    Pipeline.StreamSpec (runOverlap f (wl, wr)) f := by
  obtain ⟨g, hg, hfg⟩ := hf
  exact runOverlap_streamSpec (g := g) hg hfg

/-- the neighbour count of C01's vocabulary (`|x.time − r.time| ≤ w`) is window-local for the
symmetric window `w`: a row that close starts before `r.endt + w` and, being of positive duration,
ends after `r.time − w` -/
theorem vocab_overlap_windowLocal (w : Nat) :
    WindowLocal (fun x => x.map (Pipeline.Vocab.overlapId w x)) w w := by
  refine ⟨fun r ctx => Pipeline.Vocab.overlapId w ctx r, fun _ _ => ⟨rfl, rfl⟩, ?_⟩
  intro rows hpos
  apply List.map_congr_left
  intro r hr
  simp only [Pipeline.Vocab.overlapId, Pipeline.Vocab.nearCount, List.filter_filter]
  congr 4
  apply List.filter_congr
  intro x hx
  have hx' := hpos x hx
  have hr' := hpos r hr
  by_cases hc : (x.time - r.time).natAbs ≤ w
  · have : near (↑w) (↑w) r x = true := by
      simp only [near, Bool.and_eq_true, decide_eq_true_eq]
      omega
    simp [hc, this]
  · simp [hc]

/-- exactly the hypothesis `hov` of C01's `vocab_content_partial` / `kernelOf_hom_overlap`
(`Vocab.overlapWhole w` of Lemmas/PipelineVocab.lean is, by definition, the function written out here) -/
theorem overlap_vocab_for_pipeline_partial (w : Nat) :
    Pipeline.StreamSpec (runOverlap (fun x => x.map (Pipeline.Vocab.overlapId w x)) ((w : Int), (w : Int)))
      (fun x => x.map (Pipeline.Vocab.overlapId w x)) :=
  overlap_whole_for_pipeline_partial _ _ _ (vocab_overlap_windowLocal w)

/-! ## 9. round 5: the two halves at full strength, every form of the declared window, the translator tie

### 9a. the halves of `overlap_whole` for the whole quantifier (per-row AND group-forming computations) -/

/-- for ALL inputs (no law, no locality): a run that succeeded had a non-negative window — the tuple form of
`get_window_size()` is rejected before anything is computed when an element is negative -/
theorem overlap_ok_window_nonneg (f : List Row → List Row) (wl wr : Int) (cs outs : List Chunk)
    (h : runOverlap f (wl, wr) cs = .ok outs) : 0 ≤ wl ∧ 0 ≤ wr :=
  runOverlap_ok_nonneg h

/-- totality, full quantifier: any computation local within the window (per-row or group-forming), any window
`(wl, wr)` with `0 ≤ wl, wr` — zero, one-sided and asymmetric ones included — any law-abiding chunking (chunks
shorter than the window, empty chunks) -/
theorem overlap_total (f : List Row → List Row) (wl wr : Int) (cs : List Chunk)
    (hs : Stream cs) (hf : LocalWithin f wl wr) (hwl : 0 ≤ wl) (hwr : 0 ≤ wr) :
    ∃ outs, runOverlap f (wl, wr) cs = .ok outs := by
  obtain ⟨outs, h, -⟩ := overlap_whole f wl wr cs hs hf hwl hwr
  exact ⟨outs, h⟩

/-- partial correctness, full quantifier, and WITHOUT the sign hypotheses: whatever the window, if the plugin
yielded `outs` on a law-abiding chunking then they concatenate to the whole-run computation -/
theorem overlap_whole_of_ok (f : List Row → List Row) (wl wr : Int) (cs outs : List Chunk)
    (hs : Stream cs) (hf : LocalWithin f wl wr) (h : runOverlap f (wl, wr) cs = .ok outs) :
    allRows outs = f (allRows cs) := by
  obtain ⟨hwl, hwr⟩ := overlap_ok_window_nonneg f wl wr cs outs h
  obtain ⟨outs', h', hr⟩ := overlap_whole f wl wr cs hs hf hwl hwr
  rw [h] at h'
  simp only [Except.ok.injEq] at h'
  subst h'
  exact hr

example : LocalWithin (fGap 1) 0 1 := Or.inr ⟨1, by decide, ⟨gap_groupLocal 1⟩⟩

/-- the key invariant of one call for GROUP-FORMING computations (sibling of `step_invariant_partial`, which covers
the per-row kind; together they cover `LocalWithin`).  `old` = the input cache (rows `S2 ++ P`: results sent / pending),
`s = sent_until` a cut of the run (`GL.Cut S2 P`), every sent row ended `2·wr + 1` before the new chunk `X` starts.
Then the call succeeds, sends `f Qo`, withholds `f Qc` (`P ++ X.rows = Qo ++ Qc`, again a cut), every row of `Qo`
ends by `invalid_beyond`, and the new cache `S2' ++ Qc` keeps the cut. -/
theorem step_invariant_groups (f : List Row → List Row) (w wl wr : Int) (GL : GroupLocal f w) (hwl : 0 ≤ wl) (hwr : 0 ≤ wr)
    (hw : w ≤ 2 * wr) (rid : String) (o X : Chunk) (s : Int) (S2 P : List Row)
    (hX : X.good = true) (hXr : X.runId = some rid) (ho : o.good = true) (hod : o.dataType = X.dataType)
    (hor : o.runId = some rid) (hadj : o.stop = X.start) (hrows : o.rows = S2 ++ P) (hs1 : o.start ≤ s) (hs2 : s ≤ o.stop)
    (hS2 : ∀ r ∈ S2, r.endt ≤ s) (hP : ∀ r ∈ P, s ≤ r.time)
    (hsent : ∀ r ∈ S2, r.endt ≤ X.start - 2 * wr - 1) (hcut : GL.Cut S2 P) :
    ∃ out cr ci Qo Qc D2 S2',
      step1 f (wl, wr) rid (some o) s X = .ok (out, cr, ci) ∧
      P ++ X.rows = Qo ++ Qc ∧ out.rows = f Qo ∧ cr.rows = f Qc ∧ GL.Cut Qo Qc ∧
      (∀ r ∈ Qo, r.endt ≤ Generated.OverlapWindow.invalidBeyond X.stop wl wr) ∧
      S2 ++ Qo = D2 ++ S2' ∧ ci.rows = S2' ++ Qc ∧ (∀ r ∈ S2', r.endt ≤ cr.start) ∧
      (∀ r ∈ Qc, cr.start ≤ r.time) ∧ GL.Cut S2' Qc := by
  obtain ⟨out, cr, ci, Qo, Qc, D2, S2', h1, h2, h3, h4, h5, h6, -, -, -, -, -, -, h7, h8, h9, h10, h11⟩ :=
    step1_gap GL hwl hwr hw (rid := rid) (old := some o) (s := s) (X := X) (S2 := S2) (P := P) hX hXr
      (Or.inr ⟨o, rfl, ho, hod, hor, hadj, hrows, hs1, hs2⟩) hS2 hP hsent hcut
  refine ⟨out, cr, ci, Qo, Qc, D2, S2', h1, h2, h3, h4, h5, ?_, h7, h8, h9, h10, h11⟩
  intro r hr
  have := h6 r hr
  unfold Generated.OverlapWindow.invalidBeyond
  omega

/-! ### 9b. the translator tie (`Generated/OverlapWindow.lean`, regenerated by `checks/props/c09.py:regen` from the
Python AST of `/repo/strax/plugins/overlap_window_plugin.py` on every run)

Each definition below is what the SOURCE says now; each theorem says it is what the MODEL uses.  A change of
`_get_window_size`, of the `invalid_beyond` / `cache_inputs_beyond` formulas, of `max_trials` or of the initial
`sent_until` breaks one of these proofs (or the translation), and the check then searches for a failing input. -/

/-- `_get_window_size`: number → `(w, w)` unchecked; tuple / list of two → `ValueError` iff an element is negative;
anything else → `ValueError` — the source's function IS the model's `windowOf` + the test of `doCompute` -/
theorem generated_window_eq_model : Generated.OverlapWindow.getWindowSize = windowResult := by
  funext d
  cases d with
  | scalar w => rw [windowResult_scalar]; simp [Generated.OverlapWindow.getWindowSize, pure, Except.pure]
  | pair a b =>
    rw [windowResult_pair]
    by_cases ha : a < 0 <;> by_cases hb : b < 0 <;>
      simp [Generated.OverlapWindow.getWindowSize, pure, Except.pure, throw, throwThe, MonadExceptOf.throw, ha, hb]
  | other => rw [windowResult_other]; simp [Generated.OverlapWindow.getWindowSize, throw, throwThe, MonadExceptOf.throw]

/-- `invalid_beyond = int(end − 2·window_size[1] − 1)` is the split time of the model (`step1` / `doCompute`) -/
theorem generated_invalid_beyond_eq_model (e wl wr : Int) :
    Generated.OverlapWindow.invalidBeyond e wl wr = invalidBeyond e wr := by
  unfold Generated.OverlapWindow.invalidBeyond invalidBeyond
  omega

/-- `cache_inputs_beyond = int(sent_until − 2·window_size[0] − 1)` is the split time of the model's input cache -/
theorem generated_cache_inputs_beyond_eq_model (s wl wr : Int) :
    Generated.OverlapWindow.cacheInputsBeyond s wl wr = cacheInputsBeyond s wl := by
  unfold Generated.OverlapWindow.cacheInputsBeyond cacheInputsBeyond
  omega

/-- `max_trials = 10` is the fuel of the model's `cacheBeyond` (the constant behind `ten_trials_counterexample`) -/
theorem generated_max_trials_eq_model : Generated.OverlapWindow.maxTrials = Overlap.maxTrials := by decide

/-- `self.sent_until = 0` in `__init__` is the model's initial state -/
theorem generated_sent_until_init_eq_model : Generated.OverlapWindow.sentUntilInit = State.init.sentUntil := by decide

/-- what a successful call of the model did, over the GENERATED formulas: the results were split at the source's
`invalid_beyond` of the batch end, the input batch at the source's `cache_inputs_beyond` of the new `sent_until` -/
theorem step_boundaries_generated (f : List Row → List Row) (w : Int × Int) (rid : String) (old : Option Chunk) (s : Int)
    (X out cr ci : Chunk) (h : step1 f w rid old s X = .ok (out, cr, ci)) :
    ∃ (I R' i0 : Chunk),
      (match old with
         | none => Except.ok X
         | some o => concatenate [o, X] false) = .ok I ∧
      R'.split (Generated.OverlapWindow.invalidBeyond I.stop w.1 w.2) true = .ok (out, cr) ∧
      I.split (Generated.OverlapWindow.cacheInputsBeyond cr.start w.1 w.2) true = .ok (i0, ci) := by
  obtain ⟨I, R', i0, h1, h2, h3⟩ := step1_boundaries h
  exact ⟨I, R', i0, h1, by rw [generated_invalid_beyond_eq_model]; exact h2,
    by rw [generated_cache_inputs_beyond_eq_model]; exact h3⟩

/-- `step_invariant_partial` over the generated formulas (per-row kernels; the group-forming sibling is
`step_invariant_groups`): every sent row ends by the SOURCE's `invalid_beyond`, every input row dropped from the cache
ends by the SOURCE's `cache_inputs_beyond`, and that is enough for every sent row to have been computed with all rows
of its window in the batch -/
theorem step_invariant_generated_partial (g : Row → List Row → Row) (hg : ∀ r ctx, (g r ctx).time = r.time ∧ (g r ctx).endt = r.endt)
    (wl wr : Int) (hwl : 0 ≤ wl) (hwr : 0 ≤ wr) (rid : String) (o X : Chunk) (s : Int) (S2 P : List Row)
    (hX : X.good = true) (hXr : X.runId = some rid) (ho : o.good = true) (hod : o.dataType = X.dataType)
    (hor : o.runId = some rid) (hadj : o.stop = X.start) (hrows : o.rows = S2 ++ P) (hs1 : o.start ≤ s) (hs2 : s ≤ o.stop)
    (hS2 : ∀ r ∈ S2, r.endt ≤ s) (hP : ∀ r ∈ P, s ≤ r.time) :
    ∃ out cr ci Qo Qc D2 S2',
      step1 (perRow wl wr g) (wl, wr) rid (some o) s X = .ok (out, cr, ci) ∧
      P ++ X.rows = Qo ++ Qc ∧
      out.rows = Qo.map (fun r => g r ((S2 ++ P ++ X.rows).filter (near wl wr r))) ∧
      cr.rows = Qc.map (fun r => g r ((S2 ++ P ++ X.rows).filter (near wl wr r))) ∧
      (∀ r ∈ Qo, s ≤ r.time ∧ r.endt ≤ Generated.OverlapWindow.invalidBeyond X.stop wl wr) ∧
      S2 ++ Qo = D2 ++ S2' ∧ ci.rows = S2' ++ Qc ∧
      (∀ n ∈ D2, n.endt ≤ Generated.OverlapWindow.cacheInputsBeyond cr.start wl wr) := by
  obtain ⟨out, cr, ci, Qo, Qc, D2, S2', h1, h2, h3, h4, h5, h6, h7, h8, -⟩ :=
    step_invariant_partial g hg wl wr hwl hwr rid o X s S2 P hX hXr ho hod hor hadj hrows hs1 hs2 hS2 hP
  refine ⟨out, cr, ci, Qo, Qc, D2, S2', h1, h2, h3, h4, ?_, h6, h7, ?_⟩
  · intro r hr
    have := h5 r hr
    unfold Generated.OverlapWindow.invalidBeyond
    omega
  · intro n hn
    have := h8 n hn
    unfold Generated.OverlapWindow.cacheInputsBeyond
    omega

/-! ### 9c. every form `get_window_size()` may return

`runOverlapDecl f d` (Lemmas/OverlapDecl.lean; built like the driver op `c09.win`) runs the plugin whose
`get_window_size()` returns `d : WindowDecl` — a number (the documented primary form), a tuple or list of two, or
anything else.  **C09 for every declared form**: if the SOURCE's `_get_window_size` (generated) accepts `d` as `(wl, wr)`
and both are non-negative, the plugin is total and chunking independent for every computation local within `(wl, wr)`.
`0 ≤ wl`, `0 ≤ wr` exclude exactly the negative NUMBER, which the code accepts without a sign check (example below);
negative tuple elements and illegal forms are already excluded by `hd` (`getWindowSize` answers `ValueError`). -/
theorem overlap_whole_decl (f : List Row → List Row) (d : WindowDecl) (wl wr : Int) (cs : List Chunk)
    (hs : Stream cs) (hd : Generated.OverlapWindow.getWindowSize d = .ok (wl, wr)) (hf : LocalWithin f wl wr)
    (hwl : 0 ≤ wl) (hwr : 0 ≤ wr) :
    ∃ outs, runOverlapDecl f d cs = .ok outs ∧ allRows outs = f (allRows cs) := by
  rw [generated_window_eq_model] at hd
  rw [runOverlapDecl_eq f d wl wr cs hd hwl hwr]
  exact overlap_whole f wl wr cs hs hf hwl hwr

/-- the scalar form: `get_window_size() = 2` on the example run, neighbour count within (2, 2) -/
example : ∃ outs, runOverlapDecl (fCount 2 2) (.scalar 2) exampleRun = .ok outs ∧
    allRows outs = fCount 2 2 (allRows exampleRun) :=
  overlap_whole_decl (fCount 2 2) (.scalar 2) 2 2 exampleRun (by decide) (by decide)
    (Or.inl (count_windowLocal_witness 2 2)) (by decide) (by decide)

/-- the zero window and a one-sided (asymmetric) tuple are legal declarations -/
example : Generated.OverlapWindow.getWindowSize (.pair 0 0) = .ok (0, 0) ∧
    Generated.OverlapWindow.getWindowSize (.pair 0 7) = .ok (0, 7) := by decide

/-- what `hwl` / `hwr` exclude: a negative NUMBER passes `_get_window_size` (no sign check in the scalar branch),
whereas a negative tuple element and a three-element tuple are rejected -/
example : Generated.OverlapWindow.getWindowSize (.scalar (-1)) = .ok (-1, -1) ∧
    Generated.OverlapWindow.getWindowSize (.pair (-1) 3) = .error .valueError ∧
    Generated.OverlapWindow.getWindowSize .other = .error .valueError := by decide

end Strax.C09
