import StraxModel.Model.Basic
namespace Strax.C09
open Strax

end Strax.C09
