import StraxModel.Lemmas.OverlapPC
/-
  Property C09 — overlap-window plugins give chunking-independent results at chunk boundaries.

  Model: `Strax.Overlap` (Model/Overlap.lean): `OverlapWindowPlugin.do_compute` / `cache_beyond` /
  `iter` and `Plugin.iter` for one dependency.  `runOverlap f (wl, wr) chunks` is the list of chunks a
  single-output plugin with computation `f` and window `(wl, wr)` yields (the last one is the final
  flush of the withheld results); `runOverlapMulti` is the multi-output counterpart.
  Only property theorems and non-vacuity examples live here; the work is in Lemmas/Overlap.lean.
-/
namespace Strax.C09
open Strax Strax.Overlap

/-! ## vocabulary -/

/-- `f` is a per-row, interval-preserving computation whose output for a row `r` depends only on `r`
and on the rows `n` with `n.endt > r.time − wl ∧ n.time < r.endt + wr` (in their order): there is a
kernel `g` such that `f rows = [g r (rows near r) | r ∈ rows]` for every list of rows of positive
duration (the laws of chunking exclude zero-duration rows, so nothing is asked of `f` on them). -/
def WindowLocal (f : List Row → List Row) (wl wr : Int) : Prop :=
  ∃ g : Row → List Row → Row, (∀ r ctx, (g r ctx).time = r.time ∧ (g r ctx).endt = r.endt) ∧
    ∀ rows, PositiveRows rows → f rows = rows.map (fun r => g r (rows.filter (near wl wr r)))

/-- counting the neighbours within the window is window-local … -/
theorem count_windowLocal (wl wr : Int) : WindowLocal (fCount wl wr) wl wr :=
  ⟨gCount, fun _ _ => ⟨rfl, rfl⟩, fun _ _ => rfl⟩

/-- … and so are summing their ids and the identity -/
theorem sum_windowLocal (wl wr : Int) : WindowLocal (fSum wl wr) wl wr :=
  ⟨gSum, fun _ _ => ⟨rfl, rfl⟩, fun _ _ => rfl⟩

theorem ident_windowLocal (wl wr : Int) : WindowLocal fIdent wl wr :=
  ⟨fun r _ => r, fun _ _ => ⟨rfl, rfl⟩, fun rows _ => by simp [fIdent]⟩

/-- a run of five disjoint rows in four chunks, two of them shorter than the window, one empty -/
def exampleRun : List Chunk :=
  [ ⟨"d0", "k0", some "0", 0, 4, [⟨0, 2, 0⟩, ⟨3, 4, 1⟩], none, [⟨"0", 0, 4⟩], 1000⟩,
    ⟨"d0", "k0", some "0", 4, 6, [⟨4, 6, 2⟩], none, [⟨"0", 4, 6⟩], 1000⟩,
    ⟨"d0", "k0", some "0", 6, 6, [], none, [⟨"0", 6, 6⟩], 1000⟩,
    ⟨"d0", "k0", some "0", 6, 20, [⟨7, 15, 3⟩, ⟨18, 19, 4⟩], none, [⟨"0", 6, 20⟩], 1000⟩ ]

/-- the hypothesis `Stream` is satisfiable by a non-trivial chunking -/
example : Stream exampleRun := by decide

/-! ## 1. chunking independence

Full statement (DESIGN §6), for every window-local computation including group-forming ones
(one output row per group of input rows):

    theorem overlap_whole (f) (wl wr) (cs) : Stream cs → WindowLocalG f wl wr → 0 ≤ wl → 0 ≤ wr →
        ∃ outs, runOverlap f (wl, wr) cs = .ok outs ∧ allRows outs = f (allRows cs)

Proved below for per-row computations (`WindowLocal`), both halves: the plugin does not fail
(`overlap_total_partial`) and what it yields is the whole-run result (`overlap_whole_partial`).
Missing for the full statement: a definition of window-locality for group-forming computations
(groups can be arbitrarily long, so "depends only on rows within the window" has to be phrased on
group boundaries) and the corresponding induction; gap-grouping and id-parity pairing are covered
by the correspondence and the oracle of checks/props/c09.py only.

`Stream cs` (decidable): at least one chunk; every chunk an ordinary chunk of the same data type,
kind and run with `0 ≤ start ≤ end` and every row of positive duration inside it; consecutive
chunks adjacent; the rows of the whole run pairwise disjoint in order.  The proof uses the
disjointness only through "sorted by time". -/

/-- totality: on a law-abiding chunking of disjoint rows a window-local per-row plugin never raises -/
theorem overlap_total_partial (f : List Row → List Row) (wl wr : Int) (cs : List Chunk)
    (hs : Stream cs) (hf : WindowLocal f wl wr) (hwl : 0 ≤ wl) (hwr : 0 ≤ wr) :
    ∃ outs, runOverlap f (wl, wr) cs = .ok outs := by
  obtain ⟨g, hg, hfg⟩ := hf
  obtain ⟨outs, h, -⟩ := runOverlap_whole (g := g) hg hfg hwl hwr hs
  exact ⟨outs, h⟩

/-- partial correctness: whatever chunking the input came in, the concatenated output (final flush
included) is the output of one computation over the whole run: nothing lost, duplicated, reordered
or computed from incomplete neighbours -/
theorem overlap_whole_partial (f : List Row → List Row) (wl wr : Int) (cs outs : List Chunk)
    (hs : Stream cs) (hf : WindowLocal f wl wr)
    (h : runOverlap f (wl, wr) cs = .ok outs) : allRows outs = f (allRows cs) := by
  obtain ⟨g, hg, hfg⟩ := hf
  -- a negative window is rejected by the model, so success implies `0 ≤ wl, wr`
  have hw : 0 ≤ wl ∧ 0 ≤ wr := by
    unfold runOverlap at h
    split at h; · cases h
    split at h; · cases h
    split at h; · cases h
    rename_i c rest _ rid _ _ ds hds
    simp only [runDicts] at hds
    split at hds; · cases hds
    rename_i outs1 st1 hloop
    unfold iterLoop at hloop
    split at hloop; · cases hloop
    rename_i inp buf' _
    have hd := doCompute_spec1 f (wl, wr) rid c.kind none [] 0 inp
    have hd' : doCompute (spec1 f (wl, wr) rid) State.init [(c.kind, inp)] = _ := hd
    rw [hd'] at hloop
    split at hloop; · cases hloop
    rename_i out st2 hdc
    split at hdc; · cases hdc
    rename_i o cr ci hst
    obtain ⟨_, _, _, _, _, _, h1, h2, _⟩ := step1_inv hst
    exact ⟨h1, h2⟩
  obtain ⟨outs', h', hrows⟩ := runOverlap_whole (g := g) hg hfg hw.1 hw.2 hs
  rw [h] at h'
  simp only [Except.ok.injEq] at h'
  subst h'
  exact hrows

/-- the two halves together -/
theorem overlap_whole_total_partial (f : List Row → List Row) (wl wr : Int) (cs : List Chunk)
    (hs : Stream cs) (hf : WindowLocal f wl wr) (hwl : 0 ≤ wl) (hwr : 0 ≤ wr) :
    ∃ outs, runOverlap f (wl, wr) cs = .ok outs ∧ allRows outs = f (allRows cs) := by
  obtain ⟨outs, h⟩ := overlap_total_partial f wl wr cs hs hf hwl hwr
  exact ⟨outs, h, overlap_whole_partial f wl wr cs outs hs hf h⟩

example : Stream exampleRun ∧ WindowLocal (fCount 2 1) 2 1 ∧ (0:Int) ≤ 2 ∧ (0:Int) ≤ 1 :=
  ⟨by decide, count_windowLocal 2 1, by decide, by decide⟩

/-- on the example run the plugin yields chunks whose rows carry the whole-run neighbour counts
(row 1 sees rows 0, 1, 2 within the window (2, 1): id 1·1000 + 3) — the same the real plugin yields,
see the corpus of checks/props/c09.py -/
example : ∃ outs, runOverlap (fCount 2 1) (2, 1) exampleRun = .ok outs ∧
    ids (allRows outs) = [1, 1003, 2002, 3002, 4001] := by
  obtain ⟨outs, h, hr⟩ := overlap_whole_total_partial (fCount 2 1) 2 1 exampleRun (by decide)
    (count_windowLocal 2 1) (by decide) (by decide)
  exact ⟨outs, h, by rw [hr]; decide⟩

/-! ## 2. the key invariant of one call

`S2 ++ P` are the rows of the input cache (`S2`: results sent, ending by `sent_until = s`; `P`:
results pending, starting from `s` on), `X` the new chunk.  The call succeeds, sends the results
of `Qo` and withholds those of `Qc` (`P ++ X.rows = Qo ++ Qc`); every sent row starts at or after the
previous `sent_until` and ends by `invalid_beyond = X.stop − 2·wr − 1`, and is computed in a batch
that contains every row within its window: on the left the cache only ever dropped rows `D2`
ending by `sent_until − 2·wl − 1`, on the right unseen rows start at or after `X.stop`. -/
theorem step_invariant (g : Row → List Row → Row) (hg : ∀ r ctx, (g r ctx).time = r.time ∧ (g r ctx).endt = r.endt)
    (wl wr : Int) (hwl : 0 ≤ wl) (hwr : 0 ≤ wr) (rid : String) (o X : Chunk) (s : Int) (S2 P : List Row)
    (hX : X.good = true) (hXr : X.runId = some rid) (ho : o.good = true) (hod : o.dataType = X.dataType)
    (hor : o.runId = some rid) (hadj : o.stop = X.start) (hrows : o.rows = S2 ++ P) (hs1 : o.start ≤ s) (hs2 : s ≤ o.stop)
    (hS2 : ∀ r ∈ S2, r.endt ≤ s) (hP : ∀ r ∈ P, s ≤ r.time) :
    ∃ out cr ci Qo Qc D2 S2',
      step1 (perRow wl wr g) (wl, wr) rid (some o) s X = .ok (out, cr, ci) ∧
      P ++ X.rows = Qo ++ Qc ∧
      out.rows = Qo.map (fun r => g r ((S2 ++ P ++ X.rows).filter (near wl wr r))) ∧
      cr.rows = Qc.map (fun r => g r ((S2 ++ P ++ X.rows).filter (near wl wr r))) ∧
      (∀ r ∈ Qo, s ≤ r.time ∧ r.endt ≤ X.stop - 2 * wr - 1) ∧
      S2 ++ Qo = D2 ++ S2' ∧ ci.rows = S2' ++ Qc ∧
      (∀ n ∈ D2, n.endt ≤ cr.start - 2 * wl - 1) ∧ (∀ r ∈ S2', r.endt ≤ cr.start) ∧ (∀ r ∈ Qc, cr.start ≤ r.time) ∧
      s ≤ cr.start := by
  obtain ⟨out, cr, ci, Qo, Qc, D2, S2', h1, h2, h3, h4, h5, h6, -, -, -, -, -, -, h7, h8, h9, h10, h11, h12⟩ :=
    step1_good (g := g) hg (f := perRow wl wr g) (fun _ _ => rfl) hwl hwr (old := some o) (s := s) (S2 := S2) (P := P) hX hXr
      (Or.inr ⟨o, rfl, ho, hod, hor, hadj, hrows, hs1, hs2⟩) hS2 hP
  exact ⟨out, cr, ci, Qo, Qc, D2, S2', h1, h2, h3, h4,
    fun r hr => ⟨h6 r (by simp [hr]), h5 r hr⟩, h8, h9, h10, h11, h12, h7⟩

/-! ## 3. contiguity, for ALL inputs

Whatever the input chunks and the computation are (no law, no locality needed): if the plugin
yields `outs`, these tile the run — the first starts where the first input chunk starts, each
starts where its predecessor ended, the last (the final flush) ends where the last input chunk
ends; and there is exactly one output chunk per input chunk plus the final flush.  The only
hypothesis is that every input chunk has `start ≤ end`, which `Chunk.__init__` guarantees. -/
theorem overlap_contiguous (f : List Row → List Row) (w : Int × Int) (cs outs : List Chunk)
    (hr : ∀ c ∈ cs, c.start ≤ c.stop) (h : runOverlap f w cs = .ok outs) :
    ∃ c0 cl, cs.head? = some c0 ∧ cs.getLast? = some cl ∧ Tiles c0.start cl.stop outs ∧
      outs.length = cs.length + 1 :=
  runOverlap_tiles hr h

example : (∀ c ∈ exampleRun, c.start ≤ c.stop) ∧
    ∃ outs, runOverlap (fCount 2 1) (2, 1) exampleRun = .ok outs ∧ Tiles 0 20 outs ∧ outs.length = 5 := by
  refine ⟨by decide, ?_⟩
  obtain ⟨outs, h⟩ := overlap_total_partial (fCount 2 1) 2 1 exampleRun (by decide) (count_windowLocal 2 1)
    (by decide) (by decide)
  obtain ⟨c0, cl, h0, hl, ht, hlen⟩ := overlap_contiguous _ _ _ outs (by decide) h
  simp only [exampleRun, List.head?_cons, Option.some.injEq] at h0
  subst h0
  simp only [exampleRun, List.getLast?_cons_cons, List.getLast?_singleton, Option.some.injEq] at hl
  subst hl
  exact ⟨outs, h, ht, hlen⟩

/-! ## 4. multi-output plugins: mutually aligned outputs, for ALL inputs

Whatever the input chunks and the computations are: every result a multi-output plugin yields —
each regular one and the final flush — is a dict whose chunks share one `[start, end)`.  The
only hypothesis is that the provided data types are pairwise different (they are the keys of a
Python dict).  (The starts of the withheld chunks are equal because `do_compute` checks it after
`cache_beyond`; the theorem shows that this check, together with splitting every output at the
one agreed time, is enough for the sent chunks too, and that nothing stale survives in
`cached_results`.) -/
theorem multi_output_aligned (fs : List (String × String × (List Row → List Row))) (w : Int × Int)
    (cs : List Chunk) (ds : List (Dict Chunk)) (hnd : (fs.map (·.1)).Nodup)
    (h : runOverlapMulti fs w cs = .ok ds) :
    ∀ d ∈ ds, ∀ p ∈ d, ∀ q ∈ d, p.2.start = q.2.start ∧ p.2.stop = q.2.stop := by
  unfold runOverlapMulti at h
  split at h; · cases h
  split at h; · cases h
  rename_i rid _
  have hn : ((specN fs w rid).provides.map (·.1)) = fs.map (·.1) := by
    simp [specN, List.map_map, Function.comp_def]
  exact runDicts_multi (P := specN fs w rid) rfl (by rw [hn]; exact hnd) h

/-- two outputs (neighbour count per row, gap groups) are pairwise different data types -/
example : ((([("cnt", "k1", fCount 2 2), ("grp", "k2", fGap 2)] :
    List (String × String × (List Row → List Row))).map (·.1))).Nodup := by decide

/-! ## 5. where totality ends: the ten trials of `cache_beyond`

For a multi-output plugin the plugin-does-not-fail half needs one more hypothesis: the ten
passes of `cache_beyond` must suffice to find a common split time of all outputs.  They do not
when two outputs interlock like bricks over a long stretch (pairs (0,1),(2,3),… against
(1,2),(3,4),… over ≥ 24 touching rows): model and real plugin both answer `ValueError` (component
`iter/ten-trials` of checks/props/c09.py; open finding `C09-ten-trials`, same family as D9).
No theorem is claimed there. -/

/-! ## 6. the form the pipeline layer consumes (property C01)

`Strax.Pipeline.StreamSpec ov w` (Model/Pipeline.lean) is the layer theorem C01's `overlap_hom_partial`
takes as a hypothesis: for every stream `s` over `R` obeying the laws of chunking *in the pipeline's
sense* — `start ≤ stop`, rows of positive duration inside their chunk and sorted, consecutive chunks
adjacent; nothing is assumed about data types, run ids, subrun and superrun annotations, targets or the
sign of `start` — `ov s = ok out` implies that `out` obeys the laws, covers the same `R` and has
rows `w (rows s)`.  Proved here for every window-local per-row computation (partial correctness
for arbitrary annotations: Lemmas/OverlapPC.lean), and instantiated for the overlap-window kind of
C01's harness vocabulary. -/
theorem overlap_whole_for_pipeline (f : List Row → List Row) (wl wr : Int) (hf : WindowLocal f wl wr) :
    Pipeline.StreamSpec (runOverlap f (wl, wr)) f := by
  obtain ⟨g, hg, hfg⟩ := hf
  exact runOverlap_streamSpec (g := g) hg hfg

/-- the neighbour count of C01's vocabulary (`|x.time − r.time| ≤ w`) is window-local for the
symmetric window `w`: a row that close starts before `r.endt + w` and, being of positive duration,
ends after `r.time − w` -/
theorem vocab_overlap_windowLocal (w : Nat) :
    WindowLocal (fun x => x.map (Pipeline.Vocab.overlapId w x)) w w := by
  refine ⟨fun r ctx => Pipeline.Vocab.overlapId w ctx r, fun _ _ => ⟨rfl, rfl⟩, ?_⟩
  intro rows hpos
  apply List.map_congr_left
  intro r hr
  simp only [Pipeline.Vocab.overlapId, Pipeline.Vocab.nearCount, List.filter_filter]
  congr 4
  apply List.filter_congr
  intro x hx
  have hx' := hpos x hx
  have hr' := hpos r hr
  by_cases hc : (x.time - r.time).natAbs ≤ w
  · have : near (↑w) (↑w) r x = true := by
      simp only [near, Bool.and_eq_true, decide_eq_true_eq]
      omega
    simp [hc, this]
  · simp [hc]

/-- exactly the hypothesis `hov` of C01's `vocab_content_partial` / `kernelOf_hom_overlap`
(`Vocab.overlapWhole w` of Lemmas/PipelineVocab.lean is, by definition, the function written out here) -/
theorem overlap_vocab_for_pipeline (w : Nat) :
    Pipeline.StreamSpec (runOverlap (fun x => x.map (Pipeline.Vocab.overlapId w x)) ((w : Int), (w : Int)))
      (fun x => x.map (Pipeline.Vocab.overlapId w x)) :=
  overlap_whole_for_pipeline _ _ _ (vocab_overlap_windowLocal w)

end Strax.C09
