import StraxModel.Props.C06
import StraxModel.Lemmas.PostOfficeKill
import StraxModel.Model.KillExc
import StraxModel.Generated.MailboxKill
/-
  C06, round 5 (second Props file of the property; `Props/C06.lean` is unchanged).
  * PostOffice level: full-strength siblings of `spies_killed_on_failure_partial` / `original_exception_preserved_partial`
    — `original_exception_preserved_iff` (the hypothesis `AllSpiesHealthy` is exactly the region where the real handler
    keeps the exception), `original_exception_never_lost`, `spies_closed_or_handler_raised` (no hypothesis), and
    `caller_gets_injected_unless_reclosed` (several faults; excludes the D7 shape `NoSpyClosedYet` and nothing else).
  * `Mailbox.kill` / `Mailbox.kill_from_exception` regenerated from the source on every run
    (`Generated/MailboxKill.lean`): `generated_*` obligations against `MB.kill` (Model/Mailbox.lean), `AMB.kill`
    (Model/Net.lean) and the new `Net.killReason` / `Net.killFromException` (Model/KillExc.lean);
    `killIfExc_is_killFromException` ties the latter to `Net.step`.
  11 theorems, all full (no extra hypothesis beyond the antecedent of the statement); no witnesses.
-/
namespace Strax.C06
open Strax Strax.Mailbox

/-! ### round 5: the excluded region of the two `_partial` statements is EXACTLY the defect -/

/-- **Full-strength sibling of `original_exception_preserved_partial`** (no hypothesis, an equivalence): the handler
`except Exception: kill_spies(); raise` hands the caller the original exception unchanged IF AND ONLY IF every saver is
still open and able to close.  So `AllSpiesHealthy` excludes nothing but buses on which the real code does fail (D7: a
saver closed before; or a second fault: a `close` that raises). -/
theorem original_exception_preserved_iff (po : PostOffice.PO) (e : PostOffice.Exc) :
    (po.epilogue e).2 = .raised e none ↔ AllSpiesHealthy po := by
  rw [PostOffice.epilogue_snd]
  constructor
  · intro h
    cases hk : (PostOffice.killTopics po.topics).2 with
    | some e' => rw [hk] at h; simp at h
    | none =>
      intro s hs
      simp only [PostOffice.PO.allSpies, List.mem_flatMap] at hs
      obtain ⟨t, ht, hst⟩ := hs
      exact PostOffice.killTopics_none_healthy hk t ht s hst
  · intro hh
    have hk : (PostOffice.killTopics po.topics).2 = none := PostOffice.killTopics_ok (fun t ht s hs =>
      hh s (by simp only [PostOffice.PO.allSpies, List.mem_flatMap]; exact ⟨t, ht, hs⟩))
    rw [hk]

/-- **The original exception is never lost, and what can replace it is classified** — every bus, every exception, no
hypothesis: the caller gets the original `e`; or `RuntimeError(already closed)` with `e` as `__context__`, and then some
saver WAS closed before the failure (the D7 shape, nothing else produces it); or the injected exception of an open saver
whose `close` fails, again with `e` as `__context__` (a second fault: "an injected exception", as at the net level). -/
theorem original_exception_never_lost (po : PostOffice.PO) (e : PostOffice.Exc) :
    (po.epilogue e).2 = .raised e none ∨
    ((po.epilogue e).2 = .raised .alreadyClosed (some e) ∧ ∃ s ∈ po.allSpies, s.closed = true) ∨
    (∃ s ∈ po.allSpies, s.closed = false ∧ s.failClose = true ∧ (po.epilogue e).2 = .raised (.inj s.exc) (some e)) := by
  rw [PostOffice.epilogue_snd]
  cases hk : (PostOffice.killTopics po.topics).2 with
  | none => exact Or.inl rfl
  | some e' =>
    rcases PostOffice.killTopics_some hk with ⟨he, t, ht, s, hs, hc⟩ | ⟨t, ht, s, hs, h1, h2, h3⟩
    · subst he
      exact Or.inr (Or.inl ⟨rfl, s, by simp only [PostOffice.PO.allSpies, List.mem_flatMap]; exact ⟨t, ht, hs⟩, hc⟩)
    · subst h3
      exact Or.inr (Or.inr ⟨s, by simp only [PostOffice.PO.allSpies, List.mem_flatMap]; exact ⟨t, ht, hs⟩, h1, h2, rfl⟩)

/-- every saver still open (a `close` may fail): the hypothesis that excludes D7 and nothing else -/
def NoSpyClosedYet (po : PostOffice.PO) : Prop := ∀ s ∈ po.allSpies, s.closed = false

instance (po : PostOffice.PO) : Decidable (NoSpyClosedYet po) := by unfold NoSpyClosedYet; infer_instance

/-- **several faults, D7 shape excluded only**: if no saver was closed before the failure — failing `close()`s allowed, any
number of them — the caller gets an INJECTED exception: the original one, or that of a saver failing in `close` with the
original as `__context__`; never `RuntimeError(already closed)` or anything made up.  `NoSpyClosedYet` is as small as the
defect: by `original_exception_never_lost` `alreadyClosed` occurs only when it is violated, and
`original_exception_masked_counterexample` shows it does occur then. -/
theorem caller_gets_injected_unless_reclosed (po : PostOffice.PO) (e : PostOffice.Exc) (hopen : NoSpyClosedYet po) :
    (po.epilogue e).2 = .raised e none ∨
    ∃ s ∈ po.allSpies, s.failClose = true ∧ (po.epilogue e).2 = .raised (.inj s.exc) (some e) := by
  rcases original_exception_never_lost po e with h | ⟨_, s, hs, hc⟩ | ⟨s, hs, _, h2, h3⟩
  · exact Or.inl h
  · rw [hopen s hs] at hc; cases hc
  · exact Or.inr ⟨s, hs, h2, h3⟩

/-- **Full-strength sibling of `spies_killed_on_failure_partial`** (no hypothesis): after the handler every saver is
closed, OR the handler itself raised — and then for one of the two classified reasons.  A saver is left open only in
those cases (`spies_left_open_counterexample` is the first). -/
theorem spies_closed_or_handler_raised (po : PostOffice.PO) (e : PostOffice.Exc) :
    (∀ s ∈ (po.epilogue e).1.allSpies, s.closed = true) ∨
    ((po.epilogue e).2 = .raised .alreadyClosed (some e) ∧ ∃ s ∈ po.allSpies, s.closed = true) ∨
    (∃ s ∈ po.allSpies, s.closed = false ∧ s.failClose = true ∧ (po.epilogue e).2 = .raised (.inj s.exc) (some e)) := by
  rcases original_exception_never_lost po e with h | h | h
  · refine Or.inl (spies_killed_on_failure_partial po _ e ?_)
    cases hep : po.epilogue e with
    | mk p o => rw [hep] at h; simp only at h; subst h; rfl
  · exact Or.inr (Or.inl h)
  · exact Or.inr (Or.inr h)

/-- non-vacuity: the D7 bus at the moment of the failure violates `NoSpyClosedYet` (the saver of topic 0 is closed) … -/
example : ¬ NoSpyClosedYet (PostOffice.readNext 50 (PostOffice.readNext 50 d7Bus' 1).1 1).1 := by decide

/-- … `okBus` at its failure satisfies it, and so does a bus whose only defect is a saver failing in `close`: there the
second disjunct of `caller_gets_injected_unless_reclosed` is the one that happens (exception 9 over the original 5) -/
def failCloseBus : PostOffice.PO := mkBus [
  fun po => po.registerProducer [.yield, .raise 5] [0] [],
  fun po => .ok (po.registerSpy 0 { failClose := true, exc := 9 }),
  fun po => .ok (po.getIter 0 99)]

example : NoSpyClosedYet (PostOffice.readNext 50 okBus 1).1 := by decide
example : NoSpyClosedYet failCloseBus ∧ ¬ AllSpiesHealthy failCloseBus ∧
    (failCloseBus.epilogue (.inj 5)).2 = .raised (.inj 9) (some (.inj 5)) := by decide

/-! ## round 5: `Mailbox.kill` / `kill_from_exception` regenerated from the SOURCE (Generated/MailboxKill.lean)

`checks/props/c06.py:regen` re-translates the Python AST of `/repo/strax/mailbox.py` on every run; the theorems below are
proof obligations about that text, so a change of the kill bookkeeping (a dropped `notify_all`, the early return moved, the
reason overwritten, a default flipped, `MailboxKilled` re-raised) breaks the build of this file. -/

section generated
open Strax.Generated.MailboxKill

/-- the kill-related attributes of a model mailbox -/
def stOf (mb : MB) : St Unit := { forceKilled := mb.forceKilled, killed := mb.killed, killedBecause := none }

/-- write the attributes back and deliver the recorded `notify_all()` calls in order -/
def applySt (mb : MB) (st : St Unit) : MB :=
  st.notified.foldl (fun m c => match c with
    | .read => m.notifyRead
    | .write => m.notifyWrite
    | .fetchNew => m.notifyFetch) { mb with forceKilled := st.forceKilled, killed := st.killed }

/-- **generated = model (flags and wake-ups)**: the translated source of `Mailbox.kill` acts on a model mailbox exactly
as `MB.kill` — the function all mailbox-level theorems above (`kill_wakes_all`, …) are about -/
theorem generated_kill_eq_model (mb : MB) (up : Bool) (r : Option Unit) :
    applySt mb (kill (stOf mb) up r) = mb.kill up := by
  obtain ⟨cap, lz, gr, heap, subs, nSent, closed, killed, fk, wf, ff⟩ := mb
  cases up <;> cases killed <;>
    simp [kill, stOf, applySt, MB.kill, MB.notifyRead, MB.notifyWrite, MB.notifyFetch]

/-- **generated = model (reason)**: `killed_because` after the translated `kill` is `Net.killReason` — the first reason wins -/
theorem generated_kill_reason_eq_model {R : Type} (st : St R) (up : Bool) (r : Option R) :
    (kill st up r).killedBecause = Net.killReason st.killed st.killedBecause r ∧ (kill st up r).killed = true ∧
    (kill st up r).forceKilled = (up || st.forceKilled) := by
  cases up <;> cases hk : st.killed <;> simp [kill, Net.killReason, hk]

/-- … and that is the abstract mailbox of the net model: `AMB.kill` (every kill inside a pipeline is `upstream=True`) -/
theorem generated_kill_eq_net_model (a : Net.AMB) (e : Net.Exc) :
    (kill { forceKilled := a.killed, killed := a.killed, killedBecause := a.reason } true (some e)).killed = (a.kill e).killed ∧
    (kill { forceKilled := a.killed, killed := a.killed, killedBecause := a.reason } true (some e)).killedBecause = (a.kill e).reason ∧
    (kill { forceKilled := a.killed, killed := a.killed, killedBecause := a.reason } true (some e)).forceKilled = (a.kill e).killed := by
  cases hk : a.killed <;> simp [kill, Net.AMB.kill, hk]

/-- the property on the generated function itself: the FIRST kill notifies all three conditions, in this order -/
theorem generated_kill_wakes_all {R : Type} (st : St R) (up : Bool) (r : Option R) (h : st.killed = false) :
    (kill st up r).notified = st.notified ++ [.read, .write, .fetchNew] := by
  cases up <;> simp [kill, h]

/-- a thread of the net holding `(own, e)` is handling `MailboxKilled(e)` (`own = false`) or its own exception -/
def caughtOf (own : Bool) (e : Net.Exc) : Caught Net.Exc := if own then .other e else .mailboxKilled e

/-- **generated = model (`kill_from_exception`)**: always an upstream kill with reason `e` (the payload of
`MailboxKilled`, or the triple of the thread's own exception), re-raised only if it is the thread's own and `reraise` —
`Net.killFromException`, i.e. what the epilogue instruction `killIfExc` of `Net.step` does to the mailbox -/
theorem generated_killFromException_eq_model (a : Net.AMB) (own : Bool) (e : Net.Exc) (rr : Bool) :
    (killFromException { forceKilled := a.killed, killed := a.killed, killedBecause := a.reason } (caughtOf own e) rr).1.killed
      = (Net.killFromException a own e rr).1.killed ∧
    (killFromException { forceKilled := a.killed, killed := a.killed, killedBecause := a.reason } (caughtOf own e) rr).1.killedBecause
      = (Net.killFromException a own e rr).1.reason ∧
    (killFromException { forceKilled := a.killed, killed := a.killed, killedBecause := a.reason } (caughtOf own e) rr).1.forceKilled = true ∧
    (killFromException { forceKilled := a.killed, killed := a.killed, killedBecause := a.reason } (caughtOf own e) rr).2
      = (Net.killFromException a own e rr).2 := by
  cases own <;> cases rr <;> cases hk : a.killed <;>
    simp [killFromException, caughtOf, kill, Net.killFromException, Net.AMB.kill, hk]

/-- the keyword defaults (`kill(upstream=True)`, `kill_from_exception(reraise=True)`) -/
theorem generated_kill_defaults : upstreamDefault = Net.killUpstreamDefault ∧ reraiseDefault = Net.killReraiseDefault := by
  decide

/-- `Net.step` on `killIfExc m` changes mailbox `m` exactly as `Net.killFromException` (ties the new model part to the net) -/
theorem killIfExc_is_killFromException (net : Net.Net) (s s' : Net.NState) (t m : Nat) (ts : Net.TSt) (rest : List Net.Instr)
    (own : Bool) (e : Net.Exc) (a : Net.AMB) (hts : s.thr[t]? = some ts) (hp : ts.prog = .killIfExc m :: rest)
    (hexc : ts.exc = some (own, e)) (ha : s.mbs[m]? = some a) (hs : Net.step net s t = some s') :
    s'.mbs[m]? = some (Net.killFromException a own e true).1 := by
  simp only [Net.step, hts, hp, hexc] at hs
  simp only [Option.some.injEq] at hs
  subst hs
  obtain ⟨hm, hget⟩ := List.getElem?_eq_some_iff.mp ha
  simp [Net.NState.setThr, Net.NState.modMB, Net.killFromException, hm, hget]

/-- non-vacuity: a first upstream kill with a reason, a second kill (NOP for reason and wake-ups), and the two
`kill_from_exception` shapes -/
example : kill ({ forceKilled := false, killed := false, killedBecause := none } : St Nat) true (some 7) =
    { forceKilled := true, killed := true, killedBecause := some 7, notified := [.read, .write, .fetchNew] } := by decide
example : kill ({ forceKilled := false, killed := true, killedBecause := some 3 } : St Nat) true (some 7) =
    { forceKilled := true, killed := true, killedBecause := some 3, notified := [] } := by decide
example : (killFromException ({ forceKilled := false, killed := false, killedBecause := none } : St Nat) (.mailboxKilled 4) true).2 = false ∧
    (killFromException ({ forceKilled := false, killed := false, killedBecause := none } : St Nat) (.other 4) true).2 = true := by decide

end generated


end Strax.C06
