import StraxModel.Lemmas.MailboxAbs
import StraxModel.Lemmas.Mailbox
/-
  C13 — translator obligations for the two back-pressure predicates of strax/mailbox.py.
  `Generated/MailboxGates.lean` is re-generated on every run from the Python AST of the CURRENT source
  (checks/lib/mailbox_translate.py, called by checks/props/c13.py:regen):
    * `can_write()` inside `Mailbox.send`  — the capacity gate: a sender proceeds iff it holds;
    * `Mailbox._can_fetch()`               — the lazy gate: `_send_from` / `divide_outputs` advance the source iff it holds.
  The theorems say that the predicates the mailbox model decides with (`MB.canWrite`, `MB.canFetch` of Model/Mailbox.lean,
  used by `sendCore`, `gateStep`, `notifyFetchIfCan`, and through them by the chain model Model/Backpressure.lean and the
  nets of Model/Net.lean) ARE the predicates of the source, for every model mailbox.  A changed comparison (`<` -> `<=` in
  `can_write`), a dropped clause of `_can_fetch` (the stale-waiter test, `can_drive and`, `waiting_for is not None`, the
  `killed` escape) or the old stale-waiter rule (defect D6) changes the generated definition and breaks a proof here;
  `capacity_inv`, `lazy_gate`, the `chain_*` and `dag_*` theorems are then no longer statements about the code, and the
  check goes on to search the real pipeline for a failing schedule.
  Full strength: every `mb`.  `hr : mb.gateRule = .hasMsg` is not a restriction of the quantifier: the model carries both
  rules, and `hasMsg` is the one every C13 theorem about the current code (`lazy_gate`, `dag_lazy_gate`, …) assumes.
-/
namespace Strax.C13
open Strax Strax.Mailbox Strax.MailboxAbs
open Strax.Generated.MailboxGates

/-- `can_write()` as the source has it = `MB.canWrite` (`len(heap) < max_messages or killed`; `max_messages = inf`
for a stand-alone lazy mailbox is `cap = none`) -/
theorem generated_canWrite_eq_model (mb : MB) : canWrite (absSt mb) = mb.canWrite := by
  unfold canWrite MB.canWrite
  cases hc : mb.cap <;> simp [absSt, ltInf, hc]

/-- … restated on the step function: a `send` that enters its critical section on an open, un-killed mailbox with a
valid number pushes its message iff the generated `can_write` holds, and otherwise starts waiting -/
theorem sendCore_pushes_iff_canWrite (mb : MB) (n : Nat) (m : Msg) (hw : mb.writeFlag = none) (hc : mb.closed = false)
    (hf : mb.forceKilled = false) (hk : mb.killed = false) (hn : ¬ n < minNext mb.subs) :
    mb.sendCore n m = some (if canWrite (absSt mb) then (.sent n, mb.push n m)
                            else (.waiting n, { mb with writeFlag := some false })) := by
  rw [generated_canWrite_eq_model]
  simp only [MB.sendCore, hw, hc, hf, hk, hn]
  cases mb.canWrite <;> simp

/-- **`_can_fetch()` as the source has it = `MB.canFetch`** under the gate rule in force (`hasMsg`, the code since
fb45a02).  With the rule as found (`x <= lowest`, defect D6) the source would generate a different definition and this
proof would not go through (`lazy_gate_old_counterexample` is the schedule that tells the two apart). -/
theorem generated_canFetch_eq_model (mb : MB) (hr : mb.gateRule = .hasMsg) : canFetch (absSt mb) = mb.canFetch := by
  unfold canFetch MB.canFetch
  cases hk : mb.killed with
  | true => simp [absSt, hk]
  | false =>
    have h1 : ((absSt mb).waitingFor.any fun x => x.isSome && hasMsg (absSt mb) x) = mb.staleWaiter := by
      simp only [MB.staleWaiter, hr]
      show ((mb.subs.map (·.waitingFor)).any fun x => x.isSome && hasMsg (absSt mb) x) = _
      rw [List.any_map]
      congr 1
      funext sub
      exact stale_elt mb hk sub.waitingFor
    have h2 : ((List.zip (absSt mb).canDrive (absSt mb).waitingFor).any
        fun (x : Bool × Option Nat) => x.1 && x.2.isSome) = mb.driverWaits := by
      show ((List.zip (mb.subs.map (·.canDrive)) (mb.subs.map (·.waitingFor))).any _) = _
      rw [any_zip_map]
      rfl
    have hk' : (absSt mb).killed = false := hk
    simp only [hk', Bool.false_eq_true, if_false]
    rw [h1]
    cases hs : mb.staleWaiter with
    | true => simp
    | false =>
      simp only [Bool.false_eq_true, if_false]
      rw [← h2]
      cases ((List.zip (absSt mb).canDrive (absSt mb).waitingFor).any
        fun (x : Bool × Option Nat) => x.1 && x.2.isSome) <;> simp

/-- the `assert self.lazy` at the head of `_can_fetch` holds wherever the model evaluates the gate for a decision
(`gateStep` is only taken by a lazy sender, `notifyFetchIfCan` tests `mb.lazy` first) -/
theorem generated_canFetch_assert (mb : MB) : canFetchAsserts (absSt mb) = mb.lazy := rfl

/-- … restated on the step function: the fetch gate lets the sender through iff the generated `_can_fetch` holds -/
theorem gateStep_passes_iff_canFetch (mb mb' : MB) (hr : mb.gateRule = .hasMsg) (ok : Bool)
    (h : mb.gateStep = some (ok, mb')) : ok = canFetch (absSt mb) := by
  rw [generated_canFetch_eq_model mb hr]
  simp only [MB.gateStep] at h
  split at h
  · simp at h
  · split at h <;> (simp only [Option.some.injEq, Prod.mk.injEq] at h; simp_all)

/-- **the property's gate condition holds of the GENERATED predicate directly**: whenever `_can_fetch()` as the source has
it today answers `True` on a mailbox that is not killed, some DRIVING subscriber waits for a message number that is not
in the buffer (`GateOk`, the conclusion of `lazy_gate`).  `killed = false` is necessary (`_can_fetch` is `True` on a killed
mailbox so that the sender runs into `send` and finds out). -/
theorem generated_canFetch_gateOk (mb : MB) (hr : mb.gateRule = .hasMsg) (hk : mb.killed = false)
    (hc : canFetch (absSt mb) = true) : GateOk mb :=
  canFetch_gateOk (by rw [← generated_canFetch_eq_model mb hr]; exact hc) hk hr

/-- **the capacity gate holds of the GENERATED predicate directly**: whenever `can_write()` as the source has it today
holds on a mailbox of capacity `k` that is not killed, there is room for one more message (so the push that follows
keeps `len(_mailbox) ≤ max_messages`: the step case of `capacity_inv`). -/
theorem generated_canWrite_room (mb : MB) (k : Nat) (hcap : mb.cap = some k) (hk : mb.killed = false)
    (hc : canWrite (absSt mb) = true) : mb.heap.length + 1 ≤ k := by
  rw [generated_canWrite_eq_model] at hc
  simp only [MB.canWrite, hcap, hk, Bool.or_false, decide_eq_true_eq] at hc
  omega

/-! ### non-vacuity -/

/-- lazy, capacity 2, a driver waiting for the missing message 1 and a non-driving saver that lags behind -/
def gateDemo : MB :=
  { cap := some 2, lazy := true, gateRule := .hasMsg, heap := [(0, .plain 5)],
    subs := [⟨1, some 1, true, some false⟩, ⟨0, none, false, none⟩], nSent := 1, closed := false, killed := false,
    forceKilled := false, writeFlag := none, fetchFlag := none }

/-- both generated gates are open here, the capacity gate closes with one more message, the lazy gate closes when the
awaited message is already buffered (the D6 situation: driver waits for 1, heap `{0, 1}`) or when only the saver waits -/
example : gateDemo.gateRule = .hasMsg ∧ canFetch (absSt gateDemo) = true ∧ canWrite (absSt gateDemo) = true ∧
    canWrite (absSt { gateDemo with heap := [(0, .plain 5), (1, .plain 6)] }) = false ∧
    canFetch (absSt { gateDemo with heap := [(0, .plain 5), (1, .plain 6)] }) = false ∧
    canFetch (absSt { gateDemo with subs := [⟨1, none, true, none⟩, ⟨0, some 3, false, some false⟩] }) = false ∧
    gateDemo.killed = false ∧ gateDemo.cap = some 2 := by decide

end Strax.C13
